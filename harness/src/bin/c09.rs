//! C09 — NSEC3 denial of existence.  Drives the real `verify_nsec3` (through the
//! cfg(hickory_dns_verif) hook) on NSEC3 sets taken from the genuine hash chain of a generated
//! zone (hashes computed with hickory's own `Nsec3HashAlgorithm::hash`, i.e. real SHA-1), on
//! damaged variants of them, and on boundary configurations of the iteration limits.
//! Observation = the `Proof` returned (or a panic).  The direct oracle evaluates the response's
//! claim semantically on the generating zone, independently of the Coq model:
//! `Secure` while the claim is false in the zone the NSEC3s genuinely come from = unsound;
//! not `Secure` for the RFC 5155 7.2 proof of a true claim = incomplete; plus the
//! iteration-limit and parameter/zone rules.
//!
//! Names are lists of labels, leftmost label first (the form of the Coq model).

use hickory_net::dnssec::verif_hooks::verify_nsec3;
use hickory_net::proto::dnssec::rdata::{DNSSECRData, SigInput, NSEC3, RRSIG};
use hickory_net::proto::dnssec::{Algorithm, Nsec3HashAlgorithm, Proof};
use hickory_net::proto::op::{Query, ResponseCode};
use hickory_net::proto::rr::{rdata, Name, RData, Record, RecordType, SerialNumber};
use futures_util::StreamExt;
use hickory_net::proto::dnssec::crypto::Ed25519SigningKey;
use hickory_net::proto::dnssec::rdata::{DNSKEY, DS};
use hickory_net::proto::dnssec::{DigestType, DnssecSigner, SigningKey};
use hickory_net::proto::op::{Message, SerialMessage};
use hickory_net::proto::rr::LowerName;
use hickory_net::xfer::Protocol;
use hickory_net::BufDnsStreamHandle;
use hickory_server::dnssec::NxProofKind;
use hickory_server::server::VerifContext;
use hickory_server::store::in_memory::InMemoryZoneHandler;
use hickory_server::zone_handler::{AxfrPolicy, Catalog, ZoneHandler, ZoneType};
use std::collections::{BTreeMap, BTreeSet};
use std::net::{IpAddr, Ipv4Addr, SocketAddr};
use std::sync::Arc;
use vph::*;

type Lbl = Vec<u8>;
type Nm = Vec<Lbl>; // leftmost label first; always fully qualified

const T_A: u16 = 1;
const T_NS: u16 = 2;
const T_CNAME: u16 = 5;
const T_SOA: u16 = 6;
const T_MX: u16 = 15;
const T_TXT: u16 = 16;
const T_AAAA: u16 = 28;
const T_DNAME: u16 = 39;
const T_DS: u16 = 43;
const T_RRSIG: u16 = 46;
const T_DNSKEY: u16 = 48;
const T_NSEC3PARAM: u16 = 51;

// ---------------------------------------------------------------- names

fn lower(n: &Nm) -> Nm {
    n.iter().map(|l| l.to_ascii_lowercase()).collect()
}
fn is_suffix(s: &Nm, n: &Nm) -> bool {
    s.len() <= n.len() && n[n.len() - s.len()..] == s[..]
}
fn strict_suffix(s: &Nm, n: &Nm) -> bool {
    s.len() < n.len() && is_suffix(s, n)
}
fn parent(n: &Nm) -> Nm {
    n[1.min(n.len())..].to_vec()
}
fn with(l: &[u8], n: &Nm) -> Nm {
    let mut v = vec![l.to_vec()];
    v.extend(n.iter().cloned());
    v
}
fn star(n: &Nm) -> Nm {
    with(b"*", n)
}
fn last_labels(n: &Nm, k: usize) -> Nm {
    n[n.len() - k.min(n.len())..].to_vec()
}
/// label count not counting a leftmost "*"
fn nlabels(n: &Nm) -> usize {
    if n.first().map(|l| l.as_slice() == b"*").unwrap_or(false) {
        n.len() - 1
    } else {
        n.len()
    }
}
fn enc_len(n: &Nm) -> usize {
    1 + n.iter().map(|l| l.len() + 1).sum::<usize>()
}
fn show_label(l: &Lbl) -> String {
    let mut s = String::new();
    for &b in l {
        if b.is_ascii_graphic() && b != b'.' && b != b'\\' {
            s.push(b as char);
        } else {
            s.push_str(&format!("\\{:03}", b));
        }
    }
    s
}
fn show_name(n: &Nm) -> String {
    if n.is_empty() {
        return ".".into();
    }
    let mut s = String::new();
    for l in n {
        s.push_str(&show_label(l));
        s.push('.');
    }
    s
}
fn to_name(n: &Nm) -> Name {
    Name::from_labels(n.iter().map(|l| l.as_slice())).expect("valid name")
}
/// `pbytes` term with a monomorphic spine (C09/Check.v `PBm`), cheaper for Coq to elaborate
fn coq_pbm(b: &[u8]) -> String {
    let mut t = String::from("IN");
    let ws: Vec<u64> = b
        .chunks(7)
        .map(|c| {
            let mut w = 0u64;
            for (j, x) in c.iter().enumerate() {
                w |= (*x as u64) << (8 * j);
            }
            w
        })
        .collect();
    for w in ws.iter().rev() {
        t = format!("(IC {} {})", w, t);
    }
    format!("(PBm {} {})", b.len(), t)
}
fn coq_name(n: &Nm) -> String {
    // wire form without the terminating zero
    let mut w = vec![];
    for l in n {
        w.push(l.len() as u8);
        w.extend_from_slice(l);
    }
    coq_pbm(&w)
}

// ---------------------------------------------------------------- hashing / base32hex

fn h(salt: &[u8], iter: u16, n: &Nm) -> Vec<u8> {
    Nsec3HashAlgorithm::SHA1.hash(salt, &to_name(n), iter).expect("hash").as_ref().to_vec()
}

/// independent base32hex (RFC 4648 7), lower case, no padding
fn b32(b: &[u8]) -> Vec<u8> {
    const AL: &[u8; 32] = b"0123456789abcdefghijklmnopqrstuv";
    let mut out = vec![];
    let mut acc: u32 = 0;
    let mut nb = 0;
    for &x in b {
        acc = (acc << 8) | x as u32;
        nb += 8;
        while nb >= 5 {
            out.push(AL[((acc >> (nb - 5)) & 31) as usize]);
            nb -= 5;
        }
    }
    if nb > 0 {
        out.push(AL[((acc << (5 - nb)) & 31) as usize]);
    }
    out
}

// ---------------------------------------------------------------- zones (the semantic side)

#[derive(Clone)]
struct Zone {
    apex: Nm,
    /// every owner name with data in the zone file (lower case), incl. glue below cuts
    rrs: BTreeMap<Nm, BTreeSet<u16>>,
    salt: Vec<u8>,
    iter: u16,
    optout: bool,
}

#[derive(Clone, Debug, PartialEq)]
struct Rec {
    owner: Nm,
    optout: bool,
    iter: u16,
    salt: Vec<u8>,
    next: Vec<u8>,
    types: Vec<u16>,
}

impl Zone {
    fn types(&self, n: &Nm) -> Option<&BTreeSet<u16>> {
        self.rrs.get(n)
    }
    fn is_cut(&self, n: &Nm) -> bool {
        n != &self.apex && is_suffix(&self.apex, n) && self.types(n).map(|t| t.contains(&T_NS)).unwrap_or(false)
    }
    /// the topmost delegation point at or above n, if any
    fn cut_of(&self, n: &Nm) -> Option<Nm> {
        (0..=n.len()).map(|k| last_labels(n, k)).find(|s| self.is_cut(s))
    }
    /// a DNAME owner strictly above n
    fn dname_above(&self, n: &Nm) -> bool {
        (0..n.len()).map(|k| last_labels(n, k)).any(|s| {
            is_suffix(&self.apex, &s) && self.types(&s).map(|t| t.contains(&T_DNAME)).unwrap_or(false)
        })
    }
    /// names with authoritative data or delegation points (not occluded)
    fn auth_names(&self) -> Vec<Nm> {
        self.rrs
            .keys()
            .filter(|n| is_suffix(&self.apex, n))
            .filter(|n| match self.cut_of(n) {
                Some(c) => &&c == n,
                None => true,
            })
            .cloned()
            .collect()
    }
    /// existence in the zone, empty non-terminals included
    fn exists(&self, n: &Nm) -> bool {
        self.auth_names().iter().any(|o| is_suffix(n, o)) && is_suffix(&self.apex, n)
    }
    /// closest encloser: longest existing suffix of n
    fn ce(&self, n: &Nm) -> Option<Nm> {
        (0..=n.len()).rev().map(|k| last_labels(n, k)).find(|s| self.exists(s))
    }
    /// the genuine NSEC3 chain (RFC 5155 7.1), sorted by hash
    fn chain(&self) -> Vec<(Nm, Rec)> {
        self.chain_opt(false)
    }
    /// `skip_star_ent`: leave out `*.<apex>` when it is only an empty non-terminal (what the
    /// server's closure loop does, known finding C09-server-chain-star-ent)
    fn chain_opt(&self, skip_star_ent: bool) -> Vec<(Nm, Rec)> {
        let mut names: BTreeMap<Nm, Vec<u16>> = BTreeMap::new();
        for n in self.auth_names() {
            let t = self.types(&n).unwrap();
            let insecure_deleg = self.is_cut(&n) && !t.contains(&T_DS);
            if self.optout && insecure_deleg {
                continue;
            }
            let mut ts: Vec<u16> = t.iter().copied().collect();
            if n == self.apex {
                ts.push(T_DNSKEY);
                ts.push(T_NSEC3PARAM);
            }
            if !insecure_deleg {
                ts.push(T_RRSIG);
            }
            ts.sort();
            names.insert(n, ts);
        }
        // empty non-terminals
        for n in names.keys().cloned().collect::<Vec<_>>() {
            let mut p = parent(&n);
            while p.len() > self.apex.len() {
                if skip_star_ent && p == star(&self.apex) {
                    break;
                }
                names.entry(p.clone()).or_default();
                p = parent(&p);
            }
        }
        let mut hs: Vec<(Vec<u8>, Nm, Vec<u16>)> =
            names.into_iter().map(|(n, t)| (h(&self.salt, self.iter, &n), n, t)).collect();
        hs.sort();
        let k = hs.len();
        (0..k)
            .map(|i| {
                let (hh, n, t) = &hs[i];
                (
                    n.clone(),
                    Rec {
                        owner: with(&b32(hh), &self.apex),
                        optout: self.optout,
                        iter: self.iter,
                        salt: self.salt.clone(),
                        next: hs[(i + 1) % k].0.clone(),
                        types: t.clone(),
                    },
                )
            })
            .collect()
    }
}

// ---------------------------------------------------------------- one probe of the implementation

#[derive(Clone)]
struct Input {
    q: Nm,
    qt: u16,
    soa: Option<Nm>,
    rcode: u16,
    /// Some(labels) = an RRSIG with that label count, None = another record
    answers: Vec<Option<u8>>,
    recs: Vec<Rec>,
    soft: u16,
    hard: u16,
}

/// 0 Secure, 1 Insecure, 2 Bogus, 3 panic, 4 Indeterminate
fn run_impl(i: &Input) -> u8 {
    let query = Query::new(to_name(&i.q), RecordType::from(i.qt));
    let soa = i.soa.as_ref().map(to_name);
    let rcode = match i.rcode {
        0 => ResponseCode::NoError,
        3 => ResponseCode::NXDomain,
        2 => ResponseCode::ServFail,
        5 => ResponseCode::Refused,
        _ => ResponseCode::FormErr,
    };
    let answers: Vec<Record> = i
        .answers
        .iter()
        .map(|a| match a {
            Some(l) => {
                let input = SigInput {
                    type_covered: RecordType::from(i.qt),
                    algorithm: Algorithm::ED25519,
                    num_labels: *l,
                    original_ttl: 0,
                    sig_expiration: SerialNumber::new(0),
                    sig_inception: SerialNumber::new(0),
                    key_tag: 0,
                    signer_name: Name::root(),
                };
                Record::from_rdata(to_name(&i.q), 3600, RData::DNSSEC(DNSSECRData::RRSIG(RRSIG::from_sig(input, vec![]))))
            }
            None => Record::from_rdata(to_name(&i.q), 3600, RData::A(rdata::A::new(192, 0, 2, 1))),
        })
        .collect();
    let owned: Vec<(Name, NSEC3)> = i
        .recs
        .iter()
        .map(|r| {
            (
                to_name(&r.owner),
                NSEC3::new(
                    Nsec3HashAlgorithm::SHA1,
                    r.optout,
                    r.iter,
                    r.salt.clone(),
                    r.next.clone(),
                    r.types.iter().map(|t| RecordType::from(*t)),
                ),
            )
        })
        .collect();
    let refs: Vec<(&Name, &NSEC3)> = owned.iter().map(|(n, r)| (n, r)).collect();
    let res = guard(std::panic::AssertUnwindSafe(|| {
        verify_nsec3(&query, soa.as_ref(), rcode, &answers, &refs, i.soft, i.hard)
    }));
    match res {
        Ok(Proof::Secure) => 0,
        Ok(Proof::Insecure) => 1,
        Ok(Proof::Bogus) => 2,
        Ok(Proof::Indeterminate) => 4,
        Err(_) => 3,
    }
}

/// the finite hash table shipped to the model: (code, name, digest) for every suffix of the
/// query name (code 2k) and for the wildcard child (code 2k+1) of every suffix that some record
/// matches — all the implementation can hash
fn table(i: &Input) -> Vec<(u32, Nm, Vec<u8>)> {
    let mut t = vec![];
    let Some(first) = i.recs.first() else { return t };
    if first.iter > i.hard || first.iter > i.soft {
        return t; // the implementation never hashes in that case
    }
    let q = lower(&i.q);
    for k in 0..=q.len() {
        let s = q[k..].to_vec();
        let hs = h(&first.salt, first.iter, &s);
        let l = b32(&hs);
        t.push((2 * k as u32, s.clone(), hs));
        if enc_len(&s) + 2 <= 255 && i.recs.iter().any(|r| !r.owner.is_empty() && r.owner[0].eq_ignore_ascii_case(&l)) {
            let w = star(&s);
            t.push((2 * k as u32 + 1, w.clone(), h(&first.salt, first.iter, &w)));
        }
    }
    t
}

fn coq_case(i: &Input, obs: u8) -> String {
    let recs = coq_list(i.recs.iter().map(|r| {
        format!(
            "RecH {} {} {} {} {} {}",
            coq_name(&r.owner),
            r.optout,
            r.iter,
            coq_pbm(&r.salt),
            coq_pbm(&r.next),
            coq_list(r.types.iter().map(|t| t.to_string()))
        )
    }));
    let ans = coq_list(i.answers.iter().map(|a| match a {
        Some(l) => format!("{}", *l as u32 + 1),
        None => "0".into(),
    }));
    let mut tbl = vec![];
    let mut codes = vec![];
    for (c, _, hh) in table(i) {
        assert_eq!(hh.len(), 20);
        codes.push(c.to_string());
        tbl.extend(hh);
    }
    format!(
        "Case {} {} {} {} {} {} {} {} {} {} {}",
        coq_name(&i.q),
        i.qt,
        match &i.soa {
            Some(s) => format!("(Some {})", coq_name(s)),
            None => "None".into(),
        },
        i.rcode,
        ans,
        recs,
        i.soft,
        i.hard,
        coq_list(codes),
        coq_pbm(&tbl),
        obs
    )
}

fn show_input(i: &Input) -> String {
    let recs: Vec<String> = i
        .recs
        .iter()
        .map(|r| {
            format!(
                "{{{} oo={} it={} salt={} next={} types={:?}}}",
                show_name(&r.owner),
                r.optout as u8,
                r.iter,
                hex(&r.salt),
                String::from_utf8_lossy(&b32(&r.next)),
                r.types
            )
        })
        .collect();
    format!(
        "q={} qt={} soa={} rcode={} answers={:?} soft={} hard={} nsec3s=[{}]",
        show_name(&i.q),
        i.qt,
        i.soa.as_ref().map(show_name).unwrap_or("-".into()),
        i.rcode,
        i.answers,
        i.soft,
        i.hard,
        recs.join(" ")
    )
}

// ---------------------------------------------------------------- semantic oracle

/// does the response's claim hold in the zone?  Err(reason) = it does not
fn claim_holds(z: &Zone, i: &Input) -> Result<(), &'static str> {
    let q = lower(&i.q);
    let wl = i.answers.iter().find_map(|a| *a);
    if i.rcode != 0 && i.rcode != 3 {
        return Err("rcode");
    }
    if i.rcode == 0 {
        if let Some(w) = wl {
            if nlabels(&q) <= w as usize {
                // an ordinary positive answer: nothing is denied, the NSEC3s are superfluous
                return Ok(());
            }
            // wildcard-expanded answer: the next closer name must not exist in the zone
            let subject = last_labels(&q, w as usize + 1);
            if !is_suffix(&z.apex, &subject) {
                return Err("next-closer-outside-zone");
            }
            if z.exists(&subject) {
                return Err("next-closer-exists");
            }
            return Ok(());
        }
    }
    if !is_suffix(&z.apex, &q) {
        return Err("query-outside-zone");
    }
    // the parent side of a cut cannot deny anything at or below it, except DS at the cut
    if let Some(c) = z.cut_of(&q) {
        if c == q && i.rcode == 0 && i.qt == T_DS {
            return if z.types(&c).unwrap().contains(&T_DS) { Err("ds-exists") } else { Ok(()) };
        }
        if z.optout && !z.types(&c).unwrap().contains(&T_DS) {
            return Err("optout-unsigned-delegation");
        }
        return Err("ancestor-delegation");
    }
    if z.dname_above(&q) {
        return Err("below-dname");
    }
    if i.rcode == 3 {
        if z.exists(&q) {
            return Err("name-exists");
        }
        let ce = z.ce(&q).expect("apex exists");
        if z.exists(&star(&ce)) {
            return Err("wildcard-exists");
        }
        return Ok(());
    }
    let empty = BTreeSet::new();
    if z.exists(&q) {
        let t = z.types(&q).unwrap_or(&empty);
        if t.contains(&i.qt) {
            return Err("type-exists");
        }
        if t.contains(&T_CNAME) {
            return Err("cname-exists");
        }
        return Ok(());
    }
    let ce = z.ce(&q).expect("apex exists");
    if z.exists(&star(&ce)) {
        // source of synthesis exists (maybe as an empty non-terminal): NODATA if it lacks the type
        let t = z.types(&star(&ce)).unwrap_or(&empty);
        if t.contains(&i.qt) {
            return Err("wildcard-type-exists");
        }
        if t.contains(&T_CNAME) {
            return Err("wildcard-cname-exists");
        }
        return Ok(());
    }
    if i.qt == T_DS && z.optout {
        // an opt-out span: "there is no signed DS here" is all that is claimed
        return Ok(());
    }
    Err("nodata-for-nonexistent-name")
}

/// under opt-out: does the proof for q touch a name whose existence the signed chain cannot
/// express (an unsigned delegation, or an empty non-terminal that only leads to such;
/// RFC 5155 erratum 3441)?
fn any_hidden(z: &Zone, chain: &[(Nm, Rec)], q: &Nm) -> bool {
    let hidden = |n: &Nm| z.exists(n) && !chain.iter().any(|(m, _)| m == n);
    z.optout
        && (0..=q.len()).any(|k| {
            let s = last_labels(q, k);
            hidden(&s) || hidden(&star(&s)) || z.cut_of(&s).map(|c| hidden(&c)).unwrap_or(false)
        })
}

/// RFC 5155 7.2 proof a correct server attaches, from the genuine chain
fn ideal_proof(z: &Zone, chain: &[(Nm, Rec)], q: &Nm, qt: u16, rcode: u16, wl: Option<u8>) -> Vec<Rec> {
    let hq = |n: &Nm| h(&z.salt, z.iter, n);
    let hashes: Vec<Vec<u8>> = chain.iter().map(|(n, _)| hq(n)).collect();
    let find_match = |n: &Nm| {
        let x = hq(n);
        hashes.iter().position(|y| *y == x)
    };
    let find_cover = |n: &Nm| {
        let x = hq(n);
        if hashes.contains(&x) {
            return None;
        }
        // predecessor in hash order, the last record wraps around
        let mut best = None;
        for (i, y) in hashes.iter().enumerate() {
            if *y < x {
                best = Some(i);
            }
        }
        best.or(if hashes.is_empty() { None } else { Some(hashes.len() - 1) })
    };
    let mut v: Vec<usize> = vec![];
    let q = lower(q);
    if let (0, Some(w)) = (rcode, wl) {
        if let Some(i) = find_cover(&last_labels(&q, w as usize + 1)) {
            v.push(i);
        }
    } else if let (0, Some(i)) = (rcode, find_match(&q)) {
        v.push(i);
    } else {
        let k = (0..=q.len()).rev().find(|k| find_match(&last_labels(&q, *k)).is_some());
        if let Some(k) = k {
            let ce = last_labels(&q, k);
            v.push(find_match(&ce).unwrap());
            if k < q.len() {
                if let Some(i) = find_cover(&last_labels(&q, k + 1)) {
                    v.push(i);
                }
            }
            let wc = star(&ce);
            let w = if rcode == 3 { find_cover(&wc) } else { find_match(&wc).or(if qt == T_DS { None } else { find_cover(&wc) }) };
            if let Some(i) = w {
                v.push(i);
            }
        }
    }
    let mut out: Vec<Rec> = vec![];
    for i in v {
        if !out.contains(&chain[i].1) {
            out.push(chain[i].1.clone());
        }
    }
    out
}

// ---------------------------------------------------------------- generators

const LABELS: [&[u8]; 4] = [b"a", b"b", b"*", b"c"];

fn gen_label(r: &mut Rng) -> Lbl {
    match r.below(10) {
        0..=3 => b"a".to_vec(),
        4..=6 => b"b".to_vec(),
        7 => b"c".to_vec(),
        _ => b"*".to_vec(),
    }
}
fn gen_below(r: &mut Rng, base: &Nm, max_depth: u64) -> Nm {
    let mut n = base.clone();
    for _ in 0..r.range(1, max_depth) {
        let mut l = gen_label(r);
        // "*" only makes sense as the leftmost label of an owner; interior stars are kept rare
        if l == b"*" && r.chance(1, 2) {
            l = b"a".to_vec();
        }
        n = with(&l, &n);
    }
    n
}
fn gen_types(r: &mut Rng) -> Vec<u16> {
    match r.below(14) {
        0 | 1 | 2 => vec![T_A],
        3 => vec![T_TXT],
        4 => vec![T_CNAME],
        5 => vec![T_CNAME],
        6 | 7 => vec![T_NS],
        8 | 9 => vec![T_NS, T_DS],
        10 => vec![T_DNAME],
        11 => vec![T_A, T_MX, T_AAAA],
        _ => vec![T_MX],
    }
}

fn gen_zone(r: &mut Rng) -> Zone {
    let apex: Nm = match r.below(10) {
        0 => vec![b"e".to_vec(), b"t".to_vec()],
        _ => vec![b"z".to_vec()],
    };
    let mut rrs: BTreeMap<Nm, BTreeSet<u16>> = BTreeMap::new();
    let mut at: BTreeSet<u16> = [T_NS, T_SOA].into_iter().collect();
    if r.chance(1, 2) {
        at.insert(T_A);
    }
    if r.chance(1, 4) {
        at.insert(T_MX);
    }
    rrs.insert(apex.clone(), at);
    for _ in 0..r.range(0, 7) {
        let n = gen_below(r, &apex, 3);
        let mut t = gen_types(r);
        if n[0] == b"*" {
            // wildcard owners: no delegations/DNAME; CNAME often (source-of-synthesis CNAME checks)
            t = match r.below(20) {
                0..=7 => vec![T_A],
                8..=12 => vec![T_CNAME],
                13..=15 => vec![T_TXT],
                _ => vec![T_A, T_MX],
            };
        }
        rrs.entry(n).or_default().extend(t);
    }
    // glue below some cuts (occluded: must not enter the chain)
    let cuts: Vec<Nm> = rrs.iter().filter(|(n, t)| **n != apex && t.contains(&T_NS)).map(|(n, _)| n.clone()).collect();
    for c in cuts {
        // a delegation point carries NS (and maybe DS) only
        let t = rrs.get_mut(&c).unwrap();
        t.retain(|x| *x == T_NS || *x == T_DS);
        if r.chance(1, 2) {
            rrs.entry(with(b"a", &c)).or_default().insert(T_A);
        }
    }
    // a CNAME owns nothing else (the store refuses the mixture)
    for (_, t) in rrs.iter_mut() {
        if t.contains(&T_CNAME) && t.len() > 1 {
            if t.contains(&T_NS) || t.contains(&T_SOA) {
                t.remove(&T_CNAME);
            } else {
                t.retain(|x| *x == T_CNAME);
            }
        }
    }
    // nothing authoritative below a DNAME
    let dn: Vec<Nm> = rrs.iter().filter(|(_, t)| t.contains(&T_DNAME)).map(|(n, _)| n.clone()).collect();
    rrs.retain(|n, _| !dn.iter().any(|d| strict_suffix(d, n)));
    let salt = match r.below(4) {
        0 | 1 => vec![],
        2 => vec![0xab],
        _ => vec![0xaa, 0xbb, 0xcc, 0xdd],
    };
    let iter = *r.pick(&[0u16, 0, 0, 1, 1, 2, 3, 5]);
    Zone { apex, rrs, salt, iter, optout: r.chance(1, 3) }
}

fn gen_qname(r: &mut Rng, z: &Zone) -> Nm {
    let owners: Vec<Nm> = z.rrs.keys().cloned().collect();
    let wilds: Vec<Nm> = owners.iter().filter(|o| o[0] == b"*").cloned().collect();
    if !wilds.is_empty() && r.chance(1, 6) {
        // a name that the wildcard would service
        let p = parent(r.pick(&wilds));
        let l = r.pick(&[b"a", b"b", b"c", b"x"]).to_vec();
        let q = with(&l, &p);
        return if r.chance(1, 3) { with(b"y", &q) } else { q };
    }
    match r.below(22) {
        0..=6 => gen_below(r, &z.apex, 3),
        7 | 8 => gen_below(r, &z.apex, 4),
        9..=11 => {
            let o = r.pick(&owners).clone();
            gen_below(r, &o, 2)
        }
        12 | 13 => {
            // an ancestor of an owner (the owner itself or an empty non-terminal)
            let o = r.pick(&owners).clone();
            let k = r.range(z.apex.len().min(o.len()) as u64, o.len() as u64) as usize;
            last_labels(&o, k)
        }
        14 | 15 => {
            // sibling of an owner
            let o = r.pick(&owners).clone();
            let p = if o.len() > z.apex.len() { parent(&o) } else { o };
            with(&gen_label(r), &p)
        }
        16 | 17 => z.apex.clone(),
        18 => {
            // outside the zone
            gen_below(r, &vec![b"y".to_vec()], 2)
        }
        _ => r.pick(&owners).clone(),
    }
}

fn gen_qtype(r: &mut Rng) -> u16 {
    *r.pick(&[T_A, T_A, T_A, T_DS, T_DS, T_CNAME, T_NS, T_MX, T_TXT, T_SOA, T_AAAA, T_DNAME, 255])
}

fn upper_some(r: &mut Rng, n: &Nm) -> Nm {
    n.iter().map(|l| l.iter().map(|b| if r.chance(1, 2) { b.to_ascii_uppercase() } else { *b }).collect()).collect()
}

struct Probe {
    z: Zone,
    i: Input,
    kind: String,
    /// all records are unmodified members of the zone's chain
    genuine: bool,
    /// the record list is exactly the RFC 5155 7.2 proof for the response
    ideal: bool,
}

fn gen_probe(seed: u64, index: u64) -> Probe {
    let mut r = Rng::for_case(seed, index);
    let r = &mut r;
    let z = gen_zone(r);
    let chain = z.chain();
    let mut q = gen_qname(r, &z);
    let qt = gen_qtype(r);
    let rcode: u16 = match r.below(20) {
        0..=10 => 0,
        11..=18 => 3,
        _ => *r.pick(&[2u16, 5, 1]),
    };
    // answers
    let ql = nlabels(&q) as u8;
    let answers: Vec<Option<u8>> = if rcode == 0 {
        match r.below(12) {
            0..=6 => vec![],
            7 | 8 => vec![None, Some(r.range(z.apex.len() as u64, (ql as u64).max(z.apex.len() as u64)) as u8)],
            9 => vec![None, Some(ql.saturating_sub(1))],
            10 => vec![None],
            _ => vec![None, Some(r.below(6) as u8), Some(r.below(6) as u8)],
        }
    } else if r.chance(1, 10) {
        vec![None, Some(ql.saturating_sub(1))]
    } else {
        vec![]
    };
    let wl = answers.iter().find_map(|a| *a);
    let (mut soft, mut hard) = *r.pick(&[(5u16, 10u16), (5, 10), (100, 500), (3, 3), (2, 5)]);
    let mut soa = Some(z.apex.clone());
    let mut genuine = true;
    let mut ideal = false;
    let mut kind;
    let mut recs: Vec<Rec>;
    let all: Vec<Rec> = chain.iter().map(|(_, x)| x.clone()).collect();
    match r.below(20) {
        0..=7 => {
            recs = ideal_proof(&z, &chain, &q, qt, rcode, wl);
            ideal = true;
            kind = "ideal".to_string();
        }
        8 | 9 => {
            recs = ideal_proof(&z, &chain, &q, qt, rcode, wl);
            if !recs.is_empty() {
                let k = r.below(recs.len() as u64) as usize;
                recs.remove(k);
            }
            if r.chance(1, 2) && !all.is_empty() {
                recs.push(r.pick(&all).clone());
            }
            kind = "ideal-damaged".to_string();
        }
        10..=14 => {
            recs = vec![];
            for _ in 0..r.range(1, 4) {
                recs.push(r.pick(&all).clone());
            }
            kind = "subset".to_string();
        }
        15 | 16 => {
            recs = all.clone();
            if r.chance(1, 2) {
                // any order
                for k in (1..recs.len()).rev() {
                    let j = r.below(k as u64 + 1) as usize;
                    recs.swap(k, j);
                }
            }
            kind = "whole-chain".to_string();
        }
        _ => {
            // the proof another response would get
            let q2 = gen_qname(r, &z);
            let rc2 = if r.chance(1, 2) { 0 } else { 3 };
            recs = ideal_proof(&z, &chain, &q2, gen_qtype(r), rc2, None);
            kind = "other-proof".to_string();
        }
    }
    if recs.is_empty() {
        recs.push(r.pick(&all).clone());
        ideal = false;
        kind = "subset".to_string();
    }
    // damage / configuration families
    match r.below(40) {
        0 | 1 => {
            // iteration boundary: re-sign the whole zone with an iteration count around the limits
            let it = *r.pick(&[soft, soft + 1, hard, hard + 1, soft.saturating_sub(1), 0]);
            let z2 = Zone { iter: it, ..z.clone() };
            let chain2 = z2.chain();
            recs = ideal_proof(&z2, &chain2, &q, qt, rcode, wl);
            if recs.is_empty() {
                recs.push(chain2[0].1.clone());
            }
            kind = "iter-boundary".to_string();
            let pz = Probe { z: z2, i: Input { q, qt, soa, rcode, answers, recs, soft, hard }, kind, genuine: true, ideal: true };
            return pz;
        }
        2 => {
            // limits moved instead
            let it = z.iter;
            let (s, hh) = *r.pick(&[(it, it), (it.saturating_sub(1), it), (it.saturating_sub(1), it.saturating_sub(1)), (it, it + 1), (0, 0), (0, 65535)]);
            soft = s;
            hard = hh;
            kind += "+limits";
        }
        3 => {
            // one record with other parameters
            let k = r.below(recs.len() as u64) as usize;
            match r.below(3) {
                0 => recs[k].iter = recs[k].iter.wrapping_add(1),
                1 => recs[k].salt.push(1),
                _ => recs[k].salt = vec![],
            }
            genuine = false;
            kind += "+params";
        }
        4 => {
            // a record from another zone
            let k = r.below(recs.len() as u64) as usize;
            let l = recs[k].owner[0].clone();
            let base: Nm = match r.below(3) {
                0 => vec![b"y".to_vec()],
                1 => with(b"a", &z.apex),
                _ => vec![],
            };
            recs[k].owner = with(&l, &base);
            genuine = false;
            kind += "+foreign-base";
        }
        5 => {
            soa = None;
            kind += "+nosoa";
        }
        6 => {
            soa = Some(match r.below(3) {
                0 => vec![b"y".to_vec()],
                1 => with(b"a", &z.apex),
                _ => parent(&z.apex),
            });
            kind += "+othersoa";
        }
        7 => {
            // owner label damaged
            let k = r.below(recs.len() as u64) as usize;
            let l = &mut recs[k].owner[0];
            match r.below(4) {
                0 => {
                    l.pop();
                }
                1 => l.push(b'0'),
                2 => {
                    let p = r.below(l.len() as u64) as usize;
                    l[p] = *r.pick(&[b'w', b'z', b'-', b'0', b'v', 0xff]);
                }
                _ => *l = b"x".to_vec(),
            }
            genuine = false;
            kind += "+label";
        }
        8 => {
            // next hashed owner damaged
            let k = r.below(recs.len() as u64) as usize;
            match r.below(6) {
                0 => recs[k].next = vec![],
                1 => {
                    recs[k].next.pop();
                }
                2 => recs[k].next.push(0),
                3 => recs[k].next = r.bytes(40),
                4 => recs[k].next = r.bytes(20),
                _ => recs[k].next = r.bytes(39),
            }
            genuine = false;
            kind += "+next";
        }
        9 => {
            let k = r.below(recs.len() as u64) as usize;
            recs[k].optout = !recs[k].optout;
            genuine = false;
            kind += "+optout-flip";
        }
        10 => {
            let k = r.below(recs.len() as u64) as usize;
            if r.chance(1, 2) {
                recs[k].types.clear();
            } else {
                recs[k].types.push(qt);
            }
            genuine = false;
            kind += "+types";
        }
        11 => {
            recs.clear();
            kind = "empty".to_string();
        }
        12 | 13 => {
            // upper-case letters in names handed to the implementation
            q = upper_some(r, &q);
            for x in recs.iter_mut() {
                if r.chance(1, 2) {
                    x.owner = upper_some(r, &x.owner);
                }
            }
            if let Some(s) = soa.as_mut() {
                *s = upper_some(r, s);
            }
            kind += "+case";
        }
        _ => {}
    }
    if !genuine {
        ideal = false;
    }
    Probe { z, i: Input { q, qt, soa, rcode, answers, recs, soft, hard }, kind, genuine, ideal }
}

// ---- the implementation's own notions of "matches" and "covers", for the known-finding classes

fn lbl_eq(a: &[u8], b: &[u8]) -> bool {
    a.eq_ignore_ascii_case(b)
}
fn lbl_cmp(a: &[u8], b: &[u8]) -> std::cmp::Ordering {
    a.to_ascii_lowercase().cmp(&b.to_ascii_lowercase())
}
/// (what find_covering_record's closure answers, what RFC 5155 says) for one record and target hash
fn cover(r: &Rec, th: &[u8]) -> (bool, bool) {
    use std::cmp::Ordering::*;
    let e = b32(&r.next);
    if e.is_empty() || e.len() > 63 || r.owner.is_empty() {
        return (false, false);
    }
    let o = &r.owner[0];
    let tl = b32(th);
    if lbl_eq(o, &tl) {
        return (false, false);
    }
    if lbl_cmp(o, &e) == Less {
        let c = lbl_cmp(o, &tl) == Less && th < &r.next[..];
        (c, c)
    } else {
        (
            lbl_cmp(o, &tl) == Greater || th > &r.next[..],
            lbl_cmp(o, &tl) == Less || th < &r.next[..],
        )
    }
}

/// known-finding class of an unsound acceptance, decided on the input alone
fn classify(z: &Zone, i: &Input) -> Option<&'static str> {
    let f = i.recs.first()?;
    let q = lower(&i.q);
    let hq = |n: &Nm| h(&f.salt, f.iter, n);
    let matches = |r: &Rec, n: &Nm| !r.owner.is_empty() && lbl_eq(&r.owner[0], &b32(&hq(n)));
    let wl = i.answers.iter().find_map(|a| *a);
    let deleg = |r: &Rec| r.types.contains(&T_NS) && !r.types.contains(&T_SOA);
    let wild_answer = i.rcode == 0 && wl.map(|w| (w as usize) < nlabels(&q)).unwrap_or(false);
    if i.rcode == 0 && wl.is_none() {
        if let Some(s) = &i.soa {
            if lower(s) == q && !i.recs.iter().any(|r| matches(r, &q)) {
                return Some("C09-apex-nodata-unproven");
            }
        }
    }
    if wild_answer {
        if i.recs.iter().any(|r| matches(r, &q)) {
            return Some("C09-shortcut-ignores-wildcard-answer");
        }
        if i.qt == T_DS {
            if let Some(r) = i.recs.iter().find(|r| cover(r, &hq(&q)).0) {
                if r.optout {
                    return Some("C09-shortcut-ignores-wildcard-answer");
                }
            }
        }
        // the next closer name claimed by the RRSIG label count is not inside the records' zone
        let nc = last_labels(&q, wl.unwrap() as usize + 1);
        if i.recs.iter().any(|r| r.owner.is_empty() || !is_suffix(&lower(&parent(&r.owner)), &nc)) {
            return Some("C09-wildcard-answer-zone-unchecked");
        }
    }
    // type bits of the record that plays the closest encloser (or matches the query name)
    if i.rcode == 0 && wl.is_none() {
        if let Some(r) = i.recs.iter().find(|r| matches(r, &q)) {
            if deleg(r) && i.qt != T_DS {
                return Some("C09-ancestor-delegation");
            }
        }
    }
    if i.rcode == 3 || (i.rcode == 0 && wl.is_none() && !i.recs.iter().any(|r| matches(r, &q))) {
        for k in (0..q.len()).rev() {
            let s = last_labels(&q, k);
            if let Some(r) = i.recs.iter().find(|r| matches(r, &s)) {
                if deleg(r) || r.types.contains(&T_DNAME) {
                    return Some("C09-ancestor-delegation");
                }
                break;
            }
        }
    }
    // the DS shortcut (case 3) fires without any closest-encloser proof
    if i.rcode == 0 && wl.is_none() && i.qt == T_DS && !i.recs.iter().any(|r| matches(r, &q)) {
        if let Some(r) = i.recs.iter().find(|r| cover(r, &hq(&q)).0) {
            if r.optout {
                return Some("C09-ds-optout-without-encloser-proof");
            }
        }
    }
    // a covering record with the Opt-Out flag used outside the DS case, hiding an unsigned
    // delegation (a name that exists but has no NSEC3 because of Opt-Out)
    let any_hidden = any_hidden(z, &z.chain(), &q);
    let first_cover_optout = |n: &Nm| i.recs.iter().find(|r| cover(r, &hq(n)).0).map(|r| r.optout).unwrap_or(false);
    if !any_hidden {
    } else if wild_answer {
        if first_cover_optout(&last_labels(&q, wl.unwrap() as usize + 1)) {
            return Some("C09-optout-cover-secure");
        }
    } else if i.rcode == 3 || (i.rcode == 0 && wl.is_none()) {
        for k in (0..q.len()).rev() {
            let s = last_labels(&q, k);
            if i.recs.iter().any(|r| matches(r, &s)) {
                if first_cover_optout(&last_labels(&q, k + 1)) || (i.rcode == 3 && first_cover_optout(&star(&s))) {
                    return Some("C09-optout-cover-secure");
                }
                break;
            }
        }
    }
    // the wrap-around arm of find_covering_record: a covering decision the verdict rests on is not
    // a cover per RFC 5155 (same predicate as known_wrap_encloser / right_cover in Model.v)
    let right_cover = |t: &Nm| {
        let th = hq(t);
        match i.recs.iter().find(|r| cover(r, &th).0) {
            Some(r) => cover(r, &th).1,
            None => true,
        }
    };
    if wild_answer {
        if !right_cover(&last_labels(&q, wl.unwrap() as usize + 1)) {
            return Some("C09-wraparound-covers-everything");
        }
    } else if i.rcode == 3 || (i.rcode == 0 && wl.is_none()) {
        if i.rcode == 0 && i.qt == T_DS && !right_cover(&q) {
            return Some("C09-wraparound-covers-everything");
        }
        for k in 1..=q.len() {
            let s = q[k..].to_vec();
            if i.recs.iter().any(|r| matches(r, &s))
                && (!right_cover(&q[k - 1..].to_vec()) || (i.rcode == 3 && !right_cover(&star(&s))))
            {
                return Some("C09-wraparound-covers-everything");
            }
        }
    }
    None
}

/// direct oracle on the implementation's verdict; (failure, known class)
fn oracle(p: &Probe, obs: u8) -> (Option<String>, Option<String>) {
    let i = &p.i;
    if obs == 4 {
        return (Some("verify_nsec3 returned Indeterminate".into()), None);
    }
    if i.recs.is_empty() {
        // the caller never passes an empty list (debug_assert); nothing is claimed
        return (None, None);
    }
    if obs == 3 {
        return (Some("verify_nsec3 panicked".into()), None);
    }
    // iteration limits
    let max_it = i.recs.iter().map(|x| x.iter).max().unwrap();
    if max_it > i.hard && obs != 2 {
        return (Some(format!("iterations {} > hard limit {} but verdict is not Bogus", max_it, i.hard)), None);
    }
    if max_it > i.soft && obs == 0 {
        return (Some(format!("iterations {} > soft limit {} but verdict is Secure", max_it, i.soft)), None);
    }
    // parameters and zone
    let f = &i.recs[0];
    if obs == 0 && i.recs.iter().any(|x| x.salt != f.salt || x.iter != f.iter) {
        return (Some("Secure with NSEC3 records of differing hash parameters".into()), None);
    }
    if obs == 0 {
        if let Some(s) = &i.soa {
            if i.recs.iter().any(|x| x.owner.is_empty() || lower(&parent(&x.owner)) != lower(s)) {
                return (Some("Secure with an NSEC3 record outside the SOA's zone".into()), None);
            }
        }
    }
    let soa_ok = match &i.soa {
        Some(s) => lower(s) == p.z.apex,
        None => true,
    };
    if p.genuine && soa_ok {
        let claim = claim_holds(&p.z, i);
        if obs == 0 {
            if let Err(why) = claim {
                return (
                    Some(format!("unsound: Secure but the claim is false in the zone the NSEC3s come from ({why})")),
                    classify(&p.z, i).map(|s| s.to_string()),
                );
            }
        }
        let chain = p.z.chain();
        let wl = i.answers.iter().find_map(|a| *a);
        let denial = i.rcode == 3 || wl.map(|w| (w as usize) < nlabels(&i.q)).unwrap_or(true);
        if p.ideal
            && denial
            && claim.is_ok()
            && i.soa.is_some()
            && max_it <= i.soft
            && obs != 0
            && !any_hidden(&p.z, &chain, &lower(&i.q))
        {
            // known: the DS/Opt-Out proof (closest encloser + Opt-Out cover of the next closer name)
            // is only accepted if some record also covers QNAME itself
            let fq = lower(&i.q);
            let known = if i.rcode == 0
                && wl.is_none()
                && i.qt == T_DS
                && p.z.optout
                && !p.z.exists(&fq)
                && p.z.ce(&fq).map(|c| c.len() + 1 < fq.len()).unwrap_or(false)
            {
                Some("C09-ds-optout-needs-qname-cover".to_string())
            } else {
                None
            };
            return (
                Some(format!("incomplete: the RFC 5155 proof of a true claim is not accepted (verdict {obs})")),
                known,
            );
        }
    }
    (None, None)
}

// ---------------------------------------------------------------- corpus: fixed cases, independent of the generator

const CORPUS_BASE: u64 = 1 << 32;

fn pn(s: &str) -> Nm {
    s.split('.').filter(|l| !l.is_empty()).map(|l| l.as_bytes().to_vec()).collect()
}

/// (tag, zone rrs "name:types ...", apex, salt hex, iterations, opt-out,
///  qname, qtype, soa, rcode, answers, records ("ideal" or chain owner names), soft, hard)
type CorpusRow = (
    &'static str,
    &'static str,
    &'static str,
    &'static str,
    u16,
    bool,
    &'static str,
    u16,
    &'static str,
    u16,
    &'static [Option<u8>],
    &'static str,
    u16,
    u16,
);

const CORPUS: &[CorpusRow] = &[
    // ---- the confirmed defects (known_findings.json), one minimal witness each
    ("W0-wraparound", "*.z:5 z:2,6", "z", "", 0, true, "a.a.z", 43, "z", 3, &[], "z", 2, 5),
    ("W1-apex-arm", "c.a.z:16 z:1,2,6", "z", "", 2, false, "z", 1, "z", 0, &[], "a.z", 2, 5),
    ("W2-shortcut", "*.a.z:5 z:2,6", "z", "ab", 1, false, "a.z", 15, "z", 0, &[None, Some(1)], "a.z", 3, 3),
    ("W3-delegation", "c.a.z:2 z:2,6,15", "z", "", 2, false, "c.a.z", 16, "z", 0, &[], "c.a.z", 5, 10),
    ("W4-zone-unchecked", "b.z:1 z:1,2,6", "z", "", 1, false, "a.a.y", 6, "z", 0, &[None, Some(1)], "b.z", 5, 10),
    ("W5-optout-nxdomain", "a.z:2 z:2,6", "z", "ab", 1, true, "a.z", 1, "z", 3, &[], "z", 2, 5),
    ("W6-ds-optout-no-encloser", "*.a.z:15 a.b.z:2 a.z:2,43 z:1,2,6", "z", "ab", 2, true, "a.a.a.z", 43, "z", 0, &[], "z", 5, 10),
    ("W7-dname-encloser", "a.a.z:39 a.b.z:2 b.a.z:39 z:1,2,6", "z", "", 1, false, "b.a.a.z", 15, "z", 3, &[], "a.a.z b.a.z", 100, 500),
    ("W8-ds-optout-incomplete", "*.a.z:1 a.b.z:1,15,28 b.*.c.z:15 z:2,6", "z", "", 3, true, "a.a.c.b.z", 43, "z", 0, &[], "ideal", 5, 10),
    // ---- correct proofs (also the Examples in coq/C09/Props.v)
    ("G0-nxdomain", "b.a.z:2,43 c.z:5 z:2,6", "z", "", 1, false, "a.c.z", 16, "z", 3, &[], "ideal", 2, 5),
    ("G1-nodata", "b.z:1 z:2,6", "z", "", 0, false, "b.z", 15, "z", 0, &[], "ideal", 5, 10),
    ("G2-wildcard-nodata", "*.b.b.z:1 b.c.a.z:5 z:2,6", "z", "", 2, false, "x.b.b.z", 15, "z", 0, &[], "ideal", 100, 500),
    ("G3-wildcard-answer", "a.b.a.z:1 b.a.z:2 z:2,6", "z", "", 0, false, "b.z", 2, "z", 0, &[None, Some(1)], "ideal", 3, 3),
    // RFC 5155 appendix B.1 shape: deep query, three distinct records
    ("G4-nxdomain-deep", "a.z:1 b.a.z:16 *.c.z:1 x.y.c.z:1 z:2,6", "z", "aabbccdd", 5, false, "a.b.b.a.z", 1, "z", 3, &[], "ideal", 5, 10),
];

fn corpus_probe(k: usize) -> Probe {
    let (tag, rrs, apex, salt, iter, optout, q, qt, soa, rcode, answers, recs, soft, hard) = CORPUS[k];
    let mut m: BTreeMap<Nm, BTreeSet<u16>> = BTreeMap::new();
    for item in rrs.split_whitespace() {
        let (n, ts) = item.split_once(':').unwrap();
        m.insert(pn(n), ts.split(',').map(|t| t.parse().unwrap()).collect());
    }
    let z = Zone { apex: pn(apex), rrs: m, salt: unhex(salt), iter, optout };
    let chain = z.chain();
    let q = pn(q);
    let answers = answers.to_vec();
    let wl = answers.iter().find_map(|a| *a);
    let (list, ideal) = if recs == "ideal" {
        (ideal_proof(&z, &chain, &q, qt, rcode, wl), true)
    } else {
        (
            recs.split_whitespace()
                .map(|n| chain.iter().find(|(m, _)| *m == pn(n)).unwrap_or_else(|| panic!("corpus {tag}: no chain record {n}")).1.clone())
                .collect(),
            false,
        )
    };
    Probe {
        z,
        i: Input { q, qt, soa: if soa.is_empty() { None } else { Some(pn(soa)) }, rcode, answers, recs: list, soft, hard },
        kind: format!("corpus:{tag}"),
        genuine: true,
        ideal,
    }
}

// ---------------------------------------------------------------- end to end: the real server builds the proof

const E2E_BASE: u64 = 1 << 33;

fn from_name(n: &Name) -> Nm {
    n.iter().map(|l| l.to_vec()).collect()
}

fn to_rdata(t: u16, apex: &Nm) -> Option<RData> {
    use hickory_net::proto::rr::rdata::{AAAA, CNAME, MX, NS, SOA, TXT};
    Some(match t {
        T_A => RData::A(rdata::A::new(192, 0, 2, 1)),
        T_AAAA => RData::AAAA(AAAA::new(0x2001, 0xdb8, 0, 0, 0, 0, 0, 1)),
        T_TXT => RData::TXT(TXT::new(vec!["t".to_string()])),
        T_MX => RData::MX(MX::new(10, to_name(&with(b"mx", apex)))),
        T_NS => RData::NS(NS(to_name(&with(b"ns", apex)))),
        T_CNAME => RData::CNAME(CNAME(to_name(&with(b"target", apex)))),
        T_DS => RData::DNSSEC(DNSSECRData::DS(DS::new(7, Algorithm::ED25519, DigestType::SHA256, vec![7; 32]))),
        T_SOA => RData::SOA(SOA::new(to_name(&with(b"ns", apex)), to_name(&with(b"admin", apex)), 1, 3600, 300, 36000, 60)),
        _ => return None,
    })
}

struct Served {
    ctx: VerifContext<Catalog>,
    /// the NSEC3 RRs the server generated
    chain: Vec<Rec>,
}

fn serve(rt: &tokio::runtime::Runtime, z: &Zone) -> Served {
    let oname = to_name(&z.apex);
    let kind = NxProofKind::Nsec3 {
        algorithm: Nsec3HashAlgorithm::SHA1,
        salt: Arc::from(z.salt.clone().into_boxed_slice()),
        iterations: z.iter,
        opt_out: z.optout,
    };
    let mut hd = InMemoryZoneHandler::<hickory_net::runtime::TokioRuntimeProvider>::empty(
        oname.clone(),
        ZoneType::Primary,
        AxfrPolicy::Deny,
        Some(kind),
    );
    for (n, ts) in &z.rrs {
        for t in ts {
            if let Some(rd) = to_rdata(*t, &z.apex) {
                hd.upsert_mut(Record::from_rdata(to_name(n), 300, rd), 1);
            }
        }
    }
    let key = Ed25519SigningKey::from_pkcs8(&Ed25519SigningKey::generate_pkcs8().expect("keygen")).expect("key");
    hd.add_zone_signing_key_mut(DnssecSigner::new(
        DNSKEY::from_key(&key.to_public_key().expect("public key")),
        Box::new(key),
        oname.clone(),
        std::time::Duration::from_secs(3600),
    ))
    .expect("add key");
    hd.secure_zone_mut().expect("sign");
    let chain: Vec<Rec> = rt.block_on(async {
        hd.records()
            .await
            .iter()
            .filter(|(k, _)| u16::from(k.record_type) == 50)
            .flat_map(|(_, set)| set.records_without_rrsigs().cloned().collect::<Vec<_>>())
            .filter_map(|r| rec_of_record(&r))
            .collect()
    });
    let mut catalog = Catalog::new();
    catalog.upsert(LowerName::from(&oname), vec![Arc::new(hd) as Arc<dyn ZoneHandler>]);
    Served { ctx: VerifContext::new(catalog, vec![], vec![]), chain }
}

fn rec_of_record(r: &Record) -> Option<Rec> {
    match &r.data {
        RData::DNSSEC(DNSSECRData::NSEC3(n)) => {
            let mut types: Vec<u16> = n.type_bit_maps().map(u16::from).collect();
            types.sort();
            Some(Rec {
                owner: from_name(&r.name),
                optout: n.opt_out(),
                iter: n.iterations(),
                salt: n.salt().to_vec(),
                next: n.next_hashed_owner_name().to_vec(),
                types,
            })
        }
        _ => None,
    }
}

fn wire_query(q: &Nm, qt: u16) -> Vec<u8> {
    let mut v = vec![0x12, 0x34, 0x01, 0x00, 0, 1, 0, 0, 0, 0, 0, 1];
    for l in q {
        v.push(l.len() as u8);
        v.extend(l);
    }
    v.push(0);
    v.extend(qt.to_be_bytes());
    v.extend([0, 1]);
    // OPT: root, type 41, udp 1232, ext-rcode 0, version 0, DO, rdlen 0
    v.extend([0, 0, 41, 0x04, 0xd0, 0, 0, 0x80, 0, 0, 0]);
    v
}

fn ask(rt: &tokio::runtime::Runtime, sv: &Served, q: &Nm, qt: u16) -> Result<Message, String> {
    let addr = SocketAddr::new(IpAddr::V4(Ipv4Addr::new(192, 0, 2, 7)), 5353);
    let (handle, rx) = BufDnsStreamHandle::new(addr);
    let bytes = wire_query(q, qt);
    let replies: Vec<Vec<u8>> = rt.block_on(async {
        sv.ctx.handle_raw_request(SerialMessage::new(bytes, addr), Protocol::Udp, handle).await;
        rx.map(|m| m.into_parts().0).collect::<Vec<_>>().await
    });
    if replies.len() != 1 {
        return Err(format!("{} replies", replies.len()));
    }
    Message::from_vec(&replies[0]).map_err(|e| format!("reply does not decode: {e}"))
}

/// differences between the server's NSEC3 chain and the RFC 5155 7.1 chain of the zone
fn chain_diff(z: &Zone, served: &[Rec]) -> Option<(String, bool)> {
    let d = chain_diff_with(&z.chain_opt(false), served)?;
    Some((d, chain_diff_with(&z.chain_opt(true), served).is_none()))
}
fn chain_diff_with(rfc: &[(Nm, Rec)], served: &[Rec]) -> Option<String> {
    let ignore = [T_RRSIG, T_DNSKEY, T_NSEC3PARAM];
    let norm = |r: &Rec| {
        let mut t: Vec<u16> = r.types.iter().copied().filter(|x| !ignore.contains(x)).collect();
        t.sort();
        (lower(&r.owner), r.next.clone(), r.optout, r.iter, r.salt.clone(), t)
    };
    let mut a: Vec<_> = rfc.iter().map(|(_, r)| norm(r)).collect();
    let mut b: Vec<_> = served.iter().map(norm).collect();
    a.sort();
    b.sort();
    if a == b {
        return None;
    }
    let names: BTreeMap<Nm, Nm> = rfc.iter().map(|(n, r)| (lower(&r.owner), n.clone())).collect();
    let only_rfc: Vec<String> = a.iter().filter(|x| !b.contains(x)).map(|x| show_name(names.get(&x.0).unwrap_or(&x.0))).collect();
    let only_srv: Vec<String> = b.iter().filter(|x| !a.contains(x)).map(|x| format!("{} types={:?}", show_name(names.get(&x.0).unwrap_or(&x.0)), x.5)).collect();
    Some(format!("only in RFC chain: {:?}; only/different in server chain: {:?}", only_rfc, only_srv))
}

struct E2e {
    p: Probe,
    chain_diff: Option<(String, bool)>,
    note: String,
}

/// fixed end-to-end cases: (tag, zone rrs, apex, salt hex, iterations, opt-out, qname, qtype)
const E2E_CORPUS_BASE: u64 = 1 << 31;
const E2E_CORPUS: &[(&str, &str, &str, &str, u16, bool, &str, u16)] = &[
    // the server's chain lacks the empty non-terminal *.z.
    ("E0-chain-star-ent", "a.*.z:15 z:1,2,6,15", "z", "aabbccdd", 0, false, "b.z", 1),
    // a plain positive answer carries the NSEC3 matching QNAME and is then Bogus
    ("E1-positive-answer", "b.z:1 z:2,6", "z", "", 0, false, "b.z", 1),
    // NXDOMAIN for QTYPE DS: no cover for the wildcard at the closest encloser
    ("E2-nxdomain-ds", "a.c.a.z:15 b.a.b.z:1 z:2,6", "z", "", 0, false, "a.a.a.c.a.z", 43),
    // accepted negative answers
    ("E3-nxdomain", "a.c.a.z:15 b.a.b.z:1 z:2,6", "z", "", 0, false, "a.a.a.c.a.z", 1),
    ("E4-nodata", "b.z:1 z:2,6", "z", "ab", 1, false, "b.z", 15),
    ("E5-wildcard-nodata", "*.b.z:1 z:2,6", "z", "", 2, false, "x.b.z", 15),
    ("E6-wildcard-answer", "*.b.z:1 z:2,6", "z", "", 2, false, "x.b.z", 1),
];

fn e2e_probe(rt: &tokio::runtime::Runtime, seed: u64, k: u64) -> E2e {
    let (z, q, qt) = if k >= E2E_CORPUS_BASE {
        let (_, rrs, apex, salt, iter, optout, q, qt) = E2E_CORPUS[(k - E2E_CORPUS_BASE) as usize];
        let mut m: BTreeMap<Nm, BTreeSet<u16>> = BTreeMap::new();
        for item in rrs.split_whitespace() {
            let (n, ts) = item.split_once(':').unwrap();
            m.insert(pn(n), ts.split(',').map(|t| t.parse().unwrap()).collect());
        }
        (Zone { apex: pn(apex), rrs: m, salt: unhex(salt), iter, optout }, pn(q), qt)
    } else {
        let mut r = Rng::for_case(seed ^ 0xE2E, k / 4);
        let mut z = gen_zone(&mut r);
        // types the store can hold here; DNAME is left to the generated families
        for ts in z.rrs.values_mut() {
            ts.remove(&T_DNAME);
        }
        z.rrs.retain(|_, ts| !ts.is_empty());
        let mut r = Rng::for_case(seed ^ 0xE2E5, k);
        let q = gen_qname(&mut r, &z);
        let qt = *r.pick(&[T_A, T_A, T_DS, T_MX, T_TXT, T_AAAA, T_NS, T_CNAME]);
        (z, q, qt)
    };
    let sv = serve(rt, &z);
    let cd = chain_diff(&z, &sv.chain);
    let (input, note) = match ask(rt, &sv, &q, qt) {
        Err(e) => (
            Input { q: q.clone(), qt, soa: None, rcode: 2, answers: vec![], recs: vec![], soft: 100, hard: 500 },
            format!("no usable reply: {e}"),
        ),
        Ok(m) => {
            let soa = m.authorities.iter().find(|x| x.record_type() == RecordType::SOA).map(|x| from_name(&x.name));
            let answers: Vec<Option<u8>> = m
                .answers
                .iter()
                .map(|x| match &x.data {
                    RData::DNSSEC(DNSSECRData::RRSIG(sig)) => Some(sig.input().num_labels),
                    _ => None,
                })
                .collect();
            let recs: Vec<Rec> = m.authorities.iter().filter_map(rec_of_record).collect();
            let ans_types: BTreeSet<u16> = m.answers.iter().map(|x| u16::from(x.record_type())).collect();
            let auth_types: BTreeSet<u16> = m.authorities.iter().map(|x| u16::from(x.record_type())).collect();
            let rc = u16::from(m.metadata.response_code) & 0xf;
            (
                Input { q: q.clone(), qt, soa, rcode: rc, answers, recs, soft: 100, hard: 500 },
                format!("aa={} answer types={:?} authority types={:?}", m.metadata.authoritative as u8, ans_types, auth_types),
            )
        }
    };
    E2e { p: Probe { z, i: input, kind: "e2e".to_string(), genuine: true, ideal: false }, chain_diff: cd, note }
}

fn e2e_case(rt: &tokio::runtime::Runtime, seed: u64, index: u64) -> CaseOut {
    let e = e2e_probe(rt, seed, index - E2E_BASE);
    let p = &e.p;
    let obs = if p.i.recs.is_empty() { 5 } else { run_impl(&p.i) };
    let mut oracle_fail = None;
    let mut known = None;
    let wl = p.i.answers.iter().find_map(|a| *a);
    let positive = p.i.rcode == 0 && !p.i.answers.is_empty() && wl.map(|w| w as usize >= nlabels(&p.i.q)).unwrap_or(true);
    let referral = p.i.rcode == 0 && p.i.answers.is_empty() && p.z.cut_of(&lower(&p.i.q)).is_some();
    let shape = if p.i.recs.is_empty() {
        "no-nsec3"
    } else if positive {
        "positive+nsec3"
    } else if referral {
        "referral"
    } else if p.i.rcode == 3 {
        "nxdomain"
    } else if wl.is_some() {
        "wildcard-answer"
    } else {
        "nodata"
    };
    if let Some((d, star_ent_only)) = &e.chain_diff {
        oracle_fail = Some(format!("server NSEC3 chain differs from the RFC 5155 7.1 chain of the zone: {d}"));
        known = if *star_ent_only { Some("C09-server-chain-star-ent".to_string()) } else { None };
    } else if !p.i.recs.is_empty() && obs != 5 && !referral {
        let (f, k) = oracle(p, obs);
        let claim_ok = claim_holds(&p.z, &p.i).is_ok() && !any_hidden(&p.z, &p.z.chain(), &lower(&p.i.q));
        if f.is_some() {
            oracle_fail = f;
            known = k;
        } else if obs != 0 && claim_ok {
            oracle_fail = Some(format!(
                "incomplete end to end: the server's own {shape} response with its NSEC3 proof is not accepted (verdict {})",
                ["Secure", "Insecure", "Bogus", "PANIC", "Indeterminate"][obs as usize]
            ));
            known = match shape {
                "positive+nsec3" => Some("C09-e2e-positive-answer-nsec3".to_string()),
                "nxdomain" if p.i.qt == T_DS => Some("C09-e2e-nxdomain-ds-no-wildcard-cover".to_string()),
                _ => None,
            };
        }
    }
    let zone_txt: Vec<String> = p.z.rrs.iter().map(|(n, t)| format!("{}:{:?}", show_name(n), t)).collect();
    let text = format!(
        "[e2e {}] verdict={} {} | {} | zone apex={} salt={} it={} optout={} rrs={{{}}}",
        shape,
        ["Secure", "Insecure", "Bogus", "PANIC", "Indeterminate", "-"][obs as usize],
        show_input(&p.i),
        e.note,
        show_name(&p.z.apex),
        hex(&p.z.salt),
        p.z.iter,
        p.z.optout as u8,
        zone_txt.join(" ")
    );
    // cases without NSEC3 records never reach verify_nsec3: ship a trivial case for the model (empty list = panic)
    let coq = if p.i.recs.is_empty() { coq_case(&p.i, 3) } else { coq_case(&p.i, obs) };
    CaseOut {
        index,
        coq,
        text,
        key: format!("e2e {}", show_input(&p.i)),
        nontrivial: !p.i.recs.is_empty(),
        kind: format!("e2e-{}/{}", shape, ["secure", "insecure", "bogus", "panic", "indet", "none"][obs as usize]),
        oracle_fail,
        known,
    }
}

fn probe(seed: u64, index: u64) -> Probe {
    if index >= CORPUS_BASE {
        corpus_probe((index - CORPUS_BASE) as usize)
    } else {
        gen_probe(seed, index)
    }
}

fn case(seed: u64, index: u64) -> CaseOut {
    let p = probe(seed, index);
    let obs = run_impl(&p.i);
    let (oracle_fail, known) = oracle(&p, obs);
    let zone_txt: Vec<String> = p.z.rrs.iter().map(|(n, t)| format!("{}:{:?}", show_name(n), t)).collect();
    let text = format!(
        "[{}] verdict={} {} | zone apex={} salt={} it={} optout={} rrs={{{}}}",
        p.kind,
        ["Secure", "Insecure", "Bogus", "PANIC", "Indeterminate"][obs as usize],
        show_input(&p.i),
        show_name(&p.z.apex),
        hex(&p.z.salt),
        p.z.iter,
        p.z.optout as u8,
        zone_txt.join(" ")
    );
    let key = show_input(&p.i);
    CaseOut {
        index,
        coq: coq_case(&p.i, obs),
        text,
        key,
        nontrivial: !p.i.recs.is_empty(),
        kind: format!("{}/{}", p.kind, ["secure", "insecure", "bogus", "panic", "indet"][obs as usize]),
        oracle_fail,
        known,
    }
}

fn g_bytes(b: &[u8]) -> String {
    coq_list(b.iter().map(|x| x.to_string()))
}
fn g_name(n: &Nm) -> String {
    coq_list(n.iter().map(|l| g_bytes(l)))
}
/// the case as plain Gallina (lists of N), for witnesses in Props.v
fn gallina(p: &Probe) -> String {
    let i = &p.i;
    let recs = coq_list(i.recs.iter().map(|r| {
        format!(
            "mkN3 {} 1 {} {} {} {} {}",
            g_name(&r.owner),
            r.optout,
            r.iter,
            g_bytes(&r.salt),
            g_bytes(&r.next),
            coq_list(r.types.iter().map(|t| t.to_string()))
        )
    }));
    let f = i.recs.first().expect("records");
    let lq = lower(&i.q);
    let mut full = vec![];
    for k in 0..=lq.len() {
        let s = lq[k..].to_vec();
        full.push((s.clone(), h(&f.salt, f.iter, &s)));
        full.push((star(&s), h(&f.salt, f.iter, &star(&s))));
    }
    let tbl = coq_list(full.iter().map(|(n, hh)| format!("({}, {})", g_name(n), g_bytes(hh))));
    let zone = coq_list(p.z.chain().iter().map(|(n, r)| {
        format!("({}, {})", g_name(n), coq_list(r.types.iter().map(|t| t.to_string())))
    }));
    let zh = coq_list(p.z.chain().iter().map(|(n, _)| format!("({}, {})", g_name(n), g_bytes(&h(&p.z.salt, p.z.iter, n)))));
    format!(
        "q := {}; qt := {}; soa := {}; rcode := {}; answers := {}; recs := {}; soft := {}; hard := {}; table := {}; zone := mkZone {} {}; zone_hashes := {}; salt := {}; iter := {}",
        g_name(&i.q),
        i.qt,
        match &i.soa {
            Some(s) => format!("Some {}", g_name(s)),
            None => "None".into(),
        },
        i.rcode,
        coq_list(i.answers.iter().map(|a| match a {
            Some(l) => format!("Some {}", l),
            None => "None".into(),
        })),
        recs,
        i.soft,
        i.hard,
        tbl,
        g_name(&p.z.apex),
        zone,
        zh,
        g_bytes(&p.z.salt),
        p.z.iter
    )
}

fn self_test() {
    // the independent base32hex agrees with hickory's (data_encoding) on RFC 5155 appendix A
    let n: Nm = vec![b"example".to_vec()];
    let hh = h(&[0xaa, 0xbb, 0xcc, 0xdd], 12, &n);
    assert_eq!(b32(&hh), b"0p9mhaveqvm6t7vbl5lop2u3t2rp3tom".to_vec());
    let x = NSEC3::new(Nsec3HashAlgorithm::SHA1, false, 0, vec![], hh.clone(), []);
    assert_eq!(x.next_hashed_owner_name_base32().unwrap().as_bytes(), &b32(&hh)[..]);
    let _ = LABELS;
}

fn main() {
    quiet_panics();
    let args = parse_args();
    self_test();
    let rt = tokio::runtime::Builder::new_current_thread().enable_all().build().unwrap();
    if let Some((seed, index)) = args.replay {
        let c = if index >= E2E_BASE { e2e_case(&rt, seed, index) } else { case(seed, index) };
        println!("{}", c.text);
        println!("COQ {}", c.coq);
        if args.extra.contains_key("gallina") {
            if index < E2E_BASE {
                println!("GALLINA {}", gallina(&probe(seed, index)));
            }
        }
        if let Some(f) = c.oracle_fail {
            println!("ORACLE-FAIL {f}");
        }
        return;
    }
    let mut cases = vec![];
    for k in 0..CORPUS.len() as u64 {
        cases.push(case(args.seed, CORPUS_BASE + k));
    }
    for index in 0..args.n {
        cases.push(case(args.seed, index));
    }
    for k in 0..E2E_CORPUS.len() as u64 {
        cases.push(e2e_case(&rt, args.seed, E2E_BASE + E2E_CORPUS_BASE + k));
    }
    // end to end: about one case in eight
    for k in 0..args.n / 8 {
        cases.push(e2e_case(&rt, args.seed, E2E_BASE + k));
    }
    // one shard per parallel coqc of the driver (the fixed cost of a coqc run is loading the libraries)
    if std::env::var("VPH_SHARD").is_err() {
        std::env::set_var("VPH_SHARD", ((cases.len() + 15) / 16).clamp(40, 800).to_string());
    }
    emit(
        "C09",
        "C09",
        &args,
        &cases,
        "one case = one call of verify_nsec3: zone (apex z. or e.t., 0..7 owners of depth <= 3 over labels {a,b,c,*}, delegations with/without DS and glue, DNAME, CNAME, wildcards; salt none/1/4 bytes, iterations 0..5, opt-out on/off) -> genuine NSEC3 chain with real SHA-1 hashes; query names in/around/outside the zone, 13 query types, rcode NOERROR/NXDOMAIN/other, answers none / wildcard-expanded with RRSIG labels genuine or not; NSEC3 list = RFC 5155 7.2 proof, the proof damaged, random subsets, the whole chain, another response's proof; then one damage/configuration family (iteration count or limits at the boundaries, mixed parameters, foreign owner zone, no/other SOA, damaged owner label / next hash / flags / type map, upper case, empty list). Non-trivial = at least one NSEC3; distinct by the whole input.",
        serde_json::json!({}),
    );
}
