//! C04 — domain names: drives the real `Name` / `LowerName` / `RrKey` code.
//! Case families (index % 8): ordering/equality/hash matrices over small batches of related
//! names, constructors/combinators, scalar accessors, to_ascii/from_ascii, from_ascii on
//! generated strings, emit (uncompressed) + read back, Name::read on (compressed / damaged)
//! buffers.  Observation per case = canonical results (Ok name / Err / Panic, bytes, codes).
//! Direct oracles are written against label vectors, independently of the Coq model.

use std::cmp::Ordering;
use std::collections::hash_map::DefaultHasher;
use std::hash::{Hash, Hasher};

use hickory_proto::rr::{Label, LowerName, Name, RecordType, RrKey};
use hickory_proto::serialize::binary::{BinDecodable, BinDecoder, BinEncodable, BinEncoder, NameEncoding};
use vph::*;

// ---------------------------------------------------------------------------- names as data

#[derive(Clone, Debug, PartialEq, Eq)]
struct NM {
    fq: bool,
    labels: Vec<Vec<u8>>,
}

impl NM {
    fn wire_len(&self) -> usize {
        self.labels.iter().map(|l| l.len() + 1).sum::<usize>() + 1
    }
    fn valid(&self) -> bool {
        self.labels.iter().all(|l| (1..=63).contains(&l.len())) && self.wire_len() <= 255
    }
    fn to_name(&self) -> Name {
        assert!(self.valid(), "generator produced an invalid name");
        let mut n = Name::from_labels(self.labels.iter().map(|l| &l[..]))
            .unwrap_or_else(|_| panic!("Name::from_labels rejected labels within the 63/255 limits ({} octets in wire form)", self.wire_len()));
        n.set_fqdn(self.fq);
        n
    }
    fn of(n: &Name) -> NM {
        NM { fq: n.is_fqdn(), labels: n.iter().map(|l| l.to_vec()).collect() }
    }
    fn flat(&self) -> Vec<u8> {
        flat_labels(&self.labels)
    }
    fn coq(&self) -> String {
        format!("(PN {} {})", self.fq as u8, coq_pb(&self.flat()))
    }
    fn text(&self) -> String {
        format!("{}[{}]", if self.fq { "F" } else { "R" }, self.labels.iter().map(|l| hex(l)).collect::<Vec<_>>().join("."))
    }
}

fn flat_labels(ls: &[Vec<u8>]) -> Vec<u8> {
    let mut v = vec![];
    for l in ls {
        v.push(l.len() as u8);
        v.extend_from_slice(l);
    }
    v
}

fn lc(b: u8) -> u8 {
    if (b'A'..=b'Z').contains(&b) {
        b + 32
    } else {
        b
    }
}
fn lc_labels(n: &NM) -> Vec<Vec<u8>> {
    n.labels.iter().map(|l| l.iter().map(|b| lc(*b)).collect()).collect()
}
/// RFC 4034 6.1 key: most significant label first, octets lower-cased; Vec<Vec<u8>>'s own
/// ordering is the left-justified one (a proper prefix sorts first)
fn canon_key(n: &NM) -> Vec<Vec<u8>> {
    let mut k = lc_labels(n);
    k.reverse();
    k
}
fn spec_cmp(a: &NM, b: &NM) -> Ordering {
    a.fq.cmp(&b.fq).then_with(|| canon_key(a).cmp(&canon_key(b)))
}
fn spec_eq(a: &NM, b: &NM) -> bool {
    a.fq == b.fq && lc_labels(a) == lc_labels(b)
}

fn hash_of<T: Hash>(t: &T) -> u64 {
    let mut h = DefaultHasher::new();
    t.hash(&mut h);
    h.finish()
}

// ---------------------------------------------------------------------------- generators

const ALPHA: &[u8] = b"aAbBzZmM09*-_.\\ @[`{\x00\x01\x1f\x7f\x80\xc1\xe1\xff";
const HOST: &[u8] = b"abcxyzABCXYZ0189-_.*";

fn gen_byte(r: &mut Rng) -> u8 {
    match r.below(10) {
        0..=6 => *r.pick(ALPHA),
        7 | 8 => *r.pick(b"abcdefghijklmnopqrstuvwxyz0123456789"),
        _ => r.next() as u8,
    }
}

fn gen_label(r: &mut Rng) -> Vec<u8> {
    let len = match r.below(20) {
        0..=11 => r.range(1, 4),
        12..=16 => r.range(5, 12),
        17 | 18 => r.range(60, 63),
        _ => r.range(13, 59),
    } as usize;
    (0..len).map(|_| gen_byte(r)).collect()
}

fn gen_host_label(r: &mut Rng) -> Vec<u8> {
    let len = match r.below(10) {
        0..=7 => r.range(1, 8),
        8 => r.range(9, 30),
        _ => 63,
    } as usize;
    let mut v: Vec<u8> = vec![];
    for i in 0..len {
        loop {
            let b = *r.pick(HOST);
            if (b == b'-' && i == 0) || (b == b'*' && i != 0) {
                continue;
            }
            v.push(b);
            break;
        }
    }
    v
}

fn is_host_label(l: &[u8]) -> bool {
    !l.is_empty()
        && l.iter().enumerate().all(|(i, b)| {
            b.is_ascii_alphanumeric() || *b == b'_' || *b == b'.' || (*b == b'-' && i != 0) || (*b == b'*' && i == 0)
        })
}

/// drop labels from the front until the name fits in 255 octets
fn fit(mut n: NM) -> NM {
    while n.wire_len() > 255 {
        n.labels.remove(0);
    }
    n
}

fn gen_name(r: &mut Rng) -> NM {
    let fq = r.chance(2, 3);
    let labels = match r.below(20) {
        0..=9 => {
            let k = r.range(0, 4);
            (0..k).map(|_| gen_label(r)).collect()
        }
        10..=12 => {
            let k = r.range(1, 5);
            (0..k).map(|_| gen_host_label(r)).collect()
        }
        13 | 14 => {
            // many short labels
            let k = r.range(20, 127);
            (0..k).map(|_| vec![gen_byte(r)]).collect()
        }
        15..=17 => {
            // close to the 255 limit: total wire length 253, 254 or 255
            let target = r.range(253, 255) as usize;
            let mut ls: Vec<Vec<u8>> = vec![];
            let mut used = 1usize;
            while used < target {
                let room = target - used; // includes the length octet
                if room == 1 {
                    // cannot place a label of length 0: grow the previous one if possible
                    match ls.last_mut() {
                        Some(l) if l.len() < 63 => l.push(gen_byte(r)),
                        _ => {}
                    }
                    break;
                }
                let max = (room - 1).min(63);
                let len = if r.chance(1, 2) { max } else { r.range(1, max as u64) as usize };
                ls.push((0..len).map(|_| gen_byte(r)).collect());
                used += len + 1;
            }
            ls
        }
        18 => vec![],
        _ => {
            let k = r.range(5, 12);
            (0..k).map(|_| gen_label(r)).collect()
        }
    };
    fit(NM { fq, labels })
}

/// a name related to `base` (case variant, prefix, neighbour, boundary shift, ...)
fn variant(r: &mut Rng, base: &NM) -> NM {
    let mut n = base.clone();
    match r.below(12) {
        0 | 1 => {
            // flip the case bit of some octets (letters or not)
            for l in n.labels.iter_mut() {
                for b in l.iter_mut() {
                    if r.chance(1, 3) {
                        if b.is_ascii_alphabetic() || r.chance(1, 6) {
                            *b ^= 0x20;
                        }
                    }
                }
            }
        }
        2 => n.fq = !n.fq,
        3 => {
            if !n.labels.is_empty() {
                n.labels.remove(0);
            }
        }
        4 => n.labels.insert(0, gen_label(r)),
        5 => {
            // neighbouring octet value
            if !n.labels.is_empty() {
                let i = r.below(n.labels.len() as u64) as usize;
                let j = r.below(n.labels[i].len() as u64) as usize;
                let b = n.labels[i][j];
                n.labels[i][j] = match r.below(4) {
                    0 => b.wrapping_add(1),
                    1 => b.wrapping_sub(1),
                    2 => b ^ 0x20,
                    _ => b ^ 0x80,
                };
            }
        }
        6 => {
            // shorten or extend one label at its end
            if !n.labels.is_empty() {
                let i = r.below(n.labels.len() as u64) as usize;
                if r.chance(1, 2) && n.labels[i].len() > 1 {
                    n.labels[i].pop();
                } else if n.labels[i].len() < 63 {
                    let b = if r.chance(1, 2) { 0 } else { gen_byte(r) };
                    n.labels[i].push(b);
                }
            }
        }
        7 => {
            // move a label boundary: same octet stream, different labels
            if n.labels.len() >= 2 {
                let i = r.below(n.labels.len() as u64 - 1) as usize;
                if n.labels[i].len() > 1 && n.labels[i + 1].len() < 63 {
                    let b = n.labels[i].pop().unwrap();
                    n.labels[i + 1].insert(0, b);
                } else if n.labels[i + 1].len() > 1 && n.labels[i].len() < 63 {
                    let b = n.labels[i + 1].remove(0);
                    n.labels[i].push(b);
                }
            }
        }
        8 => {
            // drop the last (most significant) label
            n.labels.pop();
        }
        9 => {
            // swap two labels
            if n.labels.len() >= 2 {
                let i = r.below(n.labels.len() as u64) as usize;
                let j = r.below(n.labels.len() as u64) as usize;
                n.labels.swap(i, j);
            }
        }
        10 => return gen_name(r),
        _ => {}
    }
    fit(n)
}

// ---------------------------------------------------------------------------- results

#[derive(Clone, Debug, PartialEq)]
enum Res {
    Ok(NM),
    Err,
    Panic(String),
}
impl Res {
    fn coq(&self) -> String {
        match self {
            Res::Ok(n) => format!("(POk {})", n.coq()),
            Res::Err => "PErr".into(),
            Res::Panic(_) => "PPanic".into(),
        }
    }
    fn text(&self) -> String {
        match self {
            Res::Ok(n) => format!("Ok {}", n.text()),
            Res::Err => "Err".into(),
            Res::Panic(p) => format!("PANIC {p}"),
        }
    }
}

fn run<E>(f: impl FnOnce() -> Result<Name, E> + std::panic::UnwindSafe) -> Res {
    match guard(f) {
        Ok(Ok(n)) => Res::Ok(NM::of(&n)),
        Ok(Err(_)) => Res::Err,
        Err(p) => Res::Panic(p),
    }
}

/// the length limits, on any produced name
fn limits(n: &NM) -> Option<String> {
    if let Some(l) = n.labels.iter().find(|l| l.is_empty() || l.len() > 63) {
        return Some(format!("label of {} octets in result {}", l.len(), n.text()));
    }
    if n.wire_len() > 255 {
        return Some(format!("name of {} octets in result {}", n.wire_len(), n.text()));
    }
    None
}

fn out(seed: u64, index: u64, kind: &str, coq: String, input: String, obs: String, nontrivial: bool, fail: Option<String>) -> CaseOut {
    CaseOut {
        index,
        coq,
        text: format!("seed={seed} index={index} {kind} {input} => {obs}"),
        key: format!("{kind} {input}"),
        nontrivial,
        kind: kind.to_string(),
        oracle_fail: fail,
        known: None,
    }
}

// ---------------------------------------------------------------------------- COrd

fn ord_code(o: Ordering) -> u8 {
    match o {
        Ordering::Less => 0,
        Ordering::Equal => 1,
        Ordering::Greater => 2,
    }
}

fn ord_case(seed: u64, index: u64, r: &mut Rng) -> CaseOut {
    let k = r.range(3, 5) as usize;
    let base = gen_name(r);
    let mut ns = vec![base.clone()];
    while ns.len() < k {
        let from = r.below(ns.len() as u64) as usize;
        let src = ns[from].clone();
        let v = variant(r, &src);
        ns.push(v);
    }
    let input = ns.iter().map(|n| n.text()).collect::<Vec<_>>().join(" ");
    let ns2 = ns.clone();
    let mut extra: Vec<NM> = ns.clone();
    while extra.len() < 10 {
        let from = r.below(extra.len() as u64) as usize;
        let src = extra[from].clone();
        let v = variant(r, &src);
        extra.push(v);
    }
    let extra2 = extra;
    let obs = guard(move || {
        let names: Vec<Name> = ns2.iter().map(|n| n.to_name()).collect();
        let lnames: Vec<LowerName> = names.iter().map(LowerName::new).collect();
        let mut m = vec![];
        let mut fails: Vec<String> = vec![];
        let k = names.len();
        let c = |i: usize, j: usize| names[i].cmp(&names[j]);
        for i in 0..k {
            for j in 0..k {
                let (a, b) = (&names[i], &names[j]);
                let cmp = a.cmp(b);
                let eq = a == b;
                let heq = hash_of(a) == hash_of(b);
                let lcmp = lnames[i].cmp(&lnames[j]);
                let leq = lnames[i] == lnames[j];
                let lheq = hash_of(&lnames[i]) == hash_of(&lnames[j]);
                m.push(ord_code(cmp) | (eq as u8) << 2 | (heq as u8) << 3 | ord_code(lcmp) << 4 | (leq as u8) << 6 | (lheq as u8) << 7);
                let what = format!("{} vs {}", ns2[i].text(), ns2[j].text());
                // equality ignores ASCII case and nothing else
                if eq != spec_eq(&ns2[i], &ns2[j]) {
                    fails.push(format!("eq={eq} but octets/flags say {}: {what}", !eq));
                }
                // order = RFC 4034 6.1 (relative names before absolute ones)
                if cmp != spec_cmp(&ns2[i], &ns2[j]) {
                    fails.push(format!("cmp={cmp:?} but canonical order says {:?}: {what}", spec_cmp(&ns2[i], &ns2[j])));
                }
                if (cmp == Ordering::Equal) != eq {
                    fails.push(format!("cmp={cmp:?} inconsistent with eq={eq}: {what}"));
                }
                if a.partial_cmp(b) != Some(cmp) {
                    fails.push(format!("partial_cmp differs from cmp: {what}"));
                }
                if eq && !heq {
                    fails.push(format!("equal names hash differently: {what}"));
                }
                if cmp != c(j, i).reverse() {
                    fails.push(format!("cmp not antisymmetric: {what}"));
                }
                if lcmp != cmp || leq != eq {
                    fails.push(format!("LowerName cmp/eq ({lcmp:?},{leq}) differ from Name's ({cmp:?},{eq}): {what}"));
                }
                if leq && !lheq {
                    fails.push(format!("equal LowerNames hash differently: {what}"));
                }
                // RrKey: name first, then type
                for (t1, t2) in [(RecordType::A, RecordType::A), (RecordType::A, RecordType::NS), (RecordType::NS, RecordType::A)] {
                    let k1 = RrKey::new(lnames[i].clone(), t1);
                    let k2 = RrKey::new(lnames[j].clone(), t2);
                    let want = cmp.then(t1.cmp(&t2));
                    if k1.cmp(&k2) != want {
                        fails.push(format!("RrKey order {:?} differs from (name,type) order {want:?}: {what}", k1.cmp(&k2)));
                    }
                    if (k1 == k2) != (eq && t1 == t2) {
                        fails.push(format!("RrKey eq differs from (name,type) eq: {what}"));
                    }
                }
            }
            if c(i, i) != Ordering::Equal {
                fails.push(format!("cmp not reflexive on {}", ns2[i].text()));
            }
        }
        for i in 0..k {
            for j in 0..k {
                for l in 0..k {
                    if c(i, j) != Ordering::Greater && c(j, l) != Ordering::Greater && c(i, l) == Ordering::Greater {
                        fails.push(format!("cmp not transitive: {} <= {} <= {} but first > last", ns2[i].text(), ns2[j].text(), ns2[l].text()));
                    }
                }
            }
        }
        // a wider sweep of the same laws on the implementation only (not shipped to the model)
        let xs: Vec<Name> = extra2.iter().map(|n| n.to_name()).collect();
        let e = xs.len();
        let mut cm = vec![Ordering::Equal; e * e];
        for i in 0..e {
            for j in 0..e {
                let cmp = xs[i].cmp(&xs[j]);
                cm[i * e + j] = cmp;
                let eq = xs[i] == xs[j];
                let what = format!("{} vs {}", extra2[i].text(), extra2[j].text());
                if cmp != spec_cmp(&extra2[i], &extra2[j]) {
                    fails.push(format!("cmp={cmp:?} but canonical order says {:?}: {what}", spec_cmp(&extra2[i], &extra2[j])));
                }
                if eq != spec_eq(&extra2[i], &extra2[j]) || eq != (cmp == Ordering::Equal) {
                    fails.push(format!("eq={eq} cmp={cmp:?} but octets/flags say eq={}: {what}", spec_eq(&extra2[i], &extra2[j])));
                }
                if eq && hash_of(&xs[i]) != hash_of(&xs[j]) {
                    fails.push(format!("equal names hash differently: {what}"));
                }
            }
        }
        for i in 0..e {
            for j in 0..e {
                if cm[i * e + j] != cm[j * e + i].reverse() {
                    fails.push(format!("cmp not antisymmetric: {} vs {}", extra2[i].text(), extra2[j].text()));
                }
                for l in 0..e {
                    if cm[i * e + j] != Ordering::Greater && cm[j * e + l] != Ordering::Greater && cm[i * e + l] == Ordering::Greater {
                        fails.push(format!("cmp not transitive: {} <= {} <= {} but first > last", extra2[i].text(), extra2[j].text(), extra2[l].text()));
                    }
                }
            }
        }
        // sorting with the implementation's order gives the canonical order
        let mut idx: Vec<usize> = (0..e).collect();
        idx.sort_by(|&i, &j| xs[i].cmp(&xs[j]));
        if idx.windows(2).any(|w| spec_cmp(&extra2[w[0]], &extra2[w[1]]) == Ordering::Greater) {
            fails.push("sorting a list of names with Name::cmp does not give canonical order".into());
        }
        (m, fails)
    });
    let nontrivial = ns.iter().filter(|n| !n.labels.is_empty()).count() >= 2;
    match obs {
        Ok((m, fails)) => out(
            seed,
            index,
            "ord",
            format!("COrd {} {}", coq_list(ns.iter().map(|n| n.coq())), coq_pb(&m)),
            input,
            hex(&m),
            nontrivial,
            fails.into_iter().next(),
        ),
        Err(p) => out(seed, index, "ord", format!("COrd {} (PB 0 [])", coq_list(ns.iter().map(|n| n.coq()))), input, format!("PANIC {p}"), nontrivial, Some(format!("implementation panicked: {p}"))),
    }
}

// ---------------------------------------------------------------------------- COp

fn gen_raw_label(r: &mut Rng) -> Vec<u8> {
    match r.below(12) {
        0 => vec![],
        1 => {
            let n = r.range(64, 70) as usize;
            (0..n).map(|_| gen_byte(r)).collect()
        }
        2 => vec![b'*'],
        _ => gen_label(r),
    }
}

fn op_case(seed: u64, index: u64, r: &mut Rng) -> CaseOut {
    let op = r.below(9);
    let a = gen_name(r);
    // second operand: a name, or (ops 0,1,2) a list of raw labels, possibly invalid
    let raws: Vec<Vec<u8>> = match op {
        0 => {
            if r.chance(1, 3) {
                let mut v = gen_name(r).labels;
                if r.chance(1, 3) {
                    let i = r.below(v.len() as u64 + 1) as usize;
                    v.insert(i, gen_raw_label(r));
                }
                v
            } else {
                let k = r.range(0, 6);
                (0..k).map(|_| if r.chance(1, 8) { gen_raw_label(r) } else { gen_label(r) }).collect()
            }
        }
        1 | 2 => vec![gen_raw_label(r)],
        _ => vec![],
    };
    let b = match op {
        0..=2 => NM { fq: false, labels: raws.clone() },
        3 | 4 => {
            // often make the sum land around the limit
            let mut b = gen_name(r);
            if r.chance(1, 2) {
                let room = 255usize.saturating_sub(a.wire_len());
                let want = (room as i64 + r.range(0, 4) as i64 - 2).max(0) as usize; // octets to add (labels + length octets)
                let mut ls = vec![];
                let mut used = 0;
                while used + 2 <= want {
                    let len = (want - used - 1).min(63).min(r.range(1, 63) as usize).max(1);
                    ls.push((0..len).map(|_| gen_byte(r)).collect::<Vec<u8>>());
                    used += len + 1;
                }
                b = fit(NM { fq: b.fq, labels: ls });
            }
            b
        }
        _ => NM { fq: false, labels: vec![] },
    };
    let k = if op == 7 { r.range(0, a.labels.len() as u64 + 2) } else { 0 };
    let (a2, b2) = (a.clone(), b.clone());
    let res = match op {
        0 => run(move || Name::from_labels(b2.labels.iter().map(|l| &l[..]))),
        1 => run(move || a2.to_name().append_label(&b2.labels[0][..])),
        2 => run(move || a2.to_name().prepend_label(&b2.labels[0][..])),
        3 => run(move || a2.to_name().append_name(&b2.to_name())),
        4 => run(move || a2.to_name().append_domain(&b2.to_name())),
        5 => run(move || Ok::<_, ()>(a2.to_name().to_lowercase())),
        6 => run(move || Ok::<_, ()>(a2.to_name().base_name())),
        7 => run(move || Ok::<_, ()>(a2.to_name().trim_to(k as usize))),
        _ => run(move || Ok::<_, ()>(a2.to_name().into_wildcard())),
    };
    // oracle: limits on every result, no panic, and the expected value of the combinator
    let mut fail = match &res {
        Res::Ok(n) => limits(n),
        Res::Panic(p) => Some(format!("implementation panicked: {p}")),
        Res::Err => None,
    };
    let raw_valid = |l: &Vec<u8>| (1..=63).contains(&l.len());
    // expected labels (None = must be Err), expected fqdn (None = not asserted)
    let expect: Option<(Option<Vec<Vec<u8>>>, Option<bool>)> = match op {
        0 => Some(if b.labels.iter().all(raw_valid) && b.wire_len() <= 255 { (Some(b.labels.clone()), Some(true)) } else { (None, None) }),
        1 => Some(if raw_valid(&b.labels[0]) && a.wire_len() + b.labels[0].len() + 1 <= 255 {
            let mut l = a.labels.clone();
            l.push(b.labels[0].clone());
            (Some(l), Some(a.fq))
        } else {
            (None, None)
        }),
        2 => Some(if raw_valid(&b.labels[0]) && a.wire_len() + b.labels[0].len() + 1 <= 255 {
            let mut l = vec![b.labels[0].clone()];
            l.extend(a.labels.iter().cloned());
            (Some(l), Some(a.fq))
        } else {
            (None, None)
        }),
        3 | 4 => Some(if a.wire_len() + b.wire_len() - 1 <= 255 {
            let mut l = a.labels.clone();
            l.extend(b.labels.iter().cloned());
            (Some(l), Some(if op == 4 { true } else { b.fq }))
        } else {
            (None, None)
        }),
        5 => Some((Some(lc_labels(&a)), Some(a.fq))),
        6 => Some((Some(a.labels.iter().skip(1).cloned().collect()), None)),
        7 => Some((Some(a.labels.iter().skip(a.labels.len().saturating_sub(k as usize)).cloned().collect()), None)),
        _ => Some(if a.labels.is_empty() {
            (Some(vec![]), Some(true))
        } else {
            let mut l = vec![vec![b'*']];
            l.extend(a.labels.iter().skip(1).cloned());
            (Some(l), Some(a.fq))
        }),
    };
    if fail.is_none() {
        if let Some((labels, fq)) = expect {
            match (&res, labels) {
                (Res::Ok(n), Some(l)) => {
                    if n.labels != l {
                        fail = Some(format!("op {op}: labels of the result differ from the expected {}", NM { fq: n.fq, labels: l }.text()));
                    } else if fq.is_some_and(|f| f != n.fq) {
                        fail = Some(format!("op {op}: is_fqdn of the result is {}", n.fq));
                    }
                }
                (Res::Ok(_), None) => fail = Some(format!("op {op}: accepted although a label/name limit is exceeded")),
                (Res::Err, Some(_)) => fail = Some(format!("op {op}: rejected although all limits are met")),
                _ => {}
            }
        }
    }
    const NAMES: [&str; 9] = ["from_labels", "append_label", "prepend_label", "append_name", "append_domain", "to_lowercase", "base_name", "trim_to", "into_wildcard"];
    out(
        seed,
        index,
        &format!("op-{}", NAMES[op as usize]),
        format!("COp {op} {} {} {k} {}", a.coq(), b.coq(), res.coq()),
        format!("a={} b={} k={k}", a.text(), b.text()),
        res.text(),
        !a.labels.is_empty() || !b.labels.is_empty(),
        fail,
    )
}

// ---------------------------------------------------------------------------- CScalar

fn scalar_case(seed: u64, index: u64, r: &mut Rng) -> CaseOut {
    let b = gen_name(r);
    // a: often a suffix of b (possibly with other case), so that zone_of is true sometimes
    let a = match r.below(4) {
        0 => gen_name(r),
        1 => {
            let skip = r.below(b.labels.len() as u64 + 1) as usize;
            let n = NM { fq: b.fq, labels: b.labels[skip..].to_vec() };
            variant(r, &n)
        }
        2 => {
            let mut n = b.clone();
            if !n.labels.is_empty() {
                n.labels[0] = vec![b'*'];
            }
            n
        }
        _ => {
            let skip = r.below(b.labels.len() as u64 + 1) as usize;
            NM { fq: r.chance(1, 2), labels: b.labels[skip..].to_vec() }
        }
    };
    let (a2, b2) = (a.clone(), b.clone());
    let obs = guard(move || {
        let (x, y) = (a2.to_name(), b2.to_name());
        let v: u64 = x.num_labels() as u64
            | (x.is_wildcard() as u64) << 8
            | (x.is_root() as u64) << 9
            | (x.zone_of(&y) as u64) << 10
            | (x.zone_of_case(&y) as u64) << 11
            | (x.eq_ignore_root(&y) as u64) << 12
            | (ord_code(x.cmp_case(&y)) as u64) << 13
            | (x.len() as u64) << 16;
        // Label's own Ord / PartialEq / Hash on the first labels
        let lab = match (a2.labels.first(), b2.labels.first()) {
            (Some(l), Some(m)) => {
                let (l, m) = (Label::from_raw_bytes(l).unwrap(), Label::from_raw_bytes(m).unwrap());
                ord_code(l.cmp(&m)) as u64 | ((l == m) as u64) << 2 | ((hash_of(&l) == hash_of(&m)) as u64) << 3
            }
            _ => 0,
        };
        v | lab << 32
    });
    let mut fail = None;
    if let Ok(v) = &obs {
        let wild = a.labels.first().is_some_and(|l| l == b"*");
        let n = a.labels.len() as u64 - wild as u64;
        let suffix = |ci: bool| {
            a.labels.len() <= b.labels.len()
                && a.labels.iter().rev().zip(b.labels.iter().rev()).all(|(x, y)| if ci { x.eq_ignore_ascii_case(y) } else { x == y })
        };
        let len = a.labels.iter().map(|l| l.len()).sum::<usize>() + a.labels.len().max(1);
        if v & 0xff != n {
            fail = Some(format!("num_labels = {}", v & 0xff));
        } else if (v >> 8) & 1 != wild as u64 {
            fail = Some("is_wildcard wrong".into());
        } else if (v >> 10) & 1 != suffix(true) as u64 {
            fail = Some(format!("zone_of = {} but suffix relation is {}", (v >> 10) & 1, suffix(true)));
        } else if (v >> 11) & 1 != suffix(false) as u64 {
            fail = Some(format!("zone_of_case = {} but suffix relation is {}", (v >> 11) & 1, suffix(false)));
        } else if (v >> 16) & 0xffff != len as u64 {
            fail = Some(format!("len() = {} expected {len}", (v >> 16) & 0xffff));
        } else if let (Some(l), Some(m)) = (a.labels.first(), b.labels.first()) {
            let (ll, lm): (Vec<u8>, Vec<u8>) = (l.iter().map(|x| lc(*x)).collect(), m.iter().map(|x| lc(*x)).collect());
            let lab = v >> 32;
            if lab & 3 != ord_code(ll.cmp(&lm)) as u64 {
                fail = Some("Label::cmp differs from the left-justified order of the lower-cased octets".into());
            } else if (lab >> 2) & 1 != (ll == lm) as u64 {
                fail = Some("Label::eq differs from equality of the lower-cased octets".into());
            } else if ll == lm && (lab >> 3) & 1 == 0 {
                fail = Some("equal Labels hash differently".into());
            }
        }
    }
    match obs {
        Ok(v) => out(seed, index, "scalar", format!("CScalar {} {} {v}", a.coq(), b.coq()), format!("a={} b={}", a.text(), b.text()), format!("{v:#x}"), !a.labels.is_empty(), fail),
        Err(p) => out(seed, index, "scalar", format!("CScalar {} {} 4294967295", a.coq(), b.coq()), format!("a={} b={}", a.text(), b.text()), format!("PANIC {p}"), true, Some(format!("implementation panicked: {p}"))),
    }
}

// ---------------------------------------------------------------------------- CText / CParse

fn text_case(seed: u64, index: u64, r: &mut Rng) -> CaseOut {
    let a = if r.chance(1, 2) {
        let k = r.range(0, 5);
        let mut n = NM { fq: r.chance(1, 2), labels: (0..k).map(|_| gen_host_label(r)).collect() };
        if r.chance(1, 4) && !n.labels.is_empty() {
            // spoil one octet
            let i = r.below(n.labels.len() as u64) as usize;
            let j = r.below(n.labels[i].len() as u64) as usize;
            n.labels[i][j] = gen_byte(r);
        }
        fit(n)
    } else {
        gen_name(r)
    };
    let a2 = a.clone();
    let obs = guard(move || {
        let n = a2.to_name();
        let txt = n.to_ascii();
        let t2 = txt.clone();
        let back = run(move || Name::from_ascii(&t2));
        // same through Label::to_ascii, label by label
        let per_label: Vec<String> = a2.labels.iter().map(|l| Label::from_raw_bytes(l).unwrap().to_ascii()).collect();
        (txt, back, per_label)
    });
    let host = a.labels.iter().all(|l| is_host_label(l));
    match obs {
        Ok((txt, back, per_label)) => {
            let mut fail = None;
            if !txt.bytes().all(|b| (0x21..0x7f).contains(&b)) {
                fail = Some(format!("to_ascii produced a non-printable or non-ASCII character: {txt:?}"));
            }
            let joined = per_label.join(".") + if a.fq { "." } else { "" };
            if fail.is_none() && joined != txt {
                fail = Some(format!("Name::to_ascii {txt:?} differs from the labels' to_ascii joined by dots {joined:?}"));
            }
            if fail.is_none() {
                match &back {
                    Res::Ok(n) if *n == a => {}
                    Res::Ok(n) => fail = Some(format!("to_ascii {txt:?} parses back to a different name {}", n.text())),
                    Res::Err if host => fail = Some(format!("host-style name is not accepted back from its own text {txt:?}")),
                    Res::Err => {}
                    Res::Panic(p) => fail = Some(format!("from_ascii panicked on {txt:?}: {p}")),
                }
            }
            out(
                seed,
                index,
                if host { "text-host" } else { "text-other" },
                format!("CText {} {} {}", a.coq(), coq_pb(txt.as_bytes()), back.coq()),
                format!("a={}", a.text()),
                format!("{txt:?} -> {}", back.text()),
                !a.labels.is_empty(),
                fail,
            )
        }
        Err(p) => out(seed, index, "text-other", format!("CText {} (PB 0 []) PPanic", a.coq()), format!("a={}", a.text()), format!("PANIC {p}"), true, Some(format!("to_ascii panicked: {p}"))),
    }
}

fn gen_text(r: &mut Rng) -> String {
    let mut s = String::new();
    let style = r.below(8);
    if style == 0 {
        // label-count / length boundaries
        let k = r.range(120, 130);
        for _ in 0..k {
            s.push(*r.pick(&['a', 'B', '0', '_']));
            s.push('.');
        }
        if r.chance(1, 2) {
            s.pop();
        }
        return s;
    }
    if style == 1 {
        // labels of 62..65 characters, total near 255
        let k = r.range(1, 4);
        for i in 0..k {
            let n = r.range(61, 65);
            for _ in 0..n {
                s.push(*r.pick(&['a', 'Z', '9', '-', '_']));
            }
            if i + 1 < k || r.chance(1, 2) {
                s.push('.');
            }
        }
        if r.chance(1, 3) {
            s.push_str("\\.tail");
        }
        return s;
    }
    let n = r.range(0, 14);
    for _ in 0..n {
        match r.below(24) {
            0..=8 => s.push(*r.pick(&['a', 'b', 'z', 'A', 'Z', '0', '7', '8', '9', 'x'])),
            9..=11 => s.push('.'),
            12 => s.push('-'),
            13 => s.push('_'),
            14 => s.push('*'),
            15 => s.push_str("\\."),
            16 => {
                // \DDD with arbitrary digits (8 and 9 are rejected, > 177 is non-ASCII)
                s.push('\\');
                for _ in 0..r.range(1, 3) {
                    s.push(*r.pick(&['0', '1', '2', '3', '4', '5', '6', '7', '8', '9']));
                }
            }
            17 => {
                s.push('\\');
                s.push(*r.pick(&['\\', '-', '*', 'a', '!', '@', ' ', '\t', '\u{7f}']));
            }
            18 => s.push(*r.pick(&['!', '@', '#', '/', ':', '~', '"', '(', ')', ';', '$'])),
            19 => s.push(*r.pick(&[' ', '\t', '\n', '\u{0}', '\u{1f}', '\u{7f}'])),
            20 => s.push(*r.pick(&['é', '\u{85}', '\u{a0}', '٣', '♥', '\u{80}'])),
            21 => s.push_str(".."),
            22 => s.push('\\'),
            _ => s.push_str(*r.pick(&["www", "example", "com", "xn--g6h", "_tcp", "\\052", "\\056", "\\141"])),
        }
    }
    s
}

fn parse_case(seed: u64, index: u64, r: &mut Rng) -> CaseOut {
    let s = gen_text(r);
    let s2 = s.clone();
    let res = run(move || Name::from_ascii(&s2));
    let mut fail = match &res {
        Res::Ok(n) => limits(n),
        Res::Panic(p) => Some(format!("from_ascii panicked: {p}")),
        Res::Err => None,
    };
    if fail.is_none() {
        if let Res::Ok(n) = &res {
            // an accepted name is stable under to_ascii / from_ascii
            let n2 = n.clone();
            let again = run(move || Name::from_ascii(n2.to_name().to_ascii()));
            if again != Res::Ok(n.clone()) {
                fail = Some(format!("parsed name {} does not survive to_ascii/from_ascii: {}", n.text(), again.text()));
            }
        }
    }
    out(
        seed,
        index,
        if matches!(res, Res::Ok(_)) { "parse-ok" } else { "parse-err" },
        format!("CParse {} {}", coq_pb(s.as_bytes()), res.coq()),
        format!("s={:?}", s),
        res.text(),
        s.len() >= 2,
        fail,
    )
}

// ---------------------------------------------------------------------------- CEmit / CRead

fn emit_one(n: &Name, enc: NameEncoding, prefix: &[u8]) -> Result<Vec<u8>, ()> {
    let mut buf = Vec::new();
    let mut e = BinEncoder::new(&mut buf);
    e.emit_slice(prefix).map_err(|_| ())?;
    e.name_encoding = enc;
    n.emit(&mut e).map_err(|_| ())?;
    drop(e);
    Ok(buf[prefix.len()..].to_vec())
}

fn read_at(buf: &[u8], off: usize) -> (Res, usize) {
    let b = buf.to_vec();
    let r = guard(move || {
        let mut d = BinDecoder::new(&b).clone(off as u16);
        let r = Name::read(&mut d);
        (r.map(|n| NM::of(&n)).map_err(|_| ()), d.index())
    });
    match r {
        Ok((Ok(n), i)) => (Res::Ok(n), i),
        Ok((Err(_), i)) => (Res::Err, i),
        Err(p) => (Res::Panic(p), 0),
    }
}

fn emit_case(seed: u64, index: u64, r: &mut Rng) -> CaseOut {
    let a = gen_name(r);
    let lower = r.chance(1, 4);
    let plen = *r.pick(&[0usize, 1, 12, 13, 300]);
    let prefix = r.bytes(plen);
    let (a2, p2) = (a.clone(), prefix.clone());
    let enc = guard(move || emit_one(&a2.to_name(), if lower { NameEncoding::UncompressedLowercase } else { NameEncoding::Uncompressed }, &p2));
    let mut fail = None;
    let expect_labels = if lower { lc_labels(&a) } else { a.labels.clone() };
    let mut expect = flat_labels(&expect_labels);
    expect.push(0);
    let (coq_enc, obs) = match &enc {
        Ok(Ok(bytes)) => {
            if *bytes != expect {
                fail = Some(format!("wire form {} is not the length-prefixed labels {}", hex(bytes), hex(&expect)));
            } else {
                // decode it back inside a larger buffer
                let mut buf = prefix.clone();
                buf.extend_from_slice(bytes);
                buf.extend(r.bytes(3));
                let (back, used) = read_at(&buf, prefix.len());
                let want = NM { fq: true, labels: expect_labels.clone() };
                if back != Res::Ok(want) {
                    fail = Some(format!("emit then read at offset {} gives {}", prefix.len(), back.text()));
                } else if used != prefix.len() + bytes.len() {
                    fail = Some(format!("read consumed up to {used}, name ends at {}", prefix.len() + bytes.len()));
                }
            }
            (format!("(Some {})", coq_pb(bytes)), hex(bytes))
        }
        Ok(Err(_)) => {
            fail = Some("emit of a valid name failed".into());
            ("None".to_string(), "Err".to_string())
        }
        Err(p) => {
            fail = Some(format!("emit panicked: {p}"));
            ("None".to_string(), format!("PANIC {p}"))
        }
    };
    out(
        seed,
        index,
        if lower { "emit-lower" } else { "emit" },
        format!("CEmit {} {} {coq_enc}", a.coq(), lower as u8),
        format!("a={} prefix={}", a.text(), plen),
        obs,
        !a.labels.is_empty(),
        fail,
    )
}

fn read_case(seed: u64, index: u64, r: &mut Rng) -> CaseOut {
    // a message-like buffer: random prefix, then several names written with compression
    let plen = *r.pick(&[0usize, 2, 12, 40]);
    let prefix = r.bytes(plen);
    let k = r.range(1, 4) as usize;
    let mut ns: Vec<NM> = vec![];
    for i in 0..k {
        let mut n = if i > 0 && r.chance(2, 3) {
            // share a suffix with an earlier name so that pointers appear
            let src = ns[r.below(i as u64) as usize].clone();
            let skip = r.below(src.labels.len() as u64 + 1) as usize;
            let mut l: Vec<Vec<u8>> = (0..r.range(0, 2)).map(|_| gen_label(r)).collect();
            l.extend(src.labels[skip..].iter().cloned());
            NM { fq: true, labels: l }
        } else {
            gen_name(r)
        };
        if n.wire_len() > 120 && r.chance(2, 3) {
            n.labels.truncate(3);
            for l in n.labels.iter_mut() {
                l.truncate(8);
            }
        }
        ns.push(fit(n));
    }
    let (ns2, p2) = (ns.clone(), prefix.clone());
    let built = guard(move || {
        let mut buf = Vec::new();
        let mut e = BinEncoder::new(&mut buf);
        e.emit_slice(&p2).unwrap();
        let mut offs = vec![];
        for n in &ns2 {
            offs.push(e.len());
            n.to_name().emit(&mut e).map_err(|_| ())?;
        }
        offs.push(e.len());
        drop(e);
        Ok::<_, ()>((buf, offs))
    });
    let (mut buf, offs) = match built {
        Ok(Ok(x)) => x,
        other => {
            let why = format!("compressed emit of valid names failed: {:?}", other.map(|_| ()));
            return out(seed, index, "read-built", "CRead (PB 0 []) 0 PErr 0".into(), ns.iter().map(|n| n.text()).collect::<Vec<_>>().join(" "), "emit failed".into(), true, Some(why));
        }
    };
    let mut fail = None;
    // oracle: every name reads back octet for octet (case included), consuming exactly its bytes
    for (i, n) in ns.iter().enumerate() {
        let (back, used) = read_at(&buf, offs[i]);
        let want = NM { fq: true, labels: n.labels.clone() };
        if back != Res::Ok(want) {
            fail = Some(format!("name {} written (compressed) at {} reads back as {}", n.text(), offs[i], back.text()));
            break;
        }
        if used != offs[i + 1] {
            fail = Some(format!("name at {} ends at {} but read stopped at {used}", offs[i], offs[i + 1]));
            break;
        }
    }
    let mut kind = "read-built";
    let mut off = offs[r.below(k as u64) as usize];
    match r.below(6) {
        0 | 1 => {}
        2 => {
            // damage: overwrite some octets (pointer tags, lengths, ...)
            kind = "read-damaged";
            for _ in 0..r.range(1, 3) {
                if !buf.is_empty() {
                    let i = r.below(buf.len() as u64) as usize;
                    buf[i] = *r.pick(&[0u8, 1, 0x3f, 0x40, 0x80, 0xc0, 0xc1, 0xff, 5, 63, 64]);
                }
            }
        }
        3 => {
            kind = "read-truncated";
            let cut = r.below(buf.len() as u64 + 1) as usize;
            buf.truncate(cut);
            off = off.min(buf.len());
        }
        4 => {
            // pointer games: append a pointer to an arbitrary place and read from it
            kind = "read-pointer";
            let target = r.below(buf.len() as u64 + 3) as u16;
            off = buf.len();
            if r.chance(1, 2) {
                buf.push(r.range(1, 3) as u8);
                buf.extend(r.bytes(3));
                buf.truncate(off + 1 + buf[off] as usize);
            }
            buf.push(0xc0 | (target >> 8) as u8);
            buf.push(target as u8);
        }
        _ => {
            kind = "read-anywhere";
            off = r.below(buf.len() as u64 + 2) as usize;
        }
    }
    let (res, used) = if off <= buf.len() { read_at(&buf, off) } else { (Res::Err, 0) };
    if fail.is_none() {
        fail = match &res {
            Res::Ok(n) => limits(n).or(if n.fq { None } else { Some("decoded name is not fully qualified".into()) }),
            Res::Panic(p) => Some(format!("Name::read panicked: {p}")),
            Res::Err => None,
        };
    }
    out(
        seed,
        index,
        kind,
        format!("CRead {} {off} {} {used}", coq_pb(&buf), res.coq()),
        format!("buf={} off={off}", hex(&buf)),
        format!("{} used={used}", res.text()),
        buf.len() > 2,
        fail,
    )
}

// ---------------------------------------------------------------------------- main

fn case(seed: u64, index: u64) -> CaseOut {
    let mut r = Rng::for_case(seed, index);
    match index % 8 {
        0 | 1 => ord_case(seed, index, &mut r),
        2 => op_case(seed, index, &mut r),
        3 => scalar_case(seed, index, &mut r),
        4 => text_case(seed, index, &mut r),
        5 => parse_case(seed, index, &mut r),
        6 => emit_case(seed, index, &mut r),
        _ => read_case(seed, index, &mut r),
    }
}

/// a case that does not finish (e.g. a decoder that no longer terminates) must not hang the check
static CURRENT: std::sync::atomic::AtomicU64 = std::sync::atomic::AtomicU64::new(u64::MAX);
fn watchdog(seed: u64) {
    std::thread::spawn(move || {
        let mut last = (u64::MAX, std::time::Instant::now());
        loop {
            std::thread::sleep(std::time::Duration::from_millis(500));
            let cur = CURRENT.load(std::sync::atomic::Ordering::Relaxed);
            if cur != last.0 {
                last = (cur, std::time::Instant::now());
            } else if cur != u64::MAX && last.1.elapsed().as_secs() >= 30 {
                eprintln!("case seed={seed} index={cur} did not finish within 30 s");
                std::process::exit(3);
            }
        }
    });
}

fn main() {
    quiet_panics();
    let args = parse_args();
    watchdog(args.seed);
    if let Some((seed, index)) = args.replay {
        let c = case(seed, index);
        println!("{}", c.text);
        println!("COQ {}", c.coq);
        if let Some(f) = c.oracle_fail {
            println!("ORACLE-FAIL {f}");
        }
        return;
    }
    let cases: Vec<CaseOut> = (0..args.n)
        .map(|i| {
            CURRENT.store(i, std::sync::atomic::Ordering::Relaxed);
            case(args.seed, i)
        })
        .collect();
    CURRENT.store(u64::MAX, std::sync::atomic::Ordering::Relaxed);
    emit(
        "C04",
        "C04",
        &args,
        &cases,
        "index mod 8: 0,1 = batch of 3..5 related names (plus, oracle only, all pairs and triples of a batch of 10) (case variants, prefixes, neighbouring octets, moved label boundaries, fqdn flips) with the full matrix of cmp/eq/hash for Name, LowerName and RrKey; 2 = one constructor/combinator (from_labels, append_label, prepend_label, append_name, append_domain, to_lowercase, base_name, trim_to, into_wildcard) with operands near the 63/255 limits and invalid raw labels; 3 = scalar accessors and zone_of; 4 = to_ascii then from_ascii (half host-style names); 5 = from_ascii on generated text (escapes, octal, control and non-ASCII characters, length boundaries); 6 = uncompressed emit (+lowercase mode) and read back at an offset; 7 = Name::read on buffers with compressed names, damaged, truncated, pointer games. Names: 0..127 labels over an alphabet with a A b B z Z * - _ . \\ NUL 0x7f 0x80 0xff @ [ ` { digits and random octets, many at wire length 253..255. Non-trivial = at least two non-root names / non-empty operand; distinct by input.",
        serde_json::json!({}),
    );
}
