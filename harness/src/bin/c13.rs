//! C13 — TSIG-authenticated UPDATE / signed-only AXFR against the real `Catalog` +
//! `SqliteZoneHandler`, the real `TSigner::verify_message_byte` / `signed_bitmessage_to_buf`, and the
//! real client-side `TSigVerifier`.
//!
//! One scenario = (server configuration, client key, client clock T, server clock `now`, request
//! bytes).  The request is built by an encoder and an RFC 8945 MAC-input constructor written here,
//! independently of hickory's (HMAC itself is the implementation's), then edited: field edits before
//! or after signing, bit flips, count edits, records after the TSIG record, trailing bytes, clock
//! offsets, unknown / wrongly keyed / wrong-algorithm clients.  Observed: the MAC input the server
//! reconstructs, the verdict of `verify_message_byte`, the reply (rcode, TSIG record), the zone dump
//! before/after, the verdict of the client verifier on the reply, on one modified reply (bit flip,
//! count overflow, duplicated TSIG record, trailing bytes) and on a chained second message signed here
//! (first_message = false).
//!
//! The oracle evaluates the property directly: an effect (zone changed / zone data returned under
//! the signed-only policy) only for requests that are valid by construction; every valid request
//! strictly inside the window is served and its reply verifies at the client; no panic.

use std::net::SocketAddr;
use std::str::FromStr;
use std::sync::atomic::{AtomicU64, Ordering};
use std::sync::Arc;
use std::time::Duration;

use futures_util::StreamExt;
use hickory_net::runtime::Time;
use hickory_net::xfer::Protocol;
use hickory_net::BufDnsStreamHandle;
use hickory_proto::dnssec::DnsSecError;
use hickory_proto::op::{Message, MessageType, OpCode, Query, UpdateMessage};
use hickory_proto::rr::rdata::tsig::{signed_bitmessage_to_buf, TsigAlgorithm};
use hickory_proto::rr::rdata::{A, NS, SOA};
use hickory_proto::rr::{DNSClass, Name, RData, Record, RecordType, TSigner};
use hickory_server::server::{Request, RequestHandler, ResponseHandle};
use hickory_server::store::in_memory::InMemoryZoneHandler;
use hickory_server::store::sqlite::SqliteZoneHandler;
use hickory_server::zone_handler::{AxfrPolicy, Catalog, ZoneType};
use vph::*;

// ---------------------------------------------------------------- clock

static NOW: AtomicU64 = AtomicU64::new(0);

#[derive(Clone, Copy)]
struct FakeTime;

#[async_trait::async_trait]
impl Time for FakeTime {
    async fn delay_for(duration: Duration) {
        tokio::time::sleep(duration).await
    }
    async fn timeout<F: 'static + std::future::Future + Send>(duration: Duration, future: F) -> Result<F::Output, std::io::Error> {
        tokio::time::timeout(duration, future).await.map_err(|_| std::io::Error::new(std::io::ErrorKind::TimedOut, "timeout"))
    }
    fn current_time() -> u64 {
        NOW.load(Ordering::SeqCst)
    }
}

// ---------------------------------------------------------------- keys

#[derive(Clone, Copy)]
struct KeyDef {
    name: &'static str,
    alg: u8, // 0 sha256, 1 sha384, 2 sha512
    secret: &'static [u8],
    fudge: u16,
}

/// the index in this table is the key id of the model
const KEYS: &[KeyDef] = &[
    KeyDef { name: "update-key.example.com.", alg: 0, secret: b"c13-secret-zero-0123456789abcdef", fudge: 300 },
    KeyDef { name: "Other-Key.Example.com.", alg: 2, secret: b"c13-secret-one-0123456789abcdefgh", fudge: 60 },
    KeyDef { name: "update-key.example.com.", alg: 0, secret: b"c13-secret-TWO-0123456789abcdef", fudge: 300 }, // same name, other secret
    KeyDef { name: "update-key.example.com.", alg: 1, secret: b"c13-secret-zero-0123456789abcdef", fudge: 300 }, // same name and secret, other algorithm
    KeyDef { name: "nokey.example.com.", alg: 1, secret: b"c13-secret-four", fudge: 300 },
    KeyDef { name: "k.", alg: 0, secret: b"c13-secret-five", fudge: 65535 },
    KeyDef { name: "UPDATE-KEY.example.COM.", alg: 0, secret: b"c13-secret-zero-0123456789abcdef", fudge: 10 }, // = key 0 in other case, small fudge
];

const SRV_SETS: &[&[usize]] = &[&[0], &[0], &[0, 1], &[1, 0], &[1], &[], &[2], &[5, 0], &[6], &[3]];

fn alg_of(a: u8) -> TsigAlgorithm {
    match a {
        0 => TsigAlgorithm::HmacSha256,
        1 => TsigAlgorithm::HmacSha384,
        _ => TsigAlgorithm::HmacSha512,
    }
}
fn alg_name(a: u8) -> &'static str {
    match a {
        0 => "hmac-sha256",
        1 => "hmac-sha384",
        _ => "hmac-sha512",
    }
}
fn hmac(k: &KeyDef, data: &[u8]) -> Vec<u8> {
    alg_of(k.alg).mac_data(k.secret, data).expect("hmac")
}
fn signer_of(k: &KeyDef) -> TSigner {
    TSigner::new(k.secret.to_vec(), alg_of(k.alg), Name::from_str(k.name).unwrap(), k.fudge).unwrap()
}
fn labels(s: &str) -> Vec<Vec<u8>> {
    s.split('.').filter(|l| !l.is_empty()).map(|l| l.as_bytes().to_vec()).collect()
}
fn lower(ls: &[Vec<u8>]) -> Vec<Vec<u8>> {
    ls.iter().map(|l| l.to_ascii_lowercase()).collect()
}
fn wire(ls: &[Vec<u8>]) -> Vec<u8> {
    let mut v = vec![];
    for l in ls {
        v.push(l.len() as u8);
        v.extend_from_slice(l);
    }
    v.push(0);
    v
}

// ---------------------------------------------------------------- TSIG record, written here

#[derive(Clone, Debug)]
struct TF {
    name: Vec<Vec<u8>>,
    /// emit only the first k labels, then a pointer to this offset
    ptr: Option<(usize, u16)>,
    class: u16,
    ttl: u32,
    alg: Vec<Vec<u8>>,
    time: u64,
    fudge: u16,
    mac: Vec<u8>,
    oid: u16,
    err: u16,
    other: Vec<u8>,
}

struct Layout {
    name: (usize, usize),
    class_ttl: (usize, usize),
}

impl TF {
    fn rdata(&self) -> Vec<u8> {
        let mut v = wire(&self.alg);
        v.extend_from_slice(&((self.time >> 32) as u16).to_be_bytes());
        v.extend_from_slice(&(self.time as u32).to_be_bytes());
        v.extend_from_slice(&self.fudge.to_be_bytes());
        v.extend_from_slice(&(self.mac.len() as u16).to_be_bytes());
        v.extend_from_slice(&self.mac);
        v.extend_from_slice(&self.oid.to_be_bytes());
        v.extend_from_slice(&self.err.to_be_bytes());
        v.extend_from_slice(&(self.other.len() as u16).to_be_bytes());
        v.extend_from_slice(&self.other);
        v
    }
    fn name_wire(&self) -> Vec<u8> {
        match self.ptr {
            None => wire(&self.name),
            Some((k, off)) => {
                let mut v = wire(&self.name[..k]);
                v.pop();
                v.extend_from_slice(&(0xC000u16 | off).to_be_bytes());
                v
            }
        }
    }
    fn rr(&self) -> Vec<u8> {
        let mut v = self.name_wire();
        v.extend_from_slice(&250u16.to_be_bytes());
        v.extend_from_slice(&self.class.to_be_bytes());
        v.extend_from_slice(&self.ttl.to_be_bytes());
        let rd = self.rdata();
        v.extend_from_slice(&(rd.len() as u16).to_be_bytes());
        v.extend_from_slice(&rd);
        v
    }
    /// RFC 8945 4.3.3 "TSIG Variables" (CLASS and TTL as they are in the record)
    fn spec_vars(&self) -> Vec<u8> {
        let mut v = wire(&lower(&self.name));
        v.extend_from_slice(&self.class.to_be_bytes());
        v.extend_from_slice(&self.ttl.to_be_bytes());
        v.extend_from_slice(&wire(&lower(&self.alg)));
        v.extend_from_slice(&((self.time >> 32) as u16).to_be_bytes());
        v.extend_from_slice(&(self.time as u32).to_be_bytes());
        v.extend_from_slice(&self.fudge.to_be_bytes());
        v.extend_from_slice(&self.err.to_be_bytes());
        v.extend_from_slice(&(self.other.len() as u16).to_be_bytes());
        v.extend_from_slice(&self.other);
        v
    }
}

/// RFC 8945 4.3: the message without the TSIG record, ID = original ID, then the variables
fn spec_tbs(u: &[u8], tf: &TF) -> Vec<u8> {
    let mut v = u.to_vec();
    v[0..2].copy_from_slice(&tf.oid.to_be_bytes());
    v.extend_from_slice(&tf.spec_vars());
    v
}

fn with_tsig(u: &[u8], tf: &TF) -> (Vec<u8>, Layout) {
    let mut v = u.to_vec();
    let ar = u16::from_be_bytes([v[10], v[11]]).wrapping_add(1);
    v[10..12].copy_from_slice(&ar.to_be_bytes());
    let start = v.len();
    let nw = tf.name_wire().len();
    v.extend_from_slice(&tf.rr());
    (v, Layout { name: (start, start + nw), class_ttl: (start + nw + 2, start + nw + 8) })
}

// ---------------------------------------------------------------- server

const ORIGIN: &str = "example.com.";

#[derive(Clone, Debug)]
struct SrvCfg {
    keys: Vec<usize>,
    allow_update: bool,
    policy: u8, // 0 Deny 1 AllowAll 2 AllowSigned
}

type Handler = SqliteZoneHandler;

fn build(cfg: &SrvCfg) -> (Catalog, Arc<Handler>) {
    let origin = Name::from_str(ORIGIN).unwrap();
    let mut mem = InMemoryZoneHandler::empty(origin.clone(), ZoneType::Primary, AxfrPolicy::AllowAll, None);
    mem.upsert_mut(
        Record::from_rdata(origin.clone(), 3600, RData::SOA(SOA::new(Name::from_str("ns1.example.com.").unwrap(), Name::from_str("admin.example.com.").unwrap(), 7, 7200, 3600, 1209600, 300))),
        0,
    );
    mem.upsert_mut(Record::from_rdata(origin.clone(), 3600, RData::NS(NS(Name::from_str("ns1.example.com.").unwrap()))), 0);
    mem.upsert_mut(Record::from_rdata(Name::from_str("ns1.example.com.").unwrap(), 3600, RData::A(A::new(192, 0, 2, 1))), 0);
    mem.upsert_mut(Record::from_rdata(Name::from_str("www.example.com.").unwrap(), 300, RData::A(A::new(192, 0, 2, 80))), 0);
    let policy = match cfg.policy {
        0 => AxfrPolicy::Deny,
        1 => AxfrPolicy::AllowAll,
        _ => AxfrPolicy::AllowSigned,
    };
    let mut h = SqliteZoneHandler::new(mem, policy, cfg.allow_update, false);
    h.set_tsig_signers(cfg.keys.iter().map(|k| signer_of(&KEYS[*k])).collect());
    let h = Arc::new(h);
    let mut c = Catalog::new();
    c.upsert(origin.into(), vec![h.clone()]);
    (c, h)
}

fn dump(rt: &tokio::runtime::Runtime, h: &Handler) -> String {
    let recs = rt.block_on(h.records());
    let mut v: Vec<String> = vec![];
    for (k, set) in recs.iter() {
        for r in set.records_without_rrsigs() {
            v.push(format!("{} {} {} {}", k.name, k.record_type, r.ttl, r.data));
        }
    }
    v.sort();
    v.join("|")
}

#[derive(Clone, Debug, Default)]
struct SrvObs {
    parsed: bool,
    route: u8, // 0 update, 1 axfr, 2 other
    panicked: Option<String>,
    reply: Option<Vec<u8>>,
    rcode: u16,
    /// 0 none, 1 unsigned BADKEY, 2 unsigned BADSIG, 3 signed, 4 signed BADTIME, 8 other
    tsig_class: u8,
    changed: bool,
    data: bool,
    req_mac: Vec<u8>,
    req_id: u16,
}

fn serve(rt: &tokio::runtime::Runtime, cfg: &SrvCfg, bytes: &[u8], now: u64) -> SrvObs {
    let mut o = SrvObs::default();
    let src: SocketAddr = "192.0.2.9:5353".parse().unwrap();
    let req = match Request::from_bytes(bytes.to_vec(), src, Protocol::Tcp) {
        Ok(r) => r,
        Err(_) => return o,
    };
    o.parsed = true;
    o.req_id = req.metadata.id;
    if let Some(sig) = req.signature.as_deref() {
        o.req_mac = sig.data.mac.clone();
    }
    let origin = Name::from_str(ORIGIN).unwrap();
    let info = req.request_info();
    let qname: Name = info.query.name().into();
    let in_zone = origin.zone_of(&qname);
    o.route = if req.metadata.message_type != MessageType::Query || !in_zone {
        2
    } else if req.metadata.op_code == OpCode::Update && info.query.query_type() == RecordType::SOA {
        0
    } else if req.metadata.op_code == OpCode::Query && info.query.query_type() == RecordType::AXFR {
        1
    } else {
        2
    };
    let (catalog, handler) = build(cfg);
    let before = dump(rt, &handler);
    NOW.store(now, Ordering::SeqCst);
    let (handle, mut rx) = BufDnsStreamHandle::new(src);
    let rh = ResponseHandle::new(src, handle, Protocol::Tcp);
    let res = std::panic::catch_unwind(std::panic::AssertUnwindSafe(|| {
        rt.block_on(async { catalog.handle_request::<ResponseHandle, FakeTime>(&req, rh).await });
    }));
    if let Err(e) = res {
        let s = if let Some(s) = e.downcast_ref::<&str>() {
            s.to_string()
        } else if let Some(s) = e.downcast_ref::<String>() {
            s.clone()
        } else {
            "panic".into()
        };
        o.panicked = Some(s);
    }
    drop(catalog);
    let after = std::panic::catch_unwind(std::panic::AssertUnwindSafe(|| dump(rt, &handler))).unwrap_or_else(|_| "dump-panicked".into());
    o.changed = before != after;
    let reply = rt.block_on(async { tokio::time::timeout(Duration::from_millis(1), rx.next()).await.ok().flatten() });
    if let Some(sm) = reply {
        let rb = sm.into_parts().0;
        match Message::from_vec(&rb) {
            Ok(m) => {
                o.rcode = u16::from(m.metadata.response_code);
                o.data = !m.answers.is_empty() || !m.authorities.is_empty() || !m.additionals.is_empty();
                o.tsig_class = match m.signature() {
                    None => 0,
                    Some(s) => {
                        let e = s.data.error.map(u16::from).unwrap_or(0);
                        match (s.data.mac.is_empty(), e) {
                            (true, 17) => 1,
                            (true, 16) => 2,
                            (false, 0) => 3,
                            (false, 18) => 4,
                            _ => 8,
                        }
                    }
                };
            }
            Err(_) => {
                o.rcode = 98;
                o.tsig_class = 8;
            }
        }
        o.reply = Some(rb);
    }
    o
}

// ---------------------------------------------------------------- direct observations of proto

/// signed_bitmessage_to_buf: Ok(tbs) / Err / panic
fn real_tbs(m: &[u8], prev: Option<&[u8]>, first: bool) -> Result<Option<Vec<u8>>, String> {
    guard(std::panic::AssertUnwindSafe(|| signed_bitmessage_to_buf(m, prev, first).ok().map(|x| x.0)))
}

/// 0 Err(decode), 1 panic, 2 WrongKey, 3 truncated, 4 bad MAC, 6 Ok
fn real_verify(s: &TSigner, m: &[u8], prev: Option<&[u8]>, first: bool) -> (u8, String) {
    match guard(std::panic::AssertUnwindSafe(|| s.verify_message_byte(m, prev, first))) {
        Err(p) => (1, p),
        Ok(Ok((_, t, r))) => (6, format!("time={} range={}..{}", t, r.start, r.end)),
        Ok(Err(DnsSecError::TsigWrongKey)) => (2, String::new()),
        Ok(Err(DnsSecError::HmacInvalid)) => (4, String::new()),
        Ok(Err(DnsSecError::Message(_))) => (3, String::new()),
        Ok(Err(_)) => (0, String::new()),
    }
}

// ---------------------------------------------------------------- Coq printers

fn coq_labels(ls: &[Vec<u8>]) -> String {
    coq_list(ls.iter().map(|l| coq_pb(l)))
}
fn coq_signer(k: usize) -> String {
    let d = &KEYS[k];
    format!("({}, {}, {}, {})", coq_labels(&labels(d.name)), d.alg, k, d.fudge)
}
fn coq_opt_n(b: &Option<usize>) -> String {
    match b {
        Some(b) => format!("(Some {b})"),
        None => "None".into(),
    }
}
fn coq_opt_pb(b: &Option<Vec<u8>>) -> String {
    match b {
        Some(b) => format!("(Some {})", coq_pb(b)),
        None => "None".into(),
    }
}
fn coq_bool(b: bool) -> &'static str {
    if b {
        "true"
    } else {
        "false"
    }
}
struct Tab(Vec<(usize, Vec<u8>, Vec<u8>)>);
impl Tab {
    fn add(&mut self, k: usize, data: &[u8]) -> usize {
        if let Some(i) = self.0.iter().position(|(k2, d, _)| *k2 == k && d == data) {
            return i;
        }
        self.0.push((k, data.to_vec(), hmac(&KEYS[k], data)));
        self.0.len() - 1
    }
    fn coq(&self) -> String {
        coq_list(self.0.iter().map(|(k, d, m)| format!("({}, {}, {})", k, coq_pb(d), coq_pb(m))))
    }
}

// ---------------------------------------------------------------- scenarios

const T0: u64 = 1_700_000_000;

#[derive(Clone, Debug, PartialEq)]
enum Validity {
    /// a valid, timely request for this server
    Valid,
    /// differs from a valid request only in bits RFC 8945 covers but the implementation does not (Z, TSIG CLASS/TTL)
    BenignDeviation,
    Invalid,
}

struct Scn {
    kind: String,
    axfr: bool,
    cfg: SrvCfg,
    client: usize,
    t: u64,
    now: u64,
    req: Vec<u8>,
    /// validity of the TSIG part by construction (key known to the server under that name, same algorithm and
    /// secret, MAC over the final content, nothing after the record), clock not considered
    sig: Validity,
    /// final time / fudge fields of the request
    ft: u64,
    ff: u16,
    msg: Message,
    /// fixed corpus cases force the family of the modified reply
    force_fam: Option<u64>,
}

fn base_message(r: &mut Rng, axfr: bool, id: u16) -> Message {
    let origin = Name::from_str(ORIGIN).unwrap();
    if axfr {
        let mut m = Message::new(id, MessageType::Query, OpCode::Query);
        m.add_query(Query::new(origin, RecordType::AXFR));
        m
    } else {
        let mut m = Message::new(id, MessageType::Query, OpCode::Update);
        let mut z = Query::new(origin, RecordType::SOA);
        z.set_query_class(DNSClass::IN);
        m.add_zone(z);
        let n = r.range(1, 2);
        for i in 0..n {
            let name = Name::from_str(&format!("new{}.example.com.", r.below(50) + i * 50)).unwrap();
            m.add_update(Record::from_rdata(name, 120, RData::A(A::new(10, 1, r.below(250) as u8, 1 + r.below(250) as u8))));
        }
        if r.chance(1, 4) {
            // an ordinary additional record before the TSIG record
            UpdateMessage::add_additional(&mut m, Record::from_rdata(Name::from_str("extra.example.com.").unwrap(), 60, RData::A(A::new(10, 9, 9, 9))));
        }
        m
    }
}

fn flip(v: &mut [u8], pos: usize, bit: u32) {
    v[pos] ^= 1 << bit;
}

fn gen(seed: u64, index: u64) -> Scn {
    let mut r = Rng::for_case(seed, index);
    let axfr = r.chance(1, 3);
    let mut cfg = SrvCfg {
        keys: r.pick(SRV_SETS).to_vec(),
        allow_update: !r.chance(1, 12),
        policy: if axfr { *r.pick(&[2u8, 2, 2, 2, 1, 0]) } else { r.below(3) as u8 },
    };
    let mut client = *r.pick(&[0usize, 0, 0, 0, 0, 0, 1, 2, 3, 4, 6]);
    let id = r.next() as u16;
    let mut t = T0 + r.below(1000);
    let mut msg = base_message(&mut r, axfr, id);
    // header flags a client may set on a request: RD and/or CD (3 of 8 ids), occasionally AD; the reply the
    // catalog sends and the copy it signs must agree on what they do with them
    match id % 8 {
        1 => msg.metadata.recursion_desired = true,
        2 => msg.metadata.checking_disabled = true,
        3 => {
            msg.metadata.recursion_desired = true;
            msg.metadata.checking_disabled = true;
        }
        4 => msg.metadata.authentic_data = true,
        _ => {}
    }
    let flags_kind = match id % 8 {
        1 => "+RD",
        2 => "+CD",
        3 => "+RD+CD",
        4 => "+AD",
        _ => "",
    };
    let mut u = msg.to_vec().expect("encode");
    let mk = r.below(40);
    let mut kind;
    let mut underflow = false;

    if mk == 0 {
        // F7 family: a correctly signed request whose time is smaller than its fudge
        client = *r.pick(&[0usize, 5, 5]);
        cfg.keys = vec![5, 0];
        t = r.below(KEYS[client].fudge as u64);
        underflow = true;
    }
    let ck = KEYS[client];
    let mut tf = TF {
        name: labels(ck.name),
        ptr: None,
        class: 255,
        ttl: 0,
        alg: labels(alg_name(ck.alg)),
        time: t,
        fudge: ck.fudge,
        mac: vec![],
        oid: id,
        err: 0,
        other: vec![],
    };
    // does the server hold this key (first signer with that name, same algorithm and secret)?
    let srv_key = cfg.keys.iter().copied().find(|k| lower(&labels(KEYS[*k].name)) == lower(&tf.name));
    let key_ok = srv_key.map(|k| KEYS[k].alg == ck.alg && KEYS[k].secret == ck.secret).unwrap_or(false);
    let mut sig = if key_ok { Validity::Valid } else { Validity::Invalid };
    let spoil = |s: &mut Validity| *s = Validity::Invalid;
    let benign = |s: &mut Validity| {
        if *s == Validity::Valid {
            *s = Validity::BenignDeviation
        }
    };

    // ---- edits before signing (the request stays valid)
    kind = "pristine".to_string();
    let mut hdr_id = id;
    match mk {
        0 => kind = "time<fudge".into(),
        1 => {
            kind = "pre:key-name-case".into();
            for l in tf.name.iter_mut() {
                for b in l.iter_mut() {
                    if b.is_ascii_alphabetic() && r.chance(1, 2) {
                        *b ^= 0x20;
                    }
                }
            }
        }
        2 | 3 => {
            kind = "pre:key-name-compressed".into();
            // the zone name `example.com.` sits at offset 12 of every message built here
            if tf.name.len() >= 2 && lower(&tf.name[tf.name.len() - 2..]) == labels("example.com") {
                tf.ptr = Some((tf.name.len() - 2, 12));
            }
        }
        4 => {
            kind = "pre:other-data".into();
            let n = r.range(1, 8) as usize;
            tf.other = r.bytes(n);
        }
        5 => {
            kind = "pre:fudge".into();
            tf.fudge = *r.pick(&[0u16, 1, 5, 3600, 65535]);
        }
        6 => {
            kind = "pre:original-id-differs".into();
            hdr_id = id ^ (1 + r.below(0xffff) as u16);
        }
        36 => {
            // the same records with their owner names written out in full (no compression pointers): signed as
            // such, valid as such
            kind = "pre:body-uncompressed".into();
            u = expand_pointers(&u);
        }
        _ => {}
    }
    tf.mac = hmac(&ck, &spec_tbs(&u, &tf));
    let mut u2 = u.clone();
    if mk == 37 {
        // the encoding of the body changed after signing (same records, other bytes)
        kind = "post:body-recompressed".into();
        u2 = expand_pointers(&u);
        if u2 != u {
            sig = Validity::Invalid;
        }
    }
    u2[0..2].copy_from_slice(&hdr_id.to_be_bytes());

    // ---- edits after signing
    let mut trailer: Vec<u8> = vec![];
    let mut strip = false;
    let mut hickory_encoded = false;
    match mk {
        7 => {
            kind = "post:time".into();
            let d = *r.pick(&[1i64, -1, 300, -300, 1 << 32, 86400]);
            tf.time = (tf.time as i64 + d).max(0) as u64 & 0xffff_ffff_ffff;
            spoil(&mut sig);
        }
        8 => {
            kind = "post:fudge".into();
            tf.fudge = tf.fudge.wrapping_add(*r.pick(&[1u16, 300, 65535, 30000]));
            spoil(&mut sig);
        }
        9 => {
            kind = "post:original-id".into();
            tf.oid ^= 1 << r.below(16);
            spoil(&mut sig);
        }
        10 => {
            kind = "post:error".into();
            tf.err = *r.pick(&[16u16, 17, 18, 1, 65535]);
            spoil(&mut sig);
        }
        11 => {
            kind = "post:other-data".into();
            tf.other.push(r.next() as u8);
            spoil(&mut sig);
        }
        12 | 13 | 14 => {
            kind = "post:mac-truncated".into();
            let full = tf.mac.len();
            let keep = *r.pick(&[0usize, 1, 10, 16, full / 2, full - 1]);
            tf.mac.truncate(keep);
            spoil(&mut sig);
        }
        15 => {
            kind = "post:mac-extended".into();
            tf.mac.push(r.next() as u8);
            spoil(&mut sig);
        }
        16 => {
            kind = "post:mac-byte".into();
            let p = r.below(tf.mac.len() as u64) as usize;
            tf.mac[p] ^= 1 << r.below(8);
            spoil(&mut sig);
        }
        17 => {
            kind = "post:key-name".into();
            tf.name = labels(*r.pick(&["nokey.example.com.", "Other-Key.Example.com.", "update-key.example.org.", "update-kez.example.com.", "example.com.", "."]));
            if lower(&tf.name) != lower(&labels(ck.name)) {
                spoil(&mut sig);
            }
        }
        18 => {
            kind = "post:algorithm".into();
            tf.alg = labels(*r.pick(&["hmac-sha384", "hmac-sha512", "hmac-sha256", "HMAC-SHA256", "hmac-sha1", "hmac-md5.sig-alg.reg.int", "hmac-sha256.example"]));
            if tf.alg != labels(alg_name(ck.alg)) {
                spoil(&mut sig);
            }
        }
        19 => {
            kind = "post:tsig-class-ttl".into();
            if r.chance(1, 2) {
                tf.class = *r.pick(&[1u16, 254, 0]);
            } else {
                tf.ttl = *r.pick(&[1u32, 300, 0x8000_0000]);
            }
            benign(&mut sig);
        }
        20 => {
            kind = "post:z-bit".into();
            u2[3] |= 0x40;
            benign(&mut sig);
        }
        21 => {
            kind = "post:header-id".into();
            // the MAC covers the original id field, not the header id: still valid
            let x = 1 + r.below(0xffff) as u16;
            let cur = u16::from_be_bytes([u2[0], u2[1]]);
            u2[0..2].copy_from_slice(&(cur ^ x).to_be_bytes());
        }
        22 => {
            kind = "post:key-name-case".into();
            for l in tf.name.iter_mut() {
                for b in l.iter_mut() {
                    if b.is_ascii_alphabetic() && r.chance(1, 2) {
                        *b ^= 0x20;
                    }
                }
            }
        }
        23 => {
            kind = "post:record-after-tsig".into();
            trailer = vec![0, 0, 1, 0, 1, 0, 0, 0, 60, 0, 4, 10, 0, 0, 1]; // . A 10.0.0.1, counted
            spoil(&mut sig);
        }
        24 => {
            kind = "post:trailing-bytes".into();
            let n = r.range(1, 12) as usize;
            trailer = r.bytes(n); // not counted: never looked at
        }
        25 => {
            kind = "unsigned".into();
            strip = true;
            spoil(&mut sig);
        }
        26 => {
            kind = "hickory-signed".into();
            hickory_encoded = true;
        }
        27 => {
            kind = "hickory-signed+body-bitflip".into();
            hickory_encoded = true;
            spoil(&mut sig);
        }
        _ => {}
    }
    let (mut req, lay) = if strip { (u2.clone(), Layout { name: (0, 0), class_ttl: (0, 0) }) } else { with_tsig(&u2, &tf) };
    if hickory_encoded {
        let mut m2 = msg.clone();
        m2.finalize(&signer_of(&ck), t).expect("finalize");
        req = m2.to_vec().expect("encode");
        if mk == 27 {
            let p = 4 + r.below(u.len() as u64 - 4) as usize;
            flip(&mut req, p, r.below(8) as u32);
        }
    }
    req.extend_from_slice(&trailer);
    if mk == 23 {
        let ar = u16::from_be_bytes([req[10], req[11]]) + 1;
        req[10..12].copy_from_slice(&ar.to_be_bytes());
    }
    match mk {
        28 | 29 | 30 | 31 | 32 | 33 => {
            // one bit anywhere; classified from the layout
            let p = match mk {
                28 => r.below(12) as usize,
                29 | 30 => lay.name.0 + r.below((req.len() - lay.name.0) as u64) as usize,
                _ => r.below(req.len() as u64) as usize,
            };
            let b = r.below(8) as u32;
            kind = format!(
                "bitflip:{}",
                if p < 12 {
                    "header"
                } else if p < lay.name.0 {
                    "body"
                } else {
                    "tsig"
                }
            );
            let old = req[p];
            flip(&mut req, p, b);
            classify_byte(&mut sig, &lay, &tf, p, old, req[p]);
        }
        34 => {
            kind = "count-edit".into();
            let f = 4 + 2 * r.below(4) as usize;
            let cur = u16::from_be_bytes([req[f], req[f + 1]]);
            let nv = if r.chance(1, 2) { cur.wrapping_add(1) } else { cur.wrapping_sub(1) };
            req[f..f + 2].copy_from_slice(&nv.to_be_bytes());
            spoil(&mut sig);
        }
        35 => {
            kind = "byte-set".into();
            let p = 2 + r.below(req.len() as u64 - 2) as usize;
            let nb = r.next() as u8;
            let old = req[p];
            req[p] = nb;
            classify_byte(&mut sig, &lay, &tf, p, old, nb);
        }
        _ => {}
    }
    // ---- the server clock
    let (ft, ff) = (tf.time, tf.fudge);
    let f = ff as i64;
    let off = if underflow {
        0
    } else {
        match r.below(16) {
            0 => -f - 1,
            1 => -f,
            2 => -f + 1,
            3 => f - 1,
            4 => f,
            5 => f + 1,
            6 => -1,
            7 => 1,
            8 => *r.pick(&[86400i64, -86400, 1 << 33]),
            9 => r.range(0, 2 * ff as u64 + 2) as i64 - f - 1,
            _ => r.range(0, 20) as i64 - 10,
        }
    };
    if off.abs() > f && !underflow {
        kind.push_str("+clock-outside");
    } else if off.abs() == f && f != 0 {
        kind.push_str("+clock-edge");
    }
    let now = (ft as i64 + off).max(0) as u64;
    kind.push_str(flags_kind);
    Scn { kind, axfr, cfg, client, t, now, req, sig, ft, ff, msg, force_fam: None }
}

/// rewrite the records after the question so that every owner name that ends in a pointer to offset 12
/// (`example.com.`) is written out in full; A records only (no names in RDATA)
fn expand_pointers(u: &[u8]) -> Vec<u8> {
    let mut out = u[..12].to_vec();
    let mut p = 12;
    // question
    while u[p] != 0 {
        p += 1 + u[p] as usize;
    }
    p += 5;
    out.extend_from_slice(&u[12..p]);
    let n = u16::from_be_bytes([u[6], u[7]]) as usize + u16::from_be_bytes([u[8], u[9]]) as usize + u16::from_be_bytes([u[10], u[11]]) as usize;
    for _ in 0..n {
        loop {
            let b = u[p];
            if b == 0 {
                out.push(0);
                p += 1;
                break;
            } else if b >= 0xc0 {
                out.extend_from_slice(&wire(&labels(ORIGIN)));
                p += 2;
                break;
            } else {
                out.extend_from_slice(&u[p..p + 1 + b as usize]);
                p += 1 + b as usize;
            }
        }
        let rdlen = u16::from_be_bytes([u[p + 8], u[p + 9]]) as usize;
        out.extend_from_slice(&u[p..p + 10 + rdlen]);
        p += 10 + rdlen;
    }
    out
}

/// what replacing byte `p` (old -> new) of a signed request does to its validity
fn classify_byte(sig: &mut Validity, lay: &Layout, tf: &TF, p: usize, old: u8, new: u8) {
    if old == new || p < 2 {
        // unchanged, or the header id: outside the MAC input by design (original id)
    } else if p == 3 && (old ^ new) == 0x40 {
        if *sig == Validity::Valid {
            *sig = Validity::BenignDeviation;
        }
    } else if p >= lay.name.0 && p < lay.name.1 && (old ^ new) == 0x20 && old.is_ascii_alphabetic() && is_label_content(tf, p - lay.name.0) {
        // case of a key-name letter
    } else if p >= lay.class_ttl.0 && p < lay.class_ttl.1 {
        if *sig == Validity::Valid {
            *sig = Validity::BenignDeviation;
        }
    } else {
        *sig = Validity::Invalid;
    }
}

/// is offset `off` of the uncompressed/compressed owner-name encoding inside a label (not a length or pointer byte)?
fn is_label_content(tf: &TF, off: usize) -> bool {
    let k = tf.ptr.map(|p| p.0).unwrap_or(tf.name.len());
    let mut pos = 0;
    for l in &tf.name[..k] {
        if off == pos {
            return false;
        }
        if off > pos && off <= pos + l.len() {
            return true;
        }
        pos += 1 + l.len();
    }
    false
}

/// Fixed corpus (indices FIXED_BASE + k under any seed): the witnesses of the three repaired findings
/// (fixes 1bb1e89, 4e36f86).  They must never panic again: time < fudge is served inside [0, time+fudge) and gets
/// BADTIME outside; ANCOUNT+NSCOUNT > 65535 and a duplicated TSIG record are decoding errors.
const FIXED_BASE: u64 = 1_000_000_000;
const FIXED_N: u64 = 5;
const M_UF: &str = "ea0328000001000000020001076578616d706c6503636f6d0000060001046e657737c00c000100010000007800040a01ef29056e65773732c00c000100010000007800040a018ef70a7570646174652d6b6579076578616d706c6503636f6d0000fa00ff00000000003d0b686d61632d73686132353600000000000124012c00203d4dc04eb6f86e369bd4c2cc24a485a23e122a1fdabc02017dd9c0e96aa5e8cbea0300000000";
const M_CNT: &str = "cf7328000001ffff00020001076578616d706c6503636f6d0000060001046e657737c00c000100010000007800040a01e8ae056e65773533c00c000100010000007800040a01bd620a7570646174652d6b6579076578616d706c6503636f6d0000fa00ff00000000003d0b686d61632d7368613235360000006553f19e012c00209e6616161962ec10fcc1137ecf38b9679eb924d0f3481b296c3b87193fd87ce1cf7300000000";
const M_OK: &str = "61f828000001000000010001076578616d706c6503636f6d0000060001056e65773130c00c000100010000007800040a01cf450a7570646174652d6b6579076578616d706c6503636f6d0000fa00ff00000000003d0b686d61632d7368613235360000006553f1f8012c002090ccd857f5e642c633800ab9d3baea2bb0423198ff5f8b9fba1a61493317573661f800000000";

fn fixed(k: u64) -> Scn {
    let cfg = SrvCfg { keys: vec![0], allow_update: true, policy: 2 };
    let unsigned_of = |req: &[u8]| -> Message {
        let mut m = Message::from_vec(req).expect("corpus request decodes");
        m.take_signature();
        m
    };
    match k {
        0 | 1 => {
            // time 292 < fudge 300, valid MAC: inside the saturated window (served) / at its end (BADTIME)
            let req = unhex(M_UF);
            let msg = unsigned_of(&req);
            let now = if k == 0 { 292 } else { 592 };
            Scn { kind: format!("corpus:time<fudge now={now}"), axfr: false, cfg, client: 0, t: 292, now, req, sig: Validity::Valid, ft: 292, ff: 300, msg, force_fam: Some(5) }
        }
        2 => {
            // ANCOUNT=0xffff NSCOUNT=2 on a request: must be a decoding error everywhere
            let req = unhex(M_CNT);
            let msg = unsigned_of(&unhex(M_OK));
            Scn { kind: "corpus:count-overflow-request".into(), axfr: false, cfg, client: 0, t: 1700000158, now: 1700000158, req, sig: Validity::Invalid, ft: 1700000158, ff: 300, msg, force_fam: Some(5) }
        }
        _ => {
            // an accepted request whose reply is attacked with the count overflow (3) / the duplicated TSIG record (4)
            let req = unhex(M_OK);
            let msg = unsigned_of(&req);
            Scn {
                kind: format!("corpus:reply-{}", if k == 3 { "count-overflow" } else { "double-tsig" }),
                axfr: false, cfg, client: 0, t: 1700000248, now: 1700000244, req, sig: Validity::Valid, ft: 1700000248, ff: 300, msg,
                force_fam: Some(k - 3),
            }
        }
    }
}

fn case(rt: &tokio::runtime::Runtime, seed: u64, index: u64) -> CaseOut {
    let s = if index >= FIXED_BASE { fixed(index - FIXED_BASE) } else { gen(seed, index) };
    let ck = KEYS[s.client];
    let client_signer = signer_of(&ck);
    let mut subs: Vec<String> = vec![];
    let mut tab = Tab(vec![]);
    let mut fails: Vec<(String, Option<&'static str>)> = vec![];

    // -- the client's own view of its request (hickory's signer): MAC and verifier
    let (h_tsig, _) = client_signer.sign_message(&s.msg, s.t).expect("sign_message");
    let h_mac = h_tsig.data.mac.clone();

    // -- direct observation: MAC input and verdict of verify_message_byte
    let tbs = real_tbs(&s.req, None, true);
    let (deep_sig, otbs, tbs_panic) = match &tbs {
        Ok(Some(b)) => (true, Some(b.clone()), false),
        Ok(None) => (false, None, false),
        Err(_) => (true, None, true),
    };
    // the signer the server would pick (by name), else the client's
    let req_name: Option<Vec<Vec<u8>>> = Request::from_bytes(s.req.clone(), "192.0.2.9:5353".parse().unwrap(), Protocol::Tcp)
        .ok()
        .and_then(|r| r.signature.as_deref().map(|sg| sg.name.iter().map(|l| l.to_vec()).collect()));
    let vkey = req_name
        .as_ref()
        .and_then(|n| s.cfg.keys.iter().copied().find(|k| lower(&labels(KEYS[*k].name)) == lower(n)))
        .unwrap_or(s.client);
    let (vclass, vtext) = real_verify(&signer_of(&KEYS[vkey]), &s.req, None, true);
    let mut otbs_ix = None;
    if let Some(b) = &otbs {
        otbs_ix = Some(tab.add(vkey, b));
        for k in &s.cfg.keys {
            tab.add(*k, b);
        }
    }
    subs.push(format!(
        "SVerify {} {} {} {}",
        coq_bool(deep_sig),
        coq_signer(vkey),
        coq_opt_n(&otbs_ix),
        if tbs_panic { 1 } else { vclass }
    ));

    // -- the server
    let o = serve(rt, &s.cfg, &s.req, s.now);
    let in_window_rfc = (s.now as i128 - s.ft as i128).abs() <= s.ff as i128;
    let strictly_inside = (s.now as i128 - s.ft as i128).abs() < s.ff as i128;
    let policy_ok = if s.axfr { s.cfg.policy == 2 } else { s.cfg.allow_update };
    let valid = s.sig == Validity::Valid && in_window_rfc && policy_ok;
    let benign = s.sig == Validity::BenignDeviation && in_window_rfc && policy_ok;
    let effect = o.changed || (o.route == 1 && s.cfg.policy != 1 && o.data) || (o.route == 0 && o.data);
    if let Some(p) = &o.panicked {
        fails.push((format!("server panicked: {p}"), None));
    }
    if effect && !valid {
        if benign && o.panicked.is_none() {
            fails.push(("request differing from a valid one in the header Z bit / TSIG CLASS / TSIG TTL took effect (these bits are outside the reconstructed MAC input)".into(), Some("C13-F7-uncovered-bits")));
        } else {
            fails.push((
                format!(
                    "request that is not a valid, timely TSIG request took effect (changed={} data={} sig={:?} in_window={} policy_ok={})",
                    o.changed, o.data, s.sig, in_window_rfc, policy_ok
                ),
                None,
            ));
        }
    }
    if o.changed && o.route != 0 {
        fails.push(("zone changed by a request that is not an UPDATE for it".into(), None));
    }
    let expect_route = if s.axfr { 1 } else { 0 };
    if s.sig == Validity::Valid && strictly_inside && policy_ok && o.panicked.is_none() {
        // completeness: must be served
        if !o.parsed || o.route != expect_route {
            fails.push((format!("valid request not routed (parsed={} route={})", o.parsed, o.route), None));
        } else if o.rcode != 0 || o.tsig_class != 3 || (!s.axfr && !o.changed) || (s.axfr && !o.data) {
            fails.push((format!("valid, timely request not served: rcode={} tsig={} changed={} data={}", o.rcode, o.tsig_class, o.changed, o.data), None));
        }
    }
    if o.parsed && o.route != 2 {
        subs.push(format!(
            "SSrv {} {} {} {} {} {} ({}, {}, {}, {})",
            s.now,
            coq_bool(s.cfg.allow_update),
            s.cfg.policy,
            coq_list(s.cfg.keys.iter().map(|k| coq_signer(*k))),
            o.route,
            o.req_id,
            if o.panicked.is_some() { 99 } else { o.rcode },
            o.tsig_class,
            coq_bool(o.changed),
            coq_bool(o.data),
        ));
    } else if !o.parsed {
        subs.push("SDropped".to_string());
    }

    // -- the client verifier on the reply (state as left by signing the request with hickory's signer)
    let mut client_text = String::new();
    if let Some(reply) = &o.reply {
        if o.tsig_class != 0 {
            // entries for the model: the reply's MAC input as the client reconstructs it
            if let Ok(Some(b)) = real_tbs(reply, Some(&o.req_mac), true) {
                for k in &s.cfg.keys {
                    tab.add(*k, &b);
                }
            }
            let run_client = |m: &[u8], tab: &mut Tab| -> (bool, Option<Vec<u8>>, Option<usize>, u8) {
                let mtbs = real_tbs(m, Some(&h_mac), true);
                let (deep, otbs) = match &mtbs {
                    Ok(Some(x)) => (true, Some(x.clone())),
                    Ok(None) => (false, None),
                    Err(_) => (true, None),
                };
                let mut ix = None;
                if let Some(x) = &otbs {
                    ix = Some(tab.add(s.client, x));
                }
                let (_, v) = client_signer.sign_message(&s.msg, s.t).expect("sign_message");
                let mut v = v.expect("verifier");
                let res = guard(std::panic::AssertUnwindSafe(|| v.verify(m).is_ok()));
                let ocl = match &res {
                    Ok(true) => 1,
                    Ok(false) => 0,
                    Err(_) => 9,
                };
                (deep, otbs, ix, ocl)
            };
            let (rdeep, rotbs, rix, ocl) = run_client(reply, &mut tab);
            client_text = format!(" client={ocl}");
            subs.push(format!("SCli [] (PB 0 []) {} {} {} 0 {} {} {}", coq_bool(rdeep), coq_signer(s.client), coq_pb(&h_mac), s.t, coq_opt_n(&rix), ocl));
            // the reply window is now +- server fudge, tested against the client's request time
            let sf = s.cfg.keys.iter().copied().find(|k| lower(&labels(KEYS[*k].name)) == lower(&labels(ck.name))).map(|k| KEYS[k].fudge as i128).unwrap_or(0);
            let d = s.now as i128 - s.t as i128;
            let reply_timely = d > -sf && d < sf;
            let pristine_req = s.sig == Validity::Valid && o.req_mac == h_mac;
            if o.tsig_class == 3 && pristine_req && reply_timely && ocl != 1 {
                fails.push((format!("client verifier rejects the server's signed reply (ocl={ocl})"), None));
            }
            if ocl == 1 && (o.tsig_class == 1 || o.tsig_class == 2) {
                fails.push(("client verifier accepts an unsigned reply".into(), None));
            }
            if ocl == 9 {
                fails.push(("client verifier panicked on the server's reply".into(), None));
            }
            // a second, chained message after the accepted reply (first_message = false): the reply's body under a new
            // TSIG record whose MAC covers the previous MAC, the message and only time + fudge
            if ocl == 1 && o.tsig_class == 3 {
                if let (Some(t), Ok(parsed)) = (&rotbs, Message::from_vec(reply)) {
                    if let Some(sg) = parsed.signature() {
                        let mut r3 = Rng::for_case(seed ^ 0x7272, index);
                        let name_w: usize = sg.name.iter().map(|l| l.len() + 1).sum::<usize>() + 1;
                        let alg_w = wire(&labels(&sg.data.algorithm.to_name().to_ascii())).len();
                        let vars = name_w + 6 + alg_w + 6 + 2 + 2 + 2 + sg.data.other.len();
                        let start = 12 + (t.len() - 2 - h_mac.len() - 12 - vars);
                        let rdlen = alg_w + 6 + 2 + 2 + sg.data.mac.len() + 2 + 2 + 2 + sg.data.other.len();
                        let wire_name_w = reply.len() - start - 10 - rdlen;
                        let time_at = start + wire_name_w + 10 + alg_w;
                        let mac_at = time_at + 10;
                        let prev = sg.data.mac.clone();
                        let time2 = match r3.below(6) {
                            0 => s.now.saturating_sub(1),
                            1 => s.now,
                            2 => s.now + ck.fudge as u64 + 5,
                            _ => s.now + r3.below(4),
                        };
                        let fudge2 = *r3.pick(&[sg.data.fudge, sg.data.fudge, 1, 0, 65535]);
                        // MAC input of a later message, written here: previous MAC, message without the record
                        // (ARCOUNT - 1, ID = original id), time, fudge
                        let mut tbs2 = (prev.len() as u16).to_be_bytes().to_vec();
                        tbs2.extend_from_slice(&prev);
                        let mut u = reply[..start].to_vec();
                        u[0..2].copy_from_slice(&sg.data.oid.to_be_bytes());
                        let ar = u16::from_be_bytes([u[10], u[11]]) - 1;
                        u[10..12].copy_from_slice(&ar.to_be_bytes());
                        tbs2.extend_from_slice(&u);
                        tbs2.extend_from_slice(&((time2 >> 32) as u16).to_be_bytes());
                        tbs2.extend_from_slice(&(time2 as u32).to_be_bytes());
                        tbs2.extend_from_slice(&fudge2.to_be_bytes());
                        let mut mac2 = hmac(&ck, &tbs2);
                        let spoiled = r3.chance(1, 5);
                        if spoiled {
                            let p = r3.below(mac2.len() as u64) as usize;
                            mac2[p] ^= 1 << r3.below(8);
                        }
                        let mut ed: Vec<(usize, u8)> = vec![];
                        let mut fld = ((time2 >> 32) as u16).to_be_bytes().to_vec();
                        fld.extend_from_slice(&(time2 as u32).to_be_bytes());
                        fld.extend_from_slice(&fudge2.to_be_bytes());
                        for (i, b) in fld.iter().enumerate() {
                            ed.push((time_at + i, *b));
                        }
                        for (i, b) in mac2.iter().enumerate() {
                            ed.push((mac_at + i, *b));
                        }
                        let mut m2 = reply.clone();
                        for (p, v) in &ed {
                            m2[*p] = *v;
                        }
                        let ed: Vec<(usize, u8)> = ed.into_iter().filter(|(p, v)| reply[*p] != *v).collect();
                        let m2tbs = real_tbs(&m2, Some(&prev), false);
                        let (m2deep, m2otbs) = match &m2tbs {
                            Ok(Some(x)) => (true, Some(x.clone())),
                            Ok(None) => (false, None),
                            Err(_) => (true, None),
                        };
                        let ix = m2otbs.as_ref().map(|x| tab.add(s.client, x));
                        let (_, v) = client_signer.sign_message(&s.msg, s.t).expect("sign_message");
                        let mut v = v.expect("verifier");
                        let first_ok = v.verify(reply).is_ok();
                        let res = guard(std::panic::AssertUnwindSafe(|| v.verify(&m2).is_ok()));
                        let ocl3 = match &res {
                            Ok(true) => 1,
                            Ok(false) => 0,
                            Err(_) => 9,
                        };
                        subs.push(format!(
                            "SCli {} (PB 0 []) {} {} {} {} {} {} {}",
                            coq_list(ed.iter().map(|(p, v)| format!("({p}, {v})"))),
                            coq_bool(m2deep),
                            coq_signer(s.client),
                            coq_pb(&prev),
                            sg.data.time,
                            s.t,
                            coq_opt_n(&ix),
                            ocl3
                        ));
                        client_text.push_str(&format!(" chained[time={time2} fudge={fudge2} spoiled={spoiled}]={ocl3}"));
                        let f2 = fudge2 as i128;
                        let dd = s.t as i128 - time2 as i128;
                        if !first_ok {
                            fails.push(("verifier state: the accepted reply is not accepted a second time".into(), None));
                        } else if ocl3 == 9 {
                            fails.push(("client verifier panicked on a chained message".into(), None));
                        } else if ocl3 == 1 && (spoiled || time2 < sg.data.time || dd.abs() > f2) {
                            fails.push((format!("client verifier accepts a chained message it must reject (spoiled={spoiled} time2={time2} prev_time={} T-time2={dd} fudge={fudge2})", sg.data.time), None));
                        } else if ocl3 == 0 && !spoiled && time2 >= sg.data.time && dd.abs() < f2 {
                            fails.push((format!("client verifier rejects a correctly chained message (time2={time2} fudge={fudge2} T={})", s.t), None));
                        }
                        if m2otbs.as_ref() != Some(&tbs2) && m2deep && m2otbs.is_some() {
                            fails.push(("MAC input of a later message differs from RFC 8945 5.3.1 (previous MAC, message, time, fudge)".into(), None));
                        }
                    }
                }
            }
            // a modified reply
            if ocl == 1 {
                let mut r2 = Rng::for_case(seed ^ 0x5151, index);
                let mut ed: Vec<(usize, u8)> = vec![];
                let mut app: Vec<u8> = vec![];
                let fam = s.force_fam.unwrap_or_else(|| r2.below(12));
                let mut what = String::new();
                let mut uncovered_ok = false; // a modification RFC 8945 itself leaves outside the MAC input
                let mut known_class: Option<&'static str> = None;
                match fam {
                    0 => {
                        what = "ANCOUNT=0xffff NSCOUNT>=1".into();
                        ed = vec![(6, 0xff), (7, 0xff), (8, 0), (9, 1 + r2.below(3) as u8)];
                    }
                    1 => {
                        // the TSIG record appended once more, counted
                        if let Some(t) = &rotbs {
                            if let Ok(parsed) = Message::from_vec(reply) {
                                if let Some(sg) = parsed.signature() {
                                    let name_w: usize = sg.name.iter().map(|l| l.len() + 1).sum::<usize>() + 1;
                                    let alg_w = wire(&labels(&sg.data.algorithm.to_name().to_ascii())).len();
                                    let vars = name_w + 6 + alg_w + 6 + 2 + 2 + 2 + sg.data.other.len();
                                    let start = 12 + (t.len() - 2 - h_mac.len() - 12 - vars);
                                    app = reply[start..].to_vec();
                                    let ar = u16::from_be_bytes([reply[10], reply[11]]) + 1;
                                    ed = vec![(10, (ar >> 8) as u8), (11, ar as u8)];
                                    what = "TSIG record duplicated".into();
                                }
                            }
                        }
                    }
                    2 => {
                        what = "trailing bytes".into();
                        let n = r2.range(1, 6) as usize;
                        app = r2.bytes(n);
                        uncovered_ok = true;
                    }
                    _ => {
                        let p = 2 + r2.below(reply.len() as u64 - 2) as usize;
                        let b = r2.below(8) as u32;
                        ed = vec![(p, reply[p] ^ (1 << b))];
                        what = format!("bit {b} of byte {p}");
                        if p == 3 && b == 6 {
                            known_class = Some("C13-F7-uncovered-bits");
                        }
                    }
                }
                if !what.is_empty() {
                    let mut m = reply.clone();
                    for (p, v) in &ed {
                        m[*p] = *v;
                    }
                    m.extend_from_slice(&app);
                    let (mdeep, motbs, mix, ocl2) = run_client(&m, &mut tab);
                    subs.push(format!(
                        "SCli {} {} {} {} {} 0 {} {} {}",
                        coq_list(ed.iter().map(|(p, v)| format!("({p}, {v})"))),
                        coq_pb(&app),
                        coq_bool(mdeep),
                        coq_signer(s.client),
                        coq_pb(&h_mac),
                        s.t,
                        coq_opt_n(&mix),
                        ocl2
                    ));
                    client_text.push_str(&format!(" modified-reply[{what}]={ocl2}"));
                    if ocl2 == 1 {
                        // acceptable only if the MAC input seen by the client is unchanged (header id, case or
                        // compression of the key name, bytes after the record)
                        let same_tbs = motbs.is_some() && motbs == rotbs;
                        if !same_tbs {
                            fails.push((format!("client verifier accepts a modified reply ({what}) whose MAC input changed"), None));
                        } else if known_class == Some("C13-F7-uncovered-bits") {
                            fails.push(("client verifier accepts a reply with the Z bit flipped (outside the reconstructed MAC input)".into(), known_class));
                        } else {
                            let _ = uncovered_ok;
                        }
                    } else if ocl2 == 9 {
                        fails.push((format!("client verifier panicked on a modified reply ({what})"), None));
                    }
                }
            }
        }
    }

    let known: Option<String> = match fails.first() {
        Some((_, Some(k))) if fails.iter().all(|(_, k2)| *k2 == Some(*k)) => Some(k.to_string()),
        _ => None,
    };
    let fails: Vec<String> = fails.into_iter().map(|f| f.0).collect();
    let coq = format!("(mkCase {} {} {} {})", tab.coq(), coq_pb(&s.req), coq_opt_pb(&o.reply), coq_list(subs));
    let text = format!(
        "seed={seed} index={index} kind={} {} keys={:?} allow_update={} policy={} client_key={} T={} now={} req={} => tbs={} verify[{}]={}{} parsed={} route={} rcode={} reply_tsig={} changed={} data={}{} reply={}{}",
        s.kind,
        if s.axfr { "AXFR" } else { "UPDATE" },
        s.cfg.keys,
        s.cfg.allow_update,
        s.cfg.policy,
        s.client,
        s.t,
        s.now,
        hex(&s.req),
        match &tbs {
            Ok(Some(b)) => hex(b),
            Ok(None) => "ERR".into(),
            Err(p) => format!("PANIC({p})"),
        },
        vkey,
        vclass,
        if vtext.is_empty() { String::new() } else { format!("({vtext})") },
        o.parsed,
        o.route,
        o.rcode,
        o.tsig_class,
        o.changed,
        o.data,
        match &o.panicked {
            Some(p) => format!(" PANIC({p})"),
            None => String::new(),
        },
        o.reply.as_ref().map(|r| hex(r)).unwrap_or_else(|| "-".into()),
        client_text,
    );
    let nontrivial = o.parsed && o.route != 2;
    CaseOut {
        index,
        coq,
        text,
        key: format!("{:?}|{}|{}|{}", s.cfg, s.client, s.now, hex(&s.req)),
        nontrivial,
        kind: s.kind.clone(),
        oracle_fail: if fails.is_empty() { None } else { Some(fails.join("; ")) },
        known: if fails.is_empty() { None } else { known },
    }
}

fn main() {
    quiet_panics();
    let args = parse_args();
    let rt = tokio::runtime::Builder::new_current_thread().enable_all().build().unwrap();
    if let Some((seed, index)) = args.replay {
        let c = case(&rt, seed, index);
        println!("{}", c.text);
        println!("COQ {}", c.coq);
        if let Some(f) = c.oracle_fail {
            println!("ORACLE-FAIL {f}");
        }
        return;
    }
    let mut cases = vec![];
    for index in (0..args.n).chain(FIXED_BASE..FIXED_BASE + FIXED_N) {
        cases.push(case(&rt, args.seed, index));
    }
    emit(
        "C13",
        "C13",
        &args,
        &cases,
        "UPDATE (1-2 added A records, optional extra additional record) and AXFR requests for example.com., signed by an encoder and RFC 8945 MAC-input constructor written in the harness (7 client keys: right key, same name other secret, same name other algorithm, unknown name, other case, other key) or by hickory's own signer; one edit per case out of: key-name case / compression, other data, fudge, original id (before signing); time, fudge, original id, error, other data, MAC truncated / extended / altered, key name, algorithm, TSIG class/TTL, Z bit, header id, record after TSIG, trailing bytes, TSIG stripped, single bit flips (header / TSIG record / anywhere), section-count +-1, byte overwrite (after signing); server clock at T + {-fudge-1..fudge+1, +-1 day, ...}; 10 server key sets, allow_update on/off, AXFR policy Deny/AllowAll/AllowSigned; time < fudge family; body written without compression before signing / re-encoded after signing. Per accepted reply: the client verifier on the reply, on one modified reply (bit flip, ANCOUNT+NSCOUNT overflow, duplicated TSIG record, trailing bytes) and on a chained second message (first_message = false) signed by the harness with time before/at/after the previous one, several fudges, MAC intact or spoiled. Non-trivial = request decoded and routed to the zone's update / transfer handler; distinct by (configuration, client key, clock, request bytes).",
        serde_json::json!({}),
    );
}
