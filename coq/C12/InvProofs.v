(* C12 — the zone invariants are preserved by every message outside the known classes. *)
From HV Require Import Lib.Base C12.Model C12.Spec C12.ZoneProofs.
Open Scope N_scope.

Ltac destr_if := match goal with |- context [if ?c then _ else _] => destruct c eqn:? end.
Ltac destr_if_in H := match type of H with context [if ?c then _ else _] => destruct c eqn:? end.

(* ------------------------------------------------------------------ *)
(* keys                                                                *)
(* ------------------------------------------------------------------ *)

Lemma zhas_zset z k v k' : zhas (zset z k v) k' = key_eqb k k' || zhas z k'.
Proof.
  unfold zhas. rewrite zget_zset, zget_zdel. destruct (key_eqb k k') eqn:E; [reflexivity|].
  rewrite key_eqb_sym, E. reflexivity.
Qed.

Lemma zhas_zdel z k k' : zhas (zdel z k) k' = negb (key_eqb k' k) && zhas z k'.
Proof. unfold zhas. rewrite zget_zdel. now destruct (key_eqb k' k). Qed.

Lemma zhas_retain o n z k : zhas (retain_any o n z) k = retain_keep o n k && zhas z k.
Proof. unfold zhas. rewrite zget_retain. now destruct (retain_keep o n k). Qed.

Lemma zhas_in z k : zhas z k = true <-> exists v, In (k, v) z.
Proof.
  split.
  - intros H. apply zhas_true in H. destruct H as [v H]. apply zget_in in H.
    destruct H as (k' & Hin & ->). eauto.
  - intros [v H]. eapply in_zhas; eauto.
Qed.

Lemma upsert_blocked_true z n t :
  upsert_blocked z n t = true <->
  exists kt, zhas z (n, kt) = true /\ in_range kt = true /\ is_nsec t kt = false /\ label_no_multi t kt tCNAME = true.
Proof.
  unfold upsert_blocked. rewrite existsb_exists. split.
  - intros ([[n' kt] v] & Hin & H). cbn [fst snd] in H.
    rewrite !andb_true_iff, negb_true_iff, name_eqb_eq in H. destruct H as [[[-> H1] H2] H3].
    exists kt. repeat split; auto. apply zhas_in. eauto.
  - intros (kt & Hh & H1 & H2 & H3). apply zhas_in in Hh. destruct Hh as [v Hin].
    exists ((n, kt), v). split; [exact Hin|]. cbn [fst snd].
    rewrite name_eqb_refl, H1, H2, H3. reflexivity.
Qed.

(* ------------------------------------------------------------------ *)
(* RecordSet::insert, by cases                                         *)
(* ------------------------------------------------------------------ *)

Lemma rs_insert_true recs t d ttl recs' : rs_insert recs t d ttl = (recs', true) ->
  (t = tSOA /\ recs' = [(d, ttl)] /\
     (recs = [] \/ exists es er ettl rest ns nr, recs = (DSoa es er, ettl) :: rest /\ d = DSoa ns nr /\ soa_newer ns es = true))
  \/ ((t = tCNAME \/ t = tANAME) /\ recs' = [(d, ttl)])
  \/ (t <> tSOA /\ t <> tCNAME /\ t <> tANAME /\
      existsb (fun r : rec => rdata_eqb (fst r) d) recs = false /\ recs' = recs ++ [(d, ttl)]).
Proof.
  unfold rs_insert. destruct (t =? tSOA) eqn:Es.
  - apply N.eqb_eq in Es. intros H. left. split; [exact Es|].
    destruct recs as [|[[| | |es er] ettl] recs0]; try (inversion H; fail).
    + inversion H; subst. split; auto.
    + destruct d as [| | |ns nr]; try (inversion H; fail).
      destruct (soa_newer ns es) eqn:En; inversion H; subst. split; [reflexivity|].
      right. exists es, er, ettl, recs0, ns, nr. auto.
  - apply N.eqb_neq in Es. destruct ((t =? tCNAME) || (t =? tANAME)) eqn:Ec.
    + intros H; inversion H; subst. right; left. split; [|reflexivity].
      apply orb_true_iff in Ec. destruct Ec as [E|E]; apply N.eqb_eq in E; auto.
    + apply orb_false_iff in Ec. destruct Ec as [E1 E2]. apply N.eqb_neq in E1, E2.
      match goal with |- context [existsb ?f recs] => destruct (existsb f recs) eqn:Ee end;
        intros H; inversion H; subst. right; right. repeat split; auto.
Qed.

Lemma existsb_rdata_false (recs : list rec) d :
  existsb (fun r : rec => rdata_eqb (fst r) d) recs = false -> ~ In d (map fst recs).
Proof.
  induction recs as [|x recs IH]; cbn [existsb map In]; [tauto|].
  intros H. apply orb_false_iff in H. destruct H as [H1 H2]. intros [E|E].
  - subst d. now rewrite rdata_eqb_refl in H1.
  - now apply IH.
Qed.

Lemma NoDup_app_single {A} (l : list A) x : NoDup l -> ~ In x l -> NoDup (l ++ [x]).
Proof.
  induction l as [|y l IH]; cbn [app]; intros Hd Hn.
  - constructor; [tauto|constructor].
  - inversion Hd as [|? ? Hy Hl]; subst. constructor.
    + intros Hin. apply in_app_or in Hin. destruct Hin as [Hin|[Hin|[]]]; [tauto|].
      subst. apply Hn. now left.
    + apply IH; [exact Hl|]. intros Hin. apply Hn. now right.
Qed.

Lemma NoDup_map_filter (f : rec -> bool) (l : list rec) : NoDup (map fst l) -> NoDup (map fst (filter f l)).
Proof.
  induction l as [|x l IH]; cbn [map filter]; [auto|].
  intros H. inversion H as [|? ? Hn Hd]; subst. destruct (f x); cbn [map]; [|now apply IH].
  constructor; [|now apply IH]. intros Hin. apply Hn.
  apply in_map_iff in Hin. destruct Hin as (y & E & Hy). apply filter_In in Hy.
  apply in_map_iff. exists y. tauto.
Qed.

Lemma filter_all (l : list rec) d :
  ~ In d (map fst l) -> filter (fun r : rec => negb (rdata_eqb (fst r) d)) l = l.
Proof.
  induction l as [|x l IH]; cbn [map In filter]; [reflexivity|].
  intros H. destruct (rdata_eqb (fst x) d) eqn:E.
  - apply rdata_eqb_eq in E. exfalso. apply H. now left.
  - cbn [negb]. f_equal. apply IH. tauto.
Qed.

Lemma filter_keeps_most (l : list rec) d :
  NoDup (map fst l) -> (length l <= S (length (filter (fun r : rec => negb (rdata_eqb (fst r) d)) l)))%nat.
Proof.
  induction l as [|x l IH]; cbn [map filter length]; [lia|].
  intros H. inversion H as [|? ? Hn Hd]; subst. destruct (rdata_eqb (fst x) d) eqn:E; cbn [negb length].
  - apply rdata_eqb_eq in E. subst d. rewrite filter_all by exact Hn. lia.
  - specialize (IH Hd). lia.
Qed.

Lemma rs_remove_ns (recs : list rec) d recs' b :
  rs_remove recs tNS d = (recs', b) -> recs <> [] -> NoDup (map fst recs) ->
  recs' <> [] /\ NoDup (map fst recs').
Proof.
  unfold rs_remove. cbn [N.eqb]. replace (tNS =? tNS) with true by reflexivity. cbn [andb].
  destruct (length recs <=? 1)%nat eqn:El.
  - intros H; inversion H; subst. auto.
  - replace (tNS =? tSOA) with false by reflexivity. intros H Hne Hnd. inversion H; subst. split.
    + apply Nat.leb_gt in El. pose proof (filter_keeps_most recs d Hnd) as Hk.
      intros E. rewrite E in Hk. cbn [length] in Hk. lia.
    + now apply NoDup_map_filter.
Qed.

(* ------------------------------------------------------------------ *)
(* upsert, by cases                                                    *)
(* ------------------------------------------------------------------ *)

Lemma upsert_spec z r z' b : upsert z r = (z', b) ->
  (b = false /\ z' = z) \/
  (b = true /\ rclass r = cIN /\ upsert_blocked z (rname r) (rtype r) = false /\
   exists recs', rs_insert (recs_at z (rname r, rtype r)) (rtype r) (rdat r) (rttl r) = (recs', true) /\
                 z' = zset z (rname r, rtype r) recs').
Proof.
  unfold upsert. destruct (rclass r =? cIN) eqn:Ec; cbn [negb].
  2:{ intros H; inversion H; auto. }
  apply N.eqb_eq in Ec. destruct (upsert_blocked z (rname r) (rtype r)) eqn:Eb.
  { intros H; inversion H; auto. }
  fold (recs_at z (rname r, rtype r)).
  destruct (rs_insert (recs_at z (rname r, rtype r)) (rtype r) (rdat r) (rttl r)) as [recs' b'] eqn:Ei.
  destruct b'; intros H; inversion H; subst; [right|left; auto].
  repeat split; auto. eauto.
Qed.

Lemma recs_at_some z k l : zget z k = Some l -> recs_at z k = l.
Proof. unfold recs_at. now intros ->. Qed.
Lemma recs_at_none z k : zget z k = None -> recs_at z k = [].
Proof. unfold recs_at. now intros ->. Qed.

Lemma exempt_false t : exempt t = false -> in_range t = true /\ (t =? tNSEC) = false /\ (t =? tNSEC3) = false.
Proof.
  unfold exempt. intros H. apply orb_false_iff in H. destruct H as [H H3].
  apply orb_false_iff in H. destruct H as [H1 H2]. apply negb_false_iff in H1. auto.
Qed.

Lemma upsert_WF o z r : WF o z -> soa_not_apex o r = false -> WF o (fst (upsert z r)).
Proof.
  intros W Hk. destruct (upsert z r) as [z' b] eqn:Eu. cbn [fst].
  apply upsert_spec in Eu. destruct Eu as [[_ ->]|(-> & Hc & Hb & recs' & Hi & ->)]; [exact W|].
  destruct r as [rn rc rl rt rd]. cbn [rname rclass rttl rtype rdat] in *.
  assert (Hnb : forall kt, zhas z (rn, kt) = true -> in_range kt = true -> is_nsec rt kt = false ->
                           label_no_multi rt kt tCNAME = false).
  { intros kt H1 H2 H3. destruct (label_no_multi rt kt tCNAME) eqn:E; [|reflexivity].
    assert (upsert_blocked z rn rt = true) as Hx by (apply upsert_blocked_true; eauto).
    congruence. }
  destruct W as [Wsoa Wone Wns Wc Wc1].
  apply rs_insert_true in Hi. constructor.
  - (* apex SOA *)
    destruct Wsoa as (s & r0 & ttl0 & Hs).
    destruct (key_eqb (rn, rt) (o, tSOA)) eqn:Ek.
    + apply key_eqb_eq in Ek. inversion Ek; subst rn rt.
      rewrite zget_zset_same. rewrite (recs_at_some _ _ _ Hs) in Hi.
      destruct Hi as [(_ & -> & [Hnil|(es & er & ettl & rest & ns & nr & Hr & Hd & _)])|[([E|E] & _)|(E & _)]];
        try discriminate E; try (now elim E); try discriminate Hnil.
      rewrite Hd. eauto.
    + apply key_eqb_neq in Ek. rewrite zget_zset_other by exact Ek. eauto.
  - (* no SOA elsewhere *)
    intros n Hn. destruct (key_eqb (rn, rt) (n, tSOA)) eqn:Ek.
    + apply key_eqb_eq in Ek. inversion Ek; subst rn rt.
      unfold soa_not_apex in Hk. cbn [rname rclass rtype] in Hk. rewrite Hc in Hk. cbn in Hk.
      apply negb_false_iff, name_eqb_eq in Hk. contradiction.
    + apply key_eqb_neq in Ek. rewrite zget_zset_other by exact Ek. now apply Wone.
  - (* apex NS *)
    destruct Wns as (recs & Hg & Hne & Hnd).
    destruct (key_eqb (rn, rt) (o, tNS)) eqn:Ek.
    + apply key_eqb_eq in Ek. inversion Ek; subst rn rt.
      rewrite zget_zset_same. rewrite (recs_at_some _ _ _ Hg) in Hi.
      destruct Hi as [(E & _)|[([E|E] & _)|(_ & _ & _ & Hex & ->)]]; try discriminate E.
      exists (recs ++ [(rd, rl)]). repeat split.
      * destruct recs; discriminate.
      * rewrite map_app. cbn [map fst]. apply NoDup_app_single; [exact Hnd|].
        now apply existsb_rdata_false.
    + apply key_eqb_neq in Ek. rewrite zget_zset_other by exact Ek. eauto.
  - (* CNAME exclusivity *)
    intros n t Hcn Ht Hex. rewrite zhas_zset in Hcn, Ht.
    apply exempt_false in Hex. destruct Hex as (Hr & Hn1 & Hn2).
    apply orb_true_iff in Hcn. apply orb_true_iff in Ht.
    destruct Hcn as [Hcn|Hcn]; destruct Ht as [Ht|Ht].
    + apply key_eqb_eq in Hcn, Ht. congruence.
    + (* the new key is the CNAME, (n,t) was there *)
      apply key_eqb_eq in Hcn. inversion Hcn; subst rn rt.
      specialize (Hnb t Ht Hr).
      unfold is_nsec, label_no_multi in Hnb. rewrite Hn1, Hn2 in Hnb.
      replace (tCNAME =? tNSEC) with false in Hnb by reflexivity.
      replace (tCNAME =? tNSEC3) with false in Hnb by reflexivity.
      replace (tCNAME =? tCNAME) with true in Hnb by reflexivity. cbn [orb andb negb] in Hnb.
      specialize (Hnb eq_refl). rewrite orb_false_r in Hnb. apply negb_false_iff, N.eqb_eq in Hnb. exact Hnb.
    + (* the new key is (n,t), a CNAME was there *)
      apply key_eqb_eq in Ht. inversion Ht; subst rn rt.
      specialize (Hnb tCNAME Hcn eq_refl).
      unfold is_nsec, label_no_multi in Hnb. rewrite Hn1, Hn2 in Hnb.
      replace (tCNAME =? tNSEC) with false in Hnb by reflexivity.
      replace (tCNAME =? tNSEC3) with false in Hnb by reflexivity.
      replace (tCNAME =? tCNAME) with true in Hnb by reflexivity. cbn [orb andb negb] in Hnb.
      specialize (Hnb eq_refl). destruct (t =? tCNAME) eqn:E; [now apply N.eqb_eq in E|].
      cbn in Hnb. discriminate.
    + eapply Wc; eauto. unfold exempt. rewrite Hr, Hn1, Hn2. reflexivity.
  - (* one CNAME *)
    intros n recs Hg. destruct (key_eqb (rn, rt) (n, tCNAME)) eqn:Ek.
    + apply key_eqb_eq in Ek. inversion Ek; subst rn rt.
      rewrite zget_zset_same in Hg. inversion Hg; subst recs.
      destruct Hi as [(E & _)|[(_ & ->)|(_ & E & _)]]; try discriminate E; try (now elim E).
      cbn; lia.
    + apply key_eqb_neq in Ek. rewrite zget_zset_other in Hg by exact Ek. eapply Wc1; eauto.
Qed.

(* ------------------------------------------------------------------ *)
(* operations that only remove keys / records                          *)
(* ------------------------------------------------------------------ *)

Lemma WF_shrink o z z' :
  WF o z ->
  (forall k, zhas z' k = true -> zhas z k = true) ->
  zget z' (o, tSOA) = zget z (o, tSOA) ->
  (exists recs, zget z' (o, tNS) = Some recs /\ recs <> [] /\ NoDup (map fst recs)) ->
  (forall n recs, zget z' (n, tCNAME) = Some recs ->
                  exists recs0, zget z (n, tCNAME) = Some recs0 /\ (length recs <= length recs0)%nat) ->
  WF o z'.
Proof.
  intros [Wsoa Wone Wns Wc Wc1] Hsub Hs Hn Hcn. constructor.
  - rewrite Hs. exact Wsoa.
  - intros n Hne. destruct (zget z' (n, tSOA)) eqn:E; [|reflexivity].
    assert (zhas z' (n, tSOA) = true) as Hh by (apply zhas_true; eauto).
    apply Hsub, zhas_true in Hh. destruct Hh as [v Hv]. rewrite (Wone n Hne) in Hv. discriminate.
  - exact Hn.
  - intros n t H1 H2 H3. eapply Wc; eauto.
  - intros n recs Hg. destruct (Hcn n recs Hg) as (recs0 & H0 & Hl). specialize (Wc1 n recs0 H0). lia.
Qed.

Lemma rs_remove_true (recs : list rec) t d recs' :
  rs_remove recs t d = (recs', true) ->
  t <> tSOA /\ recs' = filter (fun r : rec => negb (rdata_eqb (fst r) d)) recs.
Proof.
  unfold rs_remove. destruct ((t =? tNS) && (length recs <=? 1)%nat); [intros H; inversion H|].
  destruct (t =? tSOA) eqn:E; [intros H; inversion H|]. apply N.eqb_neq in E.
  intros H; inversion H; subst. auto.
Qed.

Lemma retain_keeps_apex o n t : (t = tSOA \/ t = tNS) -> retain_keep o n (o, t) = true.
Proof.
  intros Ht. unfold retain_keep. cbn [fst snd]. rewrite name_eqb_refl, andb_true_r.
  destruct Ht as [-> | ->]; cbn; apply orb_true_r.
Qed.

Lemma apply_rr_WF o z u z' b :
  WF o z -> soa_not_apex o u = false ->
  apply_rr o z u = Some (z', b) -> WF o z'.
Proof.
  intros W Hs. unfold apply_rr.
  destruct (rclass u =? cIN) eqn:Ec.
  { intros H. inversion H as [H1].
    replace z' with (fst (upsert z u)) by now rewrite H1. now apply upsert_WF. }
  destruct (rclass u =? cANY) eqn:Eany.
  { destruct (((rtype u =? tSOA) || (rtype u =? tNS)) && name_eqb (rname u) o) eqn:Eg.
    { intros H; inversion H; subst. exact W. }
    destruct (rtype u =? tANY) eqn:Et.
    - (* delete all RRsets at a name: the apex keeps SOA and NS *)
      intros H; inversion H; subst z' b. clear H.
      apply (WF_shrink o z); auto.
      + intros k. rewrite zhas_retain. intros H. apply andb_true_iff in H. tauto.
      + rewrite zget_retain, retain_keeps_apex by auto. reflexivity.
      + rewrite zget_retain, retain_keeps_apex by auto. exact (wf_ns _ _ W).
      + intros n recs. rewrite zget_retain. destruct (retain_keep o (rname u) (n, tCNAME)); [|discriminate].
        intros Hg. exists recs. split; [exact Hg|lia].
    - destruct (rdat u) eqn:Ed; try (intros H; discriminate H).
      intros H; inversion H; subst z' b. clear H.
      assert (Hk : forall t, (t = tSOA \/ t = tNS) -> key_eqb (o, t) (rname u, rtype u) = false).
      { intros t Ht. apply key_eqb_neq. intros E. inversion E as [[En Ety]].
        rewrite <- En, <- Ety, name_eqb_refl, andb_true_r in Eg.
        destruct Ht as [->| ->]; cbn in Eg; discriminate. }
      apply (WF_shrink o z); auto.
      + intros k. rewrite zhas_zdel. intros H. apply andb_true_iff in H. tauto.
      + rewrite zget_zdel, Hk by auto. reflexivity.
      + rewrite zget_zdel, Hk by auto. exact (wf_ns _ _ W).
      + intros n recs. rewrite zget_zdel. destruct (key_eqb (n, tCNAME) (rname u, rtype u)); [discriminate|].
        intros Hg. exists recs. split; [exact Hg|lia]. }
  destruct (rclass u =? cNONE) eqn:En; [|discriminate].
  destruct (zget z (rname u, rtype u)) as [recs|] eqn:Eg.
  2:{ intros H; inversion H; subst; exact W. }
  destruct (rs_remove recs (rtype u) (rdat u)) as [recs' rb] eqn:Er.
  destruct rb.
  2:{ intros H; inversion H; subst; exact W. }
  intros H; inversion H; subst z' b. clear H.
  pose proof (rs_remove_true _ _ _ _ Er) as [Hnsoa Hf].
  apply (WF_shrink o z); auto.
  - intros k. rewrite zhas_zset. intros H. apply orb_true_iff in H. destruct H as [H|H]; [|exact H].
    apply key_eqb_eq in H. subst k. apply zhas_true. eauto.
  - apply zget_zset_other. intros E. inversion E. congruence.
  - destruct (key_eqb (rname u, rtype u) (o, tNS)) eqn:Ek.
    + apply key_eqb_eq in Ek. rewrite Ek, zget_zset_same. inversion Ek as [[En' Et']].
      destruct (wf_ns _ _ W) as (recs0 & H0 & Hne & Hnd). rewrite Ek in Eg. rewrite Eg in H0. inversion H0; subst recs0.
      rewrite Et' in Er. destruct (rs_remove_ns _ _ _ _ Er Hne Hnd). eauto.
    + apply key_eqb_neq in Ek. rewrite zget_zset_other by exact Ek. exact (wf_ns _ _ W).
  - intros n recs0. destruct (key_eqb (rname u, rtype u) (n, tCNAME)) eqn:Ek.
    + apply key_eqb_eq in Ek. rewrite Ek, zget_zset_same. intros H; inversion H; subst recs0.
      rewrite Ek in Eg. exists recs. split; [exact Eg|]. rewrite Hf. apply filter_len_le.
    + apply key_eqb_neq in Ek. rewrite zget_zset_other by exact Ek. intros Hg. exists recs0. split; [exact Hg|lia].
Qed.

(* ------------------------------------------------------------------ *)
(* the whole update section, the serial increment, the message         *)
(* ------------------------------------------------------------------ *)

Definition ok_rr (o : name) (u : rr) : Prop := soa_not_apex o u = false.

Lemma Known_inv_false o m : Known_inv o m = false -> Forall (ok_rr o) (m_upd m).
Proof.
  unfold Known_inv. intros H. apply Forall_forall. intros u Hu. unfold ok_rr.
  destruct (soa_not_apex o u) eqn:E; [|reflexivity].
  assert (existsb (soa_not_apex o) (m_upd m) = true) as Hx by (apply existsb_exists; eauto). congruence.
Qed.

Lemma apply_rrs_WF o us : forall z upd z' upd' c,
  WF o z -> Forall (ok_rr o) us -> apply_rrs o z upd us = (z', upd', c) -> WF o z'.
Proof.
  induction us as [|u us IH]; intros z upd z' upd' c W Hok; cbn [apply_rrs].
  - intros H; inversion H; subst; exact W.
  - inversion Hok as [|? ? Hs Hok']; subst.
    destruct (apply_rr o z u) as [[z1 b]|] eqn:Ea.
    + intros H. eapply IH; [|exact Hok'|exact H]. eapply apply_rr_WF; eauto.
    + intros H; inversion H; subst; exact W.
Qed.

Lemma WF_new_soa o z z' s' r' ttl' :
  WF o z ->
  (forall k, k <> (o, tSOA) -> zget z' k = zget z k) ->
  zget z' (o, tSOA) = Some [(DSoa s' r', ttl')] ->
  WF o z'.
Proof.
  intros [Wsoa Wone Wns Wc Wc1] Hsame Hs.
  assert (Hhas : forall k, zhas z' k = zhas z k).
  { intros k. destruct (key_eqb k (o, tSOA)) eqn:E.
    - apply key_eqb_eq in E. subst k. unfold zhas. rewrite Hs.
      destruct Wsoa as (s & r & t & ->). reflexivity.
    - apply key_eqb_neq in E. unfold zhas. now rewrite Hsame. }
  constructor.
  - eauto.
  - intros n Hn. rewrite Hsame; [now apply Wone|]. intros E; inversion E; contradiction.
  - rewrite Hsame; [exact Wns|]. intros E; inversion E.
  - intros n t. rewrite !Hhas. apply Wc.
  - intros n recs. rewrite Hsame; [apply Wc1|]. intros E; inversion E.
Qed.

Lemma filter_filter_same {A} (f : A -> bool) l : filter f (filter f l) = filter f l.
Proof.
  induction l as [|x l IH]; cbn [filter]; [reflexivity|].
  destruct (f x) eqn:E; cbn [filter]; [rewrite E; f_equal|]; exact IH.
Qed.

Lemma increment_spec ovf o z : WF o z ->
  exists s r ttl, zget z (o, tSOA) = Some [(DSoa s r, ttl)] /\
  increment_soa_serial ovf o z =
    match next_serial ovf s with
    | None => Panic (zdel z (o, tSOA), 0)
    | Some s' => Done (zset z (o, tSOA) [(DSoa s' r, ttl)], s')
    end.
Proof.
  intros W. destruct (wf_soa _ _ W) as (s & r & ttl & Hs). exists s, r, ttl. split; [exact Hs|].
  unfold increment_soa_serial. rewrite Hs. destruct (next_serial ovf s) as [s'|]; [|reflexivity].
  f_equal. f_equal.
  set (z1 := zdel z (o, tSOA)).
  assert (Hb : upsert_blocked z1 o tSOA = false).
  { destruct (upsert_blocked z1 o tSOA) eqn:E; [|reflexivity].
    apply upsert_blocked_true in E. destruct E as (kt & Hh & Hr & Hn & Hl).
    unfold z1 in Hh. rewrite zhas_zdel in Hh. apply andb_true_iff in Hh. destruct Hh as [_ Hh].
    unfold label_no_multi in Hl. replace (tSOA =? tCNAME) with false in Hl by reflexivity.
    cbn [andb negb orb] in Hl. apply N.eqb_eq in Hl. subst kt.
    destruct (wf_ns _ _ W) as (recs & Hg & _).
    assert (zhas z (o, tNS) = true) as Hns by (apply zhas_true; eauto).
    pose proof (wf_cname _ _ W o tNS Hh Hns eq_refl) as E. discriminate E. }
  unfold upsert. cbn [rclass rname rtype rdat rttl]. replace (cIN =? cIN) with true by reflexivity.
  cbn [negb]. rewrite Hb.
  assert (zget z1 (o, tSOA) = None) as -> by (unfold z1; rewrite zget_zdel, key_eqb_refl; reflexivity).
  rewrite rs_insert_nil. cbn [fst]. unfold zset. f_equal.
  unfold z1, zdel. rewrite filter_filter_same. reflexivity.
Qed.
