(* C12 — property theorems.  Statements are about the model of C12/Model.v (what the code does);
   the invariants, known classes and RFC 1982 comparison are in C12/Spec.v.
   Naming: plain = full strength; _guarded = for every input outside a narrow decidable class
   (the class is a finding confirmed on the real code); _refuted = the unguarded statement is
   false, with a witness evaluated by the kernel; _partial = one direction / one case only. *)
From HV Require Import Lib.Base C12.Model C12.Spec C12.ZoneProofs C12.InvProofs C12.UpdProofs C12.WfDec C12.RfcProofs.
Open Scope N_scope.

(* ---------------------------------------------------------------------------------------- *)
(* sequential: message k is judged against the zone as left by messages 1..k-1             *)
(* ---------------------------------------------------------------------------------------- *)

Theorem C12_sequential : forall ovf o z ms1 m ms2,
  run ovf o z (ms1 ++ m :: ms2) =
  run ovf o z ms1 ++ update ovf o (final ovf o z ms1) m
                  :: run ovf o (fst (update ovf o (final ovf o z ms1) m)) ms2.
Proof.
  intros. rewrite run_app. cbn [run]. destruct (update ovf o (final ovf o z ms1) m) as [z' r]. reflexivity.
Qed.
Print Assumptions C12_sequential.

(* ---------------------------------------------------------------------------------------- *)
(* all-or-nothing                                                                           *)
(* ---------------------------------------------------------------------------------------- *)

(* a message whose authorisation, prerequisites or prescan fail changes nothing — for every
   zone, well-formed or not *)
Theorem C12_rejected_changes_nothing : forall ovf o z m,
  m_auth m = false \/ verify_prerequisites o z (m_pre m) <> NoError \/ pre_scan o (m_upd m) <> NoError ->
  fst (update ovf o z m) = z /\ snd (update ovf o z m) <> Rc NoError.
Proof.
  intros ovf o z m H. unfold update. destruct (m_auth m); cbn [negb].
  2:{ split; [reflexivity|discriminate]. }
  destruct (verify_prerequisites o z (m_pre m) =? NoError) eqn:E1; cbn [negb].
  2:{ apply N.eqb_neq in E1. split; [reflexivity|intros X; inversion X; congruence]. }
  destruct (pre_scan o (m_upd m) =? NoError) eqn:E2; cbn [negb].
  2:{ apply N.eqb_neq in E2. split; [reflexivity|intros X; inversion X; congruence]. }
  apply N.eqb_eq in E1, E2. destruct H as [H|[H|H]]; [discriminate|contradiction|contradiction].
Qed.
Print Assumptions C12_rejected_changes_nothing.

(* conversely: from a well-formed zone, ANY answer other than NOERROR means the zone is exactly
   as before (the update loop cannot fail half-way once the prescan has passed) *)
Theorem C12_all_or_nothing_guarded : forall ovf o z m c,
  WF o z -> Known_inv o m = false ->
  snd (update ovf o z m) = Rc c -> c <> NoError -> fst (update ovf o z m) = z.
Proof. exact update_error_unchanged. Qed.
Print Assumptions C12_all_or_nothing_guarded.

(* ---------------------------------------------------------------------------------------- *)
(* zone invariants after every message of every history                                     *)
(* ---------------------------------------------------------------------------------------- *)

(* The only remaining guard is Known_inv = "the update section adds an SOA whose owner is not the
   apex" (finding C12-soa-not-apex, open).  The former guards for "delete all RRsets" at the apex
   and for the serial at 2^32-1 are gone with fixes 9a1aca9 and 118f816. *)

(* one step: exactly one SOA, apex NS, CNAME exclusive afterwards, and no panic, in every build *)
Theorem C12_invariants_step_guarded : forall ovf o z m,
  WF o z -> Known_inv o m = false ->
  WF o (fst (update ovf o z m)) /\ snd (update ovf o z m) <> Panicked.
Proof. intros. split; [now apply update_WF|now apply update_no_panic]. Qed.
Print Assumptions C12_invariants_step_guarded.

(* every history, every build, including histories that cross serial 2^32-1 and histories that
   "delete all RRsets" at the apex: the invariants hold after every message and none panics *)
Theorem C12_invariants_history_guarded : forall ovf o z ms,
  WF o z -> Forall (fun m => Known_inv o m = false) ms ->
  Forall (fun zr => WF o (fst zr) /\ snd zr <> Panicked) (run ovf o z ms).
Proof. intros. now apply run_WF. Qed.
Print Assumptions C12_invariants_history_guarded.

Definition o_ex : name := [2; 1].
Definition soa_ex s := mkRR o_ex cIN 300 tSOA (DSoa s 7).
Definition z_ex (s : N) : zone :=
  build [soa_ex s; mkRR o_ex cIN 300 tNS (DGen 1); mkRR [3; 2; 1] cIN 300 tA (DGen 1);
         mkRR [6; 2; 1] cIN 300 tCNAME (DCname [3; 2; 1]); mkRR [5; 2; 1] cIN 300 tNS (DGen 3)].
Definition sign us := mkMsg true [] us.

(* fix 9a1aca9 (was C12_invariants_refuted_apex_delete_all): "delete all RRsets from a name"
   (class ANY, type ANY) at the apex keeps exactly the apex SOA and NS RRsets, removes every other
   RRset of the apex, and touches no other name — for every zone *)
Theorem C12_apex_delete_all_keeps_soa_ns : forall o z u z' b,
  apex_wipe o u = true -> apply_rr o z u = Some (z', b) ->
  zget z' (o, tSOA) = zget z (o, tSOA) /\ zget z' (o, tNS) = zget z (o, tNS) /\
  (forall t, t <> tSOA -> t <> tNS -> zget z' (o, t) = None) /\
  (forall n t, n <> o -> zget z' (n, t) = zget z (n, t)).
Proof. exact apex_delete_all_spec. Qed.
Print Assumptions C12_apex_delete_all_keeps_soa_ns.

(* C12-soa-not-apex (open): an SOA owned by another name is added: two SOAs *)
Theorem C12_invariants_refuted_soa_not_apex :
  exists o z m, WF o z /\ snd (update false o z m) = Rc NoError /\ ~ WF o (fst (update false o z m)).
Proof.
  exists o_ex, (z_ex 10), (sign [mkRR [3; 2; 1] cIN 300 tSOA (DSoa 1 7)]).
  split; [apply wfb_sound; vm_compute; reflexivity|]. split; [vm_compute; reflexivity|].
  intros [_ H _ _ _]. specialize (H [3; 2; 1]). vm_compute in H.
  assert ([3; 2; 1] <> [2; 1]) as Hn by discriminate. specialize (H Hn). discriminate.
Qed.
Print Assumptions C12_invariants_refuted_soa_not_apex.

(* fix 118f816 (was C12_invariants_refuted_serial_overflow / C12_no_panic_guarded): no message
   panics, whatever the serial and whatever SOA it carries, in builds with and without overflow
   checks *)
Theorem C12_no_panic : forall ovf o z m,
  WF o z -> Known_inv o m = false -> snd (update ovf o z m) <> Panicked.
Proof. exact update_no_panic. Qed.
Print Assumptions C12_no_panic.

(* ---------------------------------------------------------------------------------------- *)
(* the serial                                                                               *)
(* ---------------------------------------------------------------------------------------- *)

(* if an accepted message changed anything at all, the serial is the successor modulo 2^32 of the
   serial the zone had once the update section was applied (which may itself have set a newer
   SOA), and that is strictly newer in RFC 1982 arithmetic: 0 follows 2^32-1 *)
Theorem C12_changed_implies_serial_successor_guarded : forall ovf o z m z',
  WF o z -> Known_inv o m = false -> update ovf o z m = (z', Rc NoError) -> z' <> z ->
  exists z1 upd, apply_rrs o z false (m_upd m) = (z1, upd, true) /\
    serial o z' = (serial o z1 + 1) mod two32 /\ serial_lt (serial o z1) (serial o z') = true.
Proof. exact update_changed_successor. Qed.
Print Assumptions C12_changed_implies_serial_successor_guarded.

(* without SOA RDATA in the message: strictly advanced (RFC 1982) relative to the serial before
   the message, by exactly one, wrap included, in every build *)
Theorem C12_changed_implies_serial_advanced_guarded : forall ovf o z m z',
  WF o z -> Known_inv o m = false -> soa_serials (m_upd m) = [] ->
  update ovf o z m = (z', Rc NoError) -> z' <> z ->
  serial_lt (serial o z) (serial o z') = true /\ serial o z' = (serial o z + 1) mod two32.
Proof. exact update_changed_advances. Qed.
Print Assumptions C12_changed_implies_serial_advanced_guarded.

(* the converse ("serial moved => content changed") is false: re-adding the CNAME that is
   already there bumps the serial although the zone minus its SOA RRset is identical
   (finding C12-serial-bump-without-change, open) *)
Theorem C12_serial_moved_implies_changed_refuted :
  exists o z m z', WF o z /\ Known_inv o m = false /\ update false o z m = (z', Rc NoError) /\
    zdel z' (o, tSOA) = zdel z (o, tSOA) /\ serial o z' <> serial o z.
Proof.
  exists o_ex, (build [soa_ex 10; mkRR o_ex cIN 300 tNS (DGen 1); mkRR [6; 2; 1] cIN 300 tCNAME (DCname [3; 2; 1])]),
         (sign [mkRR [6; 2; 1] cIN 300 tCNAME (DCname [3; 2; 1])]).
  eexists. split; [apply wfb_sound; vm_compute; reflexivity|]. split; [reflexivity|].
  split; [vm_compute; reflexivity|]. split; [vm_compute; reflexivity|vm_compute; discriminate].
Qed.
Print Assumptions C12_serial_moved_implies_changed_refuted.

(* fix 118f816 (was C12_soa_update_rfc1982_refuted): an SOA update replaces the zone SOA exactly
   when its serial is newer in RFC 1982 arithmetic (Spec.serial_lt, written from RFC 1982 3.2) *)
Theorem C12_soa_update_is_rfc1982 : forall ns es, soa_newer ns es = serial_lt es ns.
Proof. exact soa_newer_serial_lt. Qed.
Print Assumptions C12_soa_update_is_rfc1982.

(* ---------------------------------------------------------------------------------------- *)
(* accepted contents are RFC 2136 3.4.2                                                     *)
(* ---------------------------------------------------------------------------------------- *)

(* one Update RR outside the known classes (Spec.Known_rr: decidable in the zone and the RR)
   leaves, key by key, the records that the pseudocode of 3.4.2.7 (Spec.rfc_rr, written
   independently of the model, SOA by RFC 1982) leaves *)
Theorem C12_update_rr_is_rfc_guarded : forall o z u z' b,
  WF o z -> Known_rr o z u = false -> apply_rr o z u = Some (z', b) -> same_records z' (rfc_rr o z u).
Proof. exact apply_rr_is_rfc. Qed.
Print Assumptions C12_update_rr_is_rfc_guarded.

(* the whole update section, RR by RR against the zone left by the RRs before it *)
Theorem C12_update_section_is_rfc_guarded : forall o us z,
  WF o z -> all_goodb o z us = true -> steps_rfc o z us.
Proof. exact update_section_is_rfc. Qed.
Print Assumptions C12_update_section_is_rfc_guarded.

(* the classes are real: e.g. the RR of C12-ttl-not-replaced is in Known_rr and the model
   differs from the RFC there *)
Theorem C12_update_is_rfc_refuted :
  exists o z u z' b, WF o z /\ apply_rr o z u = Some (z', b) /\ ~ same_records z' (rfc_rr o z u).
Proof.
  exists o_ex, (z_ex 10), (mkRR [3; 2; 1] cIN 60 tA (DGen 1)). eexists. eexists.
  split; [apply wfb_sound; vm_compute; reflexivity|]. split; [vm_compute; reflexivity|].
  intros H. specialize (H ([3; 2; 1], tA)). vm_compute in H. discriminate.
Qed.
Print Assumptions C12_update_is_rfc_refuted.

(* ---------------------------------------------------------------------------------------- *)
(* non-vacuity of the hypotheses                                                            *)
(* ---------------------------------------------------------------------------------------- *)

Example C12_ex_wf : WF o_ex (z_ex 10).
Proof. apply wfb_sound; vm_compute; reflexivity. Qed.

(* a three-message history outside the known classes: add, failing prerequisite, delete *)
Example C12_ex_history :
  let ms := [sign [mkRR [3; 2; 1] cIN 60 tA (DGen 2)];
             mkMsg true [mkRR [9; 2; 1] cANY 0 tANY DNone] [mkRR [3; 2; 1] cIN 60 tA (DGen 3)];
             sign [mkRR [3; 2; 1] cNONE 0 tA (DGen 1)]] in
  Forall (fun m => Known_inv o_ex m = false) ms /\
  map (fun zr => (snd zr, serial o_ex (fst zr))) (run false o_ex (z_ex 10) ms)
    = [(Rc NoError, 11); (Rc NXDomain, 11); (Rc NoError, 12)].
Proof. cbv zeta. split; [repeat constructor|vm_compute; reflexivity]. Qed.

(* an error answer from a well-formed zone (C12_all_or_nothing_guarded) *)
Example C12_ex_error :
  let m := mkMsg true [mkRR [3; 2; 1] cNONE 0 tA DNone] [mkRR [3; 2; 1] cIN 60 tA (DGen 2)] in
  Known_inv o_ex m = false /\ snd (update false o_ex (z_ex 10) m) = Rc YXRRSet.
Proof. cbv zeta. split; vm_compute; reflexivity. Qed.

(* a changing message at the top serial, build with overflow checks: wraps to 0, which is
   "advanced" in RFC 1982 arithmetic (C12_changed_implies_serial_advanced_guarded, C12_no_panic) *)
Example C12_ex_wrap :
  let m := sign [mkRR [3; 2; 1] cIN 60 tA (DGen 2)] in
  soa_serials (m_upd m) = [] /\ snd (update true o_ex (z_ex 4294967295) m) = Rc NoError /\
  serial o_ex (fst (update true o_ex (z_ex 4294967295) m)) = 0 /\ serial_lt 4294967295 0 = true.
Proof. cbv zeta. repeat split; vm_compute; reflexivity. Qed.

(* "delete all RRsets" at the apex on a concrete zone: the apex keeps SOA and NS, the invariants
   hold, the answer is NOERROR (C12_apex_delete_all_keeps_soa_ns, C12_invariants_step_guarded) *)
Example C12_ex_apex_delete_all :
  let z := build [soa_ex 10; mkRR o_ex cIN 300 tNS (DGen 1); mkRR o_ex cIN 300 tA (DGen 1)] in
  let m := sign [mkRR o_ex cANY 0 tANY DNone] in
  WF o_ex z /\ Known_inv o_ex m = false /\ snd (update true o_ex z m) = Rc NoError /\
  zget (fst (update true o_ex z m)) (o_ex, tA) = None /\ serial o_ex (fst (update true o_ex z m)) = 11.
Proof. cbv zeta. split; [apply wfb_sound; vm_compute; reflexivity|]. repeat split; vm_compute; reflexivity. Qed.
