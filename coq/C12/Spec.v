(* C12 — specification side: the zone invariants of the property, the known-finding classes as
   decidable predicates on messages, RFC 1982 comparison, and the RFC 2136 3.4.2.7 update
   semantics written independently of the model (over the same zone representation, read as a
   function from keys to record lists).  No proofs in this file. *)
From HV Require Import Lib.Base C12.Model.
Open Scope N_scope.

(* types the CNAME-exclusivity scan of upsert does not look at: NSEC/NSEC3 (deliberately) and
   type 65535 (the range end is exclusive) *)
Definition exempt (t : N) : bool := negb (in_range t) || (t =? tNSEC) || (t =? tNSEC3).

(* "After every message the zone has exactly one SOA and at least one apex NS, no name holds a
   CNAME together with other data" — stated on the keys of the map, which is stronger than on
   records (a key may hold an empty set). *)
Record WF (origin : name) (z : zone) : Prop := mkWF {
  wf_soa     : exists s r ttl, zget z (origin, tSOA) = Some [(DSoa s r, ttl)];
  wf_one_soa : forall n, n <> origin -> zget z (n, tSOA) = None;
  wf_ns      : exists recs, zget z (origin, tNS) = Some recs /\ recs <> [] /\ NoDup (map fst recs);
  wf_cname   : forall n t, zhas z (n, tCNAME) = true -> zhas z (n, t) = true -> exempt t = false -> t = tCNAME;
  wf_cname1  : forall n recs, zget z (n, tCNAME) = Some recs -> (length recs <= 1)%nat
}.

(* Known-finding class (decidable, on the message alone) under which the invariants are lost.
   (The former class C12-apex-delete-all is repaired: fix 9a1aca9; [apex_wipe] now only names
   the form of RR that the positive theorem C12_apex_delete_all_keeps_soa_ns speaks about.) *)
Definition apex_wipe (origin : name) (u : rr) : bool :=
  (rclass u =? cANY) && (rtype u =? tANY) && name_eqb (rname u) origin.
Definition soa_not_apex (origin : name) (u : rr) : bool :=
  (rclass u =? cIN) && (rtype u =? tSOA) && negb (name_eqb (rname u) origin).
Definition Known_inv (origin : name) (m : msg) : bool :=
  existsb (soa_not_apex origin) (m_upd m).

(* the serials a message can bring into the zone *)
Definition soa_serials (us : list rr) : list N :=
  flat_map (fun u => match rdat u with DSoa s _ => [s] | _ => [] end) us.
Definition maxs := two32 - 1.

(* RFC 1982 section 3.2, SERIAL_BITS = 32: s1 < s2 *)
Definition serial_lt (s1 s2 : N) : bool :=
  negb (s1 =? s2) &&
  (((s1 <? s2) && (s2 - s1 <? 2147483648)) || ((s2 <? s1) && (2147483648 <? s1 - s2))).

(* ------------------------------------------------------------------ *)
(* RFC 2136 section 3.4.2.7, read over "records at a key"              *)
(* ------------------------------------------------------------------ *)

Definition recs_at (z : zone) (k : key) : list rec := match zget z k with Some l => l | None => [] end.
Definition has_rrset (z : zone) (k : key) : bool := negb (is_nil (recs_at z k)).
(* zone_rrset<name, ~CNAME> *)
Definition has_other (z : zone) (n : name) : bool :=
  existsb (fun e => name_eqb (fst (fst e)) n && negb (snd (fst e) =? tCNAME) && negb (is_nil (snd e))) z.

(* one Update RR, by the pseudocode; SOA comparison by serial arithmetic, "lower or equal is ignored" *)
Definition rfc_rr (origin : name) (z : zone) (u : rr) : zone :=
  let k := (rname u, rtype u) in
  if rclass u =? cIN then
    if (if rtype u =? tCNAME then has_other z (rname u) else has_rrset z (rname u, tCNAME)) then z
    else if rtype u =? tSOA then
      match recs_at z k, rdat u with
      | (DSoa zs _, _) :: _, DSoa ns _ => if serial_lt zs ns then zset z k [(rdat u, rttl u)] else z
      | _, _ => z
      end
    else if rtype u =? tCNAME then zset z k [(rdat u, rttl u)]
    else if existsb (fun r => rdata_eqb (fst r) (rdat u)) (recs_at z k)
         then zset z k (map (fun r => if rdata_eqb (fst r) (rdat u) then (rdat u, rttl u) else r) (recs_at z k))
         else zset z k (recs_at z k ++ [(rdat u, rttl u)])
  else if rclass u =? cANY then
    if rtype u =? tANY then
      filter (fun e => negb (name_eqb (fst (fst e)) (rname u))
                       || (name_eqb (rname u) origin && ((snd (fst e) =? tSOA) || (snd (fst e) =? tNS)))) z
    else if name_eqb (rname u) origin && ((rtype u =? tSOA) || (rtype u =? tNS)) then z
    else zdel z k
  else if rclass u =? cNONE then
    if rtype u =? tSOA then z
    else if (rtype u =? tNS) && list_eqb rdata_eqb (map fst (recs_at z k)) [rdat u] then z
    else match zget z k with
         | Some l => zset z k (filter (fun r => negb (rdata_eqb (fst r) (rdat u))) l)
         | None => z
         end
  else z.

(* zones are compared as RFC zones: the records at every key (an absent key and an empty set are the same) *)
Definition same_records (z1 z2 : zone) : Prop := forall k, recs_at z1 k = recs_at z2 k.

(* the update RRs on which the code is NOT RFC 2136, given the zone they are applied to
   (each disjunct is one finding of known_findings.json) *)
Definition has_empty_at (z : zone) (n : name) : bool :=
  existsb (fun e => name_eqb (fst (fst e)) n && is_nil (snd e)) z.
Definition has_exempt_at (z : zone) (n : name) : bool :=
  existsb (fun e => name_eqb (fst (fst e)) n && exempt (snd (fst e))) z.

Definition Known_rr (origin : name) (z : zone) (u : rr) : bool :=
  soa_not_apex origin u                                                  (* C12-soa-not-apex *)
  || has_empty_at z (rname u)                                            (* C12-empty-rrset-kept *)
  || ((rclass u =? cIN) && existsb (fun r => rdata_eqb (fst r) (rdat u) && negb (snd r =? rttl u))
                                   (recs_at z (rname u, rtype u)))       (* C12-ttl-not-replaced *)
  (* outside the universe of the correspondence check: DNSSEC / ANAME types *)
  || exempt (rtype u) || (rtype u =? tANAME) || has_exempt_at z (rname u).

(* the whole update section: no Update RR is in a known class for the zone it is applied to *)
Fixpoint all_goodb (o : name) (z : zone) (us : list rr) : bool :=
  match us with
  | [] => true
  | u :: us' => negb (Known_rr o z u) &&
                match apply_rr o z u with Some (z', _) => all_goodb o z' us' | None => false end
  end.

(* every Update RR, applied to the zone as left by the RRs before it, does what RFC 2136
   3.4.2.7 prescribes for that RR (and the loop does not bail out) *)
Fixpoint steps_rfc (o : name) (z : zone) (us : list rr) : Prop :=
  match us with
  | [] => True
  | u :: us' => match apply_rr o z u with
                | Some (z', _) => same_records z' (rfc_rr o z u) /\ steps_rfc o z' us'
                | None => False
                end
  end.
