(* C12 — basic facts about the zone map operations and RecordSet::insert / remove. *)
From HV Require Import Lib.Base C12.Model.
Open Scope N_scope.

Lemma name_eqb_eq a b : name_eqb a b = true <-> a = b.
Proof. apply list_eqb_eq. intros; apply N.eqb_eq. Qed.
Lemma name_eqb_refl a : name_eqb a a = true.
Proof. now apply name_eqb_eq. Qed.
Lemma name_eqb_neq a b : name_eqb a b = false <-> a <> b.
Proof.
  split; intros H.
  - intros E. apply name_eqb_eq in E. congruence.
  - destruct (name_eqb a b) eqn:E; [apply name_eqb_eq in E; contradiction|reflexivity].
Qed.

Lemma key_eqb_eq a b : key_eqb a b = true <-> a = b.
Proof.
  destruct a as [n t], b as [n' t']. unfold key_eqb; cbn [fst snd].
  rewrite andb_true_iff, name_eqb_eq, N.eqb_eq. split; [intros [-> ->]; reflexivity|intros E; inversion E; auto].
Qed.
Lemma key_eqb_refl a : key_eqb a a = true.
Proof. now apply key_eqb_eq. Qed.
Lemma key_eqb_neq a b : key_eqb a b = false <-> a <> b.
Proof.
  split; intros H.
  - intros E. apply key_eqb_eq in E. congruence.
  - destruct (key_eqb a b) eqn:E; [apply key_eqb_eq in E; contradiction|reflexivity].
Qed.
Lemma key_eqb_sym a b : key_eqb a b = key_eqb b a.
Proof.
  destruct (key_eqb a b) eqn:E.
  - apply key_eqb_eq in E. subst. now rewrite key_eqb_refl.
  - apply key_eqb_neq in E. symmetry. apply key_eqb_neq. congruence.
Qed.

Lemma rdata_eqb_eq a b : rdata_eqb a b = true <-> a = b.
Proof.
  destruct a, b; cbn [rdata_eqb]; try (split; congruence).
  - rewrite N.eqb_eq. split; congruence.
  - rewrite name_eqb_eq. split; congruence.
  - rewrite andb_true_iff, !N.eqb_eq. split; [intros [-> ->]; reflexivity|intros E; inversion E; auto].
Qed.
Lemma rdata_eqb_refl a : rdata_eqb a a = true.
Proof. now apply rdata_eqb_eq. Qed.

(* a filter whose predicate looks at the key only *)
Lemma zget_filter (f : key -> bool) z k :
  zget (filter (fun e => f (fst e)) z) k = if f k then zget z k else None.
Proof.
  induction z as [|[k' v] z IH]; cbn [filter zget fst].
  - now destruct (f k).
  - destruct (key_eqb k' k) eqn:E.
    + apply key_eqb_eq in E. subst k'. destruct (f k) eqn:F.
      * cbn [zget]. now rewrite key_eqb_refl.
      * exact IH.
    + destruct (f k') eqn:F'.
      * cbn [zget]. rewrite E. exact IH.
      * exact IH.
Qed.

Lemma zget_zdel z k k' : zget (zdel z k) k' = if key_eqb k' k then None else zget z k'.
Proof.
  unfold zdel. rewrite (zget_filter (fun x => negb (key_eqb x k))).
  now destruct (key_eqb k' k).
Qed.

Lemma zget_zset z k v k' : zget (zset z k v) k' = if key_eqb k k' then Some v else zget (zdel z k) k'.
Proof. reflexivity. Qed.

Lemma zget_zset_same z k v : zget (zset z k v) k = Some v.
Proof. rewrite zget_zset. now rewrite key_eqb_refl. Qed.

Lemma zget_zset_other z k v k' : k <> k' -> zget (zset z k v) k' = zget z k'.
Proof.
  intros H. rewrite zget_zset, zget_zdel.
  assert (key_eqb k k' = false) as -> by now apply key_eqb_neq.
  rewrite key_eqb_sym. assert (key_eqb k k' = false) as -> by now apply key_eqb_neq. reflexivity.
Qed.

Lemma zget_retain origin n z k :
  zget (retain_any origin n z) k = if retain_keep origin n k then zget z k else None.
Proof. apply (zget_filter (retain_keep origin n)). Qed.

Lemma zhas_true z k : zhas z k = true <-> exists v, zget z k = Some v.
Proof. unfold zhas. destruct (zget z k); split; try congruence; eauto. intros [v H]; congruence. Qed.
Lemma zhas_false z k : zhas z k = false <-> zget z k = None.
Proof. unfold zhas. destruct (zget z k); split; congruence. Qed.

Lemma filter_len_le {A} (f : A -> bool) l : (length (filter f l) <= length l)%nat.
Proof. induction l as [|x l IH]; cbn [filter length]; [lia|]. destruct (f x); cbn [length]; lia. Qed.

(* a filter that does not shorten the list removed nothing *)
Lemma filter_length_same {A} (f : A -> bool) l : length (filter f l) = length l -> filter f l = l.
Proof.
  induction l as [|x l IH]; cbn [filter length]; [reflexivity|].
  destruct (f x); cbn [length]; intros H.
  - f_equal. apply IH. lia.
  - pose proof (filter_len_le f l). lia.
Qed.

Lemma zdel_absent z k : zget z k = None -> zdel z k = z.
Proof.
  unfold zdel. induction z as [|[k' v] z IH]; cbn [filter zget fst]; [reflexivity|].
  destruct (key_eqb k' k) eqn:E; [discriminate|]. cbn [negb]. intros H. f_equal. now apply IH.
Qed.

(* existsb over the zone, as a statement about keys present *)
Lemma zget_in z k v : zget z k = Some v -> exists k', In (k', v) z /\ k' = k.
Proof.
  induction z as [|[k' v'] z IH]; cbn [zget]; [discriminate|].
  destruct (key_eqb k' k) eqn:E.
  - intros H; inversion H; subst. apply key_eqb_eq in E. exists k'. split; [now left|exact E].
  - intros H. destruct (IH H) as (k2 & Hin & Hk). exists k2. split; [now right|exact Hk].
Qed.

Lemma in_zhas z k v : In (k, v) z -> zhas z k = true.
Proof.
  induction z as [|[k' v'] z IH]; cbn [In]; [contradiction|].
  unfold zhas; cbn [zget]. intros [H|H].
  - inversion H; subst. now rewrite key_eqb_refl.
  - destruct (key_eqb k' k); [reflexivity|]. apply IH in H. exact H.
Qed.

(* ------------------------------------------------------------------ *)
(* RecordSet::insert / remove                                          *)
(* ------------------------------------------------------------------ *)

Lemma rs_insert_nil t d ttl : rs_insert [] t d ttl = ([(d, ttl)], true).
Proof.
  unfold rs_insert. destruct (t =? tSOA); [reflexivity|].
  destruct ((t =? tCNAME) || (t =? tANAME)); reflexivity.
Qed.

(* insert "false" leaves the set alone *)
Lemma rs_insert_false recs t d ttl recs' : rs_insert recs t d ttl = (recs', false) -> recs' = recs.
Proof.
  unfold rs_insert. destruct (t =? tSOA).
  - destruct recs as [|[[| | |es er] ettl] recs0]; try (intros H; inversion H; fail); try (intros H; now inversion H).
    destruct d; try (intros H; now inversion H).
    destruct (soa_newer serial es); intros H; now inversion H.
  - destruct ((t =? tCNAME) || (t =? tANAME)); [intros H; inversion H|].
    match goal with |- context [existsb ?f recs] => destruct (existsb f recs) end; intros H; now inversion H.
Qed.

Lemma rs_insert_nonempty recs t d ttl recs' : rs_insert recs t d ttl = (recs', true) -> recs' <> [].
Proof.
  unfold rs_insert. destruct (t =? tSOA).
  - destruct recs as [|[[| | |es er] ettl] recs0]; try (intros H; inversion H; fail); try (intros H; inversion H; discriminate).
    destruct d; try (intros H; inversion H; fail).
    destruct (soa_newer serial es); intros H; inversion H; discriminate.
  - destruct ((t =? tCNAME) || (t =? tANAME)); [intros H; inversion H; discriminate|].
    match goal with |- context [existsb ?f recs] => destruct (existsb f recs) end; intros H; inversion H. destruct recs; discriminate.
Qed.

Lemma rs_remove_false recs t d recs' : rs_remove recs t d = (recs', false) -> recs' = recs.
Proof.
  unfold rs_remove. destruct ((t =? tNS) && (length recs <=? 1)%nat); [intros H; now inversion H|].
  destruct (t =? tSOA); [intros H; now inversion H|].
  intros H; inversion H as [[H1 H2]]. apply Nat.ltb_ge in H2.
  apply filter_length_same.
  match goal with |- length (filter ?f recs) = _ => pose proof (filter_len_le f recs) as H0 end.
  apply Nat.le_antisymm; [exact H0|exact H2].
Qed.
