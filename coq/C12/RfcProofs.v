(* C12 — an Update RR outside the known classes is processed as RFC 2136 3.4.2.7 prescribes. *)
From HV Require Import Lib.Base C12.Model C12.Spec C12.ZoneProofs C12.InvProofs C12.UpdProofs.
Open Scope N_scope.

Lemma recs_at_zset z k v k' : recs_at (zset z k v) k' = if key_eqb k k' then v else recs_at z k'.
Proof.
  unfold recs_at. rewrite zget_zset. destruct (key_eqb k k') eqn:E; [reflexivity|].
  rewrite zget_zdel, key_eqb_sym, E. reflexivity.
Qed.

Lemma same_zset_self z k : same_records (zset z k (recs_at z k)) z.
Proof.
  intros k'. rewrite recs_at_zset. destruct (key_eqb k k') eqn:E; [|reflexivity].
  apply key_eqb_eq in E. now subst.
Qed.

Lemma same_refl z : same_records z z.
Proof. intros k; reflexivity. Qed.

(* no empty set at the name: every key there has records *)
Lemma has_empty_false z n t l : has_empty_at z n = false -> zget z (n, t) = Some l -> l <> [].
Proof.
  intros H Hg E. subst l. apply zget_in in Hg. destruct Hg as (k' & Hin & ->).
  unfold has_empty_at in H.
  assert (existsb (fun e : name * N * list (rdata * N) => name_eqb (fst (fst e)) n && is_nil (snd e)) z = true) as Hx.
  { apply existsb_exists. exists ((n, t), []). split; [exact Hin|]. cbn. now rewrite name_eqb_refl. }
  congruence.
Qed.

Lemma has_exempt_false z n t : has_exempt_at z n = false -> zhas z (n, t) = true -> exempt t = false.
Proof.
  intros H Hh. apply zhas_in in Hh. destruct Hh as [v Hin]. destruct (exempt t) eqn:E; [|reflexivity].
  unfold has_exempt_at in H.
  assert (existsb (fun e : name * N * list (rdata * N) => name_eqb (fst (fst e)) n && exempt (snd (fst e))) z = true) as Hx.
  { apply existsb_exists. exists ((n, t), v). split; [exact Hin|]. cbn. now rewrite name_eqb_refl, E. }
  congruence.
Qed.

Lemma has_other_true z n : has_other z n = true <->
  exists t l, In ((n, t), l) z /\ t <> tCNAME /\ l <> [].
Proof.
  unfold has_other. rewrite existsb_exists. split.
  - intros ([[n' t] l] & Hin & H). cbn [fst snd] in H. rewrite !andb_true_iff, !negb_true_iff in H.
    destruct H as [[H1 H2] H3]. apply name_eqb_eq in H1. subst n'. apply N.eqb_neq in H2.
    exists t, l. repeat split; auto. intros ->. discriminate.
  - intros (t & l & Hin & Ht & Hl). exists ((n, t), l). split; [exact Hin|]. cbn [fst snd].
    rewrite name_eqb_refl. apply N.eqb_neq in Ht. rewrite Ht. destruct l; [contradiction|reflexivity].
Qed.

Lemma orb_false_elim' a b : a || b = false -> a = false /\ b = false.
Proof. apply orb_false_iff. Qed.

Lemma Known_rr_false o z u : Known_rr o z u = false ->
  soa_not_apex o u = false /\
  has_empty_at z (rname u) = false /\
  ((rclass u =? cIN) && existsb (fun r => rdata_eqb (fst r) (rdat u) && negb (snd r =? rttl u))
                                   (recs_at z (rname u, rtype u))) = false /\
  exempt (rtype u) = false /\ (rtype u =? tANAME) = false /\ has_exempt_at z (rname u) = false.
Proof.
  unfold Known_rr. intros H.
  repeat (apply orb_false_iff in H; destruct H as [H ?]). repeat split; assumption.
Qed.

Lemma blocked_iff_rfc_skip (z : zone) (u : rr) :
  has_empty_at z (rname u) = false -> has_exempt_at z (rname u) = false -> exempt (rtype u) = false ->
  upsert_blocked z (rname u) (rtype u) =
  (if rtype u =? tCNAME then has_other z (rname u) else has_rrset z (rname u, tCNAME)).
Proof.
  intros He Hx Ht. apply exempt_false in Ht. destruct Ht as (Hr & Hn1 & Hn2).
  destruct (upsert_blocked z (rname u) (rtype u)) eqn:Eb.
  - apply upsert_blocked_true in Eb. destruct Eb as (kt & Hh & Hkr & Hkn & Hl).
    apply zhas_true in Hh. destruct Hh as [l Hg]. pose proof (has_empty_false _ _ _ _ He Hg) as Hne.
    unfold label_no_multi in Hl. destruct (rtype u =? tCNAME) eqn:Et; cbn [andb negb orb] in Hl.
    + rewrite orb_false_r in Hl. apply negb_true_iff, N.eqb_neq in Hl. symmetry. apply has_other_true.
      exists kt, l. split; [|auto]. apply zget_in in Hg. destruct Hg as (k' & Hin & ->). exact Hin.
    + apply N.eqb_eq in Hl. subst kt. unfold has_rrset, recs_at. rewrite Hg. destruct l; [contradiction|reflexivity].
  - symmetry. destruct (rtype u =? tCNAME) eqn:Et.
    + destruct (has_other z (rname u)) eqn:Eo; [|reflexivity]. exfalso.
      apply has_other_true in Eo. destruct Eo as (t' & l & Hin & Ht' & Hl).
      assert (zhas z (rname u, t') = true) as Hh by (eapply in_zhas; eauto).
      pose proof (has_exempt_false _ _ _ Hx Hh) as Hex. apply exempt_false in Hex. destruct Hex as (Hr' & Hn1' & Hn2').
      assert (upsert_blocked z (rname u) (rtype u) = true) as Hb.
      { apply upsert_blocked_true. exists t'. repeat split; auto.
        - unfold is_nsec. rewrite Hn1, Hn2, Hn1', Hn2'. reflexivity.
        - unfold label_no_multi. rewrite Et. apply N.eqb_neq in Ht'. rewrite Ht'. reflexivity. }
      congruence.
    + unfold has_rrset. destruct (recs_at z (rname u, tCNAME)) as [|x l] eqn:Er; [reflexivity|]. exfalso.
      assert (zhas z (rname u, tCNAME) = true) as Hh.
      { unfold recs_at in Er. apply zhas_true. destruct (zget z (rname u, tCNAME)); [eauto|discriminate]. }
      assert (upsert_blocked z (rname u) (rtype u) = true) as Hb.
      { apply upsert_blocked_true. exists tCNAME. repeat split; auto.
        - unfold is_nsec. rewrite Hn1, Hn2. reflexivity.
        - unfold label_no_multi. rewrite Et. reflexivity. }
      congruence.
Qed.

Lemma map_replace_same (l : list (rdata * N)) d ttl :
  existsb (fun r => rdata_eqb (fst r) d && negb (snd r =? ttl)) l = false ->
  map (fun r => if rdata_eqb (fst r) d then (d, ttl) else r) l = l.
Proof.
  induction l as [|[d' t'] l IH]; cbn [existsb map fst snd]; [reflexivity|].
  intros H. apply orb_false_iff in H. destruct H as [H1 H2]. rewrite (IH H2). f_equal.
  destruct (rdata_eqb d' d) eqn:E; [|reflexivity]. cbn [andb] in H1. apply negb_false_iff, N.eqb_eq in H1.
  apply rdata_eqb_eq in E. now subst.
Qed.

(* class IN *)
Lemma upsert_is_rfc o z u :
  WF o z -> Known_rr o z u = false -> rclass u = cIN ->
  same_records (fst (upsert z u)) (rfc_rr o z u).
Proof.
  intros W Hk Hc. apply Known_rr_false in Hk.
  destruct Hk as (Hsna & He & Httl & Hex & Han & Hxa).
  unfold rfc_rr. rewrite Hc in *. replace (cIN =? cIN) with true in * by reflexivity. cbn [andb] in *.
  rewrite <- (blocked_iff_rfc_skip z u He Hxa Hex).
  unfold upsert. rewrite Hc. replace (cIN =? cIN) with true by reflexivity. cbn [negb].
  destruct (upsert_blocked z (rname u) (rtype u)) eqn:Eb; [apply same_refl|].
  fold (recs_at z (rname u, rtype u)).
  unfold rs_insert. destruct (rtype u =? tSOA) eqn:Es.
  - (* SOA: the owner is the apex *)
    apply N.eqb_eq in Es. unfold soa_not_apex in Hsna. rewrite Hc, Es in Hsna. cbn in Hsna.
    apply negb_false_iff, name_eqb_eq in Hsna.
    destruct (wf_soa _ _ W) as (zs & zr & zttl & Hg). rewrite Es, Hsna in *.
    rewrite (recs_at_some _ _ _ Hg) in *.
    destruct (rdat u) as [| | |ns nr] eqn:Ed; try apply same_refl.
    rewrite <- soa_newer_serial_lt.
    destruct (soa_newer ns zs); cbn [fst]; apply same_refl.
  - rewrite Han, orb_false_r. destruct (rtype u =? tCNAME) eqn:Ec2; cbn [fst]; [apply same_refl|].
    destruct (existsb (fun r : rdata * N => rdata_eqb (fst r) (rdat u)) (recs_at z (rname u, rtype u))) eqn:Ee; cbn [fst].
    + rewrite map_replace_same by exact Httl. intros k. symmetry. apply same_zset_self.
    + apply same_refl.
Qed.

Lemma recs_at_filter (f : name * N -> bool) z k :
  recs_at (filter (fun e => f (fst e)) z) k = if f k then recs_at z k else [].
Proof. unfold recs_at. rewrite zget_filter. now destruct (f k). Qed.

Lemma has_rrset_false_recs z k : has_rrset z k = false -> recs_at z k = [].
Proof. unfold has_rrset. destruct (recs_at z k); [reflexivity|discriminate]. Qed.

Lemma recs_at_zdel z k k' : recs_at (zdel z k) k' = if key_eqb k' k then [] else recs_at z k'.
Proof. unfold recs_at. rewrite zget_zdel. now destruct (key_eqb k' k). Qed.

(* class ANY *)
Lemma any_is_rfc o z u z' b :
  Known_rr o z u = false -> (rclass u =? cIN) = false -> (rclass u =? cANY) = true ->
  apply_rr o z u = Some (z', b) -> same_records z' (rfc_rr o z u).
Proof.
  intros Hk Hc Ha. apply Known_rr_false in Hk.
  clear Hk.
  unfold apply_rr, rfc_rr. rewrite Hc, Ha.
  destruct (((rtype u =? tSOA) || (rtype u =? tNS)) && name_eqb (rname u) o) eqn:Eg.
  - intros H; inversion H; subst. apply andb_true_iff in Eg. destruct Eg as [Et En].
    destruct (rtype u =? tANY) eqn:Ea.
    { apply N.eqb_eq in Ea. rewrite Ea in Et. cbn in Et. discriminate. }
    rewrite En, Et. apply same_refl.
  - destruct (rtype u =? tANY) eqn:Ea.
    + intros H; inversion H; subst. clear H.
      intros k. unfold retain_any.
      rewrite (recs_at_filter (retain_keep o (rname u))).
      rewrite (recs_at_filter (fun k0 => negb (name_eqb (fst k0) (rname u))
                                         || (name_eqb (rname u) o && ((snd k0 =? tSOA) || (snd k0 =? tNS))))).
      unfold retain_keep. destruct k as [kn kt]. cbn [fst snd].
      destruct (name_eqb kn (rname u)) eqn:Ek; cbn [negb orb]; [|reflexivity].
      apply name_eqb_eq in Ek. subst kn. now rewrite andb_comm.
    + destruct (rdat u); try discriminate. intros H; inversion H; subst.
      rewrite andb_comm in Eg. rewrite Eg. apply same_refl.
Qed.

Lemma list_eqb_single (l : list (rdata * N)) d :
  list_eqb rdata_eqb (map fst l) [d] = true <-> exists ttl, l = [(d, ttl)].
Proof.
  destruct l as [|[d' t'] [|y l]]; cbn [map list_eqb fst]; split; try discriminate;
    try (intros [ttl H]; discriminate H).
  - rewrite andb_true_r. intros H. apply rdata_eqb_eq in H. subst. eauto.
  - intros [ttl H]. inversion H; subst. now rewrite rdata_eqb_refl.
  - rewrite andb_false_r. discriminate.
Qed.

(* class NONE *)
Lemma none_is_rfc o z u z' b :
  Known_rr o z u = false -> (rclass u =? cIN) = false -> (rclass u =? cANY) = false ->
  (rclass u =? cNONE) = true ->
  apply_rr o z u = Some (z', b) -> same_records z' (rfc_rr o z u).
Proof.
  intros Hk Hc Ha Hn. apply Known_rr_false in Hk.
  destruct Hk as (_ & He & _ & _ & _ & _).
  unfold apply_rr, rfc_rr. rewrite Hc, Ha, Hn.
  destruct (zget z (rname u, rtype u)) as [l|] eqn:Eg.
  2:{ intros H; inversion H; subst. destruct (rtype u =? tSOA); [apply same_refl|].
      destruct ((rtype u =? tNS) && _); apply same_refl. }
  pose proof (has_empty_false _ _ _ _ He Eg) as Hne.
  unfold rs_remove. rewrite (recs_at_some _ _ _ Eg).
  destruct (rtype u =? tSOA) eqn:Es.
  { rewrite andb_comm. destruct ((length l <=? 1)%nat && (rtype u =? tNS)); intros H; inversion H; subst; apply same_refl. }
  destruct (rtype u =? tNS) eqn:Et; cbn [andb].
  - destruct (length l <=? 1)%nat eqn:El.
    + intros H; inversion H; subst.
      destruct (list_eqb rdata_eqb (map fst l) [rdat u]) eqn:E1; [apply same_refl|].
      (* one record, different RDATA: the filter removes nothing *)
      destruct l as [|[d t] [|y l]]; [contradiction| |cbn in El; discriminate].
      cbn [filter fst map list_eqb] in *. rewrite andb_true_r in E1. rewrite E1. cbn [negb].
      intros k. rewrite recs_at_zset. destruct (key_eqb (rname u, rtype u) k) eqn:Ek; [|reflexivity].
      apply key_eqb_eq in Ek. subst k. now rewrite (recs_at_some _ _ _ Eg).
    + assert (list_eqb rdata_eqb (map fst l) [rdat u] = false) as ->.
      { destruct (list_eqb rdata_eqb (map fst l) [rdat u]) eqn:E1; [|reflexivity].
        apply list_eqb_single in E1. destruct E1 as [ttl ->]. cbn in El. discriminate. }
      destruct (length (filter (fun r : rdata * N => negb (rdata_eqb (fst r) (rdat u))) l) <? length l)%nat eqn:Ef;
        intros H; inversion H; subst; [apply same_refl|].
      apply Nat.ltb_ge in Ef. intros k. symmetry. rewrite recs_at_zset.
      destruct (key_eqb (rname u, rtype u) k) eqn:Ek; [|reflexivity].
      apply key_eqb_eq in Ek. subst k. rewrite (recs_at_some _ _ _ Eg).
      apply filter_length_same. apply Nat.le_antisymm; [apply filter_len_le|exact Ef].
  - destruct (length (filter (fun r : rdata * N => negb (rdata_eqb (fst r) (rdat u))) l) <? length l)%nat eqn:Ef;
      intros H; inversion H; subst; [apply same_refl|].
    apply Nat.ltb_ge in Ef. intros k. symmetry. rewrite recs_at_zset.
    destruct (key_eqb (rname u, rtype u) k) eqn:Ek; [|reflexivity].
    apply key_eqb_eq in Ek. subst k. rewrite (recs_at_some _ _ _ Eg).
    apply filter_length_same. apply Nat.le_antisymm; [apply filter_len_le|exact Ef].
Qed.

(* one Update RR, any class *)
Theorem apply_rr_is_rfc o z u z' b :
  WF o z -> Known_rr o z u = false -> apply_rr o z u = Some (z', b) -> same_records z' (rfc_rr o z u).
Proof.
  intros W Hk Ha. destruct (rclass u =? cIN) eqn:Ec.
  - apply N.eqb_eq in Ec. unfold apply_rr in Ha. rewrite Ec in Ha. replace (cIN =? cIN) with true in Ha by reflexivity.
    inversion Ha as [H1]. replace z' with (fst (upsert z u)) by now rewrite H1. now apply upsert_is_rfc.
  - destruct (rclass u =? cANY) eqn:Ea; [eapply any_is_rfc; eauto|].
    destruct (rclass u =? cNONE) eqn:En; [eapply none_is_rfc; eauto|].
    unfold apply_rr in Ha. rewrite Ec, Ea, En in Ha. discriminate.
Qed.

Lemma Known_rr_ok o z u : Known_rr o z u = false -> ok_rr o u.
Proof. intros H. apply Known_rr_false in H. unfold ok_rr. tauto. Qed.

Theorem update_section_is_rfc o us : forall z,
  WF o z -> all_goodb o z us = true -> steps_rfc o z us.
Proof.
  induction us as [|u us IH]; intros z W Hg; cbn [all_goodb steps_rfc] in *; [exact I|].
  apply andb_true_iff in Hg. destruct Hg as [Hk Hg]. apply negb_true_iff in Hk.
  destruct (apply_rr o z u) as [[z' b]|] eqn:Ea; [|discriminate]. split.
  - eapply apply_rr_is_rfc; eauto.
  - apply IH; [|exact Hg]. pose proof (Known_rr_ok _ _ _ Hk) as H1. eapply apply_rr_WF; eauto.
Qed.
