(* C12 — message-level facts: invariants after a message, error answers change nothing,
   a changed zone has an advanced serial. *)
From HV Require Import Lib.Base C12.Model C12.Spec C12.ZoneProofs C12.InvProofs.
Open Scope N_scope.

(* ------------------------------------------------------------------ *)
(* after a successful prescan the update loop never bails out          *)
(* ------------------------------------------------------------------ *)

Lemma pre_scan_cons o u us : pre_scan o (u :: us) = NoError ->
  pre_scan o us = NoError /\
  ((rclass u =? cIN) = true \/
   ((rclass u =? cIN) = false /\ (rclass u =? cANY) = true /\ rdat u = DNone) \/
   ((rclass u =? cIN) = false /\ (rclass u =? cANY) = false /\ (rclass u =? cNONE) = true)).
Proof.
  cbn [pre_scan]. destruct (negb (zone_of o (rname u))); [discriminate|].
  destruct (rclass u =? cIN).
  { destruct ((rtype u =? tANY) || (rtype u =? tAXFR) || (rtype u =? tIXFR)); [discriminate|]. auto. }
  destruct (rclass u =? cANY).
  { destruct (negb (rttl u =? 0)); [discriminate|].
    destruct (rdat u) eqn:Ed; cbn [is_empty_data negb]; try discriminate.
    destruct ((rtype u =? tAXFR) || (rtype u =? tIXFR)); [discriminate|]. intros H. split; [exact H|]. right; left; auto. }
  destruct (rclass u =? cNONE); [|discriminate].
  destruct (negb (rttl u =? 0)); [discriminate|].
  destruct ((rtype u =? tANY) || (rtype u =? tAXFR) || (rtype u =? tIXFR)); [discriminate|].
  intros H. split; [exact H|]. right; right; auto.
Qed.

Lemma apply_rr_total o z u :
  ((rclass u =? cIN) = true \/
   ((rclass u =? cIN) = false /\ (rclass u =? cANY) = true /\ rdat u = DNone) \/
   ((rclass u =? cIN) = false /\ (rclass u =? cANY) = false /\ (rclass u =? cNONE) = true)) ->
  exists zb, apply_rr o z u = Some zb.
Proof.
  unfold apply_rr. intros [H|[(H1 & H2 & H3)|(H1 & H2 & H3)]].
  - rewrite H. eauto.
  - rewrite H1, H2, H3. repeat destr_if; eauto.
  - rewrite H1, H2, H3. destruct (zget z (rname u, rtype u)); [|eauto].
    destruct (rs_remove l (rtype u) (rdat u)) as [r b]. destruct b; eauto.
Qed.

Lemma pre_scan_total o us : pre_scan o us = NoError ->
  forall z upd, exists z' upd', apply_rrs o z upd us = (z', upd', true).
Proof.
  induction us as [|u us IH]; intros Hp z upd; cbn [apply_rrs]; [eauto|].
  apply pre_scan_cons in Hp. destruct Hp as [Hp Hc].
  destruct (apply_rr_total o z u Hc) as [[z1 b] ->]. apply IH. exact Hp.
Qed.

(* ------------------------------------------------------------------ *)
(* update_records on a well-formed zone                                *)
(* ------------------------------------------------------------------ *)

(* what update_records does on a well-formed zone, outside the known class, after prescan:
   it never panics and never answers SERVFAIL *)
Lemma update_records_spec ovf o z us :
  WF o z -> Forall (ok_rr o) us -> pre_scan o us = NoError ->
  exists z1 upd, apply_rrs o z false us = (z1, upd, true) /\ WF o z1 /\
  ((upd = false /\ update_records ovf o z us true = (z1, Rc NoError)) \/
   (upd = true /\ exists s r ttl, zget z1 (o, tSOA) = Some [(DSoa s r, ttl)] /\
      update_records ovf o z us true = (zset z1 (o, tSOA) [(DSoa ((s + 1) mod two32) r, ttl)], Rc NoError))).
Proof.
  intros W Hok Hp. destruct (pre_scan_total o us Hp z false) as (z1 & upd & Ha).
  exists z1, upd. split; [exact Ha|].
  assert (W1 : WF o z1) by (eapply apply_rrs_WF; eauto). split; [exact W1|].
  unfold update_records. rewrite Ha. cbn [negb]. destruct upd; cbn [andb negb].
  - right. split; [reflexivity|].
    destruct (increment_spec ovf o z1 W1) as (s & r & ttl & Hs & ->). exists s, r, ttl. split; [exact Hs|].
    unfold next_serial. rewrite zget_zset_same. reflexivity.
  - left. auto.
Qed.

Lemma update_no_panic ovf o z m : WF o z -> Known_inv o m = false -> snd (update ovf o z m) <> Panicked.
Proof.
  intros W Hk. apply Known_inv_false in Hk. unfold update.
  destruct (negb (m_auth m)); [discriminate|].
  destruct (negb (verify_prerequisites o z (m_pre m) =? NoError)); [discriminate|].
  destruct (negb (pre_scan o (m_upd m) =? NoError)) eqn:Ep; [discriminate|].
  apply negb_false_iff, N.eqb_eq in Ep.
  destruct (update_records_spec ovf o z (m_upd m) W Hk Ep) as (z1 & upd & Ha & W1 & [[_ ->]|(_ & s & r & ttl & Hg & ->)]);
    discriminate.
Qed.

Lemma update_WF ovf o z m :
  WF o z -> Known_inv o m = false -> WF o (fst (update ovf o z m)).
Proof.
  intros W Hk. apply Known_inv_false in Hk. unfold update.
  destruct (negb (m_auth m)); [exact W|].
  destruct (negb (verify_prerequisites o z (m_pre m) =? NoError)); [exact W|].
  destruct (negb (pre_scan o (m_upd m) =? NoError)) eqn:Ep; [exact W|].
  apply negb_false_iff, N.eqb_eq in Ep.
  destruct (update_records_spec ovf o z (m_upd m) W Hk Ep) as (z1 & upd & Ha & W1 & [[_ ->]|(_ & s & r & ttl & Hs & ->)]).
  - exact W1.
  - cbn [fst]. apply (WF_new_soa o z1 _ ((s + 1) mod two32) r ttl W1).
    + intros k Hk'. apply zget_zset_other. congruence.
    + apply zget_zset_same.
Qed.

(* an answer other than NOERROR means nothing changed: all-or-nothing *)
Lemma update_error_unchanged ovf o z m c :
  WF o z -> Known_inv o m = false -> snd (update ovf o z m) = Rc c -> c <> NoError ->
  fst (update ovf o z m) = z.
Proof.
  intros W Hk. apply Known_inv_false in Hk. unfold update.
  destruct (negb (m_auth m)); [reflexivity|].
  destruct (negb (verify_prerequisites o z (m_pre m) =? NoError)); [reflexivity|].
  destruct (negb (pre_scan o (m_upd m) =? NoError)) eqn:Ep; [reflexivity|].
  apply negb_false_iff, N.eqb_eq in Ep.
  destruct (update_records_spec ovf o z (m_upd m) W Hk Ep) as (z1 & upd & Ha & W1 & [[_ ->]|(_ & s & r & ttl & Hs & ->)]);
    cbn [fst snd]; intros H; inversion H; subst; congruence.
Qed.

(* ------------------------------------------------------------------ *)
(* "not updated" means syntactically the same zone                     *)
(* ------------------------------------------------------------------ *)

Lemma apply_rr_false o z u z' : apply_rr o z u = Some (z', false) -> z' = z.
Proof.
  unfold apply_rr. destruct (rclass u =? cIN).
  { intros H. inversion H as [H1]. destruct (upsert_spec _ _ _ _ H1) as [[_ E]|[E _]]; [exact E|discriminate]. }
  destruct (rclass u =? cANY).
  { destr_if; [intros H; now inversion H|].
    destr_if.
    - intros H; inversion H as [[H1 H2]]. apply Nat.ltb_ge in H2. unfold retain_any in *.
      apply filter_length_same. apply Nat.le_antisymm; [apply filter_len_le|exact H2].
    - destruct (rdat u); try discriminate. intros H; inversion H as [[H1 H2]].
      apply zdel_absent. now apply zhas_false. }
  destruct (rclass u =? cNONE); [|discriminate].
  destruct (zget z (rname u, rtype u)); [|intros H; now inversion H].
  destruct (rs_remove l (rtype u) (rdat u)) as [r b]. destruct b; intros H; now inversion H.
Qed.

Lemma apply_rrs_false o us : forall z upd z' c,
  apply_rrs o z upd us = (z', false, c) -> z' = z /\ upd = false.
Proof.
  induction us as [|u us IH]; intros z upd z' c; cbn [apply_rrs].
  - intros H; inversion H; auto.
  - destruct (apply_rr o z u) as [[z1 b]|] eqn:Ea.
    + intros H. apply IH in H. destruct H as [-> H]. apply orb_false_iff in H. destruct H as [-> ->].
      split; [|reflexivity]. now apply apply_rr_false in Ea.
    + intros H; inversion H; auto.
Qed.

(* ------------------------------------------------------------------ *)
(* the serial                                                          *)
(* ------------------------------------------------------------------ *)

Lemma serial_wf o z s r ttl : zget z (o, tSOA) = Some [(DSoa s r, ttl)] -> serial o z = s.
Proof. unfold serial. now intros ->. Qed.

(* the model's SOA comparison (SerialNumber::partial_cmp = Greater) is RFC 1982 "less than",
   read the other way round *)
Lemma soa_newer_serial_lt ns es : soa_newer ns es = serial_lt es ns.
Proof.
  unfold soa_newer, serial_lt, half32. rewrite (N.eqb_sym ns es). f_equal. apply orb_comm.
Qed.

(* the successor of any serial is newer: in particular 0 after 2^32-1 *)
Lemma soa_newer_succ s : soa_newer ((s + 1) mod two32) s = true.
Proof.
  unfold soa_newer, half32, two32.
  destruct (N.lt_ge_cases (s + 1) 4294967296) as [Hlt|Hge].
  - rewrite N.mod_small by exact Hlt.
    assert ((s + 1 =? s) = false) as -> by (apply N.eqb_neq; lia).
    assert ((s <? s + 1) = true) as -> by (apply N.ltb_lt; lia).
    replace (s + 1 - s) with 1 by lia. cbn. apply orb_true_r.
  - pose proof (N.div_mod (s + 1) 4294967296 ltac:(lia)) as Hdm.
    pose proof (N.mod_lt (s + 1) 4294967296 ltac:(lia)) as Hm.
    set (q := (s + 1) / 4294967296) in *. set (r := (s + 1) mod 4294967296) in *.
    assert (1 <= q) as Hq.
    { destruct (N.eq_dec q 0) as [E|E]; [rewrite E in Hdm; lia|lia]. }
    assert ((r =? s) = false) as -> by (apply N.eqb_neq; nia).
    assert ((r <? s) = true) as -> by (apply N.ltb_lt; nia).
    assert ((2147483648 <? s - r) = true) as -> by (apply N.ltb_lt; nia).
    reflexivity.
Qed.

Lemma serial_lt_succ s : serial_lt s ((s + 1) mod two32) = true.
Proof. rewrite <- soa_newer_serial_lt. apply soa_newer_succ. Qed.

(* an Update RR without SOA RDATA leaves the apex SOA alone *)
Lemma apply_rr_soa_same o z u z' b :
  WF o z -> ok_rr o u -> (forall s r, rdat u <> DSoa s r) ->
  apply_rr o z u = Some (z', b) -> zget z' (o, tSOA) = zget z (o, tSOA).
Proof.
  intros W Hs Hd. unfold apply_rr.
  destruct (rclass u =? cIN).
  { intros H. inversion H as [H1]. destruct (upsert_spec _ _ _ _ H1) as [[_ ->]|(_ & _ & _ & recs' & Hi & ->)]; [reflexivity|].
    destruct (key_eqb (rname u, rtype u) (o, tSOA)) eqn:Ek.
    - apply key_eqb_eq in Ek. rewrite Ek in Hi. destruct (wf_soa _ _ W) as (s & r & ttl & Hg).
      rewrite (recs_at_some _ _ _ Hg) in Hi. inversion Ek as [[En Et]]. rewrite Et in Hi.
      unfold rs_insert in Hi. replace (tSOA =? tSOA) with true in Hi by reflexivity.
      destruct (rdat u) eqn:Ed; try discriminate Hi. exfalso. eapply Hd; eauto.
    - apply key_eqb_neq in Ek. now apply zget_zset_other. }
  destruct (rclass u =? cANY) eqn:Eany.
  { destruct (((rtype u =? tSOA) || (rtype u =? tNS)) && name_eqb (rname u) o) eqn:Eg; [intros H; now inversion H|].
    destruct (rtype u =? tANY) eqn:Et.
    - intros H; inversion H; subst. rewrite zget_retain, retain_keeps_apex by auto. reflexivity.
    - destruct (rdat u); try discriminate. intros H; inversion H; subst. rewrite zget_zdel.
      destruct (key_eqb (o, tSOA) (rname u, rtype u)) eqn:Ek; [|reflexivity].
      apply key_eqb_eq in Ek. inversion Ek as [[En Ety]].
      rewrite <- En, <- Ety, name_eqb_refl in Eg. cbn in Eg. discriminate. }
  destruct (rclass u =? cNONE); [|discriminate].
  destruct (zget z (rname u, rtype u)) eqn:Eg; [|intros H; now inversion H].
  destruct (rs_remove l (rtype u) (rdat u)) as [r rb] eqn:Er. destruct rb; [|intros H; now inversion H].
  intros H; inversion H; subst. apply rs_remove_true in Er. destruct Er as [Hn _].
  apply zget_zset_other. congruence.
Qed.

Lemma apply_rrs_soa_same o us : forall z upd z' upd' c,
  WF o z -> Forall (ok_rr o) us -> soa_serials us = [] ->
  apply_rrs o z upd us = (z', upd', c) -> zget z' (o, tSOA) = zget z (o, tSOA).
Proof.
  induction us as [|u us IH]; intros z upd z' upd' c W Hok Hs; cbn [apply_rrs].
  - intros H; now inversion H.
  - inversion Hok as [|? ? Hu Hok']; subst. cbn [soa_serials flat_map] in Hs.
    apply app_eq_nil in Hs. destruct Hs as [Hs1 Hs2].
    destruct (apply_rr o z u) as [[z1 b]|] eqn:Ea; [|intros H; now inversion H].
    intros H. rewrite (IH z1 _ _ _ _ (apply_rr_WF _ _ _ _ _ W Hu Ea) Hok' Hs2 H).
    eapply apply_rr_soa_same; eauto. intros s r E. rewrite E in Hs1. discriminate.
Qed.

(* whatever changed, the new serial is the successor (mod 2^32) of the serial the zone had when
   the update section had been applied, which is RFC 1982-newer than it *)
Lemma update_changed_successor ovf o z m z' :
  WF o z -> Known_inv o m = false -> update ovf o z m = (z', Rc NoError) -> z' <> z ->
  exists z1 upd, apply_rrs o z false (m_upd m) = (z1, upd, true) /\
    serial o z' = (serial o z1 + 1) mod two32 /\ serial_lt (serial o z1) (serial o z') = true.
Proof.
  intros W Hk. apply Known_inv_false in Hk. unfold update.
  destruct (negb (m_auth m)); [intros H; inversion H; congruence|].
  destruct (negb (verify_prerequisites o z (m_pre m) =? NoError)); [intros H; inversion H; congruence|].
  destruct (negb (pre_scan o (m_upd m) =? NoError)) eqn:Ep; [intros H; inversion H; congruence|].
  apply negb_false_iff, N.eqb_eq in Ep.
  destruct (update_records_spec ovf o z (m_upd m) W Hk Ep) as (z1 & upd & Ha & W1 & [[-> ->]|(-> & s & r & ttl & Hg & ->)]).
  - intros H; inversion H; subst. apply apply_rrs_false in Ha. destruct Ha as [-> _]. congruence.
  - intros H; inversion H; subst. intros _. exists z1, true. split; [exact Ha|].
    rewrite (serial_wf _ _ _ _ _ Hg).
    assert (serial o (zset z1 (o, tSOA) [(DSoa ((s + 1) mod two32) r, ttl)]) = (s + 1) mod two32) as ->
      by (apply (serial_wf _ _ _ r ttl); apply zget_zset_same).
    split; [reflexivity|apply serial_lt_succ].
Qed.

Lemma update_changed_advances ovf o z m z' :
  WF o z -> Known_inv o m = false -> soa_serials (m_upd m) = [] ->
  update ovf o z m = (z', Rc NoError) -> z' <> z ->
  serial_lt (serial o z) (serial o z') = true /\ serial o z' = (serial o z + 1) mod two32.
Proof.
  intros W Hk Hs Hu Hne. pose proof (Known_inv_false _ _ Hk) as Hok.
  destruct (update_changed_successor ovf o z m z' W Hk Hu Hne) as (z1 & upd & Ha & H1 & H2).
  pose proof (apply_rrs_soa_same _ _ _ _ _ _ _ W Hok Hs Ha) as Hsame.
  assert (serial o z1 = serial o z) as E by (unfold serial; now rewrite Hsame).
  rewrite E in *. auto.
Qed.

(* history level *)
Lemma run_WF ovf o ms : forall z,
  WF o z -> Forall (fun m => Known_inv o m = false) ms ->
  Forall (fun zr => WF o (fst zr) /\ snd zr <> Panicked) (run ovf o z ms).
Proof.
  induction ms as [|m ms IH]; intros z W Hk; cbn [run] in *; [constructor|].
  inversion Hk as [|? ? Hk1 Hk2]; subst.
  pose proof (update_WF ovf o z m W Hk1) as Hw. pose proof (update_no_panic ovf o z m W Hk1) as Hn.
  destruct (update ovf o z m) as [z' r]. cbn [fst snd] in *.
  constructor; [split; assumption|]. apply IH; auto.
Qed.

(* "sequential": message k is judged against the zone left by messages 1..k-1 *)
Lemma run_app ovf o ms1 : forall z ms2,
  run ovf o z (ms1 ++ ms2) = run ovf o z ms1 ++ run ovf o (final ovf o z ms1) ms2.
Proof.
  induction ms1 as [|m ms1 IH]; intros z ms2; cbn [run app final fold_left]; [reflexivity|].
  destruct (update ovf o z m) as [z' r] eqn:E. cbn [fst app]. f_equal. apply IH.
Qed.

(* the repaired "delete all RRsets from a name" at the apex: SOA and NS stay, the rest goes *)
Lemma apex_delete_all_spec o z u z' b :
  apex_wipe o u = true -> apply_rr o z u = Some (z', b) ->
  zget z' (o, tSOA) = zget z (o, tSOA) /\ zget z' (o, tNS) = zget z (o, tNS) /\
  (forall t, t <> tSOA -> t <> tNS -> zget z' (o, t) = None) /\
  (forall n t, n <> o -> zget z' (n, t) = zget z (n, t)).
Proof.
  unfold apex_wipe. intros H. apply andb_true_iff in H. destruct H as [H Hn].
  apply andb_true_iff in H. destruct H as [Hc Ht]. apply name_eqb_eq in Hn.
  apply N.eqb_eq in Hc, Ht. unfold apply_rr. rewrite Hc, Ht, Hn.
  replace (cANY =? cIN) with false by reflexivity. replace (cANY =? cANY) with true by reflexivity.
  replace (tANY =? tSOA) with false by reflexivity. replace (tANY =? tNS) with false by reflexivity.
  replace (tANY =? tANY) with true by reflexivity. cbn [orb andb].
  intros E; inversion E; subst z' b. repeat split.
  - rewrite zget_retain, retain_keeps_apex by auto. reflexivity.
  - rewrite zget_retain, retain_keeps_apex by auto. reflexivity.
  - intros t H1 H2. rewrite zget_retain. unfold retain_keep. cbn [fst snd]. rewrite name_eqb_refl.
    apply N.eqb_neq in H1, H2. rewrite H1, H2. reflexivity.
  - intros n t Hne. rewrite zget_retain. unfold retain_keep. cbn [fst snd].
    assert (name_eqb n o = false) as -> by now apply name_eqb_neq. reflexivity.
Qed.
