(* C12 — a boolean check of the invariants, sound for WF: used for the concrete witnesses and the
   non-vacuity examples in Props.v. *)
From HV Require Import Lib.Base C12.Model C12.Spec C12.ZoneProofs C12.InvProofs.
Open Scope N_scope.

Fixpoint nodupb (l : list rdata) : bool :=
  match l with
  | [] => true
  | x :: l' => negb (existsb (rdata_eqb x) l') && nodupb l'
  end.

Lemma nodupb_sound l : nodupb l = true -> NoDup l.
Proof.
  induction l as [|x l IH]; cbn [nodupb]; [constructor|].
  intros H. apply andb_true_iff in H. destruct H as [H1 H2]. constructor; [|now apply IH].
  intros Hin. apply negb_true_iff in H1.
  assert (existsb (rdata_eqb x) l = true) as Hx by (apply existsb_exists; exists x; split; [exact Hin|apply rdata_eqb_refl]).
  congruence.
Qed.

Definition wfb (o : name) (z : zone) : bool :=
  match zget z (o, tSOA) with Some [(DSoa _ _, _)] => true | _ => false end
  && forallb (fun e => negb (snd (fst e) =? tSOA) || name_eqb (fst (fst e)) o) z
  && match zget z (o, tNS) with Some (r :: l) => nodupb (map fst (r :: l)) | _ => false end
  && forallb (fun e1 => negb (snd (fst e1) =? tCNAME) ||
        forallb (fun e2 => negb (name_eqb (fst (fst e2)) (fst (fst e1))) || exempt (snd (fst e2)) || (snd (fst e2) =? tCNAME)) z) z
  && forallb (fun e => negb (snd (fst e) =? tCNAME) || (length (snd e) <=? 1)%nat) z.

Lemma zget_first_in z k v : zget z k = Some v -> In (k, v) z.
Proof. intros H. apply zget_in in H. destruct H as (k' & Hin & ->). exact Hin. Qed.

Lemma wfb_sound o z : wfb o z = true -> WF o z.
Proof.
  unfold wfb. rewrite !andb_true_iff. intros [[[[H1 H2] H3] H4] H5].
  rewrite forallb_forall in H2, H4, H5. constructor.
  - destruct (zget z (o, tSOA)) as [[|[[| | |s r] ttl] [|]]|]; try discriminate. eauto.
  - intros n Hn. destruct (zget z (n, tSOA)) eqn:E; [|reflexivity].
    apply zget_first_in in E. specialize (H2 _ E). cbn [fst snd] in H2.
    replace (tSOA =? tSOA) with true in H2 by reflexivity. cbn in H2. apply name_eqb_eq in H2. contradiction.
  - destruct (zget z (o, tNS)) as [[|r l]|]; try discriminate. exists (r :: l). repeat split; [discriminate|].
    now apply nodupb_sound.
  - intros n t Hc Ht Hex. apply zhas_in in Hc, Ht. destruct Hc as [v1 Hc]. destruct Ht as [v2 Ht].
    specialize (H4 _ Hc). cbn [fst snd] in H4. replace (tCNAME =? tCNAME) with true in H4 by reflexivity.
    cbn [negb orb] in H4. rewrite forallb_forall in H4. specialize (H4 _ Ht). cbn [fst snd] in H4.
    rewrite name_eqb_refl, Hex in H4. cbn in H4. now apply N.eqb_eq.
  - intros n recs Hg. apply zget_first_in in Hg. specialize (H5 _ Hg). cbn [fst snd] in H5.
    replace (tCNAME =? tCNAME) with true in H5 by reflexivity. cbn [negb orb] in H5. now apply Nat.leb_le.
Qed.
