(* C12 — model of the dynamic-update path of SqliteZoneHandler
     crates/server/src/store/sqlite/mod.rs      update, verify_prerequisites, pre_scan, update_records
     crates/server/src/store/in_memory/inner.rs upsert, increment_soa_serial, inner_lookup(+wildcard),
                                                chase_cnames, replace_any, serial
     crates/server/src/store/in_memory/mod.rs   lookup (answers only)
     crates/proto/src/rr/rr_set.rs              RecordSet::insert / remove
     crates/proto/src/rr/rdata/soa.rs           SOA::increment_serial
   The model follows what the code DOES.  Things the code keeps that the model drops because nothing
   in the update path can observe them: RecordSet.ttl (set-level TTL: only used for the TTL of
   wildcard-synthesised records, and Record equality ignores TTL), RecordSet.serial, RRSIGs,
   the additional section of a lookup.  Not modelled: ANAME processing, RData::NULL (accepted as
   "empty" next to Update0), DNSSEC signing (is_dnssec_enabled = false path: increment_soa_serial).
   No proofs in this file. *)
From HV Require Import Lib.Base.
Open Scope N_scope.

(* ------------------------------------------------------------------ *)
(* Data                                                                *)
(* ------------------------------------------------------------------ *)

(* a name is its list of labels, leftmost first; label 0 is "*" ; [] is the root *)
Definition name := list N.
Definition name_eqb : name -> name -> bool := list_eqb N.eqb.

Inductive rdata :=
| DNone                          (* RData::Update0(_): RDLENGTH = 0 *)
| DGen (id : N)                  (* any ordinary RDATA (A, AAAA, TXT, MX, NS ...), identified by value *)
| DCname (target : name)         (* RData::CNAME *)
| DSoa (serial rest : N).        (* RData::SOA: serial and (all the other fields) *)

Definition rdata_eqb (a b : rdata) : bool :=
  match a, b with
  | DNone, DNone => true
  | DGen x, DGen y => x =? y
  | DCname x, DCname y => name_eqb x y
  | DSoa s r, DSoa s' r' => (s =? s') && (r =? r')
  | _, _ => false
  end.

(* a resource record as carried by an UPDATE message *)
Record rr := mkRR { rname : name; rclass : N; rttl : N; rtype : N; rdat : rdata }.

(* classes and types used by the code *)
Definition cIN := 1.   Definition cNONE := 254.   Definition cANY := 255.
Definition tA := 1.    Definition tNS := 2.       Definition tCNAME := 5.   Definition tSOA := 6.
Definition tMX := 15.  Definition tAAAA := 28.    Definition tDS := 43.
Definition tNSEC := 47. Definition tNSEC3 := 50.
Definition tIXFR := 251. Definition tAXFR := 252. Definition tANY := 255.
Definition tANAME := 65305.

(* response codes *)
Definition NoError := 0.  Definition FormErr := 1.  Definition ServFail := 2.  Definition NXDomain := 3.
Definition Refused := 5.  Definition YXDomain := 6. Definition YXRRSet := 7.   Definition NXRRSet := 8.
Definition NotZone := 10.

(* the zone: BTreeMap<RrKey, Arc<RecordSet>>; an RRset is its Vec<Record> as (rdata, ttl),
   in Vec order.  A key may be present with an EMPTY record list (after the last record of a
   set was deleted with a class-NONE update): the code keeps such sets and they matter. *)
Notation key := (name * N)%type (only parsing).
Definition key_eqb (a b : key) : bool := name_eqb (fst a) (fst b) && (snd a =? snd b).
Notation rec := (rdata * N)%type (only parsing).
Definition zone := list (key * list rec).

Fixpoint zget (z : zone) (k : key) : option (list rec) :=
  match z with
  | [] => None
  | (k', v) :: z' => if key_eqb k' k then Some v else zget z' k
  end.
Definition zhas (z : zone) (k : key) : bool := match zget z k with Some _ => true | None => false end.
Definition zdel (z : zone) (k : key) : zone := filter (fun e => negb (key_eqb (fst e) k)) z.
Definition zset (z : zone) (k : key) (v : list rec) : zone := (k, v) :: zdel z k.

(* ------------------------------------------------------------------ *)
(* RecordSet::insert / remove                                          *)
(* ------------------------------------------------------------------ *)

(* ---- three small definitions that were the sites of findings F6a, F6b, F-a/F-c; they now
   follow the repaired code (fix commits 118f816 and 9a1aca9 in /repo) ---- *)

(* RecordSet::insert, SOA arm: the update is ignored unless
   `SerialNumber::new(new_soa.serial) > SerialNumber::new(existing_soa.serial)`, i.e.
   SerialNumber::partial_cmp (RFC 1982, 32 bits) returns Some(Greater); an undefined comparison
   (distance exactly 2^31) is not Greater *)
Definition half32 := 2147483648.
Definition soa_newer (new_serial existing : N) : bool :=
  negb (new_serial =? existing) &&
  (((new_serial <? existing) && (half32 <? existing - new_serial))
   || ((existing <? new_serial) && (new_serial - existing <? half32))).

Definition two32 := 4294967296.
(* SOA::increment_serial: `self.serial = self.serial.wrapping_add(1)` in every build: never a
   panic.  ([ovf], "the build has overflow checks", is kept as a parameter of the model but no
   longer matters; None would be a panic.) *)
Definition next_serial (ovf : bool) (s : N) : option N := Some ((s + 1) mod two32).

(* returns the new record list and "inserted".  Record equality ignores TTL, so an RR whose
   RDATA is already present is "identical" and the update is ignored (the TTL is NOT replaced). *)
Definition rs_insert (recs : list rec) (t : N) (d : rdata) (ttl : N) : list rec * bool :=
  if t =? tSOA then
    match recs with
    | [] => ([(d, ttl)], true)
    | (DSoa es _, _) :: _ =>
        match d with
        | DSoa ns _ => if soa_newer ns es then ([(d, ttl)], true) else (recs, false)
        | _ => (recs, false)                                                     (* "wrong rdata for SOA update" *)
        end
    | _ :: _ => (recs, false)                                                    (* "wrong rdata, expected SOA" *)
    end
  else if (t =? tCNAME) || (t =? tANAME) then ([(d, ttl)], true)                 (* clear, push *)
  else if existsb (fun r => rdata_eqb (fst r) d) recs then (recs, false)
  else (recs ++ [(d, ttl)], true).

Definition rs_remove (recs : list rec) (t : N) (d : rdata) : list rec * bool :=
  if (t =? tNS) && (length recs <=? 1)%nat then (recs, false)      (* never delete the last NS *)
  else if t =? tSOA then (recs, false)                              (* never delete SOA *)
  else
    let recs' := filter (fun r => negb (rdata_eqb (fst r) d)) recs in
    (recs', (length recs' <? length recs)%nat).

(* ------------------------------------------------------------------ *)
(* InnerInMemory::upsert                                               *)
(* ------------------------------------------------------------------ *)

Definition is_nsec (up occ : N) : bool :=
  (up =? tNSEC) || (up =? tNSEC3) || (occ =? tNSEC) || (occ =? tNSEC3).
Definition label_no_multi (up occ chk : N) : bool :=
  ((up =? chk) && negb (occ =? chk)) || (negb (up =? chk) && (occ =? chk)).
(* keys in the range Unknown(0) .. Unknown(65535), end excluded *)
Definition in_range (t : N) : bool := t <? 65535.

Definition upsert_blocked (z : zone) (n : name) (t : N) : bool :=
  existsb (fun e => name_eqb (fst (fst e)) n && in_range (snd (fst e))
                    && negb (is_nsec t (snd (fst e))) && label_no_multi t (snd (fst e)) tCNAME) z.

Definition upsert (z : zone) (r : rr) : zone * bool :=
  if negb (rclass r =? cIN) then (z, false)
  else if upsert_blocked z (rname r) (rtype r) then (z, false)
  else
    let k := (rname r, rtype r) in
    let recs := match zget z k with Some s => s | None => [] end in
    let '(recs', b) := rs_insert recs (rtype r) (rdat r) (rttl r) in
    (* entry().or_insert_with(empty): an insert into a fresh empty set always succeeds, so no
       empty set is ever left behind here *)
    if b then (zset z k recs', true) else (z, false).

(* ------------------------------------------------------------------ *)
(* serial, increment_soa_serial                                        *)
(* ------------------------------------------------------------------ *)

Definition serial (origin : name) (z : zone) : N :=
  match zget z (origin, tSOA) with
  | Some ((DSoa s _, _) :: _) => s
  | _ => 0
  end.

(* The SOA RRset is removed from the map, incremented and upserted again. *)
Inductive outcome (A : Type) := Done (a : A) | Panic (a : A).
Arguments Done {A}. Arguments Panic {A}.

Definition increment_soa_serial (ovf : bool) (origin : name) (z : zone) : outcome (zone * N) :=
  let k := (origin, tSOA) in
  match zget z k with
  | Some ((d, ttl) :: _) =>
      let z' := zdel z k in
      match d with
      | DSoa s rest =>
          match next_serial ovf s with
          | None => Panic (z', 0)
          | Some s' => Done (fst (upsert z' (mkRR origin cIN ttl tSOA (DSoa s' rest))), s')
          end
      | _ => Panic (z', 0)               (* "This was not an SOA record" *)
      end
  | Some [] => Done (zdel z k, 0)
  | None => Done (z, 0)
  end.

(* ------------------------------------------------------------------ *)
(* update_records                                                      *)
(* ------------------------------------------------------------------ *)

Fixpoint is_suffix_rev (o n : list N) : bool :=   (* o, n reversed: o is a prefix of n *)
  match o, n with
  | [], _ => true
  | _, [] => false
  | a :: o', b :: n' => (a =? b) && is_suffix_rev o' n'
  end.
(* Name::zone_of: the labels of [origin] are all present at the end of [n] *)
Definition zone_of (origin n : name) : bool := is_suffix_rev (rev origin) (rev n).

(* the `retain` closure of the "delete all RRsets from a name" arm:
     k.name != rr_name || ((k.record_type == SOA || k.record_type == NS) && k.name == *origin)
   RFC 2136 3.4.2.3: everything at the name goes, except SOA and NS when the name is the apex *)
Definition retain_keep (origin n : name) (k : key) : bool :=
  negb (name_eqb (fst k) n) || (((snd k =? tSOA) || (snd k =? tNS)) && name_eqb (fst k) origin).
Definition retain_any (origin n : name) (z : zone) : zone :=
  filter (fun e => retain_keep origin n (fst e)) z.

(* one update RR; None = `return Err(FormErr)` out of the loop *)
Definition apply_rr (origin : name) (z : zone) (r : rr) : option (zone * bool) :=
  let k := (rname r, rtype r) in
  if rclass r =? cIN then Some (upsert z r)
  else if rclass r =? cANY then
    if ((rtype r =? tSOA) || (rtype r =? tNS)) && name_eqb (rname r) origin then Some (z, false)
    else if rtype r =? tANY then
      let z' := retain_any origin (rname r) z in
      Some (z', (length z' <? length z)%nat)
    else match rdat r with
         | DNone => Some (zdel z k, zhas z k)
         | _ => None
         end
  else if rclass r =? cNONE then
    match zget z k with
    | Some recs => let '(recs', b) := rs_remove recs (rtype r) (rdat r) in
                   if b then Some (zset z k recs', true) else Some (z, false)
    | None => Some (z, false)
    end
  else None.

Fixpoint apply_rrs (origin : name) (z : zone) (upd : bool) (rs : list rr) : zone * bool * bool :=
  (* (zone, updated, completed) *)
  match rs with
  | [] => (z, upd, true)
  | r :: rs' =>
      match apply_rr origin z r with
      | Some (z', b) => apply_rrs origin z' (b || upd) rs'
      | None => (z, upd, false)
      end
  end.

(* result of one call: response code (Ok(_) = NoError), or a panic *)
Inductive result := Rc (code : N) | Panicked.

Definition update_records (ovf : bool) (origin : name) (z : zone) (rs : list rr) (auto : bool)
  : zone * result :=
  let '(z1, upd, completed) := apply_rrs origin z false rs in
  if negb completed then (z1, Rc FormErr)
  else if negb (upd && auto) then (z1, Rc NoError)
  else match increment_soa_serial ovf origin z1 with
       | Panic (z2, _) => (z2, Panicked)
       | Done (z2, _) =>
           match zget z2 (origin, tSOA) with
           | Some (_ :: _) => (z2, Rc NoError)
           | _ => (z2, Rc ServFail)             (* "SOA record missing after serial increment" *)
           end
       end.

(* ------------------------------------------------------------------ *)
(* pre_scan                                                            *)
(* ------------------------------------------------------------------ *)

Definition is_empty_data (d : rdata) : bool := match d with DNone => true | _ => false end.

Fixpoint pre_scan (origin : name) (rs : list rr) : N :=
  match rs with
  | [] => NoError
  | r :: rs' =>
      if negb (zone_of origin (rname r)) then NotZone
      else if rclass r =? cIN then
        if (rtype r =? tANY) || (rtype r =? tAXFR) || (rtype r =? tIXFR) then FormErr else pre_scan origin rs'
      else if rclass r =? cANY then
        if negb (rttl r =? 0) then FormErr
        else if negb (is_empty_data (rdat r)) then FormErr
        else if (rtype r =? tAXFR) || (rtype r =? tIXFR) then FormErr
        else pre_scan origin rs'
      else if rclass r =? cNONE then
        if negb (rttl r =? 0) then FormErr
        else if (rtype r =? tANY) || (rtype r =? tAXFR) || (rtype r =? tIXFR) then FormErr
        else pre_scan origin rs'
      else FormErr
  end.

(* ------------------------------------------------------------------ *)
(* The query lookup path used by verify_prerequisites                   *)
(* ------------------------------------------------------------------ *)

Definition types_at (z : zone) (n : name) : list N :=
  map (fun e => snd (fst e)) (filter (fun e => name_eqb (fst (fst e)) n) z).

(* the first key, in type order, satisfying P *)
Definition min_type (P : N -> bool) (ts : list N) : option N :=
  fold_left (fun acc t => if P t then match acc with None => Some t | Some a => Some (N.min a t) end
                          else acc) ts None.

Definition aname_covers (kt q : N) : bool := ((q =? tA) || (q =? tAAAA)) && (kt =? tANAME).

(* an answer RRset: owner name, type, records *)
Definition ans := (name * N * list rec)%type.

(* the delegation walk of inner_lookup: from [search] towards the root *)
Fixpoint deleg (z : zone) (qname : name) (q : N) (search : name) : option ans :=
  match search with
  | [] => None
  | _ :: up =>
      match zget z (search, tNS), zhas z (search, tSOA) with
      | Some ns, false =>
          if (q =? tDS) && name_eqb search qname then deleg z qname q up
          else Some (search, tNS, ns)
      | Some _, true => None
      | None, _ => deleg z qname q up
      end
  end.

Definition lookup_exact (z : zone) (n : name) (q : N) : option ans :=
  match deleg z n q n with
  | Some a => Some a
  | None =>
      match min_type (fun t => in_range t && ((t =? q) || (t =? tCNAME) || aname_covers t q)) (types_at z n) with
      | Some t => match zget z (n, t) with Some recs => Some (n, t, recs) | None => None end
      | None => None
      end
  end.

(* RecordSet::with_ttl + add_rdata for every record of the wildcard set *)
Definition synth (t : N) (recs : list rec) : list rec :=
  fold_left (fun acc r => fst (rs_insert acc t (fst r) (snd r))) recs [].

(* inner_lookup_wildcard: try "*.rest", then the wildcard of each shorter suffix *)
Fixpoint wild (z : zone) (q : N) (qn : name) (rest : name) : option ans :=
  match lookup_exact z (0 :: rest) q with
  | Some (_, t, recs) => Some (qn, t, synth t recs)
  | None => match rest with
            | [] => None
            | _ :: rest' => wild z q qn rest'
            end
  end.

Definition is_wildcard (n : name) : bool := match n with 0 :: _ => true | _ => false end.

Definition inner_lookup (z : zone) (n : name) (q : N) : option ans :=
  match lookup_exact z n q with
  | Some a => Some a
  | None => match n with
            | [] => None
            | l :: rest => if l =? 0 then None else wild z q n rest
            end
  end.

(* chase_cnames: [fuel] = MAX_CNAME_DEPTH - 1 further sets *)
Fixpoint chase (z : zone) (q : N) (seen : list name) (last : list rec) (fuel : nat) : list ans :=
  match fuel with
  | O => []
  | S f =>
      match last with
      | (DCname t, _) :: _ =>
          if existsb (name_eqb t) seen then []
          else match inner_lookup z t q with
               | Some (n', ty, recs) =>
                   if ty =? tCNAME then (n', ty, recs) :: chase z q (t :: seen) recs f
                   else [(n', ty, recs)]
               | None => []
               end
      | _ => []
      end
  end.

Definition replace_any (z : zone) (n : name) : N :=
  let ts := types_at z n in
  match min_type (fun t => (t =? tCNAME) || (t =? tA) || (t =? tAAAA) || (t =? tMX)) ts with
  | Some t => t
  | None => match min_type (fun _ => true) ts with Some t => t | None => tA end
  end.

(* an answer record: owner name, type (the RDATA variant carries it), RDATA *)
Definition arec := (name * N * rdata)%type.
Definition flatten (a : ans) : list arec :=
  let '(n, t, recs) := a in map (fun r => (n, t, fst r)) recs.

(* ZoneHandler::lookup(..).unwrap_or_default().iter(): owner name, type and RDATA of every answer record *)
Definition lookup (z : zone) (n : name) (q : N) : list arec :=
  if q =? tAXFR then []
  else
    let q' := if q =? tANY then replace_any z n else q in
    match inner_lookup z n q' with
    | None => []
    | Some (an, t, recs) =>
        if (t =? tCNAME) && negb (q' =? tCNAME)
        then concat (map flatten ((an, t, recs) :: chase z q' [n] recs 7))
        else flatten (an, t, recs)
    end.

(* ------------------------------------------------------------------ *)
(* verify_prerequisites                                                *)
(* ------------------------------------------------------------------ *)

Definition is_nil {A} (l : list A) : bool := match l with [] => true | _ => false end.

Fixpoint verify_prerequisites (origin : name) (z : zone) (ps : list rr) : N :=
  match ps with
  | [] => NoError
  | p :: ps' =>
      if negb (rttl p =? 0) then FormErr
      else if negb (zone_of origin (rname p)) then NotZone
      else if rclass p =? cANY then
        if negb (is_empty_data (rdat p)) then FormErr
        else if is_nil (lookup z (rname p) (rtype p))
             then (if rtype p =? tANY then NXDomain else NXRRSet)
             else verify_prerequisites origin z ps'
      else if rclass p =? cNONE then
        if negb (is_empty_data (rdat p)) then FormErr
        else if negb (is_nil (lookup z (rname p) (rtype p)))
             then (if rtype p =? tANY then YXDomain else YXRRSet)
             else verify_prerequisites origin z ps'
      else if rclass p =? cIN then
        if existsb (fun a => name_eqb (fst (fst a)) (rname p) && (snd (fst a) =? rtype p) && rdata_eqb (snd a) (rdat p))
                   (lookup z (rname p) (rtype p))
        then verify_prerequisites origin z ps' else NXRRSet
      else FormErr
  end.

(* ------------------------------------------------------------------ *)
(* ZoneHandler::update for SqliteZoneHandler                           *)
(* ------------------------------------------------------------------ *)

Record msg := mkMsg { m_auth : bool; m_pre : list rr; m_upd : list rr }.

Definition update (ovf : bool) (origin : name) (z : zone) (m : msg) : zone * result :=
  if negb (m_auth m) then (z, Rc Refused)               (* authorize_update: no valid TSIG *)
  else
    let c := verify_prerequisites origin z (m_pre m) in
    if negb (c =? NoError) then (z, Rc c)
    else let c := pre_scan origin (m_upd m) in
         if negb (c =? NoError) then (z, Rc c)
         else update_records ovf origin z (m_upd m) true.

(* a history: the zone after each message, with the result of each *)
Fixpoint run (ovf : bool) (origin : name) (z : zone) (ms : list msg) : list (zone * result) :=
  match ms with
  | [] => []
  | m :: ms' => let '(z', r) := update ovf origin z m in (z', r) :: run ovf origin z' ms'
  end.

Definition final (ovf : bool) (origin : name) (z : zone) (ms : list msg) : zone :=
  fold_left (fun z m => fst (update ovf origin z m)) ms z.

(* building a zone by upserting records one by one (InMemoryZoneHandler::upsert_mut) *)
Definition build (rs : list rr) : zone := fold_left (fun z r => fst (upsert z r)) rs [].
