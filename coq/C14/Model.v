(* C14 — model of the journal of SqliteZoneHandler
     crates/server/src/store/sqlite/mod.rs          persist_to_journal, update_records (write-ahead
                                                    rows, post-update SOA row), recover_with_journal
     crates/server/src/store/sqlite/persistence.rs  Journal::insert_record(s) / iter
   on top of the update model of C12.  The journal is the list of its `record` column, oldest
   first (client_id, soa_serial and timestamp columns are never read back).  A crash is a prefix
   of that list: every row is its own committed INSERT (there is no transaction).
   No proofs in this file. *)
From HV Require Import Lib.Base C12.Model.
Open Scope N_scope.

(* the AXFR marker row: Record::update0(Name::new(), 0, RecordType::AXFR) *)
Definition marker : rr := mkRR [] cIN 0 tAXFR DNone.

(* persist_to_journal: marker, then every record of every RRset *)
Definition dump_rows (z : zone) : list rr :=
  flat_map (fun e => map (fun r => mkRR (fst (fst e)) cIN (snd r) (snd (fst e)) (fst r)) (snd e)) z.
Definition persist (z : zone) : list rr := marker :: dump_rows z.

(* update_records with a journal attached: the same computation as C12's update_records, plus
   the rows it inserts: all update RRs first (write-ahead, before anything is applied, whatever
   they turn out to do), and the post-update SOA record after a successful serial increment *)
Definition update_records_j (ovf : bool) (origin : name) (z : zone) (rs : list rr) : zone * result * list rr :=
  let '(z1, upd, completed) := apply_rrs origin z false rs in
  if negb completed then (z1, Rc FormErr, rs)
  else if negb upd then (z1, Rc NoError, rs)
  else match increment_soa_serial ovf origin z1 with
       | Panic (z2, _) => (z2, Panicked, rs)
       | Done (z2, _) =>
           match zget z2 (origin, tSOA) with
           | Some ((d, ttl) :: _) => (z2, Rc NoError, rs ++ [mkRR origin cIN ttl tSOA d])
           | _ => (z2, Rc ServFail, rs)
           end
       end.

(* ZoneHandler::update with the journal: nothing is written unless authorisation,
   prerequisites and prescan have passed *)
Definition update_j (ovf : bool) (origin : name) (z : zone) (m : msg) : zone * result * list rr :=
  if negb (m_auth m) then (z, Rc Refused, [])
  else
    let c := verify_prerequisites origin z (m_pre m) in
    if negb (c =? NoError) then (z, Rc c, [])
    else let c := pre_scan origin (m_upd m) in
         if negb (c =? NoError) then (z, Rc c, [])
         else update_records_j ovf origin z (m_upd m).

(* a history: zone, result and the rows appended, per message *)
Fixpoint run_j (ovf : bool) (origin : name) (z : zone) (ms : list msg) : list (zone * result * list rr) :=
  match ms with
  | [] => []
  | m :: ms' => let '(z', r, rows) := update_j ovf origin z m in (z', r, rows) :: run_j ovf origin z' ms'
  end.
Definition rows_of (h : list (zone * result * list rr)) : list rr := flat_map snd h.

(* recover_with_journal: AXFR clears; every other row goes through
   update_records(&[row], auto_signing_and_increment = false); an error aborts recovery *)
Definition replay_row (origin : name) (z : zone) (r : rr) : option zone :=
  if rtype r =? tAXFR then Some []
  else match update_records false origin z [r] false with
       | (z', Rc c) => if c =? NoError then Some z' else None
       | (_, Panicked) => None
       end.

Fixpoint replay (origin : name) (z : zone) (rows : list rr) : option zone :=
  match rows with
  | [] => Some z
  | r :: rows' => match replay_row origin z r with
                  | Some z' => replay origin z' rows'
                  | None => None
                  end
  end.

(* recovery starts from the empty zone *)
Definition recover (origin : name) (journal : list rr) : option zone := replay origin [] journal.
