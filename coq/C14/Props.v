(* C14 — property theorems about the journal model of C14/Model.v (on top of C12's update model).
   A journal is the list of its rows; a crash is any prefix; recovery replays the prefix from
   the empty zone.  [good_run] (JournalProofs.v) is the decidable guard "no message of the
   history adds an SOA whose owner is not the apex" (C12-soa-not-apex, open); the former guards
   for apex delete-all and for the serial at 2^32-1 are gone with fixes 9a1aca9 and 118f816. *)
From HV Require Import Lib.Base C12.Model C12.Spec C12.ZoneProofs C12.InvProofs C12.UpdProofs C12.WfDec
                       C14.Model C14.JournalProofs.
Open Scope N_scope.

(* the journal a server that started from the records [init] and processed [ms] has written *)
Definition journal (ovf : bool) (o : name) (init : list rr) (ms : list msg) : list rr :=
  marker :: init ++ rows_of (run_j ovf o (build init) ms).

Definition dump_ok (init : list rr) : Prop :=
  Forall (fun r => (rtype r =? tAXFR) = false /\ (rclass r =? cIN) = true) init.

(* ---------------------------------------------------------------------------------------- *)
(* recovery never fails on a journal the server itself wrote — any history, any stop point  *)
(* ---------------------------------------------------------------------------------------- *)

Theorem C14_never_fails : forall ovf o init ms k,
  dump_ok init -> recover o (firstn k (journal ovf o init ms)) <> None.
Proof.
  intros ovf o init ms k Hd. unfold recover.
  assert (Forall row_ok (journal ovf o init ms)) as H.
  { unfold journal. constructor; [left; reflexivity|]. apply Forall_app. split.
    - eapply Forall_impl; [|exact Hd]. intros r [_ Hc]. right. left. exact Hc.
    - apply run_j_rows_ok. }
  destruct (replay_total o _ [] (Forall_firstn _ _ k H)) as [z ->]. discriminate.
Qed.
Print Assumptions C14_never_fails.

(* ---------------------------------------------------------------------------------------- *)
(* a stop at a boundary between whole messages                                              *)
(* ---------------------------------------------------------------------------------------- *)

(* the whole journal after ms1 (= every prefix that ends at a message boundary, by taking ms1
   to be the messages processed so far) recovers to exactly the zone the server held, hence
   with the serial it had answered with; no message of the history panicked *)
Theorem C14_recover_at_boundary_guarded : forall ovf o init ms1,
  dump_ok init -> WF o (build init) -> good_run o ms1 = true ->
  recover o (journal ovf o init ms1) = Some (final ovf o (build init) ms1).
Proof.
  intros ovf o init ms1 Hd W Hg. unfold recover, journal. cbn [replay].
  rewrite replay_row_spec. cbn [marker rtype]. replace (tAXFR =? tAXFR) with true by reflexivity.
  rewrite replay_app, (replay_build o init [] Hd). fold (build init).
  destruct (run_j_replay ovf o ms1 (build init) W Hg) as (Hr & _ & _). exact Hr.
Qed.
Print Assumptions C14_recover_at_boundary_guarded.

(* stopping anywhere later in the history: the part of the journal up to the boundary after ms1
   is a prefix of the full journal, so the theorem above covers every boundary of every history *)
Theorem C14_boundary_is_prefix : forall ovf o init ms1 ms2,
  exists rest, journal ovf o init (ms1 ++ ms2) = journal ovf o init ms1 ++ rest.
Proof.
  intros. unfold journal. rewrite run_j_app, rows_of_app.
  exists (rows_of (run_j ovf o (final ovf o (build init) ms1) ms2)).
  cbn [app]. now rewrite <- !app_assoc.
Qed.
Print Assumptions C14_boundary_is_prefix.

(* further updates after recovery behave as if no restart had happened: same answers, same
   zones, same rows appended *)
Theorem C14_continue_after_recovery_guarded : forall ovf o init ms1 ms2 z,
  dump_ok init -> WF o (build init) -> good_run o ms1 = true ->
  recover o (journal ovf o init ms1) = Some z ->
  run_j ovf o (build init) (ms1 ++ ms2) = run_j ovf o (build init) ms1 ++ run_j ovf o z ms2.
Proof.
  intros ovf o init ms1 ms2 z Hd W Hg Hr.
  rewrite (C14_recover_at_boundary_guarded ovf o init ms1 Hd W Hg) in Hr. inversion Hr; subst.
  apply run_j_app.
Qed.
Print Assumptions C14_continue_after_recovery_guarded.

(* ---------------------------------------------------------------------------------------- *)
(* stops inside a message, inside the initial dump, and the serial at wrap: refuted          *)
(* ---------------------------------------------------------------------------------------- *)

Definition o_ex : name := [2; 1].
Definition init_ex (s : N) : list rr :=
  [mkRR o_ex cIN 300 tSOA (DSoa s 7); mkRR o_ex cIN 300 tNS (DGen 1); mkRR [3; 2; 1] cIN 300 tA (DGen 1)].
Definition m_ex : msg :=
  mkMsg true [] [mkRR [3; 2; 1] cIN 60 tA (DGen 2); mkRR [3; 2; 1] cNONE 0 tA (DGen 1)].

(* C14-cut-inside-message: the rows of one message are separate commits ("TODO: NEED TRANSACTION
   HERE"): a stop after the first row of a two-row message recovers a zone that the server never
   held at any message boundary (half of the message applied, old serial); a stop after both
   rows but before the post-update SOA row recovers the new content with the old serial *)
Theorem C14_no_half_update_refuted :
  exists ovf o init m,
    dump_ok init /\ WF o (build init) /\ good_run o [m] = true /\
    let before := build init in
    let after := final ovf o (build init) [m] in
    (* stop inside the rows of the message *)
    (exists k z key, recover o (firstn k (journal ovf o init [m])) = Some z /\
                     zget z key <> zget before key /\ zget z key <> zget after key) /\
    (* stop after the rows, before the SOA row *)
    (exists k z key, recover o (firstn k (journal ovf o init [m])) = Some z /\
                     zget z key = zget after key /\ zget after key <> zget before key /\
                     serial o z = serial o before /\ serial o after <> serial o before).
Proof.
  exists false, o_ex, (init_ex 10), m_ex.
  split; [repeat constructor|]. split; [apply wfb_sound; vm_compute; reflexivity|].
  split; [vm_compute; reflexivity|]. cbv zeta. split.
  - exists 5%nat. eexists. exists ([3; 2; 1], tA).
    split; [vm_compute; reflexivity|]. split; vm_compute; discriminate.
  - exists 6%nat. eexists. exists ([3; 2; 1], tA).
    split; [vm_compute; reflexivity|]. split; [vm_compute; reflexivity|].
    split; [vm_compute; discriminate|]. split; [vm_compute; reflexivity|vm_compute; discriminate].
Qed.
Print Assumptions C14_no_half_update_refuted.

(* C14-cut-inside-initial-dump: persist_to_journal writes the AXFR marker and every record as
   separate commits ("TODO: THIS NEEDS TO BE IN A TRANSACTION"): a stop inside it recovers a
   partial zone, e.g. one without SOA after the marker alone *)
Theorem C14_initial_dump_refuted :
  exists o init k z, dump_ok init /\ WF o (build init) /\
    recover o (firstn k (journal false o init [])) = Some z /\ ~ WF o z.
Proof.
  exists o_ex, (init_ex 10), 1%nat. eexists.
  split; [repeat constructor|]. split; [apply wfb_sound; vm_compute; reflexivity|].
  split; [vm_compute; reflexivity|].
  intros [(s & r & t & H) _ _ _ _]. vm_compute in H. discriminate.
Qed.
Print Assumptions C14_initial_dump_refuted.

(* fix 118f816 (was C14_serial_not_lower_refuted): after recovery at a boundary the serial is the
   serial the server had answered with, for every history, also across the wrap 2^32-1 -> 0 *)
Theorem C14_serial_not_lower_guarded : forall ovf o init ms z,
  dump_ok init -> WF o (build init) -> good_run o ms = true ->
  recover o (journal ovf o init ms) = Some z ->
  serial o z = serial o (final ovf o (build init) ms).
Proof.
  intros ovf o init ms z Hd W Hg Hr.
  rewrite (C14_recover_at_boundary_guarded ovf o init ms Hd W Hg) in Hr. now inversion Hr.
Qed.
Print Assumptions C14_serial_not_lower_guarded.

(* the history that used to refute it: serial 2^32-1, one changing message; the server answers
   with serial 0, journals the SOA row with serial 0, and recovery returns exactly that zone *)
Theorem C14_serial_across_wrap :
  let init := init_ex 4294967295 in
  let m := mkMsg true [] [mkRR [3; 2; 1] cIN 60 tA (DGen 2)] in
  forall ovf, snd (update ovf o_ex (build init) m) = Rc NoError /\
    serial o_ex (final ovf o_ex (build init) [m]) = 0 /\
    recover o_ex (journal ovf o_ex init [m]) = Some (final ovf o_ex (build init) [m]).
Proof.
  cbv zeta. intros ovf. split; [destruct ovf; vm_compute; reflexivity|].
  split; [destruct ovf; vm_compute; reflexivity|].
  apply C14_recover_at_boundary_guarded; [repeat constructor|apply wfb_sound; vm_compute; reflexivity|reflexivity].
Qed.
Print Assumptions C14_serial_across_wrap.

(* ---------------------------------------------------------------------------------------- *)
(* non-vacuity                                                                              *)
(* ---------------------------------------------------------------------------------------- *)

Example C14_ex_guard :
  let ms := [m_ex; mkMsg true [mkRR [9; 2; 1] cANY 0 tANY DNone] [mkRR [3; 2; 1] cIN 60 tA (DGen 3)];
             mkMsg true [] [mkRR [3; 2; 1] cIN 60 16 (DGen 1)]] in
  dump_ok (init_ex 10) /\ WF o_ex (build (init_ex 10)) /\ good_run o_ex ms = true /\
  length (journal true o_ex (init_ex 10) ms) = 9%nat /\
  map (fun x => snd (fst x)) (run_j true o_ex (build (init_ex 10)) ms) = [Rc NoError; Rc NXDomain; Rc NoError].
Proof.
  cbv zeta. split; [repeat constructor|]. split; [apply wfb_sound; vm_compute; reflexivity|].
  repeat split; vm_compute; reflexivity.
Qed.
