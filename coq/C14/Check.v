(* C14 — correspondence glue: the harness ran a history against a real SqliteZoneHandler with a
   real SQLite journal, cut the journal after k rows for a set of k, recovered a fresh handler
   from each prefix, and continued on one of them.  Everything is re-run on the model. *)
From HV Require Import Lib.Base Lib.Pack C12.Model C12.Check C14.Model.
Open Scope N_scope.

Definition rr_eqb (a b : rr) : bool :=
  name_eqb (rname a) (rname b) && (rclass a =? rclass b) && (rttl a =? rttl b) && (rtype a =? rtype b)
  && rdata_eqb (rdat a) (rdat b).

(* live observation: rcode, serial, number of journal rows afterwards, dump if changed *)
Definition lobs := (N * N * N * option ozone)%type.
(* cut observation: k, recovery ok, serial, zone *)
Definition cobs := (N * bool * N * zone)%type.

Record jhist := mkJ {
  j_ovf : bool; j_origin : name; j_init : list rr; j_msgs : list msg; j_d0 : ozone;
  j_n0 : N; j_rows : list rr; j_live : list lobs; j_cuts : list (N * bool * N * (N + ozone));
  j_kc : N; j_cont : list msg; j_cobs : list (N * N * ozone) }.

(* the live run: model rows must be exactly the rows observed between the row counts *)
Fixpoint check_live (ovf : bool) (o : name) (z : zone) (expect : zone) (nrows : nat) (rows : list rr)
         (ms : list msg) (os : list lobs) : bool :=
  match ms, os with
  | [], [] => true
  | m :: ms', (rc, ser, after, d) :: os' =>
      let '(z', r, written) := update_j ovf o z m in
      let expect' := match d with Some x => to_zone x | None => expect end in
      let after := N.to_nat after in
      (res_code r =? rc) && (serial o z' =? ser) && zone_eqb z' expect'
      && list_eqb rr_eqb written (firstn (after - nrows) (skipn nrows rows))
      && (nrows + length written =? after)%nat
      && check_live ovf o z' expect' after rows ms' os'
  | _, _ => false
  end.

(* the zones the live run went through: d0, then after each message *)
Fixpoint live_dumps (cur : zone) (os : list lobs) : list zone :=
  match os with
  | [] => []
  | (_, _, _, d) :: os' => let cur' := match d with Some x => to_zone x | None => cur end in
                           cur' :: live_dumps cur' os'
  end.

Definition check_cut (o : name) (rows : list rr) (dumps : list zone) (c : N * bool * N * (N + ozone)) : bool :=
  let '(k, ok, ser, d) := c in
  match recover o (firstn (N.to_nat k) rows) with
  | None => negb ok
  | Some z =>
      ok && (serial o z =? ser) &&
      zone_eqb z (match d with inl i => nth (N.to_nat i) dumps [] | inr x => to_zone x end)
  end.

Fixpoint check_cont (ovf : bool) (o : name) (z : zone) (ms : list msg) (os : list (N * N * ozone)) : bool :=
  match ms, os with
  | [], [] => true
  | m :: ms', (rc, ser, d) :: os' =>
      let '(z', r) := update ovf o z m in
      (res_code r =? rc) && (serial o z' =? ser) && zone_eqb z' (to_zone d) && check_cont ovf o z' ms' os'
  | _, _ => false
  end.

Definition check_jhist (h : jhist) : bool :=
  let o := j_origin h in
  let z0 := build (j_init h) in
  let n0 := N.to_nat (j_n0 h) in
  zone_eqb z0 (to_zone (j_d0 h))
  (* the initial dump in the journal is the marker followed by the records the model was built from *)
  && list_eqb rr_eqb (firstn n0 (j_rows h)) (marker :: j_init h)
  && check_live (j_ovf h) o z0 (to_zone (j_d0 h)) n0 (j_rows h) (j_msgs h) (j_live h)
  && forallb (check_cut o (j_rows h) (to_zone (j_d0 h) :: live_dumps (to_zone (j_d0 h)) (j_live h))) (j_cuts h)
  && match recover o (firstn (N.to_nat (j_kc h)) (j_rows h)) with
     | Some z => check_cont (j_ovf h) o z (j_cont h) (j_cobs h)
     | None => is_nil (j_cobs h)
     end.

(* ------------------------------------------------------------------ *)
(* parsing                                                             *)
(* ------------------------------------------------------------------ *)

Definition p_lobs : parser lobs :=
  rc <- num ;; ser <- num ;; after <- num ;; f <- num ;;
  if f =? 0 then ret (rc, ser, after, None) else d <- p_ozone ;; ret (rc, ser, after, Some d).
Definition p_cut : parser (N * bool * N * (N + ozone)) :=
  k <- num ;; ok <- num ;; ser <- num ;; f <- num ;;
  if f =? 0 then d <- p_ozone ;; ret (k, negb (ok =? 0), ser, inr d)
  else ret (k, negb (ok =? 0), ser, inl (f - 1)).
Definition p_cobs : parser (N * N * ozone) := rc <- num ;; ser <- num ;; d <- p_ozone ;; ret (rc, ser, d).
Definition p_jhist : parser jhist :=
  ovf <- num ;; o <- p_name ;; init <- many p_rr ;; ms <- many p_msg ;; d0 <- p_ozone ;;
  n0 <- num ;; rows <- many p_rr ;; live <- many p_lobs ;; cuts <- many p_cut ;;
  kc <- num ;; cont <- many p_msg ;; cobs <- many p_cobs ;;
  ret (mkJ (negb (ovf =? 0)) o init ms d0 n0 rows live cuts kc cont cobs).

Definition parse_jhist (p : pbytes) : option jhist :=
  match p_jhist (unpack p) with
  | Some (h, []) => Some h
  | _ => None
  end.

Inductive case := CPacked (p : pbytes).

Definition check (c : case) : bool :=
  match c with
  | CPacked p => match parse_jhist p with Some h => check_jhist h | None => false end
  end.

Definition bad (cs : list case) : list N := bad_idx check 0 cs.

(* full model output: journal rows per message, live (rcode, serial, zone), and for every cut of
   the case the recovered (serial, zone) *)
Definition show (c : case) :=
  match c with
  | CPacked p =>
      match parse_jhist p with
      | Some h =>
          let o := j_origin h in
          let z0 := build (j_init h) in
          Some (j_msgs h, j_rows h,
                map (fun x => (res_code (snd (fst x)), serial o (fst (fst x)), fst (fst x), snd x))
                    (run_j (j_ovf h) o z0 (j_msgs h)),
                map (fun c => let k := fst (fst (fst c)) in
                              (k, match recover o (firstn (N.to_nat k) (j_rows h)) with
                                  | Some z => Some (serial o z, z) | None => None end)) (j_cuts h))
      | None => None
      end
  end.
