(* C14 — proofs about journal replay. *)
From HV Require Import Lib.Base C12.Model C12.Spec C12.ZoneProofs C12.InvProofs C12.UpdProofs C14.Model.
Open Scope N_scope.

(* ------------------------------------------------------------------ *)
(* the journalled functions compute what C12's functions compute       *)
(* ------------------------------------------------------------------ *)

Lemma update_records_j_fst ovf o z rs :
  fst (update_records_j ovf o z rs) = update_records ovf o z rs true.
Proof.
  unfold update_records_j, update_records.
  destruct (apply_rrs o z false rs) as [[z1 upd] completed].
  destruct (negb completed); [reflexivity|]. rewrite andb_true_r.
  destruct (negb upd); [reflexivity|].
  destruct (increment_soa_serial ovf o z1) as [[z2 s]|[z2 s]]; [|reflexivity].
  destruct (zget z2 (o, tSOA)) as [[|[d ttl] l]|]; reflexivity.
Qed.

Lemma update_j_fst ovf o z m : fst (update_j ovf o z m) = update ovf o z m.
Proof.
  unfold update_j, update. destruct (negb (m_auth m)); [reflexivity|].
  destruct (negb (verify_prerequisites o z (m_pre m) =? NoError)); [reflexivity|].
  destruct (negb (pre_scan o (m_upd m) =? NoError)); [reflexivity|].
  apply update_records_j_fst.
Qed.

(* ------------------------------------------------------------------ *)
(* replaying rows                                                      *)
(* ------------------------------------------------------------------ *)

Lemma replay_row_spec o z r :
  replay_row o z r = if rtype r =? tAXFR then Some []
                     else match apply_rr o z r with Some (z', _) => Some z' | None => None end.
Proof.
  unfold replay_row. destruct (rtype r =? tAXFR); [reflexivity|].
  unfold update_records. cbn [apply_rrs]. destruct (apply_rr o z r) as [[z' b]|]; cbn.
  - rewrite andb_false_r. reflexivity.
  - reflexivity.
Qed.

Lemma replay_app o a : forall z b,
  replay o z (a ++ b) = match replay o z a with Some z' => replay o z' b | None => None end.
Proof.
  induction a as [|r a IH]; intros z b; cbn [app replay]; [reflexivity|].
  destruct (replay_row o z r); [apply IH|reflexivity].
Qed.

Definition no_axfr (rs : list rr) : Prop := Forall (fun r => (rtype r =? tAXFR) = false) rs.

(* replaying the update RRs one by one = processing them in one update_records call *)
Lemma replay_apply_rrs o rs : forall z upd z' upd',
  no_axfr rs -> apply_rrs o z upd rs = (z', upd', true) -> replay o z rs = Some z'.
Proof.
  induction rs as [|r rs IH]; intros z upd z' upd' Hn; cbn [apply_rrs replay].
  - intros H; inversion H; reflexivity.
  - inversion Hn as [|? ? Hr Hn']; subst. rewrite replay_row_spec, Hr.
    destruct (apply_rr o z r) as [[z1 b]|]; [|intros H; inversion H].
    intros H. eapply IH; eauto.
Qed.

Lemma pre_scan_no_axfr o rs : pre_scan o rs = NoError -> no_axfr rs.
Proof.
  induction rs as [|u rs IH]; intros H; [constructor|].
  pose proof H as H0. apply pre_scan_cons in H0. destruct H0 as [Hp _]. constructor; [|now apply IH].
  cbn [pre_scan] in H. destruct (negb (zone_of o (rname u))); [discriminate|].
  destruct (rtype u =? tAXFR) eqn:E; [|reflexivity]. exfalso.
  destruct (rclass u =? cIN). { rewrite orb_true_r in H. cbn in H. discriminate. }
  destruct (rclass u =? cANY).
  { destruct (negb (rttl u =? 0)); [discriminate|]. destruct (negb (is_empty_data (rdat u))); [discriminate|].
    cbn in H. discriminate. }
  destruct (rclass u =? cNONE); [|discriminate].
  destruct (negb (rttl u =? 0)); [discriminate|]. rewrite orb_true_r in H. cbn in H. discriminate.
Qed.

Lemma apex_soa_not_blocked o z : WF o z -> upsert_blocked z o tSOA = false.
Proof.
  intros W. destruct (upsert_blocked z o tSOA) eqn:E; [|reflexivity].
  apply upsert_blocked_true in E. destruct E as (kt & Hh & Hr & Hn & Hl).
  unfold label_no_multi in Hl. replace (tSOA =? tCNAME) with false in Hl by reflexivity.
  cbn [andb negb orb] in Hl. apply N.eqb_eq in Hl. subst kt.
  destruct (wf_ns _ _ W) as (recs & Hg & _).
  assert (zhas z (o, tNS) = true) as Hns by (apply zhas_true; eauto).
  pose proof (wf_cname _ _ W o tNS Hh Hns eq_refl) as E. discriminate E.
Qed.

(* replaying the post-update SOA row onto the zone as it was before the increment *)
Lemma replay_soa_row o z s r ttl s' :
  WF o z -> zget z (o, tSOA) = Some [(DSoa s r, ttl)] -> soa_newer s' s = true ->
  replay_row o z (mkRR o cIN ttl tSOA (DSoa s' r)) = Some (zset z (o, tSOA) [(DSoa s' r, ttl)]).
Proof.
  intros W Hg Hn. rewrite replay_row_spec. cbn [rtype]. replace (tSOA =? tAXFR) with false by reflexivity.
  unfold apply_rr. cbn [rclass rname rtype rdat rttl]. replace (cIN =? cIN) with true by reflexivity.
  unfold upsert. cbn [rclass rname rtype rdat rttl]. replace (cIN =? cIN) with true by reflexivity.
  cbn [negb]. rewrite (apex_soa_not_blocked o z W), Hg.
  unfold rs_insert. replace (tSOA =? tSOA) with true by reflexivity. rewrite Hn. reflexivity.
Qed.

(* ------------------------------------------------------------------ *)
(* one message: replaying its rows reproduces its effect               *)
(* ------------------------------------------------------------------ *)

(* every message of a history outside C12-soa-not-apex: replaying its rows gives its effect.  No
   guard on the serial any more (fix 118f816): the journalled SOA row carries the successor
   serial, which replay accepts because it is RFC 1982-newer, also across the wrap *)
Lemma update_j_replay ovf o z m :
  WF o z -> Known_inv o m = false ->
  exists z' c rows, update_j ovf o z m = (z', Rc c, rows) /\ replay o z rows = Some z' /\ WF o z'.
Proof.
  intros W Hk. pose proof (Known_inv_false _ _ Hk) as Hok. unfold update_j.
  destruct (negb (m_auth m)); [exists z, Refused, []; auto|].
  destruct (negb (verify_prerequisites o z (m_pre m) =? NoError)); [eexists z, _, []; auto|].
  destruct (negb (pre_scan o (m_upd m) =? NoError)) eqn:Ep; [eexists z, _, []; auto|].
  apply negb_false_iff, N.eqb_eq in Ep.
  destruct (update_records_spec ovf o z (m_upd m) W Hok Ep) as (z1 & upd & Ha & W1 & _).
  pose proof (replay_apply_rrs o _ _ _ _ _ (pre_scan_no_axfr o _ Ep) Ha) as Hr.
  unfold update_records_j. rewrite Ha. cbn [negb]. destruct upd; cbn [negb andb] in *.
  - destruct (increment_spec ovf o z1 W1) as (s & r & ttl & Hg & ->). unfold next_serial.
    rewrite zget_zset_same. set (s' := (s + 1) mod two32).
    exists (zset z1 (o, tSOA) [(DSoa s' r, ttl)]), NoError, (m_upd m ++ [mkRR o cIN ttl tSOA (DSoa s' r)]).
    split; [reflexivity|]. split.
    + rewrite replay_app, Hr. cbn [replay]. rewrite (replay_soa_row o z1 s r ttl s' W1 Hg); [reflexivity|].
      apply soa_newer_succ.
    + apply (WF_new_soa o z1 _ s' r ttl W1); [|apply zget_zset_same].
      intros k Hk'. apply zget_zset_other. congruence.
  - exists z1, NoError, (m_upd m). auto.
Qed.

(* ------------------------------------------------------------------ *)
(* histories                                                           *)
(* ------------------------------------------------------------------ *)

(* every message of the history is outside C12-soa-not-apex *)
Definition good_run (o : name) (ms : list msg) : bool := forallb (fun m => negb (Known_inv o m)) ms.

Lemma rows_of_cons x h : rows_of (x :: h) = snd x ++ rows_of h.
Proof. reflexivity. Qed.

Lemma final_cons ovf o z m ms : final ovf o z (m :: ms) = final ovf o (fst (update ovf o z m)) ms.
Proof. reflexivity. Qed.

Lemma run_j_replay ovf o ms : forall z,
  WF o z -> good_run o ms = true ->
  replay o z (rows_of (run_j ovf o z ms)) = Some (final ovf o z ms) /\ WF o (final ovf o z ms)
  /\ Forall (fun x => snd (fst x) <> Panicked) (run_j ovf o z ms).
Proof.
  induction ms as [|m ms IH]; intros z W Hg; cbn [run_j good_run forallb] in *.
  - split; [reflexivity|split; [exact W|constructor]].
  - apply andb_true_iff in Hg. destruct Hg as [Hk Hg2]. apply negb_true_iff in Hk.
    destruct (update_j_replay ovf o z m W Hk) as (z' & c & rows & Hu & Hr & W').
    pose proof (update_j_fst ovf o z m) as Hf. rewrite Hu in Hf. cbn [fst] in Hf.
    rewrite Hu. rewrite (final_cons ovf o z m ms). rewrite <- Hf in *. cbn [fst] in *.
    destruct (IH z' W' Hg2) as (Hr' & Wf & Hp).
    rewrite rows_of_cons. cbn [snd fst]. rewrite replay_app, Hr. split; [exact Hr'|split; [exact Wf|]].
    constructor; [cbn; discriminate|exact Hp].
Qed.

Lemma replay_build o init : forall z,
  Forall (fun r => (rtype r =? tAXFR) = false /\ (rclass r =? cIN) = true) init ->
  replay o z init = Some (fold_left (fun z r => fst (upsert z r)) init z).
Proof.
  induction init as [|r init IH]; intros z H; cbn [replay fold_left]; [reflexivity|].
  inversion H as [|? ? [Ht Hc] H']; subst. rewrite replay_row_spec, Ht. unfold apply_rr. rewrite Hc.
  destruct (upsert z r) as [z1 b]. cbn [fst]. now apply IH.
Qed.

(* ------------------------------------------------------------------ *)
(* recovery never fails on rows the server wrote                        *)
(* ------------------------------------------------------------------ *)

Definition row_ok (r : rr) : Prop :=
  (rtype r =? tAXFR) = true \/
  ((rclass r =? cIN) = true \/
   ((rclass r =? cIN) = false /\ (rclass r =? cANY) = true /\ rdat r = DNone) \/
   ((rclass r =? cIN) = false /\ (rclass r =? cANY) = false /\ (rclass r =? cNONE) = true)).

Lemma replay_total o rows : forall z, Forall row_ok rows -> exists z', replay o z rows = Some z'.
Proof.
  induction rows as [|r rows IH]; intros z H; cbn [replay]; [eauto|].
  inversion H as [|? ? Hr H']; subst. rewrite replay_row_spec.
  destruct (rtype r =? tAXFR) eqn:E; [now apply IH|].
  destruct Hr as [Hr|Hr]; [congruence|].
  destruct (apply_rr_total o z r Hr) as [[z1 b] ->]. now apply IH.
Qed.

Lemma pre_scan_rows_ok o rs : pre_scan o rs = NoError -> Forall row_ok rs.
Proof.
  induction rs as [|u rs IH]; intros H; [constructor|].
  apply pre_scan_cons in H. destruct H as [Hp Hc]. constructor; [right; exact Hc|now apply IH].
Qed.

Lemma update_j_rows_ok ovf o z m : Forall row_ok (snd (update_j ovf o z m)).
Proof.
  unfold update_j. destruct (negb (m_auth m)); [constructor|].
  destruct (negb (verify_prerequisites o z (m_pre m) =? NoError)); [constructor|].
  destruct (negb (pre_scan o (m_upd m) =? NoError)) eqn:Ep; [constructor|].
  apply negb_false_iff, N.eqb_eq in Ep. pose proof (pre_scan_rows_ok o _ Ep) as Hok.
  unfold update_records_j. destruct (apply_rrs o z false (m_upd m)) as [[z1 upd] completed].
  destruct (negb completed); [exact Hok|]. destruct (negb upd); [exact Hok|].
  destruct (increment_soa_serial ovf o z1) as [[z2 s]|[z2 s]]; [|exact Hok].
  destruct (zget z2 (o, tSOA)) as [[|[d ttl] l]|]; try exact Hok. cbn [snd].
  apply Forall_app. split; [exact Hok|]. constructor; [|constructor]. right. left. reflexivity.
Qed.

Lemma run_j_rows_ok ovf o ms : forall z, Forall row_ok (rows_of (run_j ovf o z ms)).
Proof.
  induction ms as [|m ms IH]; intros z; cbn [run_j]; [constructor|].
  pose proof (update_j_rows_ok ovf o z m) as H. destruct (update_j ovf o z m) as [[z' r] rows].
  rewrite rows_of_cons. cbn [snd] in *. apply Forall_app. split; [exact H|apply IH].
Qed.

Lemma Forall_firstn {A} (P : A -> Prop) l k : Forall P l -> Forall P (firstn k l).
Proof.
  revert k. induction l as [|x l IH]; intros k H; destruct k; cbn [firstn]; try constructor.
  - inversion H; auto.
  - inversion H; auto.
Qed.

Lemma run_j_app ovf o ms1 : forall z ms2,
  run_j ovf o z (ms1 ++ ms2) = run_j ovf o z ms1 ++ run_j ovf o (final ovf o z ms1) ms2.
Proof.
  induction ms1 as [|m ms1 IH]; intros z ms2; cbn [run_j app]; [reflexivity|].
  pose proof (update_j_fst ovf o z m) as Hf. destruct (update_j ovf o z m) as [[z' r] rows].
  rewrite final_cons, <- Hf. cbn [fst app]. f_equal. apply IH.
Qed.

Lemma rows_of_app a b : rows_of (a ++ b) = rows_of a ++ rows_of b.
Proof. unfold rows_of. apply flat_map_app. Qed.
