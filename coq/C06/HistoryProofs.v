(* C06 — histories: Secure verdicts through the validation cache.  Full statement of where a
   Secure verdict comes from; what carries over to a cache hit under which condition (guarded);
   witnesses that the unguarded statements fail on the faithful model (refuted). *)
From HV Require Import Lib.Base C06.Model C06.TimeProofs C06.SigProofs C06.CacheProofs.
From Coq Require Import Permutation.
Open Scope N_scope.

Lemma map_eq_Forall {A B} (f : A -> B) (P : B -> Prop) l l' :
  map f l = map f l' -> Forall (fun x => P (f x)) l -> Forall (fun x => P (f x)) l'.
Proof.
  revert l'. induction l as [|x l IH]; intros [|y l'] E H; try discriminate; [constructor|].
  cbn in E. injection E as E1 E2. inversion H; subst. constructor; [congruence|auto].
Qed.

Lemma map_eq_nth {A B} (f : A -> B) l l' j x :
  map f l = map f l' -> nth_error l j = Some x -> exists y, nth_error l' j = Some y /\ f y = f x.
Proof.
  revert l' j. induction l as [|a l IH]; intros [|b l'] j E H; try discriminate.
  - destruct j; discriminate.
  - cbn in E. injection E as E1 E2. destruct j as [|j]; cbn in *.
    + injection H as <-. exists b. auto.
    + eauto.
Qed.

Section WithSig.
  Variable Sg : Type.
  Variable verify : N -> list byte -> list byte -> Sg -> bool.
  Variable sig_id : Sg -> N.
  (* sig_id stands for the signature octets themselves *)
  Hypothesis sig_id_inj : forall a b, sig_id a = sig_id b -> a = b.

  Notation sigrr := (sigrr Sg).
  Notation greq := (greq Sg).
  Notation run := (run Sg verify sig_id).
  Notation fresh := (fresh Sg verify).
  Notation req_key := (req_key Sg sig_id).
  Notation first_ttl := (first_ttl Sg).
  Notation justified := (justified Sg verify).
  Notation static_checks := (static_checks Sg verify).

  (* well-formed request: 32-bit clock and RRSIG times, RRset grouped under its lower-cased key *)
  Definition wf_req (r : greq) : Prop :=
    q_now _ r < two32 /\ times_ok Sg (q_sigs _ r) /\
    grouped (q_kname _ r) (q_ktype _ r) (q_rs _ r) /\ lower_name (q_kname _ r) = q_kname _ r.

  Definition justified_req (r : greq) (t : option N) (idx : option nat) : Prop :=
    justified (q_lookup _ r) (q_kname _ r) (q_ktype _ r) (q_rs _ r) (q_sigs _ r) (q_now _ r) t idx.

  Lemma fresh_justified r t idx : wf_req r -> fresh r = GOk Secure t idx -> justified_req r t idx.
  Proof.
    intros (H1 & H2 & H3 & H4) F. unfold justified_req. eapply default_rrset_justified; eauto.
    apply rrset_verdict_secure. exact F.
  Qed.

  (* FULL: in every history from an empty cache, a Secure verdict at step j is justified by the
     RRSIG / DNSKEY checks either on the data and clock of step j itself, or on the data and
     clock of an earlier step i whose cache key equals that of step j and whose entry
     (lifetime: received TTL of its first record) had not expired on the cache clock. *)
  Theorem history_secure_has_origin reqs j r t idx :
    Forall wf_req reqs ->
    nth_error reqs j = Some r -> nth_error (run [] reqs) j = Some (GOk Secure t idx) ->
    justified_req r t idx \/
    exists i r0, (i < j)%nat /\ nth_error reqs i = Some r0 /\ req_key r0 = req_key r /\
                 justified_req r0 t idx /\
                 q_inst _ r < q_inst _ r0 + 1000 * first_ttl r0.
  Proof.
    intros Hwf Hr Hv. rewrite Forall_forall in Hwf.
    destruct (history_origin Sg verify sig_id reqs j r _ Hr Hv) as [F|(i & r0 & Hi & Hn & Hk & F & Hl)].
    - left. apply fresh_justified; [apply Hwf; eapply nth_error_In; eauto|now symmetry].
    - right. exists i, r0. repeat split; auto.
      apply fresh_justified; [apply Hwf; eapply nth_error_In; eauto|now symmetry].
  Qed.

  (* GUARDED (Known = an earlier step of the history has the same cache key) *)
  Theorem history_secure_guarded reqs j r t idx :
    Forall wf_req reqs ->
    nth_error reqs j = Some r -> nth_error (run [] reqs) j = Some (GOk Secure t idx) ->
    (forall i r0, (i < j)%nat -> nth_error reqs i = Some r0 -> req_key r0 <> req_key r) ->
    justified_req r t idx.
  Proof.
    intros Hwf Hr Hv Hno.
    destruct (history_secure_has_origin reqs j r t idx Hwf Hr Hv) as [H|(i & r0 & Hi & Hn & Hk & _)]; [exact H|].
    exfalso. eapply Hno; eauto.
  Qed.

  (* ---------------------------------------------------------------- *)
  (* what a cache hit preserves when the content is really the same    *)
  (* ---------------------------------------------------------------- *)
  (* content with label boundaries kept (TTLs, case and the sort key dropped) *)
  Definition rr_content (r : rr) := (lower_name (r_name r), r_class r, r_type r, r_canon r).
  Definition si_content (si : siginput) :=
    (s_tc si, s_alg si, s_labels si, (s_ottl si, s_exp si, s_inc si), s_tag si, lower_name (s_signer si)).
  Definition sg_content (sg : sigrr) :=
    (lower_name (g_name sg), g_class sg, si_content (g_in sg), sig_id (g_sig sg)).
  Definition same_content (a b : greq) : Prop :=
    q_kname _ a = q_kname _ b /\ q_ktype _ a = q_ktype _ b /\
    map rr_content (q_rs _ a) = map rr_content (q_rs _ b) /\
    map sg_content (q_sigs _ a) = map sg_content (q_sigs _ b).

  Lemma sig_prefix_content si si' : si_content si = si_content si' -> sig_prefix si = sig_prefix si'.
  Proof. unfold si_content, sig_prefix. intros [= -> -> -> -> -> -> -> ->]. reflexivity. Qed.

  Lemma static_transfer k sg0 sg kname ktype rs0 rs :
    sg_content sg = sg_content sg0 -> map rr_content rs0 = map rr_content rs ->
    static_checks k sg0 kname ktype rs0 -> static_checks k sg kname ktype rs.
  Proof.
    intros Es Er [C1 C2 C3 C4 C5 C6 C7 C8 C9 C10 C11 C12].
    pose proof (f_equal snd Es) as E4. cbn in E4. apply sig_id_inj in E4.
    pose proof (f_equal (fun x => snd (fst x)) Es) as E3. cbn in E3.
    pose proof (f_equal (fun x => snd (fst (fst x))) Es) as E2. cbn in E2.
    pose proof (f_equal (fun x => fst (fst (fst x))) Es) as E1. cbn in E1.
    pose proof (sig_prefix_content _ _ E3) as Ep.
    unfold si_content in E3. injection E3 as F1 F2 F3 F4 F5 F6 F7 F8.
    assert (map r_canon rs0 = map r_canon rs) as Ec.
    { assert (forall l, map r_canon l = map snd (map rr_content l)) as M
        by (intros l; rewrite map_map; reflexivity).
      now rewrite !M, Er. }
    constructor; try congruence.
    - apply (map_eq_Forall rr_content (fun c => snd (fst (fst c)) = 1) rs0 rs Er). exact C9.
    - intros ->. destruct rs0; [now apply C11|discriminate].
    - destruct C12 as (d & (nm & cs & D1 & D2 & D3) & V). exists d. split.
      + exists nm, cs. split; [congruence|]. split; [now rewrite <- Ec|].
        rewrite D3. unfold signed_data_of. now rewrite Ep, F1, F4.
      + rewrite E4. exact V.
  Qed.

  (* GUARDED: if the request served from the cache really has the content of the request the
     entry was made for (Known = they differ, which the cache key cannot see when only label
     boundaries differ), the RRSIG that justified the entry covers exactly the RRset now
     presented: every static check holds for it. *)
  Theorem cached_verdict_covers_rrset_guarded r0 r t idx :
    justified_req r0 t idx -> same_content r0 r ->
    exists j sg k, idx = Some j /\ nth_error (q_sigs _ r) j = Some sg /\
                   static_checks k sg (q_kname _ r) (q_ktype _ r) (q_rs _ r).
  Proof.
    intros (j & sg0 & keys & k & ttl & Hi & Hn & Ht & Hl & Hin & (_ & _ & Hs) & _) (S1 & S2 & S3 & S4).
    destruct (map_eq_nth sg_content _ _ j sg0 S4 Hn) as (sg & Hn' & Ec).
    exists j, sg, k. split; [exact Hi|]. split; [exact Hn'|].
    rewrite <- S1, <- S2. eapply static_transfer; eauto.
  Qed.

  (* ---------------------------------------------------------------- *)
  (* time                                                              *)
  (* ---------------------------------------------------------------- *)
  (* moving the clock forward by d <= remaining lifetime keeps it inside the window *)
  Lemma window_advance now inc exp d :
    now < two32 -> inc < two32 -> exp < two32 ->
    in_window now inc exp -> d <= fwd_dist now exp -> fwd_dist inc exp < two31 ->
    in_window ((now + d) mod two32) inc exp.
  Proof.
    intros Hn Hi He [W1 W2] Hd Hw.
    assert ((now + d) mod two32 < two32) as Hn' by (apply N.mod_lt; unfold two32; lia).
    destruct (fwd_dist_spec inc now Hi Hn) as [[A1 A2]|[A1 A2]];
    destruct (fwd_dist_spec now exp Hn He) as [[B1 B2]|[B1 B2]];
    destruct (fwd_dist_spec inc exp Hi He) as [[C1 C2]|[C1 C2]];
    rewrite ?A2, ?B2, ?C2 in *; unfold two31, two32 in *.
    all: assert (now + d < 4294967296 \/ 4294967296 <= now + d) as [S|S] by lia.
    all: try (rewrite (N.mod_small (now + d)) in * by lia).
    all: try (assert ((now + d) mod 4294967296 = now + d - 4294967296) as Em
               by (symmetry; apply N.mod_unique with (q := 1); lia); rewrite Em in *).
    all: unfold in_window;
      match goal with |- fwd_dist ?a ?b < _ /\ fwd_dist ?c ?e < _ =>
        destruct (fwd_dist_spec a b) as [[X1 X2]|[X1 X2]]; try (unfold two32; lia);
        destruct (fwd_dist_spec c e) as [[Y1 Y2]|[Y1 Y2]]; try (unfold two32; lia);
        rewrite X2, Y2; unfold two31, two32 in *; lia end.
  Qed.

  (* the validator clock of [r] is the clock of [r0] advanced by [d] seconds while at least
     d - 1 whole seconds passed on the cache clock (both read the same real time; the validator
     clock is truncated to seconds) *)
  Definition clocks_coherent (r0 r : greq) : Prop :=
    exists d, q_now _ r = (q_now _ r0 + d) mod two32 /\ q_inst _ r0 + 1000 * d < q_inst _ r + 1000.

  (* GUARDED: a hit is inside the signature's window if the clocks are coherent, the window is
     shorter than 2^31 s and the entry's lifetime (received TTL of the first record) did not
     exceed the remaining signature lifetime when it was made (Known = it did). *)
  Theorem cached_verdict_in_window_guarded r0 r inc exp :
    q_now _ r0 < two32 -> inc < two32 -> exp < two32 ->
    in_window (q_now _ r0) inc exp -> fwd_dist inc exp < two31 ->
    clocks_coherent r0 r ->
    q_inst _ r < q_inst _ r0 + 1000 * first_ttl r0 ->
    first_ttl r0 <= fwd_dist (q_now _ r0) exp ->
    in_window (q_now _ r) inc exp.
  Proof.
    intros Hn Hi He W Hw (d & Hd & Hc) Hhit Hl. rewrite Hd.
    apply window_advance; auto. lia.
  Qed.
End WithSig.
