(* C06 — from the per-record marks in a validated response (Record.proof / Record.ttl) back to
   the RRset verdicts, over histories of responses sharing one validation cache. *)
From HV Require Import Lib.Base C06.Model C06.TimeProofs C06.SigProofs C06.CacheProofs C06.HistoryProofs.
Open Scope N_scope.

Section WithSig.
  Variable Sg : Type.
  Variable verify : N -> list byte -> list byte -> Sg -> bool.
  Variable sig_id : Sg -> N.

  Notation sigrr := (sigrr Sg).
  Notation ans := (ans Sg).
  Notation greq := (greq Sg).
  Notation fresh := (fresh Sg verify).
  Notation req_key := (req_key Sg sig_id).
  Notation first_ttl := (first_ttl Sg).
  Notation step := (step Sg verify sig_id).
  Notation cache_inv := (cache_inv Sg verify sig_id).
  Notation wf_req := (wf_req Sg).
  Notation justified_req := (justified_req Sg verify).
  Notation run_groups := (run_groups Sg verify sig_id).
  Notation respond := (respond Sg verify sig_id).
  Notation annotate := (annotate Sg).
  Notation ans_key := (ans_key Sg).
  Notation group_rrs := (group_rrs Sg).
  Notation group_sigs := (group_sigs Sg).
  Notation keys_of := (keys_of Sg).

  (* the validation request verify_rrsets makes for RRset key k of answer section l *)
  Definition mk_req (lookup : lookup_t) (inst : N) (qn : name) (qt : N) (l : list ans) (now : N)
             (k : name * N) : greq :=
    {| q_lookup := lookup; q_inst := inst; q_qname := qn; q_qtype := qt; q_kname := fst k;
       q_ktype := snd k; q_rs := group_rrs k l; q_sigs := group_sigs k l; q_now := now |}.

  Lemma key_eqb_eq a b : key_eqb a b = true <-> a = b.
  Proof.
    destruct a as [n1 t1], b as [n2 t2]. unfold key_eqb. cbn [fst snd].
    rewrite andb_true_iff, labels_eqb_eq, N.eqb_eq. split; [intros [-> ->]; reflexivity|intros [= -> ->]; auto].
  Qed.

  Lemma group_rrs_grouped k l : grouped (fst k) (snd k) (group_rrs k l).
  Proof.
    unfold grouped. induction l as [|[r|s] l IH]; cbn [Model.group_rrs]; auto.
    destruct (key_eqb (ans_key (AR r)) k) eqn:E; auto.
    apply key_eqb_eq in E. constructor; [|exact IH]. subst k. cbn. auto.
  Qed.

  Lemma group_rrs_in k l p r :
    nth_error l p = Some (AR r) -> ans_key (AR r) = k -> In r (group_rrs k l).
  Proof.
    revert p. induction l as [|a l IH]; intros [|p] H E; try discriminate; cbn in H.
    - injection H as ->. cbn [Model.group_rrs]. subst k.
      assert (key_eqb (ans_key (AR r)) (ans_key (AR r)) = true) as -> by now apply key_eqb_eq.
      now left.
    - destruct a as [r'|s]; cbn [Model.group_rrs]; [|eauto].
      destruct (key_eqb (ans_key (AR r')) k); [right|]; eauto.
  Qed.

  Lemma group_sigs_incl k l s : In s (group_sigs k l) -> In (AS s) l.
  Proof.
    induction l as [|[r|s'] l IH]; cbn [Model.group_sigs]; [tauto| |].
    - intros H. right. auto.
    - destruct (key_eqb (ans_key (AS s')) k); cbn [In]; intros H.
      + destruct H as [<-|H]; [now left|right; auto].
      + right. auto.
  Qed.

  (* RRSIG times of a section are 32-bit *)
  Definition times32 (l : list ans) : Prop :=
    forall s, In (AS s) l -> s_inc (g_in s) < two32 /\ s_exp (g_in s) < two32.

  Lemma mk_req_wf lookup inst qn qt l now k :
    now < two32 -> times32 l -> lower_name (fst k) = fst k -> wf_req (mk_req lookup inst qn qt l now k).
  Proof.
    intros Hn Ht Hk. unfold HistoryProofs.wf_req, mk_req. cbn.
    split; [exact Hn|]. split; [|split; [apply group_rrs_grouped|exact Hk]].
    unfold times_ok. apply Forall_forall. intros s Hs. apply Ht. eapply group_sigs_incl; eauto.
  Qed.

  Lemma keys_of_lower l : forall seen k, In k (keys_of l seen) -> lower_name (fst k) = fst k.
  Proof.
    induction l as [|a l IH]; intros seen k; cbn [Model.keys_of]; [intros []|].
    destruct (existsb (key_eqb (ans_key a)) seen); [apply IH|].
    cbn [In]. intros [<-|H]; [|eapply IH; eauto].
    destruct a; cbn; apply lower_name_idem.
  Qed.

  (* verdicts of one response: each is computed from scratch for its own request, or is the
     from-scratch verdict of a request with the same cache key made earlier (an earlier response,
     or an earlier RRset of this response), not yet expired *)
  Definition origin_ok (pool : list greq) (r : greq) (v : gres) : Prop :=
    v = fresh r \/
    exists r0, In r0 pool /\ req_key r0 = req_key r /\ v = fresh r0 /\
               q_inst _ r < q_inst _ r0 + 1000 * first_ttl r0.

  Lemma run_groups_origin lookup inst qn qt l now ks : forall past c vs c',
    cache_inv past c ->
    run_groups lookup c inst qn qt l ks now = (vs, c') ->
    cache_inv (rev (map (mk_req lookup inst qn qt l now) ks) ++ past) c' /\
    forall k v, In (k, v) vs ->
      In k ks /\ origin_ok (map (mk_req lookup inst qn qt l now) ks ++ past) (mk_req lookup inst qn qt l now k) v.
  Proof.
    induction ks as [|k ks IH]; intros past c vs c' Hinv; cbn [Model.run_groups].
    - intros [= <- <-]. split; [exact Hinv|]. intros k v [].
    - destruct (Model.validate_group Sg verify sig_id lookup c inst qn qt (fst k) (snd k)
                  (group_rrs k l) (group_sigs k l) now) as [v1 c1] eqn:S1.
      destruct (run_groups lookup c1 inst qn qt l ks now) as [vs2 c2] eqn:R2.
      intros [= <- <-].
      assert (step c (mk_req lookup inst qn qt l now k) = (v1, c1)) as S1' by exact S1.
      destruct (step_origin Sg verify sig_id _ _ _ _ _ Hinv S1') as [Hinv1 Ho].
      destruct (IH _ _ _ _ Hinv1 R2) as [Hinv2 Hrest].
      split.
      + cbn [map rev]. rewrite <- app_assoc. exact Hinv2.
      + intros k' v' [E|Hin].
        * injection E as <- <-. split; [now left|].
          destruct Ho as [Ho|(r0 & H0 & H1)]; [now left|right].
          exists r0. split; [|exact H1]. cbn [map]. right. apply in_or_app. now right.
        * destruct (Hrest _ _ Hin) as [Hk Ho']. split; [now right|].
          destruct Ho' as [Ho'|(r0 & H0 & H1)]; [now left|right].
          exists r0. split; [|exact H1]. cbn [map].
          apply in_app_or in H0. destruct H0 as [H0|[<-|H0]].
          -- right. apply in_or_app. now left.
          -- now left.
          -- right. apply in_or_app. now right.
  Qed.

  Lemma find_group_in k vs p t i :
    gproof (find_group k vs) = (p, t, i) -> p = Secure ->
    exists k', In (k', find_group k vs) vs /\ k' = k.
  Proof.
    induction vs as [|[k' v] vs IH]; cbn [find_group].
    - cbn. intros [= <- _ _] E. discriminate.
    - destruct (key_eqb k' k) eqn:E.
      + intros _ _. exists k'. split; [now left|now apply key_eqb_eq].
      + intros H1 H2. destruct (IH H1 H2) as (k2 & Hin & Hk). exists k2. split; [now right|exact Hk].
  Qed.

  Lemma annotate_nth vs l : forall before p r pr ttl,
    nth_error l p = Some (AR r) -> nth_error (annotate vs before l) p = Some (pr, ttl) ->
    exists t i, gproof (find_group (ans_key (AR r)) vs) = (pr, t, i) /\
                ttl = match pr, t with Secure, Some t' => t' | _, _ => r_ttl r end.
  Proof.
    induction l as [|a l IH]; intros before [|p] r pr ttl H1 H2; try discriminate; cbn in H1.
    - injection H1 as ->. cbn [Model.annotate nth_error] in H2.
      destruct (gproof (find_group (ans_key (AR r)) vs)) as [[p0 t0] i0] eqn:G.
      injection H2 as <- <-. exists t0, i0. split; reflexivity.
    - cbn [Model.annotate] in H2.
      destruct (gproof (find_group (ans_key a) vs)) as [[p0 t0] i0].
      apply (IH (before ++ [a]) p r pr ttl H1). exact H2.
  Qed.

  (* One response processed with a cache all of whose entries stem from [past]: every non-RRSIG
     record returned Secure belongs to an RRset (all records of its owner and type in the section)
     whose verdict is Secure and justified, either for the request of this response or for a
     request with the same cache key in [past] or earlier in this response; its TTL is the one
     computed with that justification. *)
  Theorem respond_secure_record lookup past c inst qn qt l now64 out c' p r ttl :
    cache_inv past c -> Forall wf_req past -> times32 l ->
    respond lookup c inst qn qt l now64 = (OAnswer out, c') ->
    nth_error l p = Some (AR r) -> nth_error out p = Some (Secure, ttl) ->
    let now := now64 mod two32 in
    let reqs := map (mk_req lookup inst qn qt l now) (keys_of l []) in
    let req := mk_req lookup inst qn qt l now (ans_key (AR r)) in
    cache_inv (rev reqs ++ past) c' /\ Forall wf_req (rev reqs ++ past) /\
    In r (q_rs _ req) /\
    exists t idx, t = Some ttl /\
      (justified_req req t idx \/
       exists r0, In r0 (reqs ++ past) /\ req_key r0 = req_key req /\ justified_req r0 t idx /\
                  q_inst _ req < q_inst _ r0 + 1000 * first_ttl r0).
  Proof.
    intros Hinv Hwf Ht. unfold Model.respond.
    destruct (run_groups lookup c inst qn qt l (keys_of l []) (now64 mod two32)) as [vs c1] eqn:R.
    destruct (existsb (wildcard_group Sg l) vs); [discriminate|].
    intros [= <- <-] Hl Ho. cbv zeta.
    assert (now64 mod two32 < two32) as Hn by (apply N.mod_lt; unfold two32; lia).
    destruct (run_groups_origin _ _ _ _ _ _ _ _ _ _ _ Hinv R) as [Hinv' Hvs].
    assert (Forall wf_req (map (mk_req lookup inst qn qt l (now64 mod two32)) (keys_of l []))) as Hwf'.
    { apply Forall_forall. intros x Hx. apply in_map_iff in Hx. destruct Hx as (k & <- & Hk).
      apply mk_req_wf; auto. eapply keys_of_lower; eauto. }
    split; [exact Hinv'|]. split.
    { apply Forall_app. split; [|exact Hwf]. apply Forall_rev. exact Hwf'. }
    split; [cbn; eapply group_rrs_in; eauto|].
    destruct (annotate_nth _ _ _ _ _ _ _ Hl Ho) as (t & i & G & Ettl).
    destruct (find_group_in _ _ _ _ _ G eq_refl) as (k' & Hin & ->).
    destruct (Hvs _ _ Hin) as [Hk Hor].
    assert (forall rq v, origin_ok (map (mk_req lookup inst qn qt l (now64 mod two32)) (keys_of l []) ++ past) rq v ->
                    forall cc, v <> GErr Secure cc) as NoErr.
    { intros rq v [Hf|(r0 & _ & _ & Hf & _)] cc ->; symmetry in Hf;
      apply (rrset_verdict_err Sg verify) in Hf; discriminate. }
    destruct (find_group (ans_key (AR r)) vs) as [pp tt ii|pp cc] eqn:F; cbn in G.
    2:{ injection G as -> <- <-. exfalso. eapply (NoErr _ _ Hor cc). reflexivity. }
    injection G as -> <- <-.
    assert (wf_req (mk_req lookup inst qn qt l (now64 mod two32) (ans_key (AR r)))) as Wr.
    { apply mk_req_wf; auto. cbn. apply lower_name_idem. }
    destruct tt as [t'|].
    2:{ (* Secure without a TTL does not occur *)
        exfalso. destruct Hor as [Hf|(r0 & H0 & _ & Hf & _)].
        - symmetry in Hf. apply (fresh_justified Sg verify) in Hf; [|exact Wr].
          destruct Hf as (j & sg & keys & k & ttl0 & _ & _ & Ht0 & _). discriminate.
        - symmetry in Hf. apply (fresh_justified Sg verify) in Hf.
          + destruct Hf as (j & sg & keys & k & ttl0 & _ & _ & Ht0 & _). discriminate.
          + apply in_app_or in H0. rewrite Forall_forall in Hwf, Hwf'. destruct H0; auto. }
    exists (Some t'), ii. split; [now subst ttl|].
    destruct Hor as [Hf|(r0 & H0 & Hk0 & Hf & Hl0)].
    - left. apply fresh_justified; [exact Wr|now symmetry].
    - right. exists r0. split; [exact H0|]. split; [exact Hk0|]. split; [|exact Hl0].
      apply fresh_justified; [|now symmetry].
      apply in_app_or in H0. rewrite Forall_forall in Hwf, Hwf'. destruct H0; auto.
  Qed.

  (* ---------------------------------------------------------------- *)
  (* histories of responses through one handle (shared cache)          *)
  (* ---------------------------------------------------------------- *)
  Record rstep := { p_lookup : lookup_t; p_inst : N; p_qname : name; p_qtype : N;
                    p_ans : list ans; p_now64 : N }.

  Fixpoint respond_hist (c : cache) (ss : list rstep) : list outcome :=
    match ss with
    | [] => []
    | s :: ss' =>
        let '(o, c') := respond (p_lookup s) c (p_inst s) (p_qname s) (p_qtype s) (p_ans s) (p_now64 s) in
        o :: respond_hist c' ss'
    end.

  Definition step_req (s : rstep) (k : name * N) : greq :=
    mk_req (p_lookup s) (p_inst s) (p_qname s) (p_qtype s) (p_ans s) (p_now64 s mod two32) k.
  Definition step_reqs (s : rstep) : list greq := map (step_req s) (keys_of (p_ans s) []).

  Lemma respond_inv lookup past c inst qn qt l now64 o c' :
    cache_inv past c -> Forall wf_req past -> times32 l ->
    respond lookup c inst qn qt l now64 = (o, c') ->
    exists new, incl new (map (mk_req lookup inst qn qt l (now64 mod two32)) (keys_of l [])) /\
                cache_inv (new ++ past) c' /\ Forall wf_req (new ++ past).
  Proof.
    intros Hinv Hwf Ht. unfold Model.respond.
    destruct (run_groups lookup c inst qn qt l (keys_of l []) (now64 mod two32)) as [vs c1] eqn:R.
    assert (now64 mod two32 < two32) as Hn by (apply N.mod_lt; unfold two32; lia).
    destruct (run_groups_origin _ _ _ _ _ _ _ _ _ _ _ Hinv R) as [Hinv' _].
    assert (Forall wf_req (map (mk_req lookup inst qn qt l (now64 mod two32)) (keys_of l []))) as Hwf'.
    { apply Forall_forall. intros x Hx. apply in_map_iff in Hx. destruct Hx as (k & <- & Hk).
      apply mk_req_wf; auto. eapply keys_of_lower; eauto. }
    intros E. exists (rev (map (mk_req lookup inst qn qt l (now64 mod two32)) (keys_of l []))).
    split; [intros x Hx; now apply in_rev|].
    assert (c' = c1) as -> by (destruct (existsb (wildcard_group Sg l) vs); injection E; auto).
    split; [exact Hinv'|]. apply Forall_app. split; [now apply Forall_rev|exact Hwf].
  Qed.

  Lemma respond_hist_secure ss : forall done past c i s out p r ttl,
    cache_inv past c -> Forall wf_req past ->
    (forall r0, In r0 past -> exists s0, In s0 done /\ In r0 (step_reqs s0)) ->
    Forall (fun s => times32 (p_ans s)) ss ->
    nth_error ss i = Some s -> nth_error (respond_hist c ss) i = Some (OAnswer out) ->
    nth_error (p_ans s) p = Some (AR r) -> nth_error out p = Some (Secure, ttl) ->
    let req := step_req s (ans_key (AR r)) in
    In r (q_rs _ req) /\
    exists idx,
      justified_req req (Some ttl) idx \/
      exists s0 r0, In s0 (done ++ firstn (S i) ss) /\ In r0 (step_reqs s0) /\
                    req_key r0 = req_key req /\ justified_req r0 (Some ttl) idx /\
                    q_inst _ req < q_inst _ r0 + 1000 * first_ttl r0.
  Proof.
    induction ss as [|s1 ss IH]; intros done past c i s out p r ttl Hinv Hwf Hprov Ht Hs Ho Hl Hp.
    - destruct i; discriminate.
    - cbn [respond_hist] in Ho.
      destruct (respond (p_lookup s1) c (p_inst s1) (p_qname s1) (p_qtype s1) (p_ans s1) (p_now64 s1))
        as [o1 c1] eqn:R1.
      inversion Ht as [|? ? Ht1 Ht2]; subst.
      destruct i as [|i]; cbn in Hs, Ho.
      + injection Hs as ->. injection Ho as ->.
        destruct (respond_secure_record _ _ _ _ _ _ _ _ _ _ _ _ _ Hinv Hwf Ht1 R1 Hl Hp)
          as (_ & _ & Hin & t & idx & -> & Hj).
        split; [exact Hin|]. exists idx.
        destruct Hj as [Hj|(r0 & H0 & Hk & Hj & Hx)]; [now left|right].
        apply in_app_or in H0. destruct H0 as [H0|H0].
        * exists s, r0. split; [apply in_or_app; right; now left|]. split; [exact H0|auto].
        * destruct (Hprov _ H0) as (s0 & Hs0 & Hr0). exists s0, r0.
          split; [apply in_or_app; now left|]. split; [exact Hr0|auto].
      + destruct (respond_inv _ _ _ _ _ _ _ _ _ _ Hinv Hwf Ht1 R1) as (new & Hnew & Hinv1 & Hwf1).
        assert (forall r0, In r0 (new ++ past) -> exists s0, In s0 (done ++ [s1]) /\ In r0 (step_reqs s0)) as Hprov1.
        { intros r0 H0. apply in_app_or in H0. destruct H0 as [H0|H0].
          - exists s1. split; [apply in_or_app; right; now left|]. apply Hnew. exact H0.
          - destruct (Hprov _ H0) as (s0 & Hs0 & Hr0). exists s0. split; [apply in_or_app; now left|exact Hr0]. }
        destruct (IH (done ++ [s1]) _ _ _ _ _ _ _ _ Hinv1 Hwf1 Hprov1 Ht2 Hs Ho Hl Hp) as (Hin & idx & Hj).
        split; [exact Hin|]. exists idx.
        destruct Hj as [Hj|(s0 & r0 & Hs0 & Hr)]; [now left|right].
        exists s0, r0. split; [|exact Hr]. rewrite <- app_assoc in Hs0. exact Hs0.
  Qed.

  (* FULL, at the observation point of the property (Record.proof / Record.ttl in the responses
     returned through one handle, from an empty cache): a non-RRSIG record is returned Secure
     with TTL ttl only if its RRset -- all records of that owner and type in that answer section --
     has an RRSIG and a Secure DNSKEY passing every check, with that TTL bound, for the data and
     clock of this response or of a response up to this one whose request has the same cache key
     and whose cache entry had not expired. *)
  Theorem response_history_secure ss i s out p r ttl :
    Forall (fun s => times32 (p_ans s)) ss ->
    nth_error ss i = Some s -> nth_error (respond_hist [] ss) i = Some (OAnswer out) ->
    nth_error (p_ans s) p = Some (AR r) -> nth_error out p = Some (Secure, ttl) ->
    let req := step_req s (ans_key (AR r)) in
    In r (q_rs _ req) /\
    exists idx,
      justified_req req (Some ttl) idx \/
      exists s0 r0, In s0 (firstn (S i) ss) /\ In r0 (step_reqs s0) /\
                    req_key r0 = req_key req /\ justified_req r0 (Some ttl) idx /\
                    q_inst _ req < q_inst _ r0 + 1000 * first_ttl r0.
  Proof.
    intros Ht Hs Ho Hl Hp.
    apply (respond_hist_secure ss [] [] [] i s out p r ttl); auto.
    - intros k e v [].
    - intros r0 [].
  Qed.
End WithSig.
