(* C06 — property theorems (statements; proofs are short applications of lemmas in *Proofs.v).
   "Secure" for an RRset = the verdict that makes DnssecDnsHandle mark its records Proof::Secure.
   The signature primitive [verify] is a parameter of every theorem (any function). *)
From HV Require Import Lib.Base C06.Model C06.TimeProofs C06.SigProofs C06.TbsProofs
     C06.CacheProofs C06.HistoryProofs C06.ResponseProofs C06.WitnessProofs.
From Coq Require Import Permutation.
Open Scope N_scope.

(* ------------------------------------------------------------------------------------------ *)
(* 1. the validity window                                                                      *)
(* ------------------------------------------------------------------------------------------ *)

(* The validity-window test of RrsigValidity::check (two PartialOrd comparisons on SerialNumber)
   accepts exactly the clock values for which inception, clock and expiration can be placed in
   order on an unbounded time line with both distances below 2^31 s (RFC 1982 / RFC 4034 3.1.5),
   for all 2^96 field values, wrap-around included. *)
Theorem C06_window_is_rfc1982 : forall now inc exp,
  now < two32 -> inc < two32 -> exp < two32 ->
  (time_ok now inc exp = true <-> on_timeline now inc exp).
Proof.
  intros now inc exp Hn Hi He. rewrite time_ok_window by assumption. now apply window_timeline.
Qed.
Print Assumptions C06_window_is_rfc1982.

(* The comparison RFC 1982 leaves undefined (distance exactly 2^31) never lets a signature pass. *)
Theorem C06_window_undefined_rejected : forall now inc exp,
  now < two32 -> inc < two32 -> exp < two32 ->
  fwd_dist now exp = two31 \/ fwd_dist inc now = two31 -> time_ok now inc exp = false.
Proof.
  intros now inc exp Hn Hi He [H|H]; unfold time_ok.
  - destruct (serial_undefined now exp Hn He H) as [-> _]. reflexivity.
  - destruct (serial_undefined inc now Hi Hn H) as [_ E].
    assert (serial_ge now inc = false) as ->; [|apply andb_false_r].
    destruct (serial_ge now inc) eqn:G; [|reflexivity].
    apply serial_ge_dist in G; try assumption. rewrite H in G. unfold two31 in G. lia.
Qed.
Print Assumptions C06_window_undefined_rejected.

Example C06_window_example :
  time_ok 5 4294967000 100 = true /\ on_timeline 5 4294967000 100 /\
  time_ok 101 4294967000 100 = false /\ fwd_dist 7 (7 + two31) = two31.
Proof.
  split; [reflexivity|]. split; [|split; reflexivity].
  apply C06_window_is_rfc1982; try reflexivity.
Qed.

(* ------------------------------------------------------------------------------------------ *)
(* 2. one RRSIG, one DNSKEY, one RRset                                                         *)
(* ------------------------------------------------------------------------------------------ *)

(* verify_rrset_with_dnskey says Secure only if: the DNSKEY is itself Secure, a zone key, not
   revoked; its algorithm, key tag and owner equal the RRSIG's algorithm, key tag and signer name;
   the RRSIG has the RRset's owner, type covered = the RRset's type, class IN, Labels not above the
   owner's label count; every record has class IN; the clock is inside [inception, expiration]
   (previous theorem); the RRset is not empty; and [verify] accepts the signature under that key
   for octets that are the RFC 4034 3.1.8.1 signed data of the RRSIG fields and of exactly the
   presented records (each canonical RDATA once, under the owner name derived per RFC 4035 5.3.2).
   [grouped]: the records are one RRset as RrsetMap::new forms them (established for every call
   from a response by C06_history_secure_has_origin). *)
Theorem C06_secure_implies_checks :
  forall (Sg : Type) (verify : N -> list byte -> list byte -> Sg -> bool)
         k kproof (sg : sigrr Sg) kname ktype rs now ttl,
  now < two32 -> s_inc (g_in sg) < two32 -> s_exp (g_in sg) < two32 ->
  grouped kname ktype rs -> lower_name kname = kname ->
  verify_rrset_with_dnskey Sg verify k kproof sg kname ktype rs now = VSecure ttl ->
  sig_checks Sg verify k kproof sg kname ktype rs now.
Proof. exact secure_implies_checks. Qed.
Print Assumptions C06_secure_implies_checks.

(* The TTL handed out with a Secure verdict is at most the received TTL of the RRset's first
   record, the RRSIG's original TTL, and the remaining signature lifetime (forward distance from
   the clock to the expiration on the 2^32 circle). *)
Theorem C06_ttl_bound :
  forall (Sg : Type) (verify : N -> list byte -> list byte -> Sg -> bool)
         k kproof (sg : sigrr Sg) kname ktype rs now ttl,
  now < two32 -> s_inc (g_in sg) < two32 -> s_exp (g_in sg) < two32 ->
  verify_rrset_with_dnskey Sg verify k kproof sg kname ktype rs now = VSecure ttl ->
  exists first rest, rs = first :: rest /\ ttl <= r_ttl first /\ ttl <= s_ottl (g_in sg) /\
                     ttl <= fwd_dist now (s_exp (g_in sg)).
Proof. exact secure_ttl_bound. Qed.
Print Assumptions C06_ttl_bound.

(* verify_default_rrset (all RRSIGs of the RRset, the validated DNSKEY answers for their signer
   names, key-tag collision cap, RRSIG cap, select_ok): a Secure verdict computed from scratch names
   an RRSIG of the RRset and a Secure DNSKEY of the answer for its signer passing all checks, and
   carries the bounded TTL. *)
Theorem C06_rrset_secure_justified :
  forall (Sg : Type) (verify : N -> list byte -> list byte -> Sg -> bool)
         lookup qname qtype kname ktype rs (sigs : list (sigrr Sg)) now t idx,
  now < two32 -> times_ok Sg sigs -> grouped kname ktype rs -> lower_name kname = kname ->
  default_rrset Sg verify lookup qname qtype kname ktype rs sigs now = GOk Secure t idx ->
  justified Sg verify lookup kname ktype rs sigs now t idx.
Proof. exact default_rrset_justified. Qed.
Print Assumptions C06_rrset_secure_justified.

(* Since fix 6b7ad4d (RFC 4035 5.3.1): the RRSIG that makes an RRset Secure names, as signer, the
   owner of the RRset or an ancestor of it -- a key of an unrelated zone never validates it. *)
Theorem C06_secure_signer_is_zone :
  forall (Sg : Type) (verify : N -> list byte -> list byte -> Sg -> bool)
         lookup qname qtype kname ktype rs (sigs : list (sigrr Sg)) now t idx,
  default_rrset Sg verify lookup qname qtype kname ktype rs sigs now = GOk Secure t idx ->
  exists j sg, idx = Some j /\ nth_error sigs j = Some sg /\
               zone_of (s_signer (g_in sg)) kname = true.
Proof. exact default_rrset_secure_zone. Qed.
Print Assumptions C06_secure_signer_is_zone.

(* non-vacuity: the witness RRset ab.c.z. A 10.0.0.1, signed by the zone key of z., is Secure at
   clock 500 with TTL 300, and the hypotheses of the three theorems hold for it *)
Example C06_secure_example :
  verify_rrset_with_dnskey tsig tverify w_key Secure (w_sig w_owner1) w_owner1 1 [w_rr w_owner1 300] 500
    = VSecure 300 /\
  grouped w_owner1 1 [w_rr w_owner1 300] /\ lower_name w_owner1 = w_owner1 /\
  default_rrset tsig tverify w_lookup w_owner1 1 w_owner1 1 [w_rr w_owner1 300] [w_sig w_owner1] 500
    = GOk Secure (Some 300) (Some O) /\
  times_ok tsig [w_sig w_owner1].
Proof.
  split; [vm_compute; reflexivity|]. split; [repeat constructor|]. split; [reflexivity|].
  split; [vm_compute; reflexivity|]. repeat constructor.
Qed.

(* ------------------------------------------------------------------------------------------ *)
(* 3. the signed data determines what was signed; tampering                                    *)
(* ------------------------------------------------------------------------------------------ *)

(* Two (owner, RRSIG fields, RRset) covered by the same octets agree on every signed RRSIG field
   (type covered, algorithm, labels, original TTL, expiration, inception, key tag, signer name up
   to case), on the canonical RDATAs (as multisets) and on the derived owner name up to case. *)
Theorem C06_tbs_injective : forall owner owner' si si' rs rs' d,
  wf_si si -> wf_si si' -> wf_name owner -> wf_name owner' ->
  Forall (fun r => wf_rd (r_canon r)) rs -> Forall (fun r => wf_rd (r_canon r)) rs' ->
  covers_exactly owner si rs d -> covers_exactly owner' si' rs' d ->
  si_signed si = si_signed si' /\
  Permutation (map r_canon rs) (map r_canon rs') /\
  (rs <> [] -> exists nm nm', determine_name owner (s_labels si) = Some nm /\
                               determine_name owner' (s_labels si') = Some nm' /\
                               lower_name nm = lower_name nm').
Proof. exact covers_exactly_injective. Qed.
Print Assumptions C06_tbs_injective.

(* With a signature primitive that accepts only octets the key holder signed ([unforgeable]), and a
   key holder who signed only signed-data encodings of RRsets in [genuine]: Secure means the
   presented RRset and RRSIG fields are, field for field and RDATA for RDATA, one of those.  Any
   altered signed bit, any other key, gives a verdict other than Secure. *)
Theorem C06_tamper_rejected :
  forall (Sg : Type) (verify : N -> list byte -> list byte -> Sg -> bool)
         (signed : N -> list byte -> list byte -> Prop),
  (forall alg pk d s, verify alg pk d s = true -> signed alg pk d) ->
  forall (genuine : name -> siginput -> list rr -> Prop) k kproof (sg : sigrr Sg) kname ktype rs now ttl,
  (forall d, signed (k_alg k) (k_pk k) d ->
     exists o si0 rs0, genuine o si0 rs0 /\ wf_si si0 /\ wf_name o /\
                       Forall (fun r => wf_rd (r_canon r)) rs0 /\ covers_exactly o si0 rs0 d) ->
  now < two32 -> wf_presented Sg sg kname rs ->
  grouped kname ktype rs -> lower_name kname = kname ->
  verify_rrset_with_dnskey Sg verify k kproof sg kname ktype rs now = VSecure ttl ->
  exists o si0 rs0, genuine o si0 rs0 /\
    si_signed (g_in sg) = si_signed si0 /\
    Permutation (map r_canon rs) (map r_canon rs0) /\
    exists nm nm', determine_name kname (s_labels (g_in sg)) = Some nm /\
                   determine_name o (s_labels si0) = Some nm' /\ lower_name nm = lower_name nm'.
Proof. intros Sg verify signed U. exact (tamper_rejected Sg verify signed U). Qed.
Print Assumptions C06_tamper_rejected.

(* non-vacuity: the witness primitive is unforgeable for "the zone signed exactly w_msg", w_msg is
   the signed data of the genuine RRset, the presented data are well-formed *)
Example C06_tamper_example :
  let signed := fun alg pk d => alg = 15 /\ pk = [1; 2; 3; 4] /\ d = w_msg in
  let genuine := fun o si rs => o = w_owner1 /\ si = w_si /\ rs = [w_rr w_owner1 300] in
  (forall alg pk d (s : tsig), In s [g_sig (w_sig w_owner1)] -> tverify alg pk d s = true -> signed alg pk d) /\
  (forall d, signed 15 [1; 2; 3; 4] d ->
     exists o si0 rs0, genuine o si0 rs0 /\ wf_si si0 /\ wf_name o /\
                       Forall (fun r => wf_rd (r_canon r)) rs0 /\ covers_exactly o si0 rs0 d) /\
  wf_presented tsig (w_sig w_owner1) w_owner1 [w_rr w_owner1 300].
Proof.
  cbv zeta. split; [|split].
  - intros alg pk d s [<-|[]] V. unfold w_sig, tverify in V. cbn [g_sig] in V.
    apply andb_true_iff in V. destruct V as [V V3]. apply andb_true_iff in V. destruct V as [V1 V2].
    apply N.eqb_eq in V1. apply bytes_eqb_eq in V2, V3. subst. auto.
  - intros d (_ & _ & ->). exists w_owner1, w_si, [w_rr w_owner1 300].
    split; [auto|]. split; [vm_compute; repeat split; try reflexivity; repeat constructor; discriminate || (cbn; lia)|].
    split; [repeat constructor; try discriminate; cbn; lia|].
    split; [repeat constructor|].
    exists w_owner1, [[10; 0; 0; 1]]. split; [reflexivity|]. split; [reflexivity|]. vm_compute. reflexivity.
  - split; [vm_compute; repeat split; try reflexivity; repeat constructor; discriminate || (cbn; lia)|].
    split; [repeat constructor; try discriminate; cbn; lia|repeat constructor].
Qed.

(* ------------------------------------------------------------------------------------------ *)
(* 4. histories through the validation cache                                                   *)
(* ------------------------------------------------------------------------------------------ *)

(* FULL statement of what the code guarantees, at the observation point of the property, for every
   history of responses through one handle starting from an empty cache (every interleaving of
   clock values, cache-clock values, queries, answer sections, DNSKEY answers): a non-RRSIG record
   comes back Secure with TTL ttl only if its RRset (all records of that owner and type in that
   answer section; the record is one of them) is justified -- an RRSIG of the RRset and a Secure
   DNSKEY pass every check of C06_secure_implies_checks with the TTL bounds of C06_ttl_bound --
   EITHER on the data and clock of this response, OR on the data and clock of a request of this or
   an earlier response that has the same validation-cache key and whose entry (lifetime = received
   TTL of its first record) had not expired on the cache clock. *)
Theorem C06_history_secure_has_origin :
  forall (Sg : Type) (verify : N -> list byte -> list byte -> Sg -> bool) (sig_id : Sg -> N)
         (ss : list (rstep Sg)) i s out p r ttl,
  Forall (fun s => times32 Sg (p_ans Sg s)) ss ->
  nth_error ss i = Some s -> nth_error (respond_hist Sg verify sig_id [] ss) i = Some (OAnswer out) ->
  nth_error (p_ans Sg s) p = Some (AR r) -> nth_error out p = Some (Secure, ttl) ->
  let req := step_req Sg s (ans_key Sg (AR r)) in
  In r (q_rs Sg req) /\
  exists idx,
    justified_req Sg verify req (Some ttl) idx \/
    exists s0 r0, In s0 (firstn (S i) ss) /\ In r0 (step_reqs Sg s0) /\
                  req_key Sg sig_id r0 = req_key Sg sig_id req /\
                  justified_req Sg verify r0 (Some ttl) idx /\
                  q_inst Sg req < q_inst Sg r0 + 1000 * first_ttl Sg r0.
Proof. exact response_history_secure. Qed.
Print Assumptions C06_history_secure_has_origin.

(* The property's own claim -- Secure at a step implies the checks hold at THAT step's clock, for
   THAT step's data -- is false on the faithful model: a verdict cached inside the window is
   served after the expiration. *)
Theorem C06_history_no_stale_secure_refuted :
  exists reqs j r t idx,
    Forall (wf_req tsig) reqs /\ nth_error reqs j = Some r /\
    nth_error (run tsig tverify tsig_id [] reqs) j = Some (GOk Secure t idx) /\
    ~ justified_req tsig tverify r t idx /\
    time_ok (q_now _ r) (s_inc w_si) (s_exp w_si) = false.
Proof.
  exists w_hist_stale, 1%nat, (w_req w_owner1 3600 2000 1000), (Some 300), (Some O).
  split; [repeat constructor; apply w_wf; cbn; auto; unfold two32; lia|].
  split; [reflexivity|]. split; [now rewrite w_stale_run|].
  split; [apply w_stale_not_justified|vm_compute; reflexivity].
Qed.
Print Assumptions C06_history_no_stale_secure_refuted.

(* ... and so is "the owner name of a Secure RRset is one a signature covers": the cache key sees
   names without their label boundaries. ab.c.z. is signed; a.bc.z. is served Secure. *)
Theorem C06_cache_key_exact_refuted :
  exists reqs j r t idx,
    Forall (wf_req tsig) reqs /\ nth_error reqs j = Some r /\
    nth_error (run tsig tverify tsig_id [] reqs) j = Some (GOk Secure t idx) /\
    ~ justified_req tsig tverify r t idx /\
    q_now _ r = 500 /\ q_kname _ r = w_owner2 /\
    fresh tsig tverify r = GErr Bogus true.
Proof.
  exists w_hist_flat, 1%nat, (w_req w_owner2 300 500 1000), (Some 300), (Some O).
  split; [repeat constructor; apply w_wf; cbn; auto; unfold two32; lia|].
  split; [reflexivity|]. split; [now rewrite (proj1 w_flat_run)|].
  split; [apply w_flat_not_justified|]. split; [reflexivity|]. split; [reflexivity|exact (proj2 w_flat_run)].
Qed.
Print Assumptions C06_cache_key_exact_refuted.

(* ... and so is the TTL bound on a cache hit: 50 s before the expiration a TTL of 300 comes back. *)
Theorem C06_history_ttl_bound_refuted :
  exists reqs j r ttl idx,
    nth_error reqs j = Some r /\
    nth_error (run tsig tverify tsig_id [] reqs) j = Some (GOk Secure (Some ttl) idx) /\
    in_window (q_now _ r) (s_inc w_si) (s_exp w_si) /\
    fwd_dist (q_now _ r) (s_exp w_si) < ttl.
Proof.
  exists w_hist_ttl, 1%nat, (w_req w_owner1 3600 950 450000), 300, (Some O).
  split; [reflexivity|]. split; [now rewrite (proj1 w_ttl_run)|].
  split; [split; vm_compute; reflexivity|vm_compute; reflexivity].
Qed.
Print Assumptions C06_history_ttl_bound_refuted.

(* GUARDED (Known = some earlier request of the history has the same cache key): without such a
   predecessor a Secure verdict is justified on the spot. *)
Theorem C06_history_secure_guarded :
  forall (Sg : Type) (verify : N -> list byte -> list byte -> Sg -> bool) (sig_id : Sg -> N)
         reqs j r t idx,
  Forall (wf_req Sg) reqs ->
  nth_error reqs j = Some r ->
  nth_error (run Sg verify sig_id [] reqs) j = Some (GOk Secure t idx) ->
  (forall i r0, (i < j)%nat -> nth_error reqs i = Some r0 -> req_key Sg sig_id r0 <> req_key Sg sig_id r) ->
  justified_req Sg verify r t idx.
Proof. exact history_secure_guarded. Qed.
Print Assumptions C06_history_secure_guarded.

(* GUARDED, inside the Known class (1): if the request served from the cache has the content of the
   request the entry was made for -- owner, type, class, canonical RDATAs, RRSIG fields and
   signature octets, label boundaries included; only TTLs and case may differ -- the RRSIG that
   justified the entry covers exactly the RRset now presented (all clock-independent checks). *)
Theorem C06_cached_verdict_covers_rrset_guarded :
  forall (Sg : Type) (verify : N -> list byte -> list byte -> Sg -> bool) (sig_id : Sg -> N),
  (forall a b, sig_id a = sig_id b -> a = b) ->
  forall r0 r t idx,
  justified_req Sg verify r0 t idx -> same_content Sg sig_id r0 r ->
  exists j sg k, idx = Some j /\ nth_error (q_sigs Sg r) j = Some sg /\
                 static_checks Sg verify k sg (q_kname Sg r) (q_ktype Sg r) (q_rs Sg r).
Proof. exact cached_verdict_covers_rrset_guarded. Qed.
Print Assumptions C06_cached_verdict_covers_rrset_guarded.

(* GUARDED, inside the Known class (2): a cache hit is inside the signature's validity window if
   validator clock and cache clock run together, the window is shorter than 2^31 s, and the entry's
   lifetime (received TTL of the first record) did not exceed the signature's remaining lifetime
   when the entry was made.  (The code does not ensure the last condition: that is finding F5a.) *)
Theorem C06_cached_verdict_in_window_guarded :
  forall (Sg : Type) (r0 r : greq Sg) inc exp,
  q_now Sg r0 < two32 -> inc < two32 -> exp < two32 ->
  in_window (q_now Sg r0) inc exp -> fwd_dist inc exp < two31 ->
  clocks_coherent Sg r0 r ->
  q_inst Sg r < q_inst Sg r0 + 1000 * first_ttl Sg r0 ->
  first_ttl Sg r0 <= fwd_dist (q_now Sg r0) exp ->
  in_window (q_now Sg r) inc exp.
Proof. exact cached_verdict_in_window_guarded. Qed.
Print Assumptions C06_cached_verdict_in_window_guarded.

(* non-vacuity of the guarded statements: a hit 200 s later, TTL 300 <= 500 s of remaining lifetime,
   same content up to TTL *)
Example C06_guarded_example :
  let r0 := w_req w_owner1 300 500 0 in
  let r := w_req w_owner1 77 700 200000 in
  run tsig tverify tsig_id [] [r0; r] = [GOk Secure (Some 300) (Some O); GOk Secure (Some 300) (Some O)] /\
  in_window (q_now _ r0) 100 1000 /\ fwd_dist 100 1000 < two31 /\ clocks_coherent tsig r0 r /\
  q_inst _ r < q_inst _ r0 + 1000 * first_ttl tsig r0 /\ first_ttl tsig r0 <= fwd_dist (q_now _ r0) 1000 /\
  same_content tsig tsig_id r0 r /\ in_window (q_now _ r) 100 1000.
Proof.
  cbv zeta. split; [vm_compute; reflexivity|]. split; [split; vm_compute; reflexivity|].
  split; [vm_compute; reflexivity|]. split; [exists 200; split; vm_compute; reflexivity|].
  split; [vm_compute; reflexivity|]. split; [vm_compute; discriminate|].
  split; [repeat split|split; vm_compute; reflexivity].
Qed.

(* non-vacuity of the history theorem: one response, one Secure record *)
Example C06_history_example :
  let s := {| p_lookup := w_lookup; p_inst := 0; p_qname := w_owner1; p_qtype := 1;
              p_ans := [AR (w_rr w_owner1 300); AS (w_sig w_owner1)]; p_now64 := 4294967296 + 500 |} in
  respond_hist tsig tverify tsig_id [] [s] = [OAnswer [(Secure, 300); (Secure, 300)]] /\
  times32 tsig (p_ans _ s).
Proof.
  cbv zeta. split; [vm_compute; reflexivity|].
  intros x [H|[H|[]]]; [discriminate|]. injection H as <-. split; vm_compute; reflexivity.
Qed.
