(* C06 — the validation cache over histories of validations: where a verdict can come from,
   the two ways a cached Secure verdict outlives its justification (refuted statements with
   witnesses) and the conditions under which it does not (guarded statements). *)
From HV Require Import Lib.Base C06.Model C06.TimeProofs C06.SigProofs.
From Coq Require Import Permutation.
Open Scope N_scope.

(* ------------------------------------------------------------------ *)
(* decidable equality of cache keys                                    *)
(* ------------------------------------------------------------------ *)
Lemma rrf_eqb_eq a b : rrf_eqb a b = true <-> a = b.
Proof.
  destruct a as [[[n1 c1] t1] d1], b as [[[n2 c2] t2] d2]. unfold rrf_eqb.
  rewrite !andb_true_iff, !bytes_eqb_eq, !N.eqb_eq. split.
  - intros [[[-> ->] ->] ->]. reflexivity.
  - intros [= -> -> -> ->]. auto.
Qed.
Lemma sif_eqb_eq a b : sif_eqb a b = true <-> a = b.
Proof.
  destruct a as [[[[[a1 a2] a3] [[a4 a5] a6]] a7] a8], b as [[[[[b1 b2] b3] [[b4 b5] b6]] b7] b8].
  unfold sif_eqb. rewrite !andb_true_iff, !bytes_eqb_eq, !N.eqb_eq. split.
  - intros [[[[[[[-> ->] ->] ->] ->] ->] ->] ->]. reflexivity.
  - intros [= -> -> -> -> -> -> -> ->]. repeat split.
Qed.
Lemma sgf_eqb_eq a b : sgf_eqb a b = true <-> a = b.
Proof.
  destruct a as [[[n1 c1] i1] s1], b as [[[n2 c2] i2] s2]. unfold sgf_eqb.
  rewrite !andb_true_iff, bytes_eqb_eq, sif_eqb_eq, !N.eqb_eq. split.
  - intros [[[-> ->] ->] ->]. reflexivity.
  - intros [= -> -> -> ->]. auto.
Qed.
Lemma ckey_eqb_eq a b : ckey_eqb a b = true <-> a = b.
Proof.
  destruct a as [[[[q1 t1] [k1 y1]] r1] g1], b as [[[[q2 t2] [k2 y2]] r2] g2]. unfold ckey_eqb.
  rewrite !andb_true_iff, !bytes_eqb_eq, !N.eqb_eq.
  rewrite (list_eqb_eq rrf_eqb rrf_eqb_eq), (list_eqb_eq sgf_eqb sgf_eqb_eq). split.
  - intros [[[[[-> ->] ->] ->] ->] ->]. reflexivity.
  - intros [= -> -> -> -> -> ->]. repeat split.
Qed.

Section WithSig.
  Variable Sg : Type.
  Variable verify : N -> list byte -> list byte -> Sg -> bool.
  Variable sig_id : Sg -> N.

  Notation sigrr := (sigrr Sg).
  Notation rrset_verdict := (rrset_verdict Sg verify).
  Notation cache_key := (cache_key Sg sig_id).
  Notation validate_group := (validate_group Sg verify sig_id).

  (* one validation of one RRset: what verify_rrsets is called on *)
  Record greq := { q_lookup : lookup_t; q_inst : N; q_qname : name; q_qtype : N; q_kname : name;
                   q_ktype : N; q_rs : list rr; q_sigs : list sigrr; q_now : N }.

  Definition req_key (r : greq) : ckey :=
    cache_key (q_qname r) (q_qtype r) (q_kname r) (q_ktype r) (q_rs r) (q_sigs r).
  (* the verdict computed from scratch *)
  Definition fresh (r : greq) : gres :=
    rrset_verdict (q_lookup r) (q_qname r) (q_qtype r) (q_kname r) (q_ktype r) (q_rs r) (q_sigs r) (q_now r).
  (* received TTL of the first record = lifetime of the cache entry in seconds *)
  Definition first_ttl (r : greq) : N := match q_rs r with [] => 0 | f :: _ => r_ttl f end.

  Definition step (c : cache) (r : greq) : gres * cache :=
    validate_group (q_lookup r) c (q_inst r) (q_qname r) (q_qtype r) (q_kname r) (q_ktype r)
                   (q_rs r) (q_sigs r) (q_now r).

  Fixpoint run (c : cache) (rs : list greq) : list gres :=
    match rs with
    | [] => []
    | r :: rs' => let '(v, c') := step c r in v :: run c' rs'
    end.

  (* every cache entry was computed from scratch for some past request with that key *)
  Definition cache_inv (past : list greq) (c : cache) : Prop :=
    forall k e v, In (k, e, v) c ->
      exists r0, In r0 past /\ req_key r0 = k /\ v = fresh r0 /\ e = q_inst r0 + 1000 * first_ttl r0.

  Lemma cache_find_in c k e v : cache_find c k = Some (e, v) -> In (k, e, v) c.
  Proof.
    induction c as [|[[k' e'] v'] c IH]; cbn [cache_find]; [discriminate|].
    destruct (ckey_eqb k' k) eqn:E.
    - apply ckey_eqb_eq in E. subst. intros [= -> ->]. now left.
    - intros H. right. auto.
  Qed.

  Lemma cache_insert_inv past c r :
    cache_inv past c ->
    cache_inv (r :: past) (cache_insert c (req_key r) (q_rs r) (q_inst r) (fresh r)).
  Proof.
    intros Hinv k e v. unfold cache_insert, first_ttl.
    destruct (q_rs r) as [|f rest] eqn:R.
    - intros Hin. destruct (Hinv k e v Hin) as (r0 & H0 & H1). exists r0. split; [now right|exact H1].
    - cbn [In]. intros [H|H].
      + injection H as <- <- <-. exists r. split; [now left|]. unfold first_ttl. rewrite R. auto.
      + apply filter_In in H. destruct H as [H _].
        destruct (Hinv k e v H) as (r0 & H0 & H1). exists r0. split; [now right|exact H1].
  Qed.

  (* where the verdict of one step comes from *)
  Lemma step_origin past c r v c' :
    cache_inv past c -> step c r = (v, c') ->
    cache_inv (r :: past) c' /\
    (v = fresh r \/
     exists r0, In r0 past /\ req_key r0 = req_key r /\ v = fresh r0 /\
                q_inst r < q_inst r0 + 1000 * first_ttl r0).
  Proof.
    intros Hinv. unfold step, Model.validate_group. fold (req_key r). fold (fresh r).
    unfold cache_get.
    destruct (cache_find c (req_key r)) as [[e v0]|] eqn:F.
    - destruct (q_inst r <? e) eqn:L.
      + intros [= <- <-]. split.
        * intros k e' v' Hin. destruct (Hinv k e' v' Hin) as (r0 & H0 & H1). exists r0. split; [now right|exact H1].
        * right. apply cache_find_in in F. destruct (Hinv _ _ _ F) as (r0 & H0 & H1 & H2 & H3).
          exists r0. apply N.ltb_lt in L. subst e. auto.
      + destruct (fresh r) as [p t i|p cached] eqn:Fr.
        * intros [= <- <-]. split; [|now left]. rewrite <- Fr. now apply cache_insert_inv.
        * destruct cached; intros [= <- <-]; (split; [|now left]).
          -- rewrite <- Fr. now apply cache_insert_inv.
          -- intros k e' v' Hin. destruct (Hinv k e' v' Hin) as (r0 & H0 & H1). exists r0. split; [now right|exact H1].
    - destruct (fresh r) as [p t i|p cached] eqn:Fr.
      + intros [= <- <-]. split; [|now left]. rewrite <- Fr. now apply cache_insert_inv.
      + destruct cached; intros [= <- <-]; (split; [|now left]).
        * rewrite <- Fr. now apply cache_insert_inv.
        * intros k e' v' Hin. destruct (Hinv k e' v' Hin) as (r0 & H0 & H1). exists r0. split; [now right|exact H1].
  Qed.

  Lemma run_origin reqs : forall past c j r v,
    cache_inv past c -> nth_error reqs j = Some r -> nth_error (run c reqs) j = Some v ->
    v = fresh r \/
    exists r0, (In r0 past \/ exists i, (i < j)%nat /\ nth_error reqs i = Some r0) /\
               req_key r0 = req_key r /\ v = fresh r0 /\ q_inst r < q_inst r0 + 1000 * first_ttl r0.
  Proof.
    induction reqs as [|r1 reqs IH]; intros past c j r v Hinv Hr Hv.
    - destruct j; discriminate.
    - cbn [run] in Hv. destruct (step c r1) as [v1 c1] eqn:S1.
      destruct (step_origin _ _ _ _ _ Hinv S1) as [Hinv1 Ho].
      destruct j as [|j].
      + cbn in Hr, Hv. injection Hr as <-. injection Hv as <-.
        destruct Ho as [Ho|(r0 & H0 & H1)]; [now left|right]. exists r0. split; [now left|exact H1].
      + cbn in Hr, Hv. destruct (IH _ _ _ _ _ Hinv1 Hr Hv) as [Hf|(r0 & Hw & H1)]; [now left|right].
        exists r0. split; [|exact H1].
        destruct Hw as [[<-|Hp]|(i & Hi & Hn)].
        * right. exists O. split; [lia|reflexivity].
        * now left.
        * right. exists (S i). split; [lia|exact Hn].
  Qed.

  (* From an empty cache: every verdict is either computed from scratch at that step or is the
     from-scratch verdict of an earlier step with the same cache key whose entry had not yet
     expired on the cache clock. *)
  Theorem history_origin reqs j r v :
    nth_error reqs j = Some r -> nth_error (run [] reqs) j = Some v ->
    v = fresh r \/
    exists i r0, (i < j)%nat /\ nth_error reqs i = Some r0 /\ req_key r0 = req_key r /\
                 v = fresh r0 /\ q_inst r < q_inst r0 + 1000 * first_ttl r0.
  Proof.
    intros Hr Hv.
    assert (cache_inv [] []) as Hinv by (intros k e v' []).
    destruct (run_origin reqs [] [] j r v Hinv Hr Hv) as [H|(r0 & [[]|(i & Hi & Hn)] & H1)]; [now left|right].
    exists i, r0. auto.
  Qed.
End WithSig.
