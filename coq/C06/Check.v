(* C06 — correspondence glue: histories written by the Rust harness (inputs + what the real
   DnssecDnsHandle returned per step) are re-run on the model inside Coq and compared.
   The signature primitive is instantiated symbolically: a signature is either the genuine
   signature of one (algorithm, public key) over one byte string, or garbage. *)
From HV Require Import Lib.Base Lib.Pack C06.Model.
Open Scope N_scope.

Inductive hsigv := SGen (alg : N) (pk msg : pbytes) | SBad.
Definition csig := (N * hsigv)%type.   (* (identity of the signature bytes, meaning) *)

Definition cverify (alg : N) (pk msg : list byte) (s : csig) : bool :=
  match snd s with
  | SGen a p m => (a =? alg) && bytes_eqb (unpack p) pk && bytes_eqb (unpack m) msg
  | SBad => false
  end.
Definition csig_id (s : csig) : N := fst s.

(* uncompressed wire name -> labels *)
Fixpoint parse_name (fuel : nat) (w : list byte) : name :=
  match fuel, w with
  | S f, n :: w' =>
      if n =? 0 then [] else firstn (N.to_nat n) w' :: parse_name f (skipn (N.to_nat n) w')
  | _, _ => []
  end.
Definition pname (p : pbytes) : name := let w := unpack p in parse_name (length w) w.

Inductive hans :=
| HR (name : pbytes) (class type ttl : N) (rsort rcanon : pbytes)
| HS (name : pbytes) (class ttl tc alg labels ottl exp inc tag : N) (signer : pbytes) (sg : hsigv) (id : N).
Inductive hkey := HK (name : pbytes) (flags alg : N) (pk : pbytes).
Inductive hobs := OErr (k : N) | OOk (l : list (N * N)).
Inductive hstep :=
  HStep (now inst : N) (qname : pbytes) (qtype : N) (answers : list hans)
        (keysets : list (pbytes * option (list hkey))) (obs : hobs).
Inductive case := CHist (anchors : list (N * pbytes)) (steps : list hstep).

Definition ans_of (a : hans) : ans csig :=
  match a with
  | HR n c t ttl rs rc =>
      AR {| r_name := pname n; r_class := c; r_type := t; r_ttl := ttl; r_sort := unpack rs; r_canon := unpack rc |}
  | HS n c ttl tc alg labels ottl exp inc tag signer sg id =>
      AS {| g_name := pname n; g_class := c; g_ttl := ttl;
            g_in := {| s_tc := tc; s_alg := alg; s_labels := labels; s_ottl := ottl; s_exp := exp;
                       s_inc := inc; s_tag := tag; s_signer := pname signer |};
            g_sig := (id, sg) |}
  end.
Definition key_of (k : hkey) : dnskey :=
  match k with HK n f a pk => {| k_name := pname n; k_flags := f; k_alg := a; k_pk := unpack pk |} end.

(* verify_dnskey_rrset for a DNSKEY RRset without RRSIGs when no DS can be fetched: Secure iff
   every key is a trust anchor (public key and algorithm), else the whole RRset is Bogus *)
Definition trusted (anchors : list (N * list byte)) (k : dnskey) : bool :=
  existsb (fun a => (fst a =? k_alg k) && bytes_eqb (snd a) (k_pk k)) anchors.
Definition keyset_proofs (anchors : list (N * list byte)) (ks : list dnskey) : list (dnskey * proof) :=
  let p := if forallb (trusted anchors) ks then Secure else Bogus in map (fun k => (k, p)) ks.

Fixpoint lookup_in (anchors : list (N * list byte)) (tbl : list (name * option (list dnskey)))
         (signer : name) : option (list (dnskey * proof)) :=
  match tbl with
  | [] => None
  | (z, ks) :: tbl' =>
      if name_eqb z signer then option_map (keyset_proofs anchors) ks else lookup_in anchors tbl' signer
  end.

Definition pcode (p : proof) : N :=
  match p with Secure => 3 | Insecure => 2 | Bogus => 1 | Indeterminate => 0 end.

Definition obs_of (o : outcome) : hobs :=
  match o with
  | ONsecError => OErr 1
  | OAnswer l => OOk (map (fun x => (pcode (fst x), snd x)) l)
  end.

Definition nn_eqb (a b : N * N) : bool := (fst a =? fst b) && (snd a =? snd b).
Definition hobs_eqb (a b : hobs) : bool :=
  match a, b with
  | OErr x, OErr y => x =? y
  | OOk x, OOk y => list_eqb nn_eqb x y
  | _, _ => false
  end.

Definition step_model (anchors : list (N * list byte)) (c : cache) (s : hstep) : hobs * cache :=
  match s with
  | HStep now inst qn qt answers keysets _ =>
      let tbl := map (fun zk => (pname (fst zk), option_map (map key_of) (snd zk))) keysets in
      (* a later table entry for the same name replaces an earlier one in the upstream: the
         harness never emits two *)
      let '(o, c') := respond csig cverify csig_id (lookup_in anchors tbl) c inst (pname qn) qt
                              (map ans_of answers) now in
      (obs_of o, c')
  end.

Fixpoint run_steps (anchors : list (N * list byte)) (c : cache) (ss : list hstep) : list hobs :=
  match ss with
  | [] => []
  | s :: ss' => let '(o, c') := step_model anchors c s in o :: run_steps anchors c' ss'
  end.

Definition step_obs (s : hstep) : hobs := match s with HStep _ _ _ _ _ _ o => o end.

Definition model_of (c : case) : list hobs :=
  match c with
  | CHist anchors steps => run_steps (map (fun a => (fst a, unpack (snd a))) anchors) [] steps
  end.

Definition check (c : case) : bool :=
  match c with
  | CHist _ steps => list_eqb hobs_eqb (model_of c) (map step_obs steps)
  end.

Definition bad (cs : list case) : list N := bad_idx check 0 cs.

(* full model output for one case (replay files) *)
Definition show (c : case) := model_of c.
