(* C06 — the two time comparisons of RrsigValidity::check against RFC 1982 / RFC 4034 3.1.5,
   and the TTL bound of RRSIG::authenticated_ttl. *)
From HV Require Import Lib.Base C06.Model.
Open Scope N_scope.

(* forward distance from a to b on the 2^32 circle *)
Definition fwd_dist (a b : N) : N := (b + two32 - a) mod two32.

Lemma fwd_dist_cases a b : a < two32 -> b < two32 ->
  fwd_dist a b = if a <=? b then b - a else b + two32 - a.
Proof.
  intros Ha Hb. unfold fwd_dist. destruct (a <=? b) eqn:E.
  - apply N.leb_le in E. replace (b + two32 - a) with (b - a + 1 * two32) by lia.
    rewrite N.mod_add by (unfold two32; lia). apply N.mod_small. lia.
  - apply N.leb_gt in E. apply N.mod_small. lia.
Qed.

Lemma fwd_dist_spec a b : a < two32 -> b < two32 ->
  (a <= b /\ fwd_dist a b = b - a) \/ (b < a /\ fwd_dist a b = b + two32 - a).
Proof.
  intros Ha Hb. rewrite fwd_dist_cases by assumption.
  destruct (a <=? b) eqn:E; [apply N.leb_le in E|apply N.leb_gt in E]; [left|right]; split; auto.
Qed.

(* turn every boolean comparison in the goal into a hypothesis *)
Ltac cmp_cases :=
  repeat match goal with
  | |- context [?a =? ?b] => let E := fresh "E" in destruct (a =? b) eqn:E; [apply N.eqb_eq in E|apply N.eqb_neq in E]
  | |- context [?a <? ?b] => let E := fresh "E" in destruct (a <? b) eqn:E; [apply N.ltb_lt in E|apply N.ltb_ge in E]
  | |- context [?a <=? ?b] => let E := fresh "E" in destruct (a <=? b) eqn:E; [apply N.leb_le in E|apply N.leb_gt in E]
  end.

Lemma serial_cmp_dist a b : a < two32 -> b < two32 ->
  serial_cmp a b =
    if a =? b then Some Eq
    else if fwd_dist a b <? two31 then Some Lt
    else if fwd_dist a b =? two31 then None else Some Gt.
Proof.
  intros Ha Hb. rewrite fwd_dist_cases by assumption.
  unfold serial_cmp, two31, two32 in *.
  destruct (a <=? b) eqn:L; [apply N.leb_le in L|apply N.leb_gt in L];
  cmp_cases; cbn; try reflexivity; exfalso; lia.
Qed.

Lemma serial_le_dist a b : a < two32 -> b < two32 ->
  serial_le a b = true <-> fwd_dist a b < two31.
Proof.
  intros Ha Hb. unfold serial_le. rewrite serial_cmp_dist by assumption.
  destruct (fwd_dist_spec a b Ha Hb) as [[Hc Hd]|[Hc Hd]]; rewrite Hd; unfold two31, two32 in *;
  cmp_cases; split; intros; try discriminate; try reflexivity; try lia.
Qed.

Lemma fwd_dist_rev a b : a < two32 -> b < two32 -> a <> b -> fwd_dist b a = two32 - fwd_dist a b.
Proof.
  intros Ha Hb Hn.
  destruct (fwd_dist_spec a b Ha Hb) as [[Hc Hd]|[Hc Hd]]; rewrite Hd;
  destruct (fwd_dist_spec b a Hb Ha) as [[Hc' Hd']|[Hc' Hd']]; rewrite Hd'; unfold two32 in *; lia.
Qed.

Lemma serial_ge_dist a b : a < two32 -> b < two32 ->
  serial_ge a b = true <-> fwd_dist b a < two31.
Proof.
  intros Ha Hb. unfold serial_ge. rewrite serial_cmp_dist by assumption.
  destruct (fwd_dist_spec a b Ha Hb) as [[Hc Hd]|[Hc Hd]]; rewrite Hd;
  destruct (fwd_dist_spec b a Hb Ha) as [[Hc' Hd']|[Hc' Hd']]; rewrite Hd'; unfold two31, two32 in *;
  cmp_cases; split; intros; try discriminate; try reflexivity; try lia.
Qed.

(* the undefined case of RFC 1982 (distance exactly 2^31) compares as neither <= nor >= *)
Lemma serial_undefined a b : a < two32 -> b < two32 -> fwd_dist a b = two31 ->
  serial_le a b = false /\ serial_ge a b = false.
Proof.
  intros Ha Hb Hd. unfold serial_le, serial_ge. rewrite serial_cmp_dist by assumption. rewrite Hd.
  assert (a <> b) as Hn. { intros ->. rewrite fwd_dist_cases in Hd by assumption. rewrite N.leb_refl in Hd. unfold two31 in Hd. lia. }
  apply N.eqb_neq in Hn. rewrite Hn. cbn. split; reflexivity.
Qed.

(* specification of the window *)
Definition in_window (now inc exp : N) : Prop := fwd_dist inc now < two31 /\ fwd_dist now exp < two31.

Lemma time_ok_window now inc exp : now < two32 -> inc < two32 -> exp < two32 ->
  time_ok now inc exp = true <-> in_window now inc exp.
Proof.
  intros Hn Hi He. unfold time_ok, in_window. rewrite andb_true_iff.
  rewrite serial_le_dist, serial_ge_dist by assumption. tauto.
Qed.

(* the same on an unbounded time line: there are integer times congruent to the three fields, in
   order, each less than 2^31 seconds from the current time *)
Open Scope Z_scope.
Definition on_timeline (now inc exp : N) : Prop :=
  exists Ti Te : Z,
    Ti <= Z.of_N now <= Te /\ Z.of_N now - Ti < 2147483648 /\ Te - Z.of_N now < 2147483648 /\
    Ti mod 4294967296 = Z.of_N inc /\ Te mod 4294967296 = Z.of_N exp.

Lemma fwd_dist_Z a b : (a < two32)%N -> (b < two32)%N ->
  Z.of_N (fwd_dist a b) = (Z.of_N b - Z.of_N a) mod 4294967296.
Proof.
  intros Ha Hb. rewrite fwd_dist_cases by assumption. unfold two32 in *.
  destruct (a <=? b)%N eqn:E; [apply N.leb_le in E|apply N.leb_gt in E].
  - rewrite Z.mod_small by lia. lia.
  - replace (Z.of_N b - Z.of_N a) with (Z.of_N b - Z.of_N a + 4294967296 + (-1) * 4294967296) by lia.
    rewrite Z.mod_add by lia. rewrite Z.mod_small by lia. lia.
Qed.

Lemma window_timeline now inc exp : (now < two32)%N -> (inc < two32)%N -> (exp < two32)%N ->
  in_window now inc exp <-> on_timeline now inc exp.
Proof.
  intros Hn Hi He. unfold in_window, on_timeline. split.
  - intros [H1 H2].
    exists (Z.of_N now - Z.of_N (fwd_dist inc now)), (Z.of_N now + Z.of_N (fwd_dist now exp)).
    unfold two31 in *. repeat split; try lia.
    + rewrite fwd_dist_Z by assumption.
      rewrite Zminus_mod_idemp_r. replace (Z.of_N now - (Z.of_N now - Z.of_N inc)) with (Z.of_N inc) by lia.
      apply Z.mod_small. unfold two32 in *. lia.
    + rewrite fwd_dist_Z by assumption.
      rewrite Zplus_mod_idemp_r. replace (Z.of_N now + (Z.of_N exp - Z.of_N now)) with (Z.of_N exp) by lia.
      apply Z.mod_small. unfold two32 in *. lia.
  - intros (Ti & Te & Ho & Hi' & He' & Hmi & Hme).
    assert (Z.of_N (fwd_dist inc now) = Z.of_N now - Ti) as D1.
    { rewrite fwd_dist_Z by assumption. rewrite <- Hmi. rewrite Zminus_mod_idemp_r.
      apply Z.mod_small. lia. }
    assert (Z.of_N (fwd_dist now exp) = Te - Z.of_N now) as D2.
    { rewrite fwd_dist_Z by assumption. rewrite <- Hme. rewrite Zminus_mod_idemp_l.
      apply Z.mod_small. lia. }
    unfold two31. lia.
Qed.
Close Scope Z_scope.

(* saturating expiration - now never exceeds the forward distance when the window test passed *)
Lemma sat_sub_le_dist now exp : now < two32 -> exp < two32 ->
  fwd_dist now exp < two31 -> exp - now <= fwd_dist now exp.
Proof.
  intros Hn He Hd.
  destruct (fwd_dist_spec now exp Hn He) as [[Hc Hd']|[Hc Hd']]; rewrite Hd' in *; unfold two31, two32 in *; lia.
Qed.
