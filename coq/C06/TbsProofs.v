(* C06 — the signed-data encoding (TBS) determines what was signed: equal signed data means
   equal RRSIG fields (signer up to case), equal derived owner name and the same canonical
   RDATAs; with an unforgeable signature primitive, tampering is rejected. *)
From HV Require Import Lib.Base C06.Model C06.TimeProofs C06.SigProofs.
From Coq Require Import Permutation.
Open Scope N_scope.

Lemma app_eq_len {A} (a b c d : list A) : length a = length b -> a ++ c = b ++ d -> a = b /\ c = d.
Proof.
  revert b. induction a as [|x a IH]; intros [|y b] L E; try discriminate; cbn in *.
  - auto.
  - injection E as -> E. destruct (IH b) as [-> ->]; auto.
Qed.

Lemma u16_eq n m : n < 65536 -> m < 65536 ->
  n / 256 mod 256 = m / 256 mod 256 -> n mod 256 = m mod 256 -> n = m.
Proof.
  intros Hn Hm H1 H2.
  rewrite (N.div_mod n 256), (N.div_mod m 256) by lia.
  assert (n / 256 < 256) by (apply N.div_lt_upper_bound; lia).
  assert (m / 256 < 256) by (apply N.div_lt_upper_bound; lia).
  rewrite (N.mod_small (n / 256)), (N.mod_small (m / 256)) in H1 by assumption. congruence.
Qed.

Lemma u32_eq n m : n < 4294967296 -> m < 4294967296 ->
  n / 16777216 mod 256 = m / 16777216 mod 256 -> n / 65536 mod 256 = m / 65536 mod 256 ->
  n / 256 mod 256 = m / 256 mod 256 -> n mod 256 = m mod 256 -> n = m.
Proof.
  intros Hn Hm H1 H2 H3 H4.
  assert (forall x, x < 4294967296 ->
            x = ((x / 16777216 mod 256 * 256 + x / 65536 mod 256) * 256 + x / 256 mod 256) * 256 + x mod 256) as D.
  { intros x Hx.
    assert (x / 16777216 < 256) by (apply N.div_lt_upper_bound; lia).
    rewrite (N.mod_small (x / 16777216)) by assumption.
    replace 16777216 with (65536 * 256) by reflexivity. rewrite <- N.div_div by lia.
    replace 65536 with (256 * 256) by reflexivity. rewrite <- N.div_div by lia.
    pose proof (N.div_mod x 256). pose proof (N.div_mod (x / 256) 256). pose proof (N.div_mod (x / 256 / 256) 256).
    lia. }
  rewrite (D n Hn), (D m Hm). congruence.
Qed.

(* ------------------------------------------------------------------ *)
(* names                                                               *)
(* ------------------------------------------------------------------ *)
Definition wf_label (l : label) : Prop := l <> [] /\ (length l <= 63)%nat.
Definition wf_name (n : name) : Prop := Forall wf_label n.

Lemma wf_lower n : wf_name n -> wf_name (lower_name n).
Proof.
  unfold wf_name, lower_name. intros H. apply Forall_map. eapply Forall_impl; [|exact H].
  intros l [H1 H2]. unfold wf_label, lower_label. rewrite map_length. split; [|exact H2].
  destruct l; [congruence|discriminate].
Qed.

Lemma wire_name_cons l n : wire_name (l :: n) = N.of_nat (length l) :: l ++ wire_name n.
Proof. unfold wire_name. cbn [map concat wire_label]. now rewrite <- app_assoc. Qed.

Lemma wire_name_inj n1 : forall n2 x y, wf_name n1 -> wf_name n2 ->
  wire_name n1 ++ x = wire_name n2 ++ y -> n1 = n2 /\ x = y.
Proof.
  induction n1 as [|l1 n1 IH]; intros [|l2 n2] x y W1 W2 E.
  - cbn in E. injection E as ->. auto.
  - rewrite wire_name_cons in E. cbn in E. injection E as E _. inversion W2 as [|? ? [Hl _] _]; subst.
    destruct l2; [congruence|discriminate].
  - rewrite wire_name_cons in E. cbn in E. injection E as E _. inversion W1 as [|? ? [Hl _] _]; subst.
    destruct l1; [congruence|discriminate].
  - rewrite !wire_name_cons in E. cbn [app] in E. injection E as E1 E2.
    apply Nat2N.inj in E1. rewrite <- !app_assoc in E2.
    destruct (app_eq_len _ _ _ _ E1 E2) as [-> E3].
    inversion W1; inversion W2; subst.
    destruct (IH n2 x y) as [-> ->]; auto.
Qed.

(* ------------------------------------------------------------------ *)
(* RRSIG RDATA prefix                                                  *)
(* ------------------------------------------------------------------ *)
Definition wf_si (si : siginput) : Prop :=
  s_tc si < 65536 /\ s_alg si < 256 /\ s_labels si < 256 /\ s_ottl si < 4294967296 /\
  s_exp si < 4294967296 /\ s_inc si < 4294967296 /\ s_tag si < 65536 /\ wf_name (s_signer si).

(* the signed fields of an RRSIG (signer name up to case) *)
Definition si_signed (si : siginput) :=
  (s_tc si, s_alg si, s_labels si, (s_ottl si, s_exp si, s_inc si), s_tag si, lower_name (s_signer si)).

Lemma sig_prefix_inj si si' x y : wf_si si -> wf_si si' ->
  sig_prefix si ++ x = sig_prefix si' ++ y -> si_signed si = si_signed si' /\ x = y.
Proof.
  intros (A1 & A2 & A3 & A4 & A5 & A6 & A7 & A8) (B1 & B2 & B3 & B4 & B5 & B6 & B7 & B8).
  unfold sig_prefix, u16be, u32be. cbn [app]. rewrite <- ?app_assoc. cbn [app].
  intros E. injection E as E1 E2 E3 E4 E5 E6 E7 E8 E9 E10 E11 E12 E13 E14 E15 E16 E17 E18 E19.
  destruct (wire_name_inj _ _ _ _ (wf_lower _ A8) (wf_lower _ B8) E19) as [En ->].
  split; [|reflexivity]. unfold si_signed.
  rewrite (u16_eq _ _ A1 B1 E1 E2), E3, E4, (u32_eq _ _ A4 B4 E5 E6 E7 E8),
          (u32_eq _ _ A5 B5 E9 E10 E11 E12), (u32_eq _ _ A6 B6 E13 E14 E15 E16),
          (u16_eq _ _ A7 B7 E17 E18), En. reflexivity.
Qed.

(* ------------------------------------------------------------------ *)
(* RR(i)                                                               *)
(* ------------------------------------------------------------------ *)
Definition wf_rd (rd : list byte) : Prop := N.of_nat (length rd) < 65536.

Lemma tbs_rr_inj nm nm' tc cl ot rd rd' x y :
  wf_name nm -> wf_name nm' -> wf_rd rd -> wf_rd rd' ->
  tbs_rr nm tc cl ot rd ++ x = tbs_rr nm' tc cl ot rd' ++ y ->
  lower_name nm = lower_name nm' /\ rd = rd' /\ x = y.
Proof.
  intros W1 W2 L1 L2. unfold tbs_rr. rewrite <- !app_assoc. intros E.
  destruct (wire_name_inj _ _ _ _ (wf_lower _ W1) (wf_lower _ W2) E) as [En E'].
  split; [exact En|].
  assert (forall a (b c : list byte), u16be a ++ b = [a / 256 mod 256; a mod 256] ++ b) as U by reflexivity.
  cbn [u16be u32be app] in E'.
  injection E' as E1 E2 E3.
  unfold wf_rd in *.
  assert (N.of_nat (length rd) = N.of_nat (length rd')) as El by (apply u16_eq; try lia; assumption).
  apply Nat2N.inj in El. destruct (app_eq_len _ _ _ _ El E3) as [-> ->]. auto.
Qed.

Lemma tbs_rr_nonempty nm tc cl ot rd : tbs_rr nm tc cl ot rd <> [].
Proof. unfold tbs_rr, wire_name. destruct (concat (map wire_label (lower_name nm))); discriminate. Qed.

Lemma rr_list_inj nm nm' tc cl ot cs : forall cs',
  wf_name nm -> wf_name nm' -> Forall wf_rd cs -> Forall wf_rd cs' ->
  concat (map (tbs_rr nm tc cl ot) cs) = concat (map (tbs_rr nm' tc cl ot) cs') ->
  cs = cs' /\ (cs <> [] -> lower_name nm = lower_name nm').
Proof.
  induction cs as [|c cs IH]; intros [|c' cs'] W1 W2 F1 F2 E.
  - split; [reflexivity|congruence].
  - cbn in E. symmetry in E. apply app_eq_nil in E. destruct E as [E _]. now apply tbs_rr_nonempty in E.
  - cbn in E. apply app_eq_nil in E. destruct E as [E _]. now apply tbs_rr_nonempty in E.
  - cbn [map concat] in E. inversion F1; inversion F2; subst.
    destruct (tbs_rr_inj _ _ _ _ _ _ _ _ _ W1 W2 H1 H5 E) as (En & -> & E').
    destruct (IH cs' W1 W2 H2 H6 E') as [-> _]. split; [reflexivity|auto].
Qed.

(* The signed data determines the signed fields, the canonical RDATAs in order, and (when
   there is a record) the owner name up to case. *)
Theorem signed_data_injective nm nm' si si' cs cs' :
  wf_si si -> wf_si si' -> wf_name nm -> wf_name nm' -> Forall wf_rd cs -> Forall wf_rd cs' ->
  signed_data_of nm si cs = signed_data_of nm' si' cs' ->
  si_signed si = si_signed si' /\ cs = cs' /\ (cs <> [] -> lower_name nm = lower_name nm').
Proof.
  intros S1 S2 W1 W2 F1 F2. unfold signed_data_of. intros E.
  destruct (sig_prefix_inj _ _ _ _ S1 S2 E) as [Es E'].
  split; [exact Es|].
  assert (s_tc si = s_tc si' /\ s_ottl si = s_ottl si') as [T O].
  { unfold si_signed in Es. injection Es. intros. auto. }
  rewrite T, O in E'. eapply rr_list_inj; eauto.
Qed.

(* two RRsets covered by the same signed data *)
Theorem covers_exactly_injective owner owner' si si' rs rs' d :
  wf_si si -> wf_si si' -> wf_name owner -> wf_name owner' ->
  Forall (fun r => wf_rd (r_canon r)) rs -> Forall (fun r => wf_rd (r_canon r)) rs' ->
  covers_exactly owner si rs d -> covers_exactly owner' si' rs' d ->
  si_signed si = si_signed si' /\
  Permutation (map r_canon rs) (map r_canon rs') /\
  (rs <> [] -> exists nm nm', determine_name owner (s_labels si) = Some nm /\
                               determine_name owner' (s_labels si') = Some nm' /\
                               lower_name nm = lower_name nm').
Proof.
  intros S1 S2 W1 W2 F1 F2 (nm & cs & D1 & P1 & E1) (nm' & cs' & D2 & P2 & E2).
  assert (forall o l n, wf_name o -> determine_name o l = Some n -> wf_name n) as Wd.
  { intros o l n Wo. unfold determine_name.
    destruct (num_labels o =? l); [intros [= <-]; exact Wo|].
    destruct (l <? num_labels o); [|discriminate]. intros [= <-].
    constructor; [split; [discriminate|cbn; lia]|].
    unfold trim_to. destruct (length o <? N.to_nat l)%nat; [exact Wo|].
    unfold wf_name in *. rewrite <- (firstn_skipn (length o - N.to_nat l) o) in Wo.
    apply Forall_app in Wo. tauto. }
  assert (forall (l : list rr) c, Forall (fun r => wf_rd (r_canon r)) l -> Permutation c (map r_canon l) -> Forall wf_rd c) as Wp.
  { intros l c Fl Pc. eapply Permutation_Forall; [symmetry; exact Pc|]. now apply Forall_map. }
  subst d.
  destruct (signed_data_injective _ _ _ _ _ _ S1 S2 (Wd _ _ _ W1 D1) (Wd _ _ _ W2 D2) (Wp _ _ F1 P1) (Wp _ _ F2 P2) E2)
    as (Es & Ec & En).
  split; [exact Es|]. subst cs'. split.
  - rewrite <- P1. exact P2.
  - intros Hne. exists nm, nm'. repeat split; auto. apply En.
    intros ->. apply Permutation_nil in P1. destruct rs; [congruence|discriminate].
Qed.

(* ------------------------------------------------------------------ *)
(* with an unforgeable signature primitive                             *)
(* ------------------------------------------------------------------ *)
Section Unforgeable.
  Variable Sg : Type.
  Variable verify : N -> list byte -> list byte -> Sg -> bool.
  (* [signed alg pk d]: the holder of the private key for (alg, pk) has signed the octets d *)
  Variable signed : N -> list byte -> list byte -> Prop.
  Hypothesis unforgeable : forall alg pk d s, verify alg pk d s = true -> signed alg pk d.

  Notation sigrr := (sigrr Sg).
  Notation verify_rrset_with_dnskey := (verify_rrset_with_dnskey Sg verify).

  (* what the presented data must satisfy to be wire data at all *)
  Definition wf_presented (sg : sigrr) (kname : name) (rs : list rr) : Prop :=
    wf_si (g_in sg) /\ wf_name kname /\ Forall (fun r => wf_rd (r_canon r)) rs.

  Theorem secure_means_signed k kproof (sg : sigrr) kname ktype rs now ttl :
    now < two32 -> wf_presented sg kname rs ->
    grouped kname ktype rs -> lower_name kname = kname ->
    verify_rrset_with_dnskey k kproof sg kname ktype rs now = VSecure ttl ->
    rs <> [] /\ exists d, signed (k_alg k) (k_pk k) d /\ covers_exactly kname (g_in sg) rs d.
  Proof.
    intros Hn ((_ & _ & _ & _ & He & Hi & _) & _) Hg Hk Hv.
    destruct (secure_implies_checks Sg verify _ _ _ _ _ _ _ _ Hn Hi He Hg Hk Hv) as (_ & _ & C).
    destruct C as [_ _ _ _ _ _ _ _ _ _ Hne (d & Hc & V)].
    split; [exact Hne|]. exists d. split; [eapply unforgeable; eauto|exact Hc].
  Qed.

  (* Tampering: if every octet string ever signed with the key is the signed data of some RRset
     of a set [genuine] (the zone's real RRsets with the RRSIG fields they were signed under),
     then a Secure verdict means the presented RRset and RRSIG fields ARE one of those: same
     signed RRSIG fields (type covered, algorithm, labels, original TTL, expiration, inception,
     key tag, signer up to case), the same canonical RDATAs, the same derived owner name. *)
  Theorem tamper_rejected (genuine : name -> siginput -> list rr -> Prop)
          k kproof (sg : sigrr) kname ktype rs now ttl :
    (forall d, signed (k_alg k) (k_pk k) d ->
       exists o si0 rs0, genuine o si0 rs0 /\ wf_si si0 /\ wf_name o /\
                         Forall (fun r => wf_rd (r_canon r)) rs0 /\ covers_exactly o si0 rs0 d) ->
    now < two32 -> wf_presented sg kname rs ->
    grouped kname ktype rs -> lower_name kname = kname ->
    verify_rrset_with_dnskey k kproof sg kname ktype rs now = VSecure ttl ->
    exists o si0 rs0, genuine o si0 rs0 /\
      si_signed (g_in sg) = si_signed si0 /\
      Permutation (map r_canon rs) (map r_canon rs0) /\
      exists nm nm', determine_name kname (s_labels (g_in sg)) = Some nm /\
                     determine_name o (s_labels si0) = Some nm' /\ lower_name nm = lower_name nm'.
  Proof.
    intros Hgen Hn Hwf Hg Hk Hv.
    destruct (secure_means_signed _ _ _ _ _ _ _ _ Hn Hwf Hg Hk Hv) as (Hne & d & Hs & Hc).
    destruct (Hgen d Hs) as (o & si0 & rs0 & G & W1 & W2 & W3 & Hc0).
    destruct Hwf as (V1 & V2 & V3).
    destruct (covers_exactly_injective _ _ _ _ _ _ _ V1 W1 V2 W2 V3 W3 Hc Hc0) as (E1 & E2 & E3).
    exists o, si0, rs0. split; [exact G|]. split; [exact E1|]. split; [exact E2|]. exact (E3 Hne).
  Qed.
End Unforgeable.
