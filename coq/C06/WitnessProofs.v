(* C06 — concrete histories on the faithful model on which the unguarded statements fail.
   Signature primitive of the witnesses: a signature IS the triple (algorithm, public key,
   message) it signs, so it verifies for nothing else. *)
From HV Require Import Lib.Base C06.Model C06.TimeProofs C06.SigProofs C06.CacheProofs C06.HistoryProofs.
From Coq Require Import Permutation.
Open Scope N_scope.

Definition tsig := (N * (N * list byte * list byte))%type.
Definition tverify (alg : N) (pk d : list byte) (s : tsig) : bool :=
  let '(_, (a, p, m)) := s in (a =? alg) && bytes_eqb p pk && bytes_eqb m d.
Definition tsig_id (s : tsig) : N := fst s.

Definition w_zone : name := [[122]].                       (* z. *)
Definition w_owner1 : name := [[97; 98]; [99]; [122]].      (* ab.c.z. *)
Definition w_owner2 : name := [[97]; [98; 99]; [122]].      (* a.bc.z. *)
Definition w_key : dnskey := {| k_name := w_zone; k_flags := 256; k_alg := 15; k_pk := [1; 2; 3; 4] |}.
Definition w_rr (o : name) (ttl : N) : rr :=
  {| r_name := o; r_class := 1; r_type := 1; r_ttl := ttl; r_sort := [10; 0; 0; 1]; r_canon := [10; 0; 0; 1] |}.
Definition w_si : siginput :=
  {| s_tc := 1; s_alg := 15; s_labels := 3; s_ottl := 300; s_exp := 1000; s_inc := 100;
     s_tag := key_tag w_key; s_signer := w_zone |}.
(* what the zone signed: the A RRset of ab.c.z. *)
Definition w_msg : list byte :=
  match tbs w_owner1 1 w_si [w_rr w_owner1 300] with Some d => d | None => [] end.
Definition w_sig (o : name) : sigrr tsig :=
  {| g_name := o; g_class := 1; g_ttl := 300; g_in := w_si; g_sig := (1, (15, [1; 2; 3; 4], w_msg)) |}.
Definition w_lookup : lookup_t := fun _ => Some [(w_key, Secure)].
Definition w_req (o : name) (ttl now inst : N) : greq tsig :=
  {| q_lookup := w_lookup; q_inst := inst; q_qname := o; q_qtype := 1; q_kname := o; q_ktype := 1;
     q_rs := [w_rr o ttl]; q_sigs := [w_sig o]; q_now := now |}.

(* validate inside the window; one second later on the cache clock the validator clock is past
   the expiration (or: the entry lives 300 s, the signature 500 s... here it has expired) *)
Definition w_hist_stale := [w_req w_owner1 3600 500 0; w_req w_owner1 3600 2000 1000].
(* validate ab.c.z.; then the same records and RRSIG under the owner a.bc.z. *)
Definition w_hist_flat := [w_req w_owner1 300 500 0; w_req w_owner2 300 500 1000].
(* validate 500 s before expiration with TTL 300; 450 s later on both clocks ... entry alive
   (received TTL 3600), 50 s of signature lifetime left, TTL 300 returned *)
Definition w_hist_ttl := [w_req w_owner1 3600 500 0; w_req w_owner1 3600 950 450000].

Lemma w_wf o ttl now inst : In o [w_owner1; w_owner2] -> now < two32 -> wf_req tsig (w_req o ttl now inst).
Proof.
  intros Ho Hn. unfold wf_req. cbn. split; [exact Hn|]. split.
  - constructor; [|constructor]. cbn. unfold two32. lia.
  - destruct Ho as [<-|[<-|[]]]; (split; [unfold grouped; constructor; [split; vm_compute; reflexivity|constructor]|vm_compute; reflexivity]).
Qed.

Lemma w_stale_run :
  run tsig tverify tsig_id [] w_hist_stale = [GOk Secure (Some 300) (Some O); GOk Secure (Some 300) (Some O)].
Proof. vm_compute. reflexivity. Qed.

Lemma w_stale_not_justified t idx :
  ~ justified_req tsig tverify (w_req w_owner1 3600 2000 1000) t idx.
Proof.
  intros (j & sg & keys & k & ttl & _ & Hn & _ & _ & _ & (_ & W & _) & _).
  destruct j as [|[|j]]; cbn in Hn; try discriminate. injection Hn as <-.
  destruct W as [_ W]. vm_compute in W. discriminate W.
Qed.

Lemma w_flat_run :
  run tsig tverify tsig_id [] w_hist_flat = [GOk Secure (Some 300) (Some O); GOk Secure (Some 300) (Some O)] /\
  fresh tsig tverify (w_req w_owner2 300 500 1000) = GErr Bogus true.
Proof. split; vm_compute; reflexivity. Qed.

Lemma w_flat_not_justified t idx :
  ~ justified_req tsig tverify (w_req w_owner2 300 500 1000) t idx.
Proof.
  intros (j & sg & keys & k & ttl & _ & Hn & _ & _ & _ & (_ & _ & [_ _ _ _ _ _ _ _ _ _ _ Hs]) & _).
  destruct j as [|[|j]]; cbn in Hn; try discriminate. injection Hn as <-.
  destruct Hs as (d & (nm & cs & D1 & P & E) & V).
  cbn in V. apply andb_true_iff in V. destruct V as [_ V]. apply bytes_eqb_eq in V. rewrite <- V in E. clear V d.
  vm_compute in D1. injection D1 as <-.
  cbn [map q_rs w_req w_rr r_canon] in P. apply Permutation_sym, Permutation_length_1_inv in P. subst cs.
  vm_compute in E. discriminate.
Qed.

Lemma w_ttl_run :
  run tsig tverify tsig_id [] w_hist_ttl = [GOk Secure (Some 300) (Some O); GOk Secure (Some 300) (Some O)] /\
  fwd_dist 950 1000 = 50.
Proof. split; vm_compute; reflexivity. Qed.
