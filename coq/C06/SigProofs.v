(* C06 — what a Secure verdict of the signature-checking functions implies. *)
From HV Require Import Lib.Base C06.Model C06.TimeProofs.
From Coq Require Import Permutation.
Open Scope N_scope.

(* ------------------------------------------------------------------ *)
(* small facts                                                         *)
(* ------------------------------------------------------------------ *)
Lemma labels_eqb_eq a b : labels_eqb a b = true <-> a = b.
Proof. apply list_eqb_eq. intros; apply bytes_eqb_eq. Qed.

Lemma name_eqb_eq a b : name_eqb a b = true <-> lower_name a = lower_name b.
Proof. apply labels_eqb_eq. Qed.

Lemma lower_byte_idem b : lower_byte (lower_byte b) = lower_byte b.
Proof.
  unfold lower_byte.
  destruct ((65 <=? b) && (b <=? 90)) eqn:E; [|now rewrite E].
  apply andb_true_iff in E. destruct E as [E1 E2]. apply N.leb_le in E1, E2.
  destruct ((65 <=? b + 32) && (b + 32 <=? 90)) eqn:F; [|reflexivity].
  apply andb_true_iff in F. destruct F as [_ F]. apply N.leb_le in F. lia.
Qed.
Lemma lower_name_idem n : lower_name (lower_name n) = lower_name n.
Proof.
  unfold lower_name, lower_label. rewrite map_map. apply map_ext. intros l.
  rewrite map_map. apply map_ext. apply lower_byte_idem.
Qed.

(* ------------------------------------------------------------------ *)
(* the signed data of exactly the presented RRset (specification)      *)
(* ------------------------------------------------------------------ *)
(* RFC 4034 3.1.8.1 for owner name [nm], RRSIG fields [si] and canonical RDATAs [cs] in the order
   given: RRSIG_RDATA | RR(1) | RR(2) ... *)
Definition signed_data_of (nm : name) (si : siginput) (cs : list (list byte)) : list byte :=
  sig_prefix si ++ concat (map (tbs_rr nm (s_tc si) 1 (s_ottl si)) cs).

(* [d] is the signed data for RRSIG fields [si] over exactly the records [rs] -- the canonical
   RDATA of every one of them, each once, in some order -- under the owner name RFC 4035 5.3.2
   derives from [owner] and the Labels field *)
Definition covers_exactly (owner : name) (si : siginput) (rs : list rr) (d : list byte) : Prop :=
  exists nm cs, determine_name owner (s_labels si) = Some nm /\
                Permutation cs (map r_canon rs) /\ d = signed_data_of nm si cs.

(* records of one RRset as RrsetMap::new groups them *)
Definition grouped (kname : name) (ktype : N) (rs : list rr) : Prop :=
  Forall (fun r => lower_name (r_name r) = kname /\ r_type r = ktype) rs.

Lemma insert_rr_perm x l : Permutation (insert_rr x l) (x :: l).
Proof.
  induction l as [|y l IH]; cbn [insert_rr]; [reflexivity|].
  destruct (rr_leb x y); [reflexivity|]. rewrite IH. apply perm_swap.
Qed.
Lemma sort_rr_perm l : Permutation (sort_rr l) l.
Proof.
  induction l as [|x l IH]; cbn [sort_rr]; [reflexivity|].
  rewrite insert_rr_perm. now constructor.
Qed.

Lemma filter_all {A} (f : A -> bool) l : Forall (fun x => f x = true) l -> filter f l = l.
Proof. induction 1 as [|x l H _ IH]; cbn; [reflexivity|]. now rewrite H, IH. Qed.

Section WithSig.
  Variable Sg : Type.
  Variable verify : N -> list byte -> list byte -> Sg -> bool.

  Notation sigrr := (sigrr Sg).
  Notation verify_rrsig := (verify_rrsig Sg verify).
  Notation validity_check := (validity_check Sg).
  Notation verify_rrset_with_dnskey := (verify_rrset_with_dnskey Sg verify).
  Notation verify_rrsig_with_keys := (verify_rrsig_with_keys Sg verify).
  Notation try_keys := (try_keys Sg verify).
  Notation default_rrset := (default_rrset Sg verify).
  Notation select_sigs := (select_sigs Sg verify).

  (* the independent statement of "this RRSIG, made with this DNSKEY, covers this RRset":
     everything that does not depend on the clock or on the status of the key *)
  Record static_checks (k : dnskey) (sg : sigrr) (kname : name) (ktype : N) (rs : list rr) : Prop := {
    c_zone_key : N.testbit (k_flags k) 8 = true;
    c_not_revoked : N.testbit (k_flags k) 7 = false;
    c_algorithm : k_alg k = s_alg (g_in sg);
    c_key_tag : key_tag k = s_tag (g_in sg);
    c_signer : lower_name (s_signer (g_in sg)) = lower_name (k_name k);
    c_owner : lower_name (g_name sg) = lower_name kname;
    c_type_covered : s_tc (g_in sg) = ktype;
    c_labels : s_labels (g_in sg) <= num_labels kname;
    c_class_rrset : Forall (fun r => r_class r = 1) rs;
    c_class_rrsig : g_class sg = 1;
    c_nonempty : rs <> [];
    c_signature : exists d, covers_exactly kname (g_in sg) rs d /\
                            verify (k_alg k) (k_pk k) d (g_sig sg) = true
  }.

  (* ... at validator time [now] with a key whose own status is [kproof] *)
  Definition sig_checks (k : dnskey) (kproof : proof) (sg : sigrr) (kname : name) (ktype : N)
             (rs : list rr) (now : N) : Prop :=
    kproof = Secure /\ in_window now (s_inc (g_in sg)) (s_exp (g_in sg)) /\
    static_checks k sg kname ktype rs.

  Lemma validity_valid sg kname ktype rs k now :
    validity_check sg kname ktype rs k now = Valid ->
    Forall (fun r => r_class r = 1) rs /\
    name_eqb (g_name sg) kname = true /\ s_tc (g_in sg) = ktype /\
    s_labels (g_in sg) <= num_labels kname /\
    time_ok now (s_inc (g_in sg)) (s_exp (g_in sg)) = true /\
    name_eqb (s_signer (g_in sg)) (k_name k) = true /\ s_alg (g_in sg) = k_alg k /\
    s_tag (g_in sg) = key_tag k /\ zone_key k = true.
  Proof.
    unfold Model.validity_check.
    destruct (existsb _ rs) eqn:E1; [discriminate|].
    destruct (name_eqb (g_name sg) kname && (s_tc (g_in sg) =? ktype) &&
              (s_labels (g_in sg) <=? num_labels kname)) eqn:E2; cbn [negb]; [|discriminate].
    destruct (time_ok now (s_inc (g_in sg)) (s_exp (g_in sg))) eqn:E3; cbn [negb]; [|discriminate].
    destruct (name_eqb (s_signer (g_in sg)) (k_name k) && (s_alg (g_in sg) =? k_alg k) &&
              (s_tag (g_in sg) =? key_tag k) && zone_key k) eqn:E4; cbn [negb]; [|discriminate].
    intros _.
    repeat (apply andb_true_iff in E2; destruct E2 as [E2 ?]).
    repeat (apply andb_true_iff in E4; destruct E4 as [E4 ?]).
    repeat match goal with H : (_ =? _) = true |- _ => apply N.eqb_eq in H
                      | H : (_ <=? _) = true |- _ => apply N.leb_le in H end.
    repeat split; auto.
    apply Forall_forall. intros r Hr.
    destruct (r_class r =? 1) eqn:C; [now apply N.eqb_eq|].
    assert (existsb (fun r => negb (r_class r =? 1)) rs = true) as X.
    { apply existsb_exists. exists r. split; [exact Hr|now rewrite C]. }
    congruence.
  Qed.

  (* under the RRSIG checks the record filter of TBS::new keeps every record of the RRset *)
  Lemma tbs_covers kname ktype si rs d :
    grouped kname ktype rs -> lower_name kname = kname ->
    Forall (fun r => r_class r = 1) rs -> s_tc si = ktype ->
    tbs kname 1 si rs = Some d -> covers_exactly kname si rs d.
  Proof.
    intros Hg Hk Hc Ht. unfold tbs.
    assert (tbs_select kname 1 si rs = rs) as ->.
    { unfold tbs_select. apply filter_all.
      unfold grouped in Hg. rewrite Forall_forall in *. intros r Hr. destruct (Hg r Hr) as [Hn Hty]. specialize (Hc r Hr).
      rewrite Hc, Ht, Hty, !N.eqb_refl. cbn [andb].
      apply name_eqb_eq. now rewrite Hn, Hk. }
    destruct (determine_name kname (s_labels si)) as [nm|] eqn:D; [|discriminate].
    destruct (existsb _ (sort_rr rs)); [discriminate|].
    intros [= <-]. exists nm, (map r_canon (sort_rr rs)). split; [exact D|].
    split; [apply Permutation_map, sort_rr_perm|].
    unfold signed_data_of. now rewrite map_map.
  Qed.

  Lemma secure_implies_checks k kproof sg kname ktype rs now ttl :
    now < two32 -> s_inc (g_in sg) < two32 -> s_exp (g_in sg) < two32 ->
    grouped kname ktype rs -> lower_name kname = kname ->
    verify_rrset_with_dnskey k kproof sg kname ktype rs now = VSecure ttl ->
    sig_checks k kproof sg kname ktype rs now.
  Proof.
    intros Hn Hi He Hg Hk. unfold Model.verify_rrset_with_dnskey.
    destruct kproof; try discriminate.
    destruct (revoke k) eqn:R; [discriminate|].
    destruct (zone_key k) eqn:Z; cbn [negb]; [|discriminate].
    destruct (k_alg k =? s_alg (g_in sg)) eqn:A; cbn [negb]; [|discriminate].
    destruct (validity_check sg kname ktype rs k now) eqn:V; try discriminate.
    destruct rs as [|first rs']; [discriminate|].
    destruct (g_class sg =? 1) eqn:C; cbn [negb]; [|discriminate].
    destruct (verify_rrsig k kname 1 sg (first :: rs')) eqn:Vf; [|discriminate].
    intros _.
    destruct (validity_valid _ _ _ _ _ _ V) as (V1 & V2 & V3 & V4 & V5 & V6 & V7 & V8 & V9).
    apply N.eqb_eq in A, C. apply name_eqb_eq in V2, V6.
    split; [reflexivity|]. split; [apply time_ok_window; assumption|].
    constructor; auto; try congruence.
    unfold Model.verify_rrsig in Vf.
      destruct (tbs kname 1 (g_in sg) (first :: rs')) as [d|] eqn:T; [|discriminate].
      exists d. split; [|exact Vf]. eapply tbs_covers; eauto.
  Qed.

  (* RFC 4035 5.3.3 as far as the code implements it *)
  Lemma secure_ttl_bound k kproof sg kname ktype rs now ttl :
    now < two32 -> s_inc (g_in sg) < two32 -> s_exp (g_in sg) < two32 ->
    verify_rrset_with_dnskey k kproof sg kname ktype rs now = VSecure ttl ->
    exists first rest, rs = first :: rest /\ ttl <= r_ttl first /\ ttl <= s_ottl (g_in sg) /\
                       ttl <= fwd_dist now (s_exp (g_in sg)).
  Proof.
    intros Hn Hi He. unfold Model.verify_rrset_with_dnskey.
    destruct kproof; try discriminate.
    destruct (revoke k); [discriminate|].
    destruct (zone_key k); cbn [negb]; [|discriminate].
    destruct (k_alg k =? s_alg (g_in sg)); cbn [negb]; [|discriminate].
    destruct (validity_check sg kname ktype rs k now) eqn:V; try discriminate.
    destruct rs as [|first rs']; [discriminate|].
    destruct (g_class sg =? 1); cbn [negb]; [|discriminate].
    destruct (verify_rrsig k kname 1 sg (first :: rs')); [|discriminate].
    intros [= <-]. exists first, rs'. split; [reflexivity|].
    destruct (validity_valid _ _ _ _ _ _ V) as (_ & _ & _ & _ & V5 & _).
    apply time_ok_window in V5; try assumption. destruct V5 as [_ W].
    pose proof (sat_sub_le_dist now (s_exp (g_in sg)) Hn He W).
    unfold Model.auth_ttl. lia.
  Qed.

  (* ---------------------------------------------------------------- *)
  (* verify_rrsig_with_keys / verify_default_rrset                     *)
  (* ---------------------------------------------------------------- *)
  Lemma cap_keys_incl seen ks x : In x (cap_keys seen ks) -> In x ks.
  Proof.
    revert seen. induction ks as [|[k p] ks IH]; intros seen; cbn [cap_keys]; [tauto|].
    destruct (2 <=? tag_count (key_tag k) seen)%nat; cbn [In]; intros H.
    - right. eapply IH; eauto.
    - destruct H as [H|H]; [now left|right; eapply IH; eauto].
  Qed.

  Lemma try_keys_secure ks ai sg kname ktype rs now t :
    try_keys ks ai sg kname ktype rs now = Some (Secure, t) ->
    exists k ttl, In (k, Secure) ks /\ t = Some ttl /\
                  verify_rrset_with_dnskey k Secure sg kname ktype rs now = VSecure ttl.
  Proof.
    revert ai. induction ks as [|[k p] ks IH]; intros ai; cbn [Model.try_keys].
    - destruct ai as [[|]|]; discriminate.
    - destruct p.
      + destruct (verify_rrset_with_dnskey k Secure sg kname ktype rs now) eqn:V.
        * intros [= <-]. exists k, ttl. split; [now left|]. split; [reflexivity|exact V].
        * discriminate.
        * intros H. destruct (IH _ H) as (k' & ttl & Hin & Ht & Hv). exists k', ttl. split; [now right|auto].
      + intros H. destruct (IH _ H) as (k' & ttl & Hin & Ht & Hv). exists k', ttl. split; [now right|auto].
      + intros H. destruct (IH _ H) as (k' & ttl & Hin & Ht & Hv). exists k', ttl. split; [now right|auto].
      + intros H. destruct (IH _ H) as (k' & ttl & Hin & Ht & Hv). exists k', ttl. split; [now right|auto].
  Qed.

  Lemma with_keys_secure keys sg kname ktype rs now t :
    verify_rrsig_with_keys keys sg kname ktype rs now = Some (Secure, t) ->
    exists k ttl, In (k, Secure) keys /\ t = Some ttl /\
                  verify_rrset_with_dnskey k Secure sg kname ktype rs now = VSecure ttl.
  Proof.
    unfold Model.verify_rrsig_with_keys.
    destruct (((ktype =? 47) || (ktype =? 50)) && negb (num_labels kname =? s_labels (g_in sg))); [discriminate|].
    intros H. destruct (try_keys_secure _ _ _ _ _ _ _ _ H) as (k & ttl & Hin & Ht & Hv).
    exists k, ttl. split; [eapply cap_keys_incl; eauto|auto].
  Qed.

  Lemma select_sigs_secure lookup qname qtype i sigs kname ktype rs now any t idx :
    select_sigs lookup qname qtype i sigs kname ktype rs now any = GOk Secure t idx ->
    exists j sg keys, idx = Some (i + j)%nat /\ nth_error sigs j = Some sg /\
                      lookup (s_signer (g_in sg)) = Some keys /\
                      verify_rrsig_with_keys keys sg kname ktype rs now = Some (Secure, t).
  Proof.
    revert i any. induction sigs as [|sg sigs IH]; intros i any; cbn [Model.select_sigs].
    - destruct any; discriminate.
    - assert (forall any', select_sigs lookup qname qtype (S i) sigs kname ktype rs now any' = GOk Secure t idx ->
                exists j sg' keys, idx = Some (i + j)%nat /\ nth_error (sg :: sigs) j = Some sg' /\
                      lookup (s_signer (g_in sg')) = Some keys /\
                      verify_rrsig_with_keys keys sg' kname ktype rs now = Some (Secure, t)) as Next.
      { intros any' H. destruct (IH _ _ H) as (j & sg' & keys & Hi & Hn & Hl & Hv).
        exists (S j), sg', keys. split; [rewrite Hi; f_equal; lia|]. split; [exact Hn|auto]. }
      destruct (8 <? i)%nat; [apply Next|].
      destruct (negb (zone_of (s_signer (g_in sg)) kname)); [apply Next|].
      destruct (name_eqb (s_signer (g_in sg)) qname && (qtype =? 48)); [apply Next|].
      destruct (lookup (s_signer (g_in sg))) as [keys|] eqn:L; [|apply Next].
      destruct (verify_rrsig_with_keys keys sg kname ktype rs now) as [[p t']|] eqn:V; [|discriminate].
      intros [= -> -> <-]. exists O, sg, keys. split; [f_equal; lia|]. split; [reflexivity|auto].
  Qed.

  (* an Err verdict is never Secure *)
  Lemma select_sigs_err lookup qname qtype sigs : forall i kname ktype rs now any p c,
    select_sigs lookup qname qtype i sigs kname ktype rs now any = GErr p c -> p = Bogus.
  Proof.
    induction sigs as [|sg sigs IH]; intros i kname ktype rs now any p c; cbn [Model.select_sigs].
    - destruct any; intros [= <- _]; reflexivity.
    - destruct (8 <? i)%nat; [apply IH|].
      destruct (negb (zone_of (s_signer (g_in sg)) kname)); [apply IH|].
      destruct (name_eqb (s_signer (g_in sg)) qname && (qtype =? 48)); [apply IH|].
      destruct (lookup (s_signer (g_in sg))) as [keys|]; [|apply IH].
      destruct (verify_rrsig_with_keys keys sg kname ktype rs now) as [[p' t']|]; [discriminate|].
      intros [= <- _]. reflexivity.
  Qed.
  Lemma default_rrset_err lookup qname qtype kname ktype rs sigs now p c :
    default_rrset lookup qname qtype kname ktype rs sigs now = GErr p c -> p = Bogus.
  Proof.
    unfold Model.default_rrset. destruct sigs; [intros [= <- _]; reflexivity|apply select_sigs_err].
  Qed.

  (* since fix 6b7ad4d: the RRSIG behind a Secure verdict names the RRset owner or an ancestor of it *)
  Lemma select_sigs_secure_zone lookup qname qtype i sigs kname ktype rs now any t idx :
    select_sigs lookup qname qtype i sigs kname ktype rs now any = GOk Secure t idx ->
    exists j sg, idx = Some (i + j)%nat /\ nth_error sigs j = Some sg /\
                 zone_of (s_signer (g_in sg)) kname = true.
  Proof.
    revert i any. induction sigs as [|sg sigs IH]; intros i any; cbn [Model.select_sigs].
    - destruct any; discriminate.
    - assert (forall any', select_sigs lookup qname qtype (S i) sigs kname ktype rs now any' = GOk Secure t idx ->
                exists j sg', idx = Some (i + j)%nat /\ nth_error (sg :: sigs) j = Some sg' /\
                      zone_of (s_signer (g_in sg')) kname = true) as Next.
      { intros any' H. destruct (IH _ _ H) as (j & sg' & Hi & Hn & Hz).
        exists (S j), sg'. split; [rewrite Hi; f_equal; lia|]. split; [exact Hn|exact Hz]. }
      destruct (8 <? i)%nat; [apply Next|].
      destruct (zone_of (s_signer (g_in sg)) kname) eqn:Z; cbn [negb]; [|apply Next].
      destruct (name_eqb (s_signer (g_in sg)) qname && (qtype =? 48)); [apply Next|].
      destruct (lookup (s_signer (g_in sg))) as [keys|] eqn:L; [|apply Next].
      destruct (verify_rrsig_with_keys keys sg kname ktype rs now) as [[p t']|] eqn:V; [|discriminate].
      intros [= -> -> <-]. exists O, sg. split; [f_equal; lia|]. split; [reflexivity|exact Z].
  Qed.
  Lemma default_rrset_secure_zone lookup qname qtype kname ktype rs sigs now t idx :
    default_rrset lookup qname qtype kname ktype rs sigs now = GOk Secure t idx ->
    exists j sg, idx = Some j /\ nth_error sigs j = Some sg /\ zone_of (s_signer (g_in sg)) kname = true.
  Proof.
    unfold Model.default_rrset. destruct sigs as [|s0 sigs]; [discriminate|].
    intros H. destruct (select_sigs_secure_zone _ _ _ _ _ _ _ _ _ _ _ _ H) as (j & sg & Hi & R).
    exists j, sg. split; [exact Hi|exact R].
  Qed.

  Lemma default_rrset_secure lookup qname qtype kname ktype rs sigs now t idx :
    default_rrset lookup qname qtype kname ktype rs sigs now = GOk Secure t idx ->
    exists j sg keys, idx = Some j /\ nth_error sigs j = Some sg /\
                      lookup (s_signer (g_in sg)) = Some keys /\
                      verify_rrsig_with_keys keys sg kname ktype rs now = Some (Secure, t).
  Proof.
    unfold Model.default_rrset. destruct sigs as [|s0 sigs]; [discriminate|].
    intros H. destruct (select_sigs_secure _ _ _ _ _ _ _ _ _ _ _ _ H) as (j & sg & keys & Hi & R).
    exists j, sg, keys. split; [exact Hi|exact R].
  Qed.

  Lemma rrset_verdict_secure lookup qname qtype kname ktype rs sigs now t idx :
    rrset_verdict Sg verify lookup qname qtype kname ktype rs sigs now = GOk Secure t idx ->
    default_rrset lookup qname qtype kname ktype rs sigs now = GOk Secure t idx.
  Proof.
    unfold Model.rrset_verdict.
    destruct ((ktype =? 48) && match rs with [] => true | _ :: _ => false end); [discriminate|auto].
  Qed.
  Lemma rrset_verdict_err lookup qname qtype kname ktype rs sigs now p c :
    rrset_verdict Sg verify lookup qname qtype kname ktype rs sigs now = GErr p c -> p = Bogus.
  Proof.
    unfold Model.rrset_verdict.
    destruct ((ktype =? 48) && match rs with [] => true | _ :: _ => false end);
      [intros [= <- _]; reflexivity|apply default_rrset_err].
  Qed.

  (* a fresh Secure verdict for an RRset: some RRSIG of the RRset, some DNSKEY (itself Secure) of
     the validated DNSKEY answer for the RRSIG's signer name, all checks, TTL bound *)
  Definition justified (lookup : lookup_t) (kname : name) (ktype : N) (rs : list rr)
             (sigs : list sigrr) (now : N) (t : option N) (idx : option nat) : Prop :=
    exists j sg keys k ttl,
      idx = Some j /\ nth_error sigs j = Some sg /\ t = Some ttl /\
      lookup (s_signer (g_in sg)) = Some keys /\ In (k, Secure) keys /\
      sig_checks k Secure sg kname ktype rs now /\
      (exists first rest, rs = first :: rest /\ ttl <= r_ttl first) /\
      ttl <= s_ottl (g_in sg) /\ ttl <= fwd_dist now (s_exp (g_in sg)).

  Definition times_ok (sigs : list sigrr) : Prop :=
    Forall (fun sg => s_inc (g_in sg) < two32 /\ s_exp (g_in sg) < two32) sigs.

  Lemma default_rrset_justified lookup qname qtype kname ktype rs sigs now t idx :
    now < two32 -> times_ok sigs -> grouped kname ktype rs -> lower_name kname = kname ->
    default_rrset lookup qname qtype kname ktype rs sigs now = GOk Secure t idx ->
    justified lookup kname ktype rs sigs now t idx.
  Proof.
    intros Hn Ht Hg Hk H.
    destruct (default_rrset_secure _ _ _ _ _ _ _ _ _ _ H) as (j & sg & keys & Hi & Hnth & Hl & Hv).
    destruct (with_keys_secure _ _ _ _ _ _ _ Hv) as (k & ttl & Hin & Htt & Hs).
    assert (s_inc (g_in sg) < two32 /\ s_exp (g_in sg) < two32) as [Hinc Hexp].
    { unfold times_ok in Ht. rewrite Forall_forall in Ht. apply Ht. eapply nth_error_In; eauto. }
    destruct (secure_ttl_bound _ _ _ _ _ _ _ _ Hn Hinc Hexp Hs) as (f & r & E & B1 & B2 & B3).
    exists j, sg, keys, k, ttl.
    split; [exact Hi|]. split; [exact Hnth|]. split; [exact Htt|]. split; [exact Hl|].
    split; [exact Hin|]. split; [eapply secure_implies_checks; eauto|].
    split; [exists f, r; auto|]. split; [exact B2|exact B3].
  Qed.
End WithSig.
