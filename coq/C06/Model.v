(* C06 — executable model of RRSIG checking in the hickory-dns validator.

   Modelled Rust (pinned /repo):
     crates/proto/src/rr/serial_number.rs       SerialNumber::partial_cmp            -> serial_cmp/le/ge
     crates/proto/src/dnssec/rdata/dnskey.rs    zone_key, revoke, calculate_key_tag  -> zone_key, revoke, key_tag
     crates/proto/src/dnssec/tbs.rs             TBS::new, determine_name             -> tbs, determine_name
     crates/proto/src/dnssec/verifier.rs        Verifier::verify_rrsig               -> verify_rrsig
     crates/proto/src/dnssec/rdata/rrsig.rs     RRSIG::authenticated_ttl             -> auth_ttl
     crates/net/src/dnssec/mod.rs               RrsigValidity::check                 -> validity_check
                                                verify_rrset_with_dnskey             -> verify_rrset_with_dnskey
                                                verify_rrsig_with_keys               -> verify_rrsig_with_keys
                                                verify_default_rrset (+ select_ok)   -> default_rrset
                                                verify_dnskey_rrset, no-record case  -> rrset_verdict
                                                RrsetMap::new, verify_rrsets,
                                                VerifiedRrset::update_rrset,
                                                wildcard gate of verify_response     -> respond
                                                ValidationCache::{get,insert},
                                                RrsetVerificationContext::key        -> cache_get/cache_insert/cache_key
   The signature primitive is a parameter ([verify]); data are N, names are label lists.
   No proofs in this file. *)
From HV Require Import Lib.Base.
Open Scope N_scope.

Definition two31 : N := 2147483648.
Definition two32 : N := 4294967296.

(* ------------------------------------------------------------------ *)
(* RFC 1982 comparison exactly as SerialNumber::partial_cmp            *)
(* ------------------------------------------------------------------ *)
Definition serial_cmp (i1 i2 : N) : option comparison :=
  if i1 =? i2 then Some Eq
  else if ((i1 <? i2) && (i2 - i1 <? two31)) || ((i2 <? i1) && (two31 <? i1 - i2)) then Some Lt
  else if ((i1 <? i2) && (two31 <? i2 - i1)) || ((i2 <? i1) && (i1 - i2 <? two31)) then Some Gt
  else None.

(* `a <= b` / `a >= b` on a PartialOrd type *)
Definition serial_le (a b : N) : bool :=
  match serial_cmp a b with Some Lt | Some Eq => true | _ => false end.
Definition serial_ge (a b : N) : bool :=
  match serial_cmp a b with Some Gt | Some Eq => true | _ => false end.

(* the two tests of RrsigValidity::check; [now] is already `as u32` *)
Definition time_ok (now inc exp : N) : bool := serial_le now exp && serial_ge now inc.

(* ------------------------------------------------------------------ *)
(* Names                                                               *)
(* ------------------------------------------------------------------ *)
Definition label := list byte.
Definition name := list label.

Definition lower_byte (b : byte) : byte := if (65 <=? b) && (b <=? 90) then b + 32 else b.
Definition lower_label (l : label) : label := map lower_byte l.
Definition lower_name (n : name) : name := map lower_label n.
Definition labels_eqb : name -> name -> bool := list_eqb bytes_eqb.
(* Name == Name (all names here are fully qualified): case-insensitive *)
Definition name_eqb (a b : name) : bool := labels_eqb (lower_name a) (lower_name b).

Definition star : label := [42].
Definition is_star (l : label) : bool := bytes_eqb l star.

(* Name::zone_of: [z] is [n] or an ancestor of [n] (labels compared ignoring ASCII case) *)
Definition zone_of (z n : name) : bool :=
  (length z <=? length n)%nat && name_eqb z (skipn (length n - length z) n).

(* Name::num_labels: a leading "*" label is not counted *)
Definition num_labels (n : name) : N :=
  match n with
  | l :: _ => if is_star l then N.of_nat (length n) - 1 else N.of_nat (length n)
  | [] => 0
  end.

(* Name::trim_to *)
Definition trim_to (k : nat) (n : name) : name :=
  if (length n <? k)%nat then n else skipn (length n - k) n.

(* tbs.rs determine_name *)
Definition determine_name (n : name) (labels : N) : option name :=
  let fq := num_labels n in
  if fq =? labels then Some n
  else if labels <? fq then Some (star :: trim_to (N.to_nat labels) n)
  else None.

Definition wire_label (l : label) : list byte := N.of_nat (length l) :: l.
Definition wire_name (n : name) : list byte := concat (map wire_label n) ++ [0].

(* the bytes Name::hash / LowerName::hash feed to the hasher: lower-cased label bytes with NO
   label boundaries *)
Definition flat_name (n : name) : list byte := concat (lower_name n).

(* ------------------------------------------------------------------ *)
(* Records                                                             *)
(* ------------------------------------------------------------------ *)
(* a non-RRSIG record.  r_sort = RData::to_bytes() (the Ord key), r_canon = RDATA in DNSSEC
   canonical form (what TBS emits); equal for types without embedded names *)
Record rr := { r_name : name; r_class : N; r_type : N; r_ttl : N;
               r_sort : list byte; r_canon : list byte }.

Record siginput := { s_tc : N; s_alg : N; s_labels : N; s_ottl : N; s_exp : N; s_inc : N;
                     s_tag : N; s_signer : name }.

Record dnskey := { k_name : name; k_flags : N; k_alg : N; k_pk : list byte }.

Inductive proof := Secure | Insecure | Bogus | Indeterminate.
Definition proof_eqb (a b : proof) : bool :=
  match a, b with
  | Secure, Secure | Insecure, Insecure | Bogus, Bogus | Indeterminate, Indeterminate => true
  | _, _ => false
  end.

Definition u16be (n : N) : list byte := [n / 256 mod 256; n mod 256].
Definition u32be (n : N) : list byte :=
  [n / 16777216 mod 256; n / 65536 mod 256; n / 256 mod 256; n mod 256].

(* DNSKEY flags *)
Definition zone_key (k : dnskey) : bool := N.testbit (k_flags k) 8.
Definition revoke (k : dnskey) : bool := N.testbit (k_flags k) 7.

(* DNSKEY RDATA as emitted (protocol is always written as 3) and calculate_key_tag *)
Definition dnskey_rdata (k : dnskey) : list byte := u16be (k_flags k) ++ [3; k_alg k] ++ k_pk k.
Fixpoint tag_sum (even : bool) (l : list byte) : N :=
  match l with
  | [] => 0
  | b :: l' => (if even then b * 256 else b) + tag_sum (negb even) l'
  end.
Definition key_tag (k : dnskey) : N :=
  let ac := tag_sum true (dnskey_rdata k) in (ac + ac / 65536) mod 65536.

(* lexicographic order on byte strings (Vec<u8>::cmp) *)
Fixpoint bytes_leb (a b : list byte) : bool :=
  match a, b with
  | [], _ => true
  | _ :: _, [] => false
  | x :: a', y :: b' => if x <? y then true else if y <? x then false else bytes_leb a' b'
  end.

(* Record::cmp among records of one owner/type/class: received TTL first, then to_bytes() *)
Definition rr_leb (a b : rr) : bool :=
  if r_ttl a <? r_ttl b then true
  else if r_ttl b <? r_ttl a then false
  else bytes_leb (r_sort a) (r_sort b).

Fixpoint insert_rr (x : rr) (l : list rr) : list rr :=
  match l with
  | [] => [x]
  | y :: l' => if rr_leb x y then x :: l else y :: insert_rr x l'
  end.
(* stable sort (slice::sort is stable) *)
Fixpoint sort_rr (l : list rr) : list rr :=
  match l with [] => [] | x :: l' => insert_rr x (sort_rr l') end.

(* RRSIG RDATA without the signature, signer name in canonical form *)
Definition sig_prefix (si : siginput) : list byte :=
  u16be (s_tc si) ++ [s_alg si; s_labels si] ++ u32be (s_ottl si) ++ u32be (s_exp si) ++
  u32be (s_inc si) ++ u16be (s_tag si) ++ wire_name (lower_name (s_signer si)).

(* RR(i) = name | type | class | OrigTTL | RDATA length | RDATA *)
Definition tbs_rr (nm : name) (tc class ottl : N) (rd : list byte) : list byte :=
  wire_name (lower_name nm) ++ u16be tc ++ u16be class ++ u32be ottl ++
  u16be (N.of_nat (length rd)) ++ rd.

Definition tbs_select (owner : name) (class : N) (si : siginput) (rs : list rr) : list rr :=
  filter (fun r => (class =? r_class r) && (s_tc si =? r_type r) && name_eqb owner (r_name r)) rs.

(* TBS::new; None = Err (labels above the owner's label count, RDATA longer than u16) *)
Definition tbs (owner : name) (class : N) (si : siginput) (rs : list rr) : option (list byte) :=
  let sorted := sort_rr (tbs_select owner class si rs) in
  match determine_name owner (s_labels si) with
  | None => None
  | Some nm =>
      if existsb (fun r => 65535 <? N.of_nat (length (r_canon r))) sorted then None
      else Some (sig_prefix si ++
                 concat (map (fun r => tbs_rr nm (s_tc si) class (s_ottl si) (r_canon r)) sorted))
  end.

Inductive validity := Expired | Valid | WrongDnskey | WrongRrsig.
Inductive vres := VSecure (ttl : N) | VBogusEmpty | VErr (p : proof).
(* result for one RRset: Ok(RrsetProof{proof, adjusted_ttl, rrsig_index}) or Err(proof);
   [cached] = the error is not ProofErrorKind::Net *)
Inductive gres :=
| GOk (p : proof) (ttl : option N) (idx : option nat)
| GErr (p : proof) (cached : bool).

Section WithSig.
  (* the signature primitive: [verify alg public_key message signature] *)
  Variable Sg : Type.
  Variable verify : N -> list byte -> list byte -> Sg -> bool.

  Record sigrr := { g_name : name; g_class : N; g_ttl : N; g_in : siginput; g_sig : Sg }.

  (* Verifier::verify_rrsig *)
  Definition verify_rrsig (k : dnskey) (owner : name) (class : N) (sg : sigrr) (rs : list rr) : bool :=
    match tbs owner class (g_in sg) rs with
    | None => false
    | Some d => verify (k_alg k) (k_pk k) d (g_sig sg)
    end.

  (* RRSIG::authenticated_ttl: plain saturating_sub on the expiration *)
  Definition auth_ttl (sg : sigrr) (first : rr) (now : N) : N :=
    N.min (N.min (r_ttl first) (s_ottl (g_in sg))) (s_exp (g_in sg) - now).

  (* RrsigValidity::check; [kname]/[ktype] = RrKey (lower-cased owner, type) *)
  Definition validity_check (sg : sigrr) (kname : name) (ktype : N) (rs : list rr) (k : dnskey)
             (now : N) : validity :=
    let si := g_in sg in
    if existsb (fun r => negb (r_class r =? 1)) rs then WrongRrsig
    else if negb (name_eqb (g_name sg) kname && (s_tc si =? ktype) && (s_labels si <=? num_labels kname))
    then WrongRrsig
    else if negb (time_ok now (s_inc si) (s_exp si)) then Expired
    else if negb (name_eqb (s_signer si) (k_name k) && (s_alg si =? k_alg k) &&
                  (s_tag si =? key_tag k) && zone_key k)
    then WrongDnskey
    else Valid.

  Definition verify_rrset_with_dnskey (k : dnskey) (kproof : proof) (sg : sigrr) (kname : name)
             (ktype : N) (rs : list rr) (now : N) : vres :=
    match kproof with
    | Secure =>
        if revoke k then VErr Bogus
        else if negb (zone_key k) then VErr Bogus
        else if negb (k_alg k =? s_alg (g_in sg)) then VErr Bogus
        else match validity_check sg kname ktype rs k now with
             | Valid =>
                 match rs with
                 | [] => VBogusEmpty
                 | first :: _ =>
                     if negb (g_class sg =? 1) then VErr Bogus
                     else if verify_rrsig k kname 1 sg rs then VSecure (auth_ttl sg first now)
                     else VErr Bogus
                 end
             | _ => VErr Bogus
             end
    | p => VErr p
    end.

  (* MAX_KEY_TAG_COLLISIONS = 2: the third and later keys with one tag are skipped *)
  Fixpoint tag_count (t : N) (seen : list N) : nat :=
    match seen with [] => O | x :: s' => ((if N.eqb x t then 1 else 0) + tag_count t s')%nat end.
  Fixpoint cap_keys (seen : list N) (ks : list (dnskey * proof)) : list (dnskey * proof) :=
    match ks with
    | [] => []
    | (k, p) :: ks' =>
        let t := key_tag k in
        if (2 <=? tag_count t seen)%nat then cap_keys (t :: seen) ks'
        else (k, p) :: cap_keys (t :: seen) ks'
    end.

  Fixpoint try_keys (ks : list (dnskey * proof)) (all_insecure : option bool) (sg : sigrr)
           (kname : name) (ktype : N) (rs : list rr) (now : N) : option (proof * option N) :=
    match ks with
    | [] => match all_insecure with Some true => Some (Insecure, None) | _ => None end
    | (k, p) :: ks' =>
        match p with
        | Secure =>
            match verify_rrset_with_dnskey k p sg kname ktype rs now with
            | VSecure t => Some (Secure, Some t)
            | VBogusEmpty => Some (Bogus, None)
            | VErr _ => try_keys ks' (Some false) sg kname ktype rs now
            end
        | Insecure =>
            try_keys ks' (match all_insecure with None => Some true | x => x end) sg kname ktype rs now
        | _ => try_keys ks' (Some false) sg kname ktype rs now
        end
    end.

  (* NSEC = 47, NSEC3 = 50 *)
  Definition verify_rrsig_with_keys (keys : list (dnskey * proof)) (sg : sigrr) (kname : name)
             (ktype : N) (rs : list rr) (now : N) : option (proof * option N) :=
    if ((ktype =? 47) || (ktype =? 50)) && negb (num_labels kname =? s_labels (g_in sg)) then None
    else try_keys (cap_keys [] keys) None sg kname ktype rs now.

  (* verify_default_rrset for a non-DNSKEY RRset.  [lookup signer] = validated DNSKEY answer for
     the signer name (None: the lookup failed).  MAX_RRSIGS_PER_RRSET = 8 (index > 8 skipped);
     48 = DNSKEY (cycle break).  All lookups are ready at once, so select_ok returns the first
     Ok in list order -- including an Ok(None). *)
  Definition lookup_t := name -> option (list (dnskey * proof)).

  Fixpoint select_sigs (lookup : lookup_t) (qname : name) (qtype : N) (i : nat) (sigs : list sigrr)
           (kname : name) (ktype : N) (rs : list rr) (now : N) (any : bool) : gres :=
    match sigs with
    | [] => if any then GErr Bogus false (* every lookup failed: ProofErrorKind::Net *)
            else GErr Bogus true         (* RrsigsNotPresent *)
    | sg :: sigs' =>
        if (8 <? i)%nat then select_sigs lookup qname qtype (S i) sigs' kname ktype rs now any
        (* since fix 6b7ad4d: an RRSIG whose signer name is not the RRset owner or an ancestor of it
           is skipped before any lookup (RFC 4035 5.3.1) *)
        else if negb (zone_of (s_signer (g_in sg)) kname)
        then select_sigs lookup qname qtype (S i) sigs' kname ktype rs now any
        else if name_eqb (s_signer (g_in sg)) qname && (qtype =? 48)
        then select_sigs lookup qname qtype (S i) sigs' kname ktype rs now any
        else match lookup (s_signer (g_in sg)) with
             | None => select_sigs lookup qname qtype (S i) sigs' kname ktype rs now true
             | Some keys =>
                 match verify_rrsig_with_keys keys sg kname ktype rs now with
                 | Some (p, t) => GOk p t (Some i)
                 | None => GErr Bogus true   (* RrsigsUnverified *)
                 end
             end
    end.

  (* [nosig] = what the DS search of an unsigned RRset ends in (here always an error) *)
  Definition default_rrset (lookup : lookup_t) (qname : name) (qtype : N) (kname : name) (ktype : N)
             (rs : list rr) (sigs : list sigrr) (now : N) : gres :=
    match sigs with
    | [] => GErr Bogus false
    | _ => select_sigs lookup qname qtype O sigs kname ktype rs now false
    end.

  (* verify_rrsets dispatch.  An RRset key of type DNSKEY (48) goes to verify_dnskey_rrset; the one
     case of it these responses reach is RRSIGs covering DNSKEY with no DNSKEY record under that
     owner: no key, hence no DS lookup and no RRSIG that can verify, and (since fix fed49c5: the
     "all keys secure" shortcut needs at least one key) Err(Bogus, DnskeyNotFound).  DNSKEY RRsets
     with records inside the answer section of another query are outside this model. *)
  Definition rrset_verdict (lookup : lookup_t) (qname : name) (qtype : N) (kname : name) (ktype : N)
             (rs : list rr) (sigs : list sigrr) (now : N) : gres :=
    if (ktype =? 48) && match rs with [] => true | _ :: _ => false end then GErr Bogus true
    else default_rrset lookup qname qtype kname ktype rs sigs now.

  (* ---------------------------------------------------------------- *)
  (* Validation cache                                                  *)
  (* ---------------------------------------------------------------- *)
  (* What RrsetVerificationContext::key feeds the hasher, up to injective re-encoding of the
     fixed-width parts: names enter only through [flat_name] (no label boundaries, lower-cased),
     record TTLs do not enter at all.  [sig_id] identifies the signature bytes. *)
  Variable sig_id : Sg -> N.

  Definition rr_feed (r : rr) := (flat_name (r_name r), r_class r, r_type r, r_canon r).
  Definition si_feed (si : siginput) :=
    (s_tc si, s_alg si, s_labels si, (s_ottl si, s_exp si, s_inc si), s_tag si, flat_name (s_signer si)).
  Definition sg_feed (sg : sigrr) := (flat_name (g_name sg), g_class sg, si_feed (g_in sg), sig_id (g_sig sg)).
  Definition ckey := (list byte * N * (list byte * N) *
                      list (list byte * N * N * list byte) *
                      list (list byte * N * (N * N * N * (N * N * N) * N * list byte) * N))%type.
  Definition cache_key (qname : name) (qtype : N) (kname : name) (ktype : N) (rs : list rr)
             (sigs : list sigrr) : ckey :=
    (flat_name qname, qtype, (flat_name kname, ktype), map rr_feed rs, map sg_feed sigs).

  Definition rrf_eqb (a b : list byte * N * N * list byte) : bool :=
    let '(n1, c1, t1, d1) := a in let '(n2, c2, t2, d2) := b in
    bytes_eqb n1 n2 && (c1 =? c2) && (t1 =? t2) && bytes_eqb d1 d2.
  Definition sif_eqb (a b : N * N * N * (N * N * N) * N * list byte) : bool :=
    let '(a1, a2, a3, (a4, a5, a6), a7, a8) := a in let '(b1, b2, b3, (b4, b5, b6), b7, b8) := b in
    (a1 =? b1) && (a2 =? b2) && (a3 =? b3) && (a4 =? b4) && (a5 =? b5) && (a6 =? b6) && (a7 =? b7) &&
    bytes_eqb a8 b8.
  Definition sgf_eqb (a b : list byte * N * (N * N * N * (N * N * N) * N * list byte) * N) : bool :=
    let '(n1, c1, i1, s1) := a in let '(n2, c2, i2, s2) := b in
    bytes_eqb n1 n2 && (c1 =? c2) && sif_eqb i1 i2 && (s1 =? s2).
  Definition ckey_eqb (a b : ckey) : bool :=
    let '(q1, t1, (k1, y1), r1, g1) := a in let '(q2, t2, (k2, y2), r2, g2) := b in
    bytes_eqb q1 q2 && (t1 =? t2) && bytes_eqb k1 k2 && (y1 =? y2) &&
    list_eqb rrf_eqb r1 r2 && list_eqb sgf_eqb g1 g2.

  (* entries: key, expiry on the cache clock (milliseconds of Instant), verdict *)
  Definition cache := list (ckey * N * gres).

  Fixpoint cache_find (c : cache) (k : ckey) : option (N * gres) :=
    match c with
    | [] => None
    | (k', e, v) :: c' => if ckey_eqb k' k then Some (e, v) else cache_find c' k
    end.
  (* ValidationCache::get: `Instant::now() < ttl` *)
  Definition cache_get (c : cache) (k : ckey) (inst : N) : option gres :=
    match cache_find c k with
    | Some (e, v) => if inst <? e then Some v else None
    | None => None
    end.
  (* ValidationCache::insert without configured bounds: lifetime = received TTL of the first
     record; nothing is stored for an empty RRset; an existing entry is replaced *)
  Definition cache_insert (c : cache) (k : ckey) (rs : list rr) (inst : N) (v : gres) : cache :=
    match rs with
    | [] => c
    | first :: _ => (k, inst + 1000 * r_ttl first, v) :: filter (fun e => negb (ckey_eqb (fst (fst e)) k)) c
    end.

  (* verify_rrsets for one RRset: cached verdict, or verify and cache (Net errors are not cached) *)
  Definition validate_group (lookup : lookup_t) (c : cache) (inst : N) (qname : name) (qtype : N)
             (kname : name) (ktype : N) (rs : list rr) (sigs : list sigrr) (now : N) : gres * cache :=
    let key := cache_key qname qtype kname ktype rs sigs in
    match cache_get c key inst with
    | Some v => (v, c)
    | None =>
        let v := rrset_verdict lookup qname qtype kname ktype rs sigs now in
        match v with
        | GErr _ false => (v, c)
        | _ => (v, cache_insert c key rs inst v)
        end
    end.

  (* ---------------------------------------------------------------- *)
  (* One response (answer section) through verify_response             *)
  (* ---------------------------------------------------------------- *)
  Inductive ans := AR (r : rr) | AS (s : sigrr).

  Definition ans_key (a : ans) : name * N :=
    match a with
    | AR r => (lower_name (r_name r), r_type r)
    | AS s => (lower_name (g_name s), s_tc (g_in s))
    end.
  Definition key_eqb (a b : name * N) : bool := labels_eqb (fst a) (fst b) && (snd a =? snd b).

  Fixpoint group_rrs (k : name * N) (l : list ans) : list rr :=
    match l with
    | [] => []
    | AR r :: l' => if key_eqb (ans_key (AR r)) k then r :: group_rrs k l' else group_rrs k l'
    | _ :: l' => group_rrs k l'
    end.
  Fixpoint group_sigs (k : name * N) (l : list ans) : list sigrr :=
    match l with
    | [] => []
    | AS s :: l' => if key_eqb (ans_key (AS s)) k then s :: group_sigs k l' else group_sigs k l'
    | _ :: l' => group_sigs k l'
    end.

  (* distinct RRset keys in order of first appearance *)
  Fixpoint keys_of (l : list ans) (seen : list (name * N)) : list (name * N) :=
    match l with
    | [] => []
    | a :: l' => let k := ans_key a in
                 if existsb (key_eqb k) seen then keys_of l' seen else k :: keys_of l' (k :: seen)
    end.

  Definition gproof (g : gres) : proof * option N * option nat :=
    match g with GOk p t i => (p, t, i) | GErr p _ => (p, None, None) end.

  (* verify_rrsets over all RRsets of the answer section *)
  Fixpoint run_groups (lookup : lookup_t) (c : cache) (inst : N) (qname : name) (qtype : N)
           (l : list ans) (ks : list (name * N)) (now : N) : list ((name * N) * gres) * cache :=
    match ks with
    | [] => ([], c)
    | k :: ks' =>
        let '(v, c1) := validate_group lookup c inst qname qtype (fst k) (snd k)
                                       (group_rrs k l) (group_sigs k l) now in
        let '(vs, c2) := run_groups lookup c1 inst qname qtype l ks' now in
        ((k, v) :: vs, c2)
    end.

  Fixpoint find_group (k : name * N) (vs : list ((name * N) * gres)) : gres :=
    match vs with
    | [] => GErr Indeterminate false
    | (k', v) :: vs' => if key_eqb k' k then v else find_group k vs'
    end.

  (* VerifiedRrset::update_rrset, per record of the answer section, in message order:
     (proof, ttl).  [pos] counts the RRSIGs of the same RRset seen so far. *)
  Fixpoint count_sigs (k : name * N) (l : list ans) : nat :=
    match l with
    | [] => O
    | AS s :: l' => ((if key_eqb (ans_key (AS s)) k then 1 else 0) + count_sigs k l')%nat
    | _ :: l' => count_sigs k l'
    end.
  Fixpoint annotate (vs : list ((name * N) * gres)) (before l : list ans) : list (proof * N) :=
    match l with
    | [] => []
    | a :: l' =>
        let k := ans_key a in
        let '(p, t, i) := gproof (find_group k vs) in
        let adj (own : N) := match p, t with Secure, Some t' => t' | _, _ => own end in
        (match a with
         | AR r => (p, adj (r_ttl r))
         | AS s => match i with
                   | Some i' => if (i' =? count_sigs k before)%nat then (p, adj (g_ttl s))
                                else (Indeterminate, g_ttl s)
                   | None => (Indeterminate, g_ttl s)
                   end
         end) :: annotate vs (before ++ [a]) l'
    end.

  (* an RRset verdict Secure through RRSIG number idx whose Labels field is below the label count
     of that RRSIG's owner: wildcard expansion, needs NSEC/NSEC3 (none in these responses) *)
  Definition wildcard_group (l : list ans) (kv : (name * N) * gres) : bool :=
    match snd kv with
    | GOk Secure _ (Some i) =>
        match nth_error (group_sigs (fst kv) l) i with
        | Some s => s_labels (g_in s) <? num_labels (g_name s)
        | None => false
        end
    | _ => false
    end.

  Inductive outcome := ONsecError | OAnswer (l : list (proof * N)).

  Definition respond (lookup : lookup_t) (c : cache) (inst : N) (qname : name) (qtype : N)
             (l : list ans) (now64 : N) : outcome * cache :=
    let now := now64 mod two32 in            (* `current_time() as u32` *)
    let '(vs, c') := run_groups lookup c inst qname qtype l (keys_of l []) now in
    if existsb (wildcard_group l) vs then (ONsecError, c')
    else (OAnswer (annotate vs [] l), c').
End WithSig.

Arguments g_name {Sg}. Arguments g_class {Sg}. Arguments g_ttl {Sg}. Arguments g_in {Sg}. Arguments g_sig {Sg}.
Arguments AR {Sg}. Arguments AS {Sg}.
