(* C02/C03 — message level: whatever emit_message_parts produces under a size limit can be read
   back completely: the 12 header bytes carry the counts of the records actually present and the
   TC flag, then every question, then exactly the kept prefix of every section (and OPT / TSIG if
   kept), each record readable field by field with its names resolved through the compression
   pointers, ending exactly at the end of the buffer. *)
From HV Require Import Lib.Base Lib.ListX C03.Model C03.Inv C03.Trunc C02.Spec C02.Model C02.NameRt
     C02.EmitName C02.RecRt.
Open Scope N_scope.

(* ------------------------------------------------------------------ *)
(* questions                                                           *)
(* ------------------------------------------------------------------ *)

Definition query_at (buf : list byte) (pos : nat) (q : query) (e : nat) (F : list nat) : Prop :=
  exists e1 sup, Dec buf pos pos (qname q) e1 sup /\ (forall i, In i sup -> ~ In i F) /\
                 slice buf e1 (e1 + 4) = be16 (qtype q) ++ be16 (qclass q) /\ e = (e1 + 4)%nat.

Definition query_wf (q : query) : Prop := wf_name (qname q).

Lemma query_at_agree buf buf' F pos q e :
  query_at buf pos q e F -> (forall i, In i F -> (i < pos)%nat) ->
  agree (length buf) F buf buf' -> query_at buf' pos q e F.
Proof.
  intros (e1 & sup & HD & Hav & Hs & He) HF Hag.
  pose proof (Dec_pos_lt _ _ _ _ _ _ HD) as Hlt.
  exists e1, sup. split; [eapply Dec_agree_below; eassumption|]. split; [exact Hav|]. split; [|exact He].
  rewrite <- Hs. eapply slice_agree_below; [|intros i Hi; specialize (HF i Hi); lia|exact Hag].
  eapply slice_len_bound; [exact Hs|cbn [be16 app length]; lia|lia].
Qed.

Theorem emit_query_rt F q st st' :
  G st F -> query_wf q -> emit_query q st = Ok st' ->
  G st' F /\ firstn (length (buf st)) (buf st') = buf st /\ (off st < off st')%nat /\
  query_at (buf st') (off st) q (off st') F.
Proof.
  intros HG Hw E. unfold emit_query in E.
  destruct (emit_name Compressed (qname q) st) as [s1|] eqn:E1; cbn [bind] in E; [|discriminate].
  destruct (G_emit_name st F Compressed (qname q) s1 HG Hw E1) as (HG1 & Hp1 & Hlt1 & sup1 & HD1 & Hav1).
  cbn [cased] in HD1. unfold emit_u16 in E.
  destruct (emit_slice (be16 (qtype q)) s1) as [s2|] eqn:E2; cbn [bind] in E; [|discriminate].
  destruct (G_emit_slice _ _ _ _ HG1 E2) as (HG2 & Hb2 & Ho2).
  destruct (G_emit_slice _ _ _ _ HG2 E) as (HG3 & Hb3 & Ho3).
  pose proof HG1 as (Hoff1 & _).
  assert (Hb : buf st' = buf s1 ++ (be16 (qtype q) ++ be16 (qclass q))) by (rewrite Hb3, Hb2, <- app_assoc; reflexivity).
  assert (Hpre1 : firstn (length (buf s1)) (buf st') = buf s1).
  { rewrite Hb, firstn_app, firstn_all, Nat.sub_diag. cbn [firstn]. now rewrite app_nil_r. }
  assert (Hl01 : (length (buf st) <= length (buf s1))%nat).
  { pose proof (f_equal (@length _) Hp1) as HL. rewrite firstn_length in HL. lia. }
  split; [exact HG3|]. split; [|split].
  - transitivity (firstn (length (buf st)) (firstn (length (buf s1)) (buf st'))).
    + rewrite firstn_firstn. f_equal. lia.
    + rewrite Hpre1. exact Hp1.
  - rewrite Ho3, Ho2. cbn [be16 length]. lia.
  - exists (off s1), sup1. split; [|split; [exact Hav1|split]].
    + eapply Dec_agree_below; [exact HD1|exact Hav1|]. apply agree_of_prefix. exact Hpre1.
    + rewrite Hb, Hoff1. rewrite <- (app_nil_r (buf s1 ++ _)), <- app_assoc.
      change 4%nat with (length (be16 (qtype q) ++ be16 (qclass q))). apply slice_app_mid.
    + rewrite Ho3, Ho2. cbn [be16 length]. lia.
Qed.

(* ------------------------------------------------------------------ *)
(* runs of items                                                       *)
(* ------------------------------------------------------------------ *)

Section Runs.
  Context {A : Type} (emit1 : A -> enc -> res enc) (at1 : list byte -> nat -> A -> nat -> list nat -> Prop)
          (wf1 : A -> Prop).
  Variable F : list nat.
  Hypothesis step : forall x st st', G st F -> wf1 x -> emit1 x st = Ok st' ->
    G st' F /\ firstn (length (buf st)) (buf st') = buf st /\ (off st < off st')%nat /\
    at1 (buf st') (off st) x (off st') F.
  Hypothesis at1_agree : forall buf buf' pos x e,
    at1 buf pos x e F -> (forall i, In i F -> (i < pos)%nat) -> agree (length buf) F buf buf' ->
    at1 buf' pos x e F.
  Hypothesis at1_grows : forall buf pos x e, at1 buf pos x e F -> (pos < e)%nat.

  Fixpoint all_at (buf : list byte) (pos : nat) (xs : list A) (e : nat) : Prop :=
    match xs with
    | [] => e = pos
    | x :: xs' => exists e1, at1 buf pos x e1 F /\ all_at buf e1 xs' e
    end.

  Lemma all_at_agree buf buf' : forall xs pos e,
    all_at buf pos xs e -> (forall i, In i F -> (i < pos)%nat) -> agree (length buf) F buf buf' ->
    all_at buf' pos xs e.
  Proof.
    induction xs as [|x xs IH]; intros pos e H HF Hag; cbn [all_at] in *; [exact H|].
    destruct H as (e1 & H1 & H2). exists e1. split; [eapply at1_agree; eassumption|].
    apply IH; [exact H2| |exact Hag]. intros i Hi. specialize (HF i Hi). pose proof (at1_grows _ _ _ _ H1). lia.
  Qed.

  Lemma all_at_app buf : forall xs ys pos e1 e,
    all_at buf pos xs e1 -> all_at buf e1 ys e -> all_at buf pos (xs ++ ys) e.
  Proof.
    induction xs as [|x xs IH]; intros ys pos e1 e H1 H2; cbn [all_at app] in *.
    - subst. exact H2.
    - destruct H1 as (e0 & Ha & Hr). exists e0. split; [exact Ha|]. eapply IH; eassumption.
  Qed.

  Lemma all_at_le buf : forall xs pos e, all_at buf pos xs e -> (pos <= e)%nat.
  Proof.
    induction xs as [|x xs IH]; intros pos e H; cbn [all_at] in H; [lia|].
    destruct H as (e1 & H1 & H2). pose proof (at1_grows _ _ _ _ H1). specialize (IH _ _ H2). lia.
  Qed.

  Lemma emit_all_rt : forall xs st st',
    G st F -> Forall wf1 xs -> emit_all emit1 xs st = Ok st' ->
    G st' F /\ firstn (length (buf st)) (buf st') = buf st /\ (off st <= off st')%nat /\
    all_at (buf st') (off st) xs (off st').
  Proof.
    induction xs as [|x xs IH]; intros st st' HG Hwf E; cbn [emit_all] in E.
    - inversion E; subst. split; [exact HG|]. split; [apply firstn_all|]. split; [lia|reflexivity].
    - inversion Hwf as [|? ? Hw1 Hw2]; subst.
      destruct (emit1 x st) as [s1|] eqn:E1; cbn [bind] in E; [|discriminate].
      destruct (step x st s1 HG Hw1 E1) as (HG1 & Hp1 & Hlt1 & Ha1).
      destruct (IH s1 st' HG1 Hw2 E) as (HG' & Hp' & Hle & Hall).
      assert (Hl01 : (length (buf st) <= length (buf s1))%nat).
      { pose proof (f_equal (@length _) Hp1) as HL. rewrite firstn_length in HL. lia. }
      split; [exact HG'|]. split; [|split; [lia|]].
      + transitivity (firstn (length (buf st)) (firstn (length (buf s1)) (buf st'))).
        * rewrite firstn_firstn. f_equal. lia.
        * rewrite Hp'. exact Hp1.
      + cbn [all_at]. exists (off s1). split; [|exact Hall].
        destruct HG as (_ & _ & _ & HF & _).
        eapply at1_agree; [exact Ha1|exact HF|]. apply agree_of_prefix. exact Hp'.
  Qed.

  (* one section under a limit (C03.Trunc.section_run): the kept prefix is readable *)
  Lemma section_run_rt xs st k t st' :
    G st F -> Forall wf1 xs -> section_run emit1 xs st k t st' ->
    G st' F /\ firstn (length (buf st)) (buf st') = buf st /\ (off st <= off st')%nat /\
    all_at (buf st') (off st) (firstn k xs) (off st') /\
    (k <= length xs)%nat /\ (t = false <-> k = length xs).
  Proof.
    intros HG Hwf R. pose proof (section_run_kept _ _ _ _ _ _ R) as [Hk Ht].
    inversion R as [st2 Ea|k2 x2 sm sf2 Hk2 Hn Ea Ef]; subst.
    - destruct (emit_all_rt xs st st' HG Hwf Ea) as (Ha & Hb & Hc & Hd).
      rewrite firstn_all. split; [exact Ha|]. split; [exact Hb|]. split; [exact Hc|]. split; [exact Hd|]. split; [exact Hk|exact Ht].
    - assert (Hwf' : Forall wf1 (firstn k xs)).
      { apply Forall_forall. intros y Hy. rewrite Forall_forall in Hwf. apply Hwf.
        rewrite <- (firstn_skipn k xs). apply in_or_app. left; exact Hy. }
      destruct (emit_all_rt (firstn k xs) st sm HG Hwf' Ea) as (Ha & Hb & Hc & Hd).
      split; [exact Ha|]. split; [exact Hb|]. split; [exact Hc|]. split; [exact Hd|]. split; [exact Hk|exact Ht].
  Qed.
End Runs.

Lemma rec_at_grows F buf pos r e : rec_at buf pos r e F -> (pos < e)%nat.
Proof.
  intros (e1 & sup1 & HD & _ & _ & _ & Hp). pose proof (Dec_pos_lt _ _ _ _ _ _ HD).
  assert (e1 + 10 <= e)%nat; [|lia].
  clear - Hp. revert Hp. generalize (e1 + 10)%nat. induction (rparts r) as [|p ps IH]; intros pos Hp; cbn [parts_at] in Hp.
  - lia.
  - destruct p as [b|m n].
    + destruct Hp as (_ & Hp). specialize (IH _ Hp). lia.
    + destruct Hp as (e2 & sup & HD & _ & Hp). pose proof (Dec_pos_lt _ _ _ _ _ _ HD). specialize (IH _ Hp). lia.
Qed.

Lemma query_at_grows F buf pos q e : query_at buf pos q e F -> (pos < e)%nat.
Proof. intros (e1 & sup & HD & _ & _ & ->). pose proof (Dec_pos_lt _ _ _ _ _ _ HD). lia. Qed.

Definition recs_at F := all_at (fun buf pos r e F => rec_at buf pos r e F) F.
Definition queries_at F := all_at (fun buf pos q e F => query_at buf pos q e F) F.

(* ------------------------------------------------------------------ *)
(* the whole message                                                   *)
(* ------------------------------------------------------------------ *)

Definition msg_wf (m : msg) : Prop :=
  Forall query_wf (mqueries m) /\ Forall rec_wf (manswers m) /\ Forall rec_wf (mauth m) /\
  Forall rec_wf (madd m) /\ Forall rec_wf (opt_list (medns m)) /\ Forall rec_wf (opt_list (msig m)).

Definition HDR : list nat := seq 0 12.

Definition qa_agree buf buf' pos q e := query_at_agree buf buf' HDR pos q e.
Definition ra_agree buf buf' pos r e := rec_at_agree buf buf' HDR pos r e.

(* what a reader finds in [buf] *)
Definition msg_readable (buf : list byte) (m : msg) : Prop :=
  exists ka kn kr ke ks eq_,
    (ka <= length (manswers m))%nat /\ (kn <= length (mauth m))%nat /\ (kr <= length (madd m))%nat /\
    (ke <= length (opt_list (medns m)))%nat /\ (ks <= length (opt_list (msig m)))%nat /\
    let dropped := negb ((ka =? length (manswers m)) && (kn =? length (mauth m)) && (kr =? length (madd m)) &&
                         (ke =? length (opt_list (medns m))) && (ks =? length (opt_list (msig m))))%nat in
    firstn 12 buf = header_bytes m (mtc m || dropped) (length (mqueries m)) ka kn (kr + ke + ks) /\
    queries_at HDR buf 12 (mqueries m) eq_ /\
    recs_at HDR buf eq_
      (firstn ka (manswers m) ++ firstn kn (mauth m) ++ firstn kr (madd m) ++
       firstn ke (opt_list (medns m)) ++ firstn ks (opt_list (msig m)))
      (length buf).

Lemma G_after_header L s0 :
  place 12 (enc_new L) = Ok (0%nat, s0) -> G s0 HDR.
Proof.
  intros E. apply place_char in E; [|reflexivity]. destruct E as (_ & -> & Hm).
  unfold G, PtrInv, enc_new; cbn [buf off ptrs maxsz app].
  split; [reflexivity|]. split; [constructor|]. split; [constructor|]. split.
  - intros i Hi. unfold HDR in Hi. apply in_seq in Hi. lia.
  - cbn in Hm. cbn. exact Hm.
Qed.

Lemma bool_t_iff (t : bool) k n : (t = false <-> k = n) -> t = negb (k =? n)%nat.
Proof.
  intros [H1 H2]. destruct t; destruct (Nat.eqb_spec k n) as [e|ne]; cbn; try reflexivity.
  - specialize (H2 e). discriminate.
  - exfalso. apply ne. apply H1. reflexivity.
Qed.

Theorem emit_message_rt m L st :
  msg_wf m -> emit_message m (enc_new L) = Ok st -> msg_readable (buf st) m /\ length (buf st) = off st.
Proof.
  intros (Wq & Wa & Wn & Wr & We & Ws) E.
  pose proof (emit_message_sound m (enc_new L) st (wfb_new L) E) as R.
  destruct R as (s0 & s1 & s2 & s3 & s4 & s5 & s6 & ka & t1 & kn & t2 & kr & t3 & ke & t4 & ks & t5 &
                 EP & R1 & R2 & R3 & R4 & R5 & R6 & ER).
  cbn [enc_new off] in EP, ER.
  pose proof (G_after_header L s0 EP) as G0.
  assert (Hoff0 : off s0 = 12%nat).
  { apply place_char in EP; [|reflexivity]. destruct EP as (_ & -> & _). reflexivity. }
  destruct (section_run_rt emit_query (fun buf pos q e F => query_at buf pos q e F) query_wf HDR
              (emit_query_rt HDR) qa_agree _ _ _ _ _ G0 Wq R1)
    as (G1 & P1 & L1 & A1 & K1 & T1).
  rewrite firstn_all in A1.
  destruct (section_run_rt emit_rec (fun buf pos r e F => rec_at buf pos r e F) rec_wf HDR
              (emit_rec_rt HDR) ra_agree _ _ _ _ _ G1 Wa R2)
    as (G2 & P2 & L2 & A2 & K2 & T2).
  destruct (section_run_rt emit_rec (fun buf pos r e F => rec_at buf pos r e F) rec_wf HDR
              (emit_rec_rt HDR) ra_agree _ _ _ _ _ G2 Wn R3)
    as (G3 & P3 & L3 & A3 & K3 & T3).
  destruct (section_run_rt emit_rec (fun buf pos r e F => rec_at buf pos r e F) rec_wf HDR
              (emit_rec_rt HDR) ra_agree _ _ _ _ _ G3 Wr R4)
    as (G4 & P4 & L4 & A4 & K4 & T4).
  destruct (section_run_rt emit_rec (fun buf pos r e F => rec_at buf pos r e F) rec_wf HDR
              (emit_rec_rt HDR) ra_agree _ _ _ _ _ G4 We R5)
    as (G5 & P5 & L5 & A5 & K5 & T5).
  destruct (section_run_rt emit_rec (fun buf pos r e F => rec_at buf pos r e F) rec_wf HDR
              (emit_rec_rt HDR) ra_agree _ _ _ _ _ G5 Ws R6)
    as (G6 & P6 & L6 & A6 & K6 & T6).
  (* transport every section's readability to the buffer of s6 *)
  pose proof G1 as (O1 & _ & _ & F1 & _). pose proof G2 as (O2 & _ & _ & F2 & _).
  pose proof G3 as (O3 & _ & _ & F3 & _). pose proof G4 as (O4 & _ & _ & F4 & _).
  pose proof G5 as (O5 & _ & _ & F5 & _). pose proof G6 as (O6 & _ & _ & F6 & _).
  pose proof G0 as (O0 & _ & _ & F0 & _).
  assert (len_le : forall a b : enc, firstn (length (buf a)) (buf b) = buf a -> (length (buf a) <= length (buf b))%nat).
  { intros a b H. pose proof (f_equal (@length _) H) as HL. rewrite firstn_length in HL. lia. }
  assert (pre_trans : forall a b c : enc,
            firstn (length (buf a)) (buf b) = buf a -> firstn (length (buf b)) (buf c) = buf b ->
            firstn (length (buf a)) (buf c) = buf a).
  { intros a b c H1 H2. transitivity (firstn (length (buf a)) (firstn (length (buf b)) (buf c))).
    - rewrite firstn_firstn. f_equal. specialize (len_le a b H1). lia.
    - rewrite H2. exact H1. }
  pose proof (pre_trans _ _ _ P5 P6) as P46. pose proof (pre_trans _ _ _ P4 P46) as P36.
  pose proof (pre_trans _ _ _ P3 P36) as P26. pose proof (pre_trans _ _ _ P2 P26) as P16.
  set (QA := fun buf pos (q : query) e (F : list nat) => query_at buf pos q e F).
  set (RA := fun buf pos (r : rec) e (F : list nat) => rec_at buf pos r e F).
  assert (B1 : all_at QA HDR (buf s6) 12 (mqueries m) (off s1)).
  { rewrite <- Hoff0. eapply all_at_agree with (buf := buf s1); [exact qa_agree|exact (query_at_grows HDR)|exact A1| |apply agree_of_prefix; exact P16].
    intros i Hi. specialize (F0 i Hi). lia. }
  assert (B2 : all_at RA HDR (buf s6) (off s1) (firstn ka (manswers m)) (off s2)).
  { eapply all_at_agree with (buf := buf s2); [exact ra_agree|exact (rec_at_grows HDR)|exact A2|exact F1|apply agree_of_prefix; exact P26]. }
  assert (B3 : all_at RA HDR (buf s6) (off s2) (firstn kn (mauth m)) (off s3)).
  { eapply all_at_agree with (buf := buf s3); [exact ra_agree|exact (rec_at_grows HDR)|exact A3|exact F2|apply agree_of_prefix; exact P36]. }
  assert (B4 : all_at RA HDR (buf s6) (off s3) (firstn kr (madd m)) (off s4)).
  { eapply all_at_agree with (buf := buf s4); [exact ra_agree|exact (rec_at_grows HDR)|exact A4|exact F3|apply agree_of_prefix; exact P46]. }
  assert (B5 : all_at RA HDR (buf s6) (off s4) (firstn ke (opt_list (medns m))) (off s5)).
  { eapply all_at_agree with (buf := buf s5); [exact ra_agree|exact (rec_at_grows HDR)|exact A5|exact F4|apply agree_of_prefix; exact P6]. }
  pose proof A6 as B6.
  assert (Ball : all_at RA HDR (buf s6) (off s1)
            (firstn ka (manswers m) ++ firstn kn (mauth m) ++ firstn kr (madd m) ++
             firstn ke (opt_list (medns m)) ++ firstn ks (opt_list (msig m))) (off s6)).
  { eapply all_at_app; [exact B2|]. eapply all_at_app; [exact B3|]. eapply all_at_app; [exact B4|].
    eapply all_at_app; [exact B5|exact B6]. }
  (* the header back-patch *)
  set (hdr := header_bytes m (mtc m || t1 || t2 || t3 || t4 || t5) (length (mqueries m)) ka kn (kr + ke + ks)) in *.
  assert (Hhl : length hdr = 12%nat) by reflexivity.
  assert (H12 : (12 <= length (buf s6))%nat) by (rewrite <- O6; lia).
  destruct (replace_agree s6 0 hdr st ER ltac:(rewrite Hhl; lia)) as (HL' & Ho' & _ & _ & Hag & Hsl).
  rewrite Hhl in Hag, Hsl. fold HDR in Hag.
  split; [|rewrite HL', Ho'; symmetry; exact O6].
  exists ka, kn, kr, ke, ks, (off s1). repeat split; auto.
  - (* header *)
    assert (Htc : (mtc m || t1 || t2 || t3 || t4 || t5)%bool =
                  (mtc m || negb ((ka =? length (manswers m)) && (kn =? length (mauth m)) && (kr =? length (madd m)) &&
                                  (ke =? length (opt_list (medns m))) && (ks =? length (opt_list (msig m))))%nat)%bool).
    { rewrite (bool_t_iff t1 _ _ T2), (bool_t_iff t2 _ _ T3), (bool_t_iff t3 _ _ T4), (bool_t_iff t4 _ _ T5), (bool_t_iff t5 _ _ T6).
      destruct (mtc m), (ka =? _)%nat, (kn =? _)%nat, (kr =? _)%nat, (ke =? _)%nat, (ks =? _)%nat; reflexivity. }
    cbv zeta. rewrite <- Htc. fold hdr. unfold slice in Hsl. cbn [skipn] in Hsl. rewrite Nat.sub_0_r in Hsl. exact Hsl.
  - eapply all_at_agree; [exact qa_agree|exact (query_at_grows HDR)|exact B1| |exact Hag].
    intros i Hi. unfold HDR in Hi. apply in_seq in Hi. lia.
  - rewrite HL', <- O6.
    eapply all_at_agree; [exact ra_agree|exact (rec_at_grows HDR)|exact Ball| |exact Hag].
    intros i Hi. unfold HDR in Hi. apply in_seq in Hi.
    pose proof (all_at_le QA HDR (query_at_grows HDR) _ _ _ _ B1). lia.
Qed.
