(* C02 — Name::emit (C03.Model.emit_name) against Spec.Dec: the name written decodes to exactly its
   labels and every compression candidate stays decodable (PtrInv). *)
From HV Require Import Lib.Base Lib.ListX C03.Model C03.Inv C02.Spec C02.Model C02.NameRt.
Open Scope N_scope.

(* ------------------------------------------------------------------ *)
(* the candidate-table invariant                                       *)
(* ------------------------------------------------------------------ *)

(* [F] = positions that later Place::replace calls may overwrite (RDLENGTH, header) *)
Definition cand_ok (B : list byte) (F : list nat) (c : nat * list byte) : Prop :=
  N.of_nat (fst c) < 16383 /\
  exists ls e sup, wf_name ls /\ snd c = flat ls /\ Dec B (fst c) (fst c) ls e sup /\
                   (forall i, In i sup -> ~ In i F).

Definition PtrInv (st : enc) (F : list nat) : Prop := Forall (cand_ok (buf st) F) (ptrs st).

Lemma cand_ok_prefix B0 B' F c :
  cand_ok B0 F c -> firstn (length B0) B' = B0 -> cand_ok B' F c.
Proof.
  intros (H1 & ls & e & sup & Hw & Hs & HD & Hav) Hp. split; [exact H1|].
  exists ls, e, sup. repeat split; auto. eapply Dec_prefix; eassumption.
Qed.

(* ------------------------------------------------------------------ *)
(* primitives on a state whose buffer ends at the offset               *)
(* ------------------------------------------------------------------ *)

Lemma emit_slice_char d s s' :
  emit_slice d s = Ok s' -> off s = length (buf s) ->
  s' = mkEnc (buf s ++ d) (off s + length d) (maxsz s) (ptrs s) (cnt s).
Proof.
  unfold emit_slice. destruct (_ <? _)%nat; [discriminate|]. intros E Ho. inversion E; subst.
  unfold set_off, set_buf; cbn [buf off maxsz ptrs cnt]. rewrite Ho at 1. rewrite buf_write_end. reflexivity.
Qed.

Lemma emit_labels_char ls : forall s starts starts' s',
  emit_labels ls s starts = Ok (starts', s') -> off s = length (buf s) ->
  buf s' = buf s ++ flat ls /\ off s' = (off s + length (flat ls))%nat /\
  starts' = starts ++ label_starts (off s) ls /\ ptrs s' = ptrs s /\ cnt s' = cnt s /\
  maxsz s' = maxsz s /\ Forall (fun l => (length l <= 63)%nat) ls.
Proof.
  induction ls as [|l ls IH]; intros s starts starts' s' E Ho; cbn [emit_labels] in E.
  - inversion E; subst. cbn [flat map concat label_starts length]. rewrite !app_nil_r.
    repeat split; auto.
  - destruct (Nat.ltb_spec 63 (length l)) as [|Hl]; [discriminate|].
    unfold emit_chardata in E. destruct (Nat.ltb_spec 255 (length l)) as [|_]; [lia|].
    unfold emit_u8 in E.
    destruct (emit_slice [N.of_nat (length l) mod 256] s) as [s1|] eqn:E1; cbn [bind] in E; [|discriminate].
    apply emit_slice_char in E1; [|exact Ho].
    destruct (emit_slice l s1) as [s2|] eqn:E2; cbn [bind] in E; [|discriminate].
    apply emit_slice_char in E2; [|subst s1; cbn [buf off]; rewrite app_length; cbn [length]; lia].
    assert (Hm : N.of_nat (length l) mod 256 = N.of_nat (length l)) by (apply N.mod_small; lia).
    rewrite Hm in E1.
    destruct (IH s2 _ _ _ E) as (A1 & A2 & A3 & A4 & A5 & A6 & A7).
    { subst s2 s1. cbn [buf off length]. rewrite !app_length. cbn [length]. lia. }
    subst s2 s1. cbn [buf off maxsz ptrs cnt length] in *.
    rewrite flat_cons'. cbn [label_starts].
    repeat split; auto.
    + rewrite A1. rewrite <- !app_assoc. reflexivity.
    + rewrite A2. unfold byte, label in *. rewrite !app_length. cbn [length]. lia.
    + rewrite A3. rewrite <- app_assoc. cbn [app]. do 3 f_equal. lia.
Qed.

Lemma store_ptr_char i last s :
  buf (store_ptr i last s) = buf s /\ off (store_ptr i last s) = off s /\
  cnt (store_ptr i last s) = cnt s /\ maxsz (store_ptr i last s) = maxsz s /\
  (ptrs (store_ptr i last s) = ptrs s \/
   (ptrs (store_ptr i last s) = ptrs s ++ [(i, slice_of s i last)] /\ N.of_nat (off s) < 16383)).
Proof.
  unfold store_ptr. destruct (N.ltb_spec (N.of_nat (off s)) 16383); cbn [andb].
  - destruct (length (ptrs s) <? 64)%nat; cbn; repeat split; auto.
  - repeat split; auto.
Qed.

Lemma find_ptr_some m ps loc :
  find_ptr m ps = Some loc -> In (loc, m) ps.
Proof.
  induction ps as [|[s0 m0] ps IH]; cbn [find_ptr]; [discriminate|].
  destruct (bytes_eqb m0 m) eqn:E.
  - intros H; inversion H; subst. apply bytes_eqb_eq in E. subst. left; reflexivity.
  - intros H. right. apply IH. exact H.
Qed.

(* finite sweep: for pointer targets below 2^14 the two bit operations are plain arithmetic *)
Fixpoint upto (k : nat) : list N := match k with O => [] | S k' => N.of_nat k' :: upto k' end.
Lemma upto_in k x : x < N.of_nat k -> In x (upto k).
Proof.
  induction k as [|k IH]; intros H; [lia|]. cbn [upto].
  destruct (N.eq_dec x (N.of_nat k)) as [->|Hne]; [left; reflexivity|right; apply IH; lia].
Qed.
Lemma ptr_bits_sweep :
  forallb (fun loc => (N.land loc 49152 =? 0) && (N.lor 49152 loc =? 49152 + loc)) (upto (N.to_nat 16384)) = true.
Proof. vm_compute. reflexivity. Qed.
Lemma ptr_bits loc : loc < 16384 -> N.land loc 49152 = 0 /\ N.lor 49152 loc = 49152 + loc.
Proof.
  intros H. pose proof ptr_bits_sweep as S. rewrite forallb_forall in S.
  specialize (S loc). rewrite andb_true_iff, !N.eqb_eq in S. apply S. apply upto_in. lia.
Qed.

Lemma be16_ptr loc : loc < 16384 ->
  exists b1 b2, be16 (49152 + loc) = [b1; b2] /\ 192 <= b1 < 256 /\ b2 < 256 /\
                N.to_nat ((b1 - 192) * 256 + b2) = N.to_nat loc.
Proof.
  intros H. unfold be16. eexists _, _. split; [reflexivity|].
  assert (E1 : (49152 + loc) / 256 = 192 + loc / 256).
  { replace (49152 + loc) with (loc + 192 * 256) by lia. rewrite N.div_add by discriminate. lia. }
  assert (E2 : (49152 + loc) mod 256 = loc mod 256).
  { replace (49152 + loc) with (loc + 192 * 256) by lia. apply N.mod_add. discriminate. }
  assert (Hq : loc / 256 < 64) by (apply N.div_lt_upper_bound; lia).
  rewrite E1, E2. rewrite (N.mod_small (192 + loc / 256)) by lia.
  pose proof (N.mod_lt loc 256 ltac:(discriminate)) as Hm.
  pose proof (N.div_mod loc 256 ltac:(discriminate)) as Hdm.
  set (q := loc / 256) in *. set (r := loc mod 256) in *.
  repeat split; try lia.
Qed.

(* ------------------------------------------------------------------ *)
(* the compression loop                                                *)
(* ------------------------------------------------------------------ *)

Lemma filter_all_id {A} (f : A -> bool) (l : list A) : forallb f l = true -> filter f l = l.
Proof.
  induction l as [|x l IH]; cbn [forallb filter]; [reflexivity|].
  intros H. apply andb_true_iff in H. destruct H as [H1 H2]. rewrite H1. f_equal. apply IH. exact H2.
Qed.

Lemma firstn_succ_nth {A} (l : list A) j x :
  nth_error l j = Some x -> firstn (S j) l = firstn j l ++ [x].
Proof.
  revert j; induction l as [|y l IH]; intros [|j] H; cbn [nth_error] in H; try discriminate.
  - inversion H; reflexivity.
  - cbn [firstn app]. f_equal. apply IH. exact H.
Qed.

Section Loop.
  Variables (B0 : list byte) (ls : name) (P : list (nat * list byte)) (mx c0 : nat).
  Hypothesis Hwf : wf_name ls.
  Let last := (length B0 + length (flat ls))%nat.
  Let o (a : nat) := (length B0 + length (flat (firstn a ls)))%nat.

  (* candidates created for this very name *)
  Definition is_own (j : nat) (c : nat * list byte) : Prop :=
    N.of_nat (fst c) < 16383 /\ exists a, (a < j)%nat /\ (a < length ls)%nat /\ c = (o a, flat (skipn a ls)).

  Lemma o_mono a b : (a < b <= length ls)%nat -> (o a < o b)%nat.
  Proof.
    intros H. unfold o.
    replace (firstn b ls) with (firstn a ls ++ firstn (b - a) (skipn a ls)).
    2:{ replace b with (a + (b - a))%nat at 2 by lia. apply firstn_firstn_skipn. }
    rewrite flat_app, app_length.
    assert (0 < length (flat (firstn (b - a) (skipn a ls))))%nat; [|lia].
    apply flat_length_pos. intros E. apply (f_equal (@length _)) in E.
    rewrite firstn_length, skipn_length in E. cbn in E. lia.
  Qed.

  Lemma o_succ j l : nth_error ls j = Some l -> o (S j) = (o j + S (length l))%nat.
  Proof.
    intros H. unfold o. rewrite (firstn_succ_nth _ _ _ H), flat_app, app_length.
    cbn [flat map concat]. rewrite app_nil_r. cbn [length]. lia.
  Qed.

  Lemma o_last a : (a <= length ls)%nat -> (o a <= last)%nat.
  Proof.
    intros H. unfold o, last. rewrite <- (firstn_skipn a ls) at 2. rewrite flat_app, app_length. lia.
  Qed.

  Lemma skipn_flat_longer a k : (a < k <= length ls)%nat ->
    (length (flat (skipn k ls)) < length (flat (skipn a ls)))%nat.
  Proof.
    intros H. replace (skipn a ls) with (firstn (k - a) (skipn a ls) ++ skipn k ls).
    2:{ rewrite <- (firstn_skipn (k - a) (skipn a ls)) at 2. f_equal. rewrite skipn_skipn_add. f_equal. lia. }
    rewrite flat_app, app_length.
    assert (0 < length (flat (firstn (k - a) (skipn a ls))))%nat; [|lia].
    apply flat_length_pos. intros E. apply (f_equal (@length _)) in E.
    rewrite firstn_length, skipn_length in E. cbn in E. lia.
  Qed.

  Lemma slice_suffix k post : (k <= length ls)%nat ->
    firstn (last - o k) (skipn (o k) (B0 ++ flat ls ++ post)) = flat (skipn k ls).
  Proof.
    intros Hk. unfold last, o.
    assert (Hf : flat ls = flat (firstn k ls) ++ flat (skipn k ls))
      by (rewrite <- flat_app, firstn_skipn; reflexivity).
    rewrite Hf. set (fa := flat (firstn k ls)). set (fb := flat (skipn k ls)).
    rewrite app_length.
    replace (length B0 + (length fa + length fb) - (length B0 + length fa))%nat with (length fb) by lia.
    replace (B0 ++ (fa ++ fb) ++ post) with ((B0 ++ fa) ++ fb ++ post)
      by (rewrite <- !app_assoc; reflexivity).
    replace (length B0 + length fa)%nat with (length (B0 ++ fa)) by (rewrite app_length; reflexivity).
    rewrite skipn_app, skipn_all, Nat.sub_diag. cbn [skipn app].
    rewrite firstn_app, firstn_all, Nat.sub_diag. cbn [firstn]. now rewrite app_nil_r.
  Qed.

  (* loop state before looking at label number j = |pre_ls| *)
  Definition loop_inv (j : nat) (s : enc) : Prop :=
    buf s = B0 ++ flat ls /\ off s = last /\ maxsz s = mx /\ cnt s = c0 /\
    exists own, ptrs s = P ++ own /\ Forall (is_own j) own.

  Definition loop_result (j : nat) (done : bool) (s' : enc) : Prop :=
    (done = false /\ loop_inv (length ls) s') \/
    (done = true /\ exists k loc own,
        (j <= k < length ls)%nat /\ In (loc, flat (skipn k ls)) P /\ N.of_nat loc < 16384 /\
        buf s' = B0 ++ flat (firstn k ls) ++ be16 (49152 + N.of_nat loc) /\
        off s' = length (buf s') /\ maxsz s' = mx /\ cnt s' = c0 /\
        ptrs s' = P ++ own /\ Forall (is_own k) own).

  Hypothesis HP_lt : Forall (fun c => (fst c < length B0)%nat /\ N.of_nat (fst c) < 16383) P.

  Lemma loop_spec : forall rest pre_ls s done s',
    ls = pre_ls ++ rest ->
    loop_inv (length pre_ls) s ->
    compress_loop (label_starts (o (length pre_ls)) rest) last s = Ok (done, s') ->
    loop_result (length pre_ls) done s'.
  Proof.
    induction rest as [|l rest IH]; intros pre_ls s done s' Els Hinv E; cbn [label_starts compress_loop] in E.
    - inversion E; subst. left. split; [reflexivity|].
      rewrite app_nil_r in *. subst. exact Hinv.
    - set (j := length pre_ls) in *.
      assert (Hj : (j < length ls)%nat) by (rewrite Els, app_length; cbn [length]; unfold j; lia).
      destruct Hinv as (Hb & Ho & Hm & Hc & own & Hp & Hown).
      (* the state reached when nothing matches: candidate stored (or not), move on *)
      assert (Hnext : forall s2, s2 = store_ptr (o j) last s -> loop_inv (S j) s2).
      { intros s2 ->. destruct (store_ptr_char (o j) last s) as (A1 & A2 & A3 & A4 & A5).
        unfold loop_inv. rewrite A1, A2, A3, A4. repeat split; auto.
        destruct A5 as [A5|[A5 Hlim]].
        - exists own. rewrite A5. split; [exact Hp|].
          eapply Forall_impl; [|exact Hown]. intros c (H1 & a & Ha & Hal & Hc'). split; [exact H1|]. exists a. repeat split; auto.
        - exists (own ++ [(o j, flat (skipn j ls))]). rewrite A5, Hp, <- app_assoc. split.
          + do 2 f_equal. unfold slice_of. rewrite Hb. rewrite <- (app_nil_r (flat ls)).
            f_equal. f_equal. apply slice_suffix. lia.
          + apply Forall_app. split.
            * eapply Forall_impl; [|exact Hown]. intros c (H1 & a & Ha & Hal & Hc'). split; [exact H1|]. exists a. repeat split; auto.
            * constructor; [|constructor]. split.
              -- cbn [fst]. pose proof (o_last j ltac:(lia)). rewrite Ho in Hlim. lia.
              -- exists j. repeat split; auto. }
      assert (Hrec : forall s2, s2 = store_ptr (o j) last s ->
                compress_loop (label_starts (o j + S (length l)) rest) last s2 = Ok (done, s') ->
                loop_result j done s').
      { intros s2 Hs2 E2.
        assert (Eo : (o j + S (length l))%nat = o (length (pre_ls ++ [l]))).
        { rewrite app_length. cbn [length]. fold j. replace (j + 1)%nat with (S j) by lia.
          symmetry. apply o_succ. rewrite Els. unfold j. apply nth_error_app_mid. }
        rewrite Eo in E2.
        assert (Hinv2 : loop_inv (length (pre_ls ++ [l])) s2).
        { rewrite app_length. cbn [length]. fold j. replace (j + 1)%nat with (S j) by lia. apply Hnext; exact Hs2. }
        pose proof (IH (pre_ls ++ [l]) s2 done s' ltac:(rewrite <- app_assoc; exact Els) Hinv2 E2) as R.
        rewrite app_length in R. cbn [length] in R. fold j in R.
        destruct R as [R|(Hd & k & loc & own' & Hk & R)]; [left; exact R|].
        right. split; [exact Hd|]. exists k, loc, own'. split; [lia|exact R]. }
      destruct (get_ptr (o j) last s) as [loc|] eqn:EG; [|eapply Hrec; [reflexivity|exact E]].
      destruct (N.land (N.of_nat loc) 49152 =? 0) eqn:EL; [|eapply Hrec; [reflexivity|exact E]].
      (* a candidate matched: it is an old one *)
      unfold get_ptr, slice_of in EG. rewrite Hb in EG.
      rewrite <- (app_nil_r (flat ls)) in EG. rewrite (slice_suffix j [] ltac:(lia)) in EG.
      apply find_ptr_some in EG. rewrite Hp in EG. apply in_app_or in EG.
      destruct EG as [EG|EG].
      2:{ (* own candidates are strictly longer: impossible *)
          exfalso. rewrite Forall_forall in Hown. destruct (Hown _ EG) as (_ & a & Ha & Hal & Hc').
          inversion Hc' as [[E1 E2]].
          pose proof (skipn_flat_longer a j ltac:(lia)) as HL. rewrite <- E2 in HL. lia. }
      rewrite Forall_forall in HP_lt. destruct (HP_lt _ EG) as [Hloc1 Hloc2]. cbn [fst] in *.
      destruct (ptr_bits (N.of_nat loc) ltac:(lia)) as [_ Hlor]. rewrite Hlor in E.
      (* rewind, trim, write the pointer *)
      set (st1 := trim (set_off s (o j))) in *.
      assert (Hb1 : buf st1 = B0 ++ flat (firstn j ls)).
      { unfold st1, trim; cbn [set_off set_buf set_ptrs buf off]. rewrite Hb.
        unfold o. rewrite <- (firstn_skipn j ls) at 2. rewrite flat_app, app_assoc.
        rewrite firstn_app. rewrite firstn_all2 by (rewrite app_length; lia).
        replace (length B0 + length (flat (firstn j ls)) - length (B0 ++ flat (firstn j ls)))%nat with O
          by (rewrite app_length; lia).
        cbn [firstn]. now rewrite app_nil_r. }
      assert (Ho1 : off st1 = length (buf st1)).
      { rewrite Hb1. unfold st1, trim; cbn [set_off set_buf set_ptrs off]. unfold o. now rewrite app_length. }
      assert (Hp1 : ptrs st1 = P ++ own).
      { unfold st1, trim; cbn [set_off set_buf set_ptrs ptrs off]. rewrite Hp.
        rewrite filter_app. f_equal.
        - apply filter_all_id. apply forallb_forall. intros c Hc'. apply Nat.ltb_lt.
          destruct (HP_lt _ Hc') as [Hc1 _]. unfold o. lia.
        - apply filter_all_id. apply forallb_forall. intros c Hc'. apply Nat.ltb_lt.
          rewrite Forall_forall in Hown. destruct (Hown _ Hc') as (_ & a & Ha & Hal & ->). cbn [fst].
          apply o_mono. lia. }
      unfold emit_u16 in E.
      destruct (emit_slice (be16 (49152 + N.of_nat loc)) st1) as [s2|] eqn:E2; cbn [bind] in E; [|discriminate].
      inversion E; subst done s'. apply emit_slice_char in E2; [|exact Ho1].
      right. split; [reflexivity|]. exists j, loc, own. subst s2. cbn [buf off maxsz ptrs cnt].
      repeat split; auto; try lia.
      + rewrite Hb1. now rewrite <- app_assoc.
      + rewrite Ho1, !app_length. reflexivity.
  Qed.
End Loop.

(* ------------------------------------------------------------------ *)
(* the two possible shapes of the buffer after the name                *)
(* ------------------------------------------------------------------ *)

Lemma wf_name_skipn a ls : wf_name ls -> wf_name (skipn a ls).
Proof.
  unfold wf_name. revert ls; induction a as [|a IH]; intros ls H; cbn [skipn]; [exact H|].
  destruct ls; [constructor|]. inversion H; subst. apply IH. assumption.
Qed.
Lemma wf_name_firstn a ls : wf_name ls -> wf_name (firstn a ls).
Proof.
  unfold wf_name. revert ls; induction a as [|a IH]; intros ls H; cbn [firstn]; [constructor|].
  destruct ls; [constructor|]. inversion H; subst. constructor; [assumption|apply IH; assumption].
Qed.

Section Final.
  Variables (B0 : list byte) (ls : name) (P : list (nat * list byte)) (F : list nat).
  Hypothesis Hwf : wf_name ls.
  Hypothesis HF : forall i, In i F -> (i < length B0)%nat.
  Hypothesis HP : Forall (cand_ok B0 F) P.
  Hypothesis HPlt : Forall (fun c => (fst c < length B0)%nat) P.
  Let o (a : nat) := (length B0 + length (flat (firstn a ls)))%nat.

  Lemma flat_split a : flat ls = flat (firstn a ls) ++ flat (skipn a ls).
  Proof. rewrite <- flat_app, firstn_skipn. reflexivity. Qed.

  (* name ended by the root byte *)
  Lemma final_root own :
    Forall (is_own B0 ls (length ls)) own ->
    let Bf := B0 ++ flat ls ++ [0] in
    (exists sup, Dec Bf (length B0) (length B0) ls (length Bf) sup /\ (forall i, In i sup -> ~ In i F)) /\
    Forall (cand_ok Bf F) (P ++ own).
  Proof.
    intros Hown Bf. split.
    - destruct (Dec_flat_root B0 ls [] (length B0) Hwf) as (sup & HD & Hs).
      exists sup. split.
      + unfold Bf. rewrite !app_length. cbn [length].
        replace (length B0 + (length (flat ls) + 1))%nat with (length B0 + length (flat ls) + 1)%nat by lia.
        exact HD.
      + intros i Hi Hin. specialize (Hs i Hi). specialize (HF i Hin). lia.
    - apply Forall_app. split.
      + eapply Forall_impl; [|exact HP]. intros c Hc. eapply cand_ok_prefix; [exact Hc|].
        unfold Bf. rewrite firstn_app, firstn_all, Nat.sub_diag. cbn [firstn]. now rewrite app_nil_r.
      + eapply Forall_impl; [|exact Hown]. intros c (H1 & a & Ha & Hal & ->). split; [exact H1|].
        cbn [fst snd].
        destruct (Dec_flat_root (B0 ++ flat (firstn a ls)) (skipn a ls) [] (length B0 + length (flat (firstn a ls)))
                    (wf_name_skipn a ls Hwf)) as (sup & HD & Hs).
        rewrite app_length in HD, Hs.
        exists (skipn a ls), (length B0 + length (flat (firstn a ls)) + length (flat (skipn a ls)) + 1)%nat, sup.
        repeat split.
        * apply wf_name_skipn; exact Hwf.
        * unfold Bf. rewrite (flat_split a). rewrite <- !app_assoc in *. exact HD.
        * intros i Hi Hin. specialize (Hs i Hi). specialize (HF i Hin). lia.
  Qed.

  (* name ended by a pointer to an old candidate *)
  Lemma final_ptr k loc own :
    (k < length ls)%nat -> In (loc, flat (skipn k ls)) P -> N.of_nat loc < 16384 ->
    Forall (is_own B0 ls k) own ->
    let Bf := B0 ++ flat (firstn k ls) ++ be16 (49152 + N.of_nat loc) in
    (exists sup, Dec Bf (length B0) (length B0) ls (length Bf) sup /\ (forall i, In i sup -> ~ In i F)) /\
    Forall (cand_ok Bf F) (P ++ own).
  Proof.
    intros Hk Hin Hloc Hown Bf.
    destruct (be16_ptr (N.of_nat loc) Hloc) as (b1 & b2 & Ebe & Hb1 & Hb2 & Htgt).
    rewrite Nat2N.id in Htgt.
    assert (Hpre : firstn (length B0) Bf = B0).
    { unfold Bf. rewrite firstn_app, firstn_all, Nat.sub_diag. cbn [firstn]. now rewrite app_nil_r. }
    (* the matched candidate decodes to the suffix *)
    rewrite Forall_forall in HP, HPlt.
    destruct (HP _ Hin) as (_ & ls2 & e2 & sup2 & Hw2 & Hs2 & HD2 & Hav2). cbn [fst snd] in *.
    assert (ls2 = skipn k ls) as -> by (apply flat_inj; [exact Hw2|apply wf_name_skipn; exact Hwf|now symmetry]).
    pose proof (HPlt _ Hin) as Hlt. cbn [fst] in Hlt.
    assert (HD2f : Dec Bf loc loc (skipn k ls) e2 sup2) by (eapply Dec_prefix; eassumption).
    assert (EBf : Bf = B0 ++ flat (firstn k ls) ++ b1 :: b2 :: []) by (unfold Bf; now rewrite Ebe).
    split.
    - rewrite EBf in HD2f.
      destruct (Dec_flat_ptr B0 (firstn k ls) b1 b2 [] (length B0) loc (skipn k ls) e2 sup2
                  (wf_name_firstn k ls Hwf) Hb1 Hb2 (eq_sym Htgt) Hlt HD2f) as (sup & HD & Hs).
      rewrite firstn_skipn in HD. exists sup. split.
      + rewrite EBf. rewrite !app_length. cbn [length].
        replace (length B0 + (length (flat (firstn k ls)) + 2))%nat with (length B0 + length (flat (firstn k ls)) + 2)%nat by lia.
        exact HD.
      + intros i Hi HiF. destruct (Hs i Hi) as [H|H]; [specialize (HF i HiF); lia|exact (Hav2 i H HiF)].
    - apply Forall_app. split.
      + apply Forall_forall. intros c Hc. eapply cand_ok_prefix; [apply HP; exact Hc|exact Hpre].
      + eapply Forall_impl; [|exact Hown]. intros c (H1 & a & Ha & Hal & ->). split; [exact H1|].
        cbn [fst snd].
        assert (Esplit : firstn k ls = firstn a ls ++ firstn (k - a) (skipn a ls)).
        { replace k with (a + (k - a))%nat at 1 by lia. symmetry. apply firstn_firstn_skipn. }
        assert (EBf2 : Bf = (B0 ++ flat (firstn a ls)) ++ flat (firstn (k - a) (skipn a ls)) ++ b1 :: b2 :: []).
        { rewrite EBf, Esplit, flat_app. rewrite <- !app_assoc. reflexivity. }
        rewrite EBf2 in HD2f.
        assert (Hbound : (loc < length (B0 ++ flat (firstn a ls)))%nat) by (rewrite app_length; lia).
        destruct (Dec_flat_ptr (B0 ++ flat (firstn a ls)) (firstn (k - a) (skipn a ls)) b1 b2 []
                    (length (B0 ++ flat (firstn a ls))) loc (skipn k ls) e2 sup2
                    (wf_name_firstn _ _ (wf_name_skipn a ls Hwf)) Hb1 Hb2 (eq_sym Htgt) Hbound HD2f)
          as (sup & HD & Hs).
        assert (Elab : firstn (k - a) (skipn a ls) ++ skipn k ls = skipn a ls).
        { rewrite <- (firstn_skipn (k - a) (skipn a ls)) at 2. f_equal. rewrite skipn_skipn_add. f_equal. lia. }
        rewrite Elab in HD. rewrite app_length in HD, Hs.
        eexists (skipn a ls), _, sup. repeat split.
        * apply wf_name_skipn; exact Hwf.
        * rewrite EBf2. exact HD.
        * intros i Hi HiF. destruct (Hs i Hi) as [H|H]; [specialize (HF i HiF); lia|exact (Hav2 i H HiF)].
  Qed.
End Final.

(* ------------------------------------------------------------------ *)
(* store_all (compression off): every label start becomes a candidate  *)
(* ------------------------------------------------------------------ *)

Lemma store_all_spec B0 ls P mx c0 (Hwf : wf_name ls) : forall rest pre_ls s,
  ls = pre_ls ++ rest ->
  loop_inv B0 ls P mx c0 (length pre_ls) s ->
  loop_inv B0 ls P mx c0 (length ls)
    (store_all (label_starts (length B0 + length (flat (firstn (length pre_ls) ls))) rest)
               (length B0 + length (flat ls)) s).
Proof.
  induction rest as [|l rest IH]; intros pre_ls s Els Hinv; cbn [label_starts store_all fold_left].
  - rewrite app_nil_r in Els. subst. exact Hinv.
  - set (j := length pre_ls) in *.
    assert (Hj : (j < length ls)%nat) by (rewrite Els, app_length; cbn [length]; unfold j; lia).
    destruct Hinv as (Hb & Ho & Hm & Hc & own & Hp & Hown).
    set (oj := (length B0 + length (flat (firstn j ls)))%nat) in *.
    set (last := (length B0 + length (flat ls))%nat) in *.
    assert (Hnext : loop_inv B0 ls P mx c0 (S j) (store_ptr oj last s)).
    { destruct (store_ptr_char oj last s) as (A1 & A2 & A3 & A4 & A5).
      unfold loop_inv. rewrite A1, A2, A3, A4. repeat split; auto.
      destruct A5 as [A5|[A5 Hlim]].
      - exists own. rewrite A5. split; [exact Hp|].
        eapply Forall_impl; [|exact Hown]. intros c (H1 & a & Ha & Hal & Hc'). split; [exact H1|]. exists a. repeat split; auto.
      - exists (own ++ [(oj, flat (skipn j ls))]). rewrite A5, Hp, <- app_assoc. split.
        + do 2 f_equal. unfold slice_of. rewrite Hb. rewrite <- (app_nil_r (flat ls)).
          f_equal. f_equal. apply (slice_suffix B0 ls j []). lia.
        + apply Forall_app. split.
          * eapply Forall_impl; [|exact Hown]. intros c (H1 & a & Ha & Hal & Hc'). split; [exact H1|]. exists a. repeat split; auto.
          * constructor; [|constructor]. split.
            -- cbn [fst]. pose proof (o_last B0 ls j ltac:(lia)) as HL. fold oj last in HL. rewrite Ho in Hlim. unfold last in *. lia.
            -- exists j. repeat split; auto. }
    assert (Eo : (oj + S (length l))%nat = (length B0 + length (flat (firstn (length (pre_ls ++ [l])) ls)))%nat).
    { rewrite app_length. cbn [length]. fold j. replace (j + 1)%nat with (S j) by lia.
      symmetry. apply (o_succ B0 ls). rewrite Els. unfold j. apply nth_error_app_mid. }
    change (fold_left (fun s0 i => store_ptr i last s0) (label_starts (oj + S (length l)) rest) (store_ptr oj last s))
      with (store_all (label_starts (oj + S (length l)) rest) last (store_ptr oj last s)).
    rewrite Eo. apply IH.
    + rewrite <- app_assoc. exact Els.
    + rewrite app_length. cbn [length]. fold j. replace (j + 1)%nat with (S j) by lia. exact Hnext.
Qed.

(* ------------------------------------------------------------------ *)
(* Name::emit round trip                                               *)
(* ------------------------------------------------------------------ *)

(* emit_name with the mode resolved into (compression?, case-adjusted labels) *)
Definition emit_name' (compression : bool) (ls : name) (st : enc) : res enc :=
  let buf_len := length (buf st) in
  do '(starts, st1) <- emit_labels ls st [];
  let last := off st1 in
  let finish (st2 : enc) :=
    do st3 <- emit_u8 0 st2;
    if (255 <? length (buf st3) - buf_len)%nat then Err ENameTooLong st3 else Ok st3 in
  if compression then
    do '(done, st2) <- compress_loop starts last (set_cnt st1 (S (cnt st1)));
    if done then Ok st2 else finish st2
  else finish (store_all starts last st1).

Lemma emit_name_unfold mode n st :
  emit_name mode n st =
  emit_name' (match mode with Compressed => (cnt st <? 120)%nat | _ => false end) (cased mode n) st.
Proof. destruct mode; reflexivity. Qed.

Theorem emit_name_rt st F mode n st' :
  off st = length (buf st) ->
  Forall (fun c => (fst c < off st)%nat) (ptrs st) ->
  PtrInv st F ->
  (forall i, In i F -> (i < off st)%nat) ->
  wf_name (cased mode n) ->
  emit_name mode n st = Ok st' ->
  (exists sup, Dec (buf st') (off st) (off st) (cased mode n) (off st') sup /\
               (forall i, In i sup -> ~ In i F)) /\
  PtrInv st' F /\ off st' = length (buf st') /\
  Forall (fun c => (fst c < off st')%nat) (ptrs st').
Proof.
  intros Ho HPlt HPI HF Hwf E. rewrite emit_name_unfold in E. unfold emit_name' in E.
  set (comp := match mode with Compressed => (cnt st <? 120)%nat | _ => false end) in *.
  set (ls := cased mode n) in *. set (B0 := buf st) in *.
  destruct (emit_labels ls st []) as [[starts s1]|] eqn:EL; cbn [bind] in E; [|discriminate].
  destruct (emit_labels_char ls st [] starts s1 EL Ho) as (A1 & A2 & A3 & A4 & A5 & A6 & _).
  cbn [app] in A3. fold B0 in A1. rewrite Ho in A2, A3. fold B0 in A2, A3.
  assert (HPlt' : Forall (fun c => (fst c < length B0)%nat /\ N.of_nat (fst c) < 16383) (ptrs st)).
  { unfold PtrInv in HPI. rewrite Forall_forall in *. intros c Hc. split.
    - specialize (HPlt c Hc). rewrite Ho in HPlt. exact HPlt.
    - destruct (HPI c Hc) as [H _]. exact H. }
  assert (HPlt'' : Forall (fun c => (fst c < length B0)%nat) (ptrs st)).
  { eapply Forall_impl; [|exact HPlt']. intros c [H _]; exact H. }
  assert (HF' : forall i, In i F -> (i < length B0)%nat) by (intros i Hi; specialize (HF i Hi); rewrite Ho in HF; exact HF).
  assert (Estarts : starts = label_starts (length B0 + length (flat (firstn (@length label []) ls))) ls).
  { cbn [length firstn flat map concat]. rewrite Nat.add_0_r. exact A3. }
  (* the common ending: write the root byte *)
  assert (Hfinish : forall s2, loop_inv B0 ls (ptrs st) (maxsz s1) (cnt s2) (length ls) s2 ->
            (do st3 <- emit_u8 0 s2;
             if (255 <? length (buf st3) - length (buf st))%nat then Err ENameTooLong st3 else Ok st3) = Ok st' ->
            (exists sup, Dec (buf st') (off st) (off st) ls (off st') sup /\ (forall i, In i sup -> ~ In i F)) /\
            PtrInv st' F /\ off st' = length (buf st') /\ Forall (fun c => (fst c < off st')%nat) (ptrs st')).
  { intros s2 (Hb & Ho2 & Hm & _ & own & Hp & Hown) E2.
    unfold emit_u8 in E2. destruct (emit_slice [0 mod 256] s2) as [s3|] eqn:E3; cbn [bind] in E2; [|discriminate].
    apply emit_slice_char in E3; [|rewrite Ho2, Hb, app_length; reflexivity].
    destruct (255 <? _)%nat; [discriminate|]. inversion E2; subst st'. subst s3. cbn [buf off ptrs].
    change (0 mod 256) with 0. rewrite Hb, Hp, <- app_assoc.
    destruct (final_root B0 ls (ptrs st) F Hwf HF' HPI own Hown) as [(sup & HD & Hav) HC].
    cbv zeta in HD, HC.
    repeat split.
    - exists sup. split; [|exact Hav]. rewrite Ho. fold B0. rewrite Ho2. cbn [length].
      rewrite !app_length in HD. cbn [length] in HD.
      replace (length B0 + length (flat ls) + 1)%nat with (length B0 + (length (flat ls) + 1))%nat by lia. exact HD.
    - exact HC.
    - rewrite Ho2, !app_length. cbn [length]. lia.
    - rewrite Ho2. apply Forall_app. split.
      + eapply Forall_impl; [|exact HPlt'']. cbn. intros; lia.
      + eapply Forall_impl; [|exact Hown]. intros c (_ & a & Ha & Hal & ->). cbn [fst length].
        pose proof (o_last B0 ls a ltac:(lia)) as HL. cbv zeta in HL. unfold byte, label in *. lia. }
  assert (Hinv0 : forall c, loop_inv B0 ls (ptrs st) (maxsz s1) c (@length label []) (set_cnt s1 c)).
  { intros c. unfold loop_inv, set_cnt; cbn [buf off maxsz cnt ptrs]. repeat split; auto.
    exists []. rewrite app_nil_r. split; [exact A4|constructor]. }
  destruct comp.
  - (* compression on *)
    destruct (compress_loop starts (off s1) (set_cnt s1 (S (cnt s1)))) as [[done s2]|] eqn:EC; cbn [bind] in E; [|discriminate].
    rewrite A2, Estarts in EC.
    pose proof (loop_spec B0 ls (ptrs st) (maxsz s1) (S (cnt s1)) HPlt' ls [] _ done s2 eq_refl (Hinv0 _) EC) as R.
    destruct R as [[-> Hinv]|(-> & k & loc & own & Hk & Hin & Hloc & Hb & Ho2 & Hm & Hc & Hp & Hown)].
    + apply (Hfinish s2); [|exact E].
      destruct Hinv as (H1 & H2 & H3 & H4 & H5). repeat split; auto.
    + inversion E; subst st'.
      destruct (final_ptr B0 ls (ptrs st) F Hwf HF' HPI HPlt'' k loc own ltac:(lia) Hin Hloc Hown) as [(sup & HD & Hav) HC].
      cbv zeta in HD, HC. rewrite <- Hb in HD, HC.
      repeat split.
      * exists sup. split; [|exact Hav]. rewrite Ho. fold B0. rewrite Ho2. exact HD.
      * unfold PtrInv. rewrite Hp. exact HC.
      * exact Ho2.
      * rewrite Hp, Ho2, Hb. apply Forall_app. split.
        -- eapply Forall_impl; [|exact HPlt'']. cbn. intros. rewrite app_length. lia.
        -- eapply Forall_impl; [|exact Hown]. intros c (_ & a & Ha & Hal & ->). cbn [fst].
           rewrite !app_length.
           pose proof (o_mono B0 ls a k ltac:(lia)) as Hmono. cbv zeta in Hmono. unfold byte, label in *. lia.
  - (* compression off: every label start is stored *)
    apply (Hfinish (store_all starts (off s1) s1)); [|exact E].
    rewrite A2, Estarts.
    pose proof (store_all_spec B0 ls (ptrs st) (maxsz s1) (cnt s1) Hwf ls [] (set_cnt s1 (cnt s1)) eq_refl (Hinv0 _)) as R.
    replace (set_cnt s1 (cnt s1)) with s1 in R by (destruct s1; reflexivity).
    destruct R as (H1 & H2 & H3 & H4 & H5). repeat split; auto.
Qed.
