(* C02 — the crux of the codec round trip: Name::emit with the compression table (C03.Model's
   byte-exact encoder model) always leaves a name that decodes (Spec.Dec) to exactly the label
   sequence written, and keeps every candidate of the table decodable. *)
From HV Require Import Lib.Base Lib.ListX C03.Model C03.Inv C02.Spec.
Open Scope N_scope.

(* ------------------------------------------------------------------ *)
(* list / slice facts                                                  *)
(* ------------------------------------------------------------------ *)

Lemma list_eq_nth_error {A} (l l' : list A) :
  (forall i, nth_error l i = nth_error l' i) -> l = l'.
Proof.
  revert l'; induction l as [|x l IH]; intros [|y l'] H.
  - reflexivity.
  - specialize (H O); discriminate.
  - specialize (H O); discriminate.
  - pose proof (H O) as H0; cbn in H0. inversion H0; subst. f_equal.
    apply IH. intros i. exact (H (S i)).
Qed.

Lemma nth_error_skipn' {A} (l : list A) n i : nth_error (skipn n l) i = nth_error l (n + i).
Proof.
  revert l; induction n as [|n IH]; intros l; cbn [skipn plus]; [reflexivity|].
  destruct l as [|x l]; [now destruct i|]. cbn [nth_error]. apply IH.
Qed.

Lemma nth_error_firstn' {A} (l : list A) n i :
  nth_error (firstn n l) i = if (i <? n)%nat then nth_error l i else None.
Proof.
  revert l i; induction n as [|n IH]; intros l i; cbn [firstn].
  - now destruct i.
  - destruct l as [|x l]; [destruct i; cbn [nth_error]; now destruct (Nat.ltb _ _)|].
    destruct i as [|i]; cbn [nth_error]; [reflexivity|]. rewrite IH.
    change (S i <? S n)%nat with (i <? n)%nat. reflexivity.
Qed.

Lemma nth_error_slice buf s e i :
  nth_error (slice buf s e) i = if (i <? e - s)%nat then nth_error buf (s + i) else None.
Proof. unfold slice. rewrite nth_error_firstn', nth_error_skipn'. reflexivity. Qed.

Lemma slice_agree buf buf' s e :
  (forall i, (s <= i < e)%nat -> nth_error buf' i = nth_error buf i) ->
  slice buf' s e = slice buf s e.
Proof.
  intros H. apply list_eq_nth_error. intros i. rewrite !nth_error_slice.
  destruct (Nat.ltb_spec i (e - s)); [|reflexivity]. apply H. lia.
Qed.

Lemma slice_app_mid (pre x post : list byte) :
  slice (pre ++ x ++ post) (length pre) (length pre + length x) = x.
Proof.
  unfold slice. rewrite skipn_app, skipn_all, Nat.sub_diag. cbn [skipn app].
  replace (length pre + length x - length pre)%nat with (length x) by lia.
  rewrite firstn_app, firstn_all, Nat.sub_diag. cbn [firstn]. now rewrite app_nil_r.
Qed.

Lemma nth_error_app_mid {A} (pre : list A) x post :
  nth_error (pre ++ x :: post) (length pre) = Some x.
Proof. rewrite nth_error_app2 by lia. now rewrite Nat.sub_diag. Qed.

(* ------------------------------------------------------------------ *)
(* Dec: support, stability                                             *)
(* ------------------------------------------------------------------ *)

Lemma Dec_sup_lt buf pos bound ls e sup :
  Dec buf pos bound ls e sup -> forall i, In i sup -> (i < length buf)%nat.
Proof.
  induction 1 as [pos bound H|pos bound l ls e sup Hw Hn Hs HD IH|pos bound b1 b2 tgt ls e' sup H1 Hb1 H2 Hb2 Ht Hlt HD IH];
    intros i Hi.
  - destruct Hi as [<-|[]]. apply nth_error_Some. congruence.
  - apply in_app_or in Hi. destruct Hi as [Hi|Hi]; [|now apply IH].
    apply in_seq in Hi.
    assert (length (slice buf (S pos) (S pos + length l)) = length l) by now rewrite Hs.
    unfold slice in H. rewrite firstn_length, skipn_length in H. unfold wf_label in Hw. lia.
  - destruct Hi as [<-|[<-|Hi]]; [apply nth_error_Some; congruence|apply nth_error_Some; congruence|now apply IH].
Qed.

Lemma Dec_agree buf buf' pos bound ls e sup :
  Dec buf pos bound ls e sup ->
  (forall i, In i sup -> nth_error buf' i = nth_error buf i) ->
  Dec buf' pos bound ls e sup.
Proof.
  induction 1 as [pos bound H|pos bound l ls e sup Hw Hn Hs HD IH|pos bound b1 b2 tgt ls e' sup H1 Hb1 H2 Hb2 Ht Hlt HD IH];
    intros Hag.
  - constructor. rewrite Hag by (left; reflexivity). exact H.
  - constructor; [exact Hw| | |].
    + rewrite Hag; [exact Hn|]. apply in_or_app; left. apply in_seq. lia.
    + rewrite <- Hs at 2. apply slice_agree. intros i Hi. apply Hag.
      apply in_or_app; left. apply in_seq. lia.
    + apply IH. intros i Hi. apply Hag. apply in_or_app; right; exact Hi.
  - econstructor; try eassumption.
    + rewrite Hag by (left; reflexivity). exact H1.
    + rewrite Hag by (right; left; reflexivity). exact H2.
    + apply IH. intros i Hi. apply Hag. right; right; exact Hi.
Qed.

(* a decoding inside a prefix survives anything appended or rewritten beyond it *)
Lemma Dec_prefix B0 buf' pos bound ls e sup :
  Dec B0 pos bound ls e sup -> firstn (length B0) buf' = B0 -> Dec buf' pos bound ls e sup.
Proof.
  intros HD Hp. eapply Dec_agree; [exact HD|]. intros i Hi.
  pose proof (Dec_sup_lt _ _ _ _ _ _ HD i Hi) as Hlt.
  transitivity (nth_error (firstn (length B0) buf') i); [|now rewrite Hp].
  rewrite nth_error_firstn'.
  destruct (Nat.ltb_spec i (length B0)); [reflexivity|lia].
Qed.

(* ------------------------------------------------------------------ *)
(* flat: byte image of a label run                                     *)
(* ------------------------------------------------------------------ *)

Lemma flat_cons l ls : flat (l :: ls) = N.of_nat (length l) :: l ++ flat ls.
Proof. reflexivity. Qed.

Lemma flat_app a b : flat (a ++ b) = flat a ++ flat b.
Proof. unfold flat. now rewrite map_app, concat_app. Qed.

Lemma flat_length_pos ls : ls <> [] -> (0 < length (flat ls))%nat.
Proof. destruct ls; [congruence|]. intros _. rewrite flat_cons. cbn [length]. lia. Qed.

Lemma flat_inj a b : wf_name a -> wf_name b -> flat a = flat b -> a = b.
Proof.
  revert b; induction a as [|x a IH]; intros [|y b] Ha Hb E.
  - reflexivity.
  - rewrite flat_cons in E. discriminate.
  - rewrite flat_cons in E. discriminate.
  - rewrite !flat_cons in E. inversion Ha; inversion Hb; subst.
    inversion E as [[E1 E2]]. apply Nat2N.inj in E1.
    assert (x = y /\ flat a = flat b) as [-> E3].
    { clear - E1 E2. revert y E1 E2. induction x as [|c x IHx]; intros [|d y] E1 E2; cbn [length] in E1; try lia.
      - split; [reflexivity|exact E2].
      - cbn [app] in E2. inversion E2; subst. destruct (IHx y) as [-> ?]; [lia|assumption|]. split; [reflexivity|assumption]. }
    f_equal. apply IH; assumption.
Qed.

(* start offsets of the labels of [ls] written from offset [o] *)
Fixpoint label_starts (o : nat) (ls : name) : list nat :=
  match ls with
  | [] => []
  | l :: ls' => o :: label_starts (o + S (length l)) ls'
  end.

Lemma label_starts_nth o ls j :
  (j < length ls)%nat -> nth_error (label_starts o ls) j = Some (o + length (flat (firstn j ls)))%nat.
Proof.
  revert o j; induction ls as [|l ls IH]; intros o j Hj; cbn [length] in Hj; [lia|].
  destruct j as [|j]; cbn [label_starts nth_error firstn].
  - cbn. f_equal. lia.
  - rewrite IH by lia. rewrite flat_cons. cbn [length]. rewrite app_length. f_equal. lia.
Qed.

Lemma flat_cons' l ls : flat (l :: ls) = (N.of_nat (length l) :: l) ++ flat ls.
Proof. reflexivity. Qed.

Lemma Dec_label_step pre l rest bound ls e sup :
  wf_label l ->
  Dec (pre ++ (N.of_nat (length l) :: l) ++ rest) (length pre + S (length l)) bound ls e sup ->
  Dec (pre ++ (N.of_nat (length l) :: l) ++ rest) (length pre) bound (l :: ls) e
      (seq (length pre) (S (length l)) ++ sup).
Proof.
  intros Hl HD. constructor; [exact Hl| | |].
  - cbn [app]. apply nth_error_app_mid.
  - cbn [app]. change (pre ++ N.of_nat (length l) :: l ++ rest)
      with (pre ++ [N.of_nat (length l)] ++ l ++ rest).
    rewrite app_assoc.
    replace (S (length pre)) with (length (pre ++ [N.of_nat (length l)])) by (rewrite app_length; cbn; lia).
    apply slice_app_mid.
  - replace (S (length pre) + length l)%nat with (length pre + S (length l))%nat by lia. exact HD.
Qed.

(* labels followed by the root byte decode to the labels *)
Lemma Dec_flat_root pre ls post bound :
  wf_name ls ->
  exists sup, Dec (pre ++ flat ls ++ 0 :: post) (length pre) bound ls (length pre + length (flat ls) + 1) sup /\
              forall i, In i sup -> (length pre <= i)%nat.
Proof.
  revert pre; induction ls as [|l ls IH]; intros pre Hw.
  - cbn [flat map concat app length]. exists [length pre]. split.
    + replace (length pre + 0 + 1)%nat with (S (length pre)) by lia. constructor. apply nth_error_app_mid.
    + intros i [<-|[]]. lia.
  - inversion Hw as [|? ? Hl Hls]; subst.
    destruct (IH (pre ++ (N.of_nat (length l) :: l)) Hls) as (sup & HD & Hsup).
    rewrite app_length in HD, Hsup. cbn [length] in HD, Hsup.
    rewrite <- app_assoc in HD.
    rewrite flat_cons'. rewrite <- app_assoc.
    exists (seq (length pre) (S (length l)) ++ sup). split.
    + match goal with |- Dec _ _ _ _ ?e _ =>
        replace e with (length pre + S (length l) + length (flat ls) + 1)%nat
          by (unfold byte, label in *; rewrite ?app_length; cbn [length]; lia) end.
      apply Dec_label_step; [exact Hl|exact HD].
    + intros i Hi. apply in_app_or in Hi. destruct Hi as [Hi|Hi]; [apply in_seq in Hi; lia|].
      specialize (Hsup i Hi). lia.
Qed.

(* labels followed by a pointer decode to the labels then whatever the target decodes to *)
Lemma Dec_flat_ptr pre ls b1 b2 post bound tgt ls2 e2 sup2 :
  wf_name ls -> 192 <= b1 < 256 -> b2 < 256 ->
  tgt = N.to_nat ((b1 - 192) * 256 + b2) -> (tgt < bound)%nat ->
  Dec (pre ++ flat ls ++ b1 :: b2 :: post) tgt tgt ls2 e2 sup2 ->
  exists sup, Dec (pre ++ flat ls ++ b1 :: b2 :: post) (length pre) bound (ls ++ ls2)
                  (length pre + length (flat ls) + 2) sup /\
              forall i, In i sup -> (length pre <= i)%nat \/ In i sup2.
Proof.
  revert pre; induction ls as [|l ls IH]; intros pre Hw Hb1 Hb2 Ht Hlt HD2.
  - cbn [flat map concat app length] in *. exists (length pre :: S (length pre) :: sup2). split.
    + replace (length pre + 0 + 2)%nat with (S (S (length pre))) by lia.
      econstructor; try eassumption.
      * apply nth_error_app_mid.
      * change (pre ++ b1 :: b2 :: post) with (pre ++ [b1] ++ b2 :: post). rewrite app_assoc.
        replace (S (length pre)) with (length (pre ++ [b1])) by (rewrite app_length; cbn; lia).
        apply nth_error_app_mid.
    + intros i [<-|[<-|Hi]]; [left; lia|left; lia|right; exact Hi].
  - unfold wf_name in Hw. apply Forall_cons_iff in Hw. destruct Hw as [Hl Hls].
    rewrite flat_cons' in *. rewrite <- app_assoc in *.
    assert (HD2' : Dec ((pre ++ (N.of_nat (length l) :: l)) ++ flat ls ++ b1 :: b2 :: post) tgt tgt ls2 e2 sup2)
      by (rewrite <- app_assoc; exact HD2).
    destruct (IH (pre ++ (N.of_nat (length l) :: l)) Hls Hb1 Hb2 Ht Hlt HD2') as (sup & HD & Hsup).
    rewrite app_length in HD, Hsup. cbn [length] in HD, Hsup.
    rewrite <- app_assoc in HD.
    exists (seq (length pre) (S (length l)) ++ sup). split.
    + match goal with |- Dec _ _ _ _ ?e _ =>
        replace e with (length pre + S (length l) + length (flat ls) + 2)%nat
          by (unfold byte, label in *; rewrite ?app_length; cbn [length]; lia) end.
      change ((l :: ls) ++ ls2) with (l :: (ls ++ ls2)).
      apply Dec_label_step; [exact Hl|exact HD].
    + intros i Hi. apply in_app_or in Hi. destruct Hi as [Hi|Hi]; [apply in_seq in Hi; left; lia|].
      destruct (Hsup i Hi) as [H|H]; [left; lia|right; exact H].
Qed.
