(* C02 — the executable reference decoder only ever returns what the relational spec allows *)
From HV Require Import Lib.Base Lib.ListX C02.Spec C02.Model C02.NameRt.
Open Scope N_scope.

Lemma dec_fuel_sound : forall fuel buf pos bound ls e,
  dec_fuel fuel buf pos bound = Some (ls, e) -> exists sup, Dec buf pos bound ls e sup.
Proof.
  induction fuel as [|f IH]; intros buf pos bound ls e H; cbn [dec_fuel] in H; [discriminate|].
  destruct (nth_error buf pos) as [b|] eqn:Eb; [|discriminate].
  destruct (N.eqb_spec b 0) as [->|Hb0].
  - inversion H; subst. eexists. constructor. exact Eb.
  - destruct (N.ltb_spec b 64) as [Hb64|Hb64].
    + set (len := N.to_nat b) in *.
      destruct (Nat.eqb_spec (length (slice buf (S pos) (S pos + len))) len) as [Hl|]; [|discriminate].
      destruct (dec_fuel f buf (S pos + len) bound) as [[ls' e']|] eqn:Er; [|discriminate].
      inversion H; subst. destruct (IH _ _ _ _ _ Er) as (sup & HD).
      eexists. rewrite <- Hl in HD at 1.
      apply (DLabel buf pos bound (slice buf (S pos) (S pos + len)) ls' e sup).
      * unfold wf_label. rewrite Hl. unfold len. lia.
      * rewrite Hl. unfold len. rewrite N2Nat.id. exact Eb.
      * rewrite Hl. reflexivity.
      * exact HD.
    + destruct (N.leb_spec 192 b) as [H192|]; cbn [andb] in H; [|discriminate].
      destruct (N.ltb_spec b 256) as [H256|]; [|discriminate].
      destruct (nth_error buf (S pos)) as [b2|] eqn:Eb2; [|discriminate].
      destruct (N.ltb_spec b2 256) as [Hb2|]; [|discriminate].
      destruct (Nat.ltb_spec (N.to_nat ((b - 192) * 256 + b2)) bound) as [Ht|]; [|discriminate].
      destruct (dec_fuel f buf _ _) as [[ls' e']|] eqn:Er; [|discriminate].
      inversion H; subst. destruct (IH _ _ _ _ _ Er) as (sup & HD).
      eexists. eapply DPtr; try eassumption; try reflexivity. lia.
Qed.

Lemma dec_name_sound buf pos ls e :
  dec_name buf pos = Some (ls, e) -> exists sup, Dec buf pos pos ls e sup.
Proof. apply dec_fuel_sound. Qed.

(* Dec is functional: a position decodes to at most one name *)
Lemma Dec_fun buf pos bound ls e sup : Dec buf pos bound ls e sup ->
  forall ls' e' sup', Dec buf pos bound ls' e' sup' -> ls' = ls /\ e' = e.
Proof.
  induction 1 as [pos bound H|pos bound l ls e sup Hw Hn Hs HD IH|pos bound b1 b2 tgt ls e' sup H1 Hb1 H2 Hb2 Ht Hlt HD IH];
    intros ls' e2 sup' H'.
  - inversion H'; subst; try (split; reflexivity).
    + unfold wf_label in *. assert (N.of_nat (length l) = 0) by congruence. lia.
    + assert (b1 = 0) by congruence. lia.
  - inversion H' as [? ? H0|? ? l2 ls2 ? ? Hw2 Hn2 Hs2 HD2|? ? c1 c2 ? ? ? ? K1 Kb1 K2 Kb2 Kt Klt KD]; subst.
    + unfold wf_label in *. assert (N.of_nat (length l) = 0) by congruence. lia.
    + assert (El : length l2 = length l) by (apply Nat2N.inj; congruence).
      assert (l2 = l) by (rewrite <- Hs, <- Hs2, El; reflexivity). subst l2.
      destruct (IH _ _ _ HD2) as [-> ->]. split; reflexivity.
    + unfold wf_label in *. assert (c1 = N.of_nat (length l)) by congruence. lia.
  - inversion H' as [? ? H0|? ? l2 ls2 ? ? Hw2 Hn2 Hs2 HD2|? ? c1 c2 ? ? ? ? K1 Kb1 K2 Kb2 Kt Klt KD]; subst.
    + assert (b1 = 0) by congruence. lia.
    + unfold wf_label in *. assert (b1 = N.of_nat (length l2)) by congruence. lia.
    + assert (c1 = b1) by congruence. assert (c2 = b2) by congruence. subst.
      destruct (IH _ _ _ KD) as [-> _]. split; reflexivity.
Qed.
