(* C02 — specification side of the name round trip: what it means for a wire name to decode at a
   position of a buffer (RFC 1035 §4.1.4, with the implementation's stricter pointer rule:
   a pointer must point strictly before the start of the name segment being read, and the
   segment reached through it becomes the new bound).  Relational, no fuel; [sup] records every
   buffer position the decoding looks at, so that stability under later writes is a lemma. *)
From HV Require Import Lib.Base Lib.ListX.
Open Scope N_scope.

Definition label := list byte.
Definition name := list label.

(* the byte image of a label sequence without terminator: what the encoder's candidate table holds *)
Definition flat (ls : name) : list byte := concat (map (fun l => N.of_nat (length l) :: l) ls).

Definition wf_label (l : label) : Prop := (1 <= length l <= 63)%nat.
Definition wf_name (n : name) : Prop := Forall wf_label n.

Definition slice (buf : list byte) (s e : nat) : list byte := firstn (e - s) (skipn s buf).

(* Dec buf pos bound ls e sup: reading a name at [pos] (pointers must target < bound) yields labels
   [ls], the reader continues at [e], and looked only at the positions in [sup] *)
Inductive Dec (buf : list byte) : nat -> nat -> name -> nat -> list nat -> Prop :=
| DRoot pos bound :
    nth_error buf pos = Some 0 ->
    Dec buf pos bound [] (S pos) [pos]
| DLabel pos bound l ls e sup :
    wf_label l ->
    nth_error buf pos = Some (N.of_nat (length l)) ->
    slice buf (S pos) (S pos + length l) = l ->
    Dec buf (S pos + length l) bound ls e sup ->
    Dec buf pos bound (l :: ls) e (seq pos (S (length l)) ++ sup)
| DPtr pos bound b1 b2 tgt ls e' sup :
    nth_error buf pos = Some b1 -> 192 <= b1 < 256 ->
    nth_error buf (S pos) = Some b2 -> b2 < 256 ->
    tgt = N.to_nat ((b1 - 192) * 256 + b2) ->
    (tgt < bound)%nat ->
    Dec buf tgt tgt ls e' sup ->
    Dec buf pos bound ls (S (S pos)) (pos :: S pos :: sup).
