(* C02 — correspondence glue.  CRt: a message of the modelled subset with the bytes the real
   Message::to_vec produced: the encoder model must give the same bytes, and the reference decoder
   must re-read from those bytes every question and record of the message (names through the
   compression pointers), ending exactly at the end.  COracle: cases outside the modelled subset,
   judged by the harness's direct oracle only. *)
From HV Require Import Lib.Base Lib.Pack C02.Model.
Open Scope N_scope.

Inductive case :=
| CRt (m : msg) (out : pbytes)
| COracle (tag : N).

Definition check (c : case) : bool :=
  match c with
  | CRt m out =>
      let b := unpack out in
      match encode (N.to_nat 65535) m with
      | OBytes b' => bytes_eqb b' b && check_msg b m
      | OErr _ => false
      end
  | COracle _ => true
  end.

Definition bad (cs : list case) : list N := bad_idx check 0 cs.

Definition show (c : case) :=
  match c with
  | CRt m out =>
      match encode (N.to_nat 65535) m with
      | OBytes b' => (0, b', check_msg (unpack out) m)
      | OErr _ => (1, [], false)
      end
  | COracle t => (2, [], true)
  end.
