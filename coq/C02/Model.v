(* C02 — the encoder model is C03's (byte-exact model of BinEncoder / Name::emit / Record::emit /
   emit_message_parts); this file adds the executable reference decoder used to re-read what the
   encoder wrote.  No proofs here. *)
From HV Require Export Lib.Base C03.Model.
From HV Require Import C02.Spec.
Open Scope N_scope.

(* executable version of Spec.Dec (same pointer rule: target strictly below [bound]; the target
   becomes the new bound).  Returns the labels and the position after the name. *)
Fixpoint dec_fuel (fuel : nat) (buf : list byte) (pos bound : nat) : option (name * nat) :=
  match fuel with
  | O => None
  | S f =>
    match nth_error buf pos with
    | None => None
    | Some b =>
      if b =? 0 then Some ([], S pos)
      else if b <? 64 then
        let len := N.to_nat b in
        let l := slice buf (S pos) (S pos + len)%nat in
        if (length l =? len)%nat then
          match dec_fuel f buf (S pos + len)%nat bound with
          | Some (ls, e) => Some (l :: ls, e)
          | None => None
          end
        else None
      else if (192 <=? b) && (b <? 256) then
        match nth_error buf (S pos) with
        | Some b2 =>
            if b2 <? 256 then
              let tgt := N.to_nat ((b - 192) * 256 + b2) in
              if (tgt <? bound)%nat then
                match dec_fuel f buf tgt tgt with
                | Some (ls, _) => Some (ls, S (S pos))
                | None => None
                end
              else None
            else None
        | None => None
        end
      else None
    end
  end.

Definition dec_name (buf : list byte) (pos : nat) : option (name * nat) :=
  dec_fuel (S (length buf)) buf pos pos.

Definition name_eqb (a b : name) : bool := list_eqb bytes_eqb a b.

Definition cased (mode : nmode) (n : name) : name :=
  match mode with Lowercase => map (map lower) n | _ => n end.

(* re-read one record written by emit_rec at [pos]: owner, type, class, ttl, rdlength, parts *)
Fixpoint check_parts (buf : list byte) (pos : nat) (ps : list part) : option nat :=
  match ps with
  | [] => Some pos
  | PBytes b :: ps' =>
      if bytes_eqb (slice buf pos (pos + length b)%nat) b then check_parts buf (pos + length b)%nat ps' else None
  | PName m n :: ps' =>
      match dec_name buf pos with
      | Some (n', e) => if name_eqb n' (cased m n) then check_parts buf e ps' else None
      | None => None
      end
  end.

Definition check_rec (buf : list byte) (pos : nat) (r : rec) : option nat :=
  match dec_name buf pos with
  | Some (n', e) =>
      if name_eqb n' (rname r) then
        let fixed := be16 (rtype r) ++ be16 (rclass r) ++ be32 (rttl r) in
        if bytes_eqb (slice buf e (e + 8)%nat) fixed then
          match check_parts buf (e + 10)%nat (rparts r) with
          | Some e2 =>
              if bytes_eqb (slice buf (e + 8)%nat (e + 10)%nat) (be16 (N.of_nat (e2 - (e + 10)))) then Some e2 else None
          | None => None
          end
        else None
      else None
  | None => None
  end.

Definition check_query (buf : list byte) (pos : nat) (q : query) : option nat :=
  match dec_name buf pos with
  | Some (n', e) =>
      if name_eqb n' (qname q) && bytes_eqb (slice buf e (e + 4)%nat) (be16 (qtype q) ++ be16 (qclass q))
      then Some (e + 4)%nat else None
  | None => None
  end.

Fixpoint check_all {A} (chk : list byte -> nat -> A -> option nat) (buf : list byte) (pos : nat) (xs : list A) : option nat :=
  match xs with
  | [] => Some pos
  | x :: xs' => match chk buf pos x with Some e => check_all chk buf e xs' | None => None end
  end.

(* re-read a whole untruncated encoding: header counts, then every question and record in order,
   ending exactly at the end of the buffer *)
Definition check_msg (buf : list byte) (m : msg) : bool :=
  let recs := manswers m ++ mauth m ++ madd m ++ opt_list (medns m) ++ opt_list (msig m) in
  bytes_eqb (firstn 12 buf)
    (header_bytes m (mtc m) (length (mqueries m)) (length (manswers m)) (length (mauth m))
       (length (madd m) + length (opt_list (medns m)) + length (opt_list (msig m)))%nat) &&
  match check_all check_query buf 12 (mqueries m) with
  | Some e => match check_all check_rec buf e recs with
              | Some e2 => (e2 =? length buf)%nat
              | None => false
              end
  | None => false
  end.
