(* C02 — record level: what Record::emit (C03.Model.emit_rec) writes can be read back — owner name
   (through the compression table), TYPE/CLASS/TTL, RDLENGTH = actual length, every RDATA part
   (raw runs byte for byte, embedded names through Spec.Dec) — and stays readable under everything
   the encoder does later (appends, rollbacks above it, RDLENGTH / header back-patches). *)
From HV Require Import Lib.Base Lib.ListX C03.Model C03.Inv C02.Spec C02.Model C02.NameRt C02.EmitName.
Open Scope N_scope.

(* ------------------------------------------------------------------ *)
(* reading a record back                                               *)
(* ------------------------------------------------------------------ *)

Fixpoint parts_at (buf : list byte) (pos : nat) (ps : list part) (e : nat) (F : list nat) : Prop :=
  match ps with
  | [] => e = pos
  | PBytes b :: ps' =>
      slice buf pos (pos + length b) = b /\
      parts_at buf (pos + length b) ps' e F
  | PName m n :: ps' =>
      exists e1 sup, Dec buf pos pos (cased m n) e1 sup /\ (forall i, In i sup -> ~ In i F) /\
                     parts_at buf e1 ps' e F
  end.

Definition fixed_fields (r : rec) : list byte := be16 (rtype r) ++ be16 (rclass r) ++ be32 (rttl r).

Definition rec_at (buf : list byte) (pos : nat) (r : rec) (e : nat) (F : list nat) : Prop :=
  exists e1 sup1,
    Dec buf pos pos (rname r) e1 sup1 /\ (forall i, In i sup1 -> ~ In i F) /\
    slice buf e1 (e1 + 8) = fixed_fields r /\
    slice buf (e1 + 8) (e1 + 10) = be16 (N.of_nat (e - (e1 + 10))) /\
    parts_at buf (e1 + 10) (rparts r) e F.

Definition part_wf (p : part) : Prop :=
  match p with PName m n => wf_name (cased m n) | PBytes _ => True end.
Definition rec_wf (r : rec) : Prop := wf_name (rname r) /\ Forall part_wf (rparts r).

(* buffers that agree below [n] except on the back-patch positions [F] *)
Definition agree (n : nat) (F : list nat) (buf buf' : list byte) : Prop :=
  forall i, (i < n)%nat -> ~ In i F -> nth_error buf' i = nth_error buf i.

Lemma agree_refl n F buf : agree n F buf buf.
Proof. intros i _ _. reflexivity. Qed.

Lemma agree_trans n n' F b1 b2 b3 : (n <= n')%nat ->
  agree n F b1 b2 -> agree n' F b2 b3 -> agree n F b1 b3.
Proof. intros Hn H1 H2 i Hi HF. rewrite H2 by (try lia; exact HF). apply H1; assumption. Qed.

Lemma Dec_pos_lt buf pos bound ls e sup : Dec buf pos bound ls e sup -> (pos < e)%nat.
Proof.
  induction 1 as [pos bound H|pos bound l ls e sup Hw Hn Hs HD IH|pos bound b1 b2 tgt ls e' sup H1 Hb1 H2 Hb2 Ht Hlt HD IH]; lia.
Qed.

Lemma Dec_agree_below buf buf' F pos bound ls e sup :
  Dec buf pos bound ls e sup -> (forall i, In i sup -> ~ In i F) ->
  agree (length buf) F buf buf' -> Dec buf' pos bound ls e sup.
Proof.
  intros HD Hav Hag. eapply Dec_agree; [exact HD|]. intros i Hi.
  apply Hag; [eapply Dec_sup_lt; eassumption|apply Hav; exact Hi].
Qed.

Lemma slice_agree_below buf buf' F s e :
  (e <= length buf)%nat -> (forall i, In i F -> (i < s)%nat) ->
  agree (length buf) F buf buf' -> slice buf' s e = slice buf s e.
Proof.
  intros He HF Hag. apply slice_agree. intros i Hi. apply Hag; [unfold byte in *; lia|].
  intros Hin. specialize (HF i Hin). lia.
Qed.

Lemma slice_len_bound buf s e x :
  slice buf s e = x -> length x = (e - s)%nat -> (s < e)%nat -> (e <= length buf)%nat.
Proof.
  intros Hs Hl Hlt. apply (f_equal (@length _)) in Hs. unfold slice in Hs.
  rewrite firstn_length, skipn_length in Hs. lia.
Qed.

Lemma parts_at_agree buf buf' F : forall ps pos e,
  parts_at buf pos ps e F -> (forall i, In i F -> (i < pos)%nat) ->
  agree (length buf) F buf buf' -> parts_at buf' pos ps e F.
Proof.
  induction ps as [|p ps IH]; intros pos e H HF Hag; cbn [parts_at] in *; [exact H|].
  destruct p as [b|m n].
  - destruct H as (Hs & Hr). split.
    + destruct b as [|x b].
      * unfold slice. cbn [length]. rewrite Nat.add_0_r, Nat.sub_diag. reflexivity.
      * rewrite <- Hs at 2. eapply slice_agree_below; [|exact HF|exact Hag].
        eapply slice_len_bound; [exact Hs| |]; cbn [length]; lia.
    + apply IH; [exact Hr| |exact Hag]. intros i Hi. specialize (HF i Hi). lia.
  - destruct H as (e1 & sup & HD & Hav & Hr). exists e1, sup. split; [|split; [exact Hav|]].
    + eapply Dec_agree_below; eassumption.
    + apply IH; [exact Hr| |exact Hag]. intros i Hi. specialize (HF i Hi).
      pose proof (Dec_pos_lt _ _ _ _ _ _ HD). lia.
Qed.

Lemma rec_at_agree buf buf' F pos r e :
  rec_at buf pos r e F -> (forall i, In i F -> (i < pos)%nat) ->
  agree (length buf) F buf buf' -> rec_at buf' pos r e F.
Proof.
  intros (e1 & sup1 & HD & Hav & Hf & Hl & Hp) HF Hag.
  pose proof (Dec_pos_lt _ _ _ _ _ _ HD) as Hlt.
  assert (HF1 : forall i, In i F -> (i < e1)%nat) by (intros i Hi; specialize (HF i Hi); lia).
  assert (Hb8 : (e1 + 8 <= length buf)%nat) by (eapply slice_len_bound; [exact Hf|cbn [fixed_fields be16 be32 app length]; lia|lia]).
  assert (Hb10 : (e1 + 10 <= length buf)%nat) by (eapply slice_len_bound; [exact Hl|cbn [be16 length]; lia|lia]).
  exists e1, sup1. split; [eapply Dec_agree_below; eassumption|]. split; [exact Hav|].
  split; [rewrite <- Hf; eapply slice_agree_below; [exact Hb8|exact HF1|exact Hag]|].
  split; [rewrite <- Hl; eapply slice_agree_below; [exact Hb10| |exact Hag]; intros i Hi; specialize (HF1 i Hi); lia|].
  apply parts_at_agree with (buf := buf); [exact Hp| |exact Hag].
  intros i Hi. specialize (HF1 i Hi). lia.
Qed.

(* ------------------------------------------------------------------ *)
(* encoder states                                                      *)
(* ------------------------------------------------------------------ *)

Definition G (st : enc) (F : list nat) : Prop :=
  off st = length (buf st) /\ Forall (fun c => (fst c < off st)%nat) (ptrs st) /\ PtrInv st F /\
  (forall i, In i F -> (i < off st)%nat) /\ (off st <= maxsz st)%nat.

Lemma G_wfb st F : G st F -> wfb st.
Proof. intros (H1 & H2 & _ & _ & H5). unfold wfb. auto. Qed.

(* a step that only appends (prefix preserved, table unchanged or extended decodably) *)
Lemma G_emit_slice st F d st' :
  G st F -> emit_slice d st = Ok st' ->
  G st' F /\ buf st' = buf st ++ d /\ off st' = (off st + length d)%nat.
Proof.
  intros (Ho & Hlt & HPI & HF & Hmx) E. pose proof E as E0.
  apply emit_slice_char in E; [|exact Ho]. subst st'. cbn [buf off ptrs maxsz].
  split; [|split; reflexivity]. unfold G, PtrInv; cbn [buf off ptrs maxsz]. repeat split.
  - rewrite Ho, app_length. reflexivity.
  - eapply Forall_impl; [|exact Hlt]. cbn. intros; lia.
  - eapply Forall_impl; [|exact HPI]. intros c Hc. eapply cand_ok_prefix; [exact Hc|].
    rewrite firstn_app, firstn_all, Nat.sub_diag. cbn [firstn]. now rewrite app_nil_r.
  - intros i Hi. specialize (HF i Hi). lia.
  - unfold emit_slice in E0. destruct (Nat.ltb_spec (maxsz st) (off st + length d)); [discriminate|lia].
Qed.

Lemma G_emit_name st F m n st' :
  G st F -> wf_name (cased m n) -> emit_name m n st = Ok st' ->
  G st' F /\ firstn (length (buf st)) (buf st') = buf st /\ (off st < off st')%nat /\
  exists sup, Dec (buf st') (off st) (off st) (cased m n) (off st') sup /\ (forall i, In i sup -> ~ In i F).
Proof.
  intros HG Hwf E. pose proof HG as (Ho & Hlt & HPI & HF & Hmx).
  destruct (emit_name_rt st F m n st' Ho Hlt HPI HF Hwf E) as ((sup & HD & Hav) & HPI' & Ho' & Hlt').
  pose proof (G_wfb _ _ HG) as Hw.
  pose proof (emit_name_inv st st m n (inv_refl _ Hw) Hw) as Hi. rewrite E in Hi. cbn [rinv] in Hi.
  destruct Hi as (_ & Hmx' & _ & Hge & H5 & _).
  pose proof (Dec_pos_lt _ _ _ _ _ _ HD) as Hpl.
  split; [|split; [rewrite <- Ho; exact H5|split; [exact Hpl|exists sup; split; assumption]]].
  unfold G. repeat split; auto. intros i Hi. specialize (HF i Hi). lia.
Qed.

Lemma agree_of_prefix B0 buf' F : firstn (length B0) buf' = B0 -> agree (length B0) F B0 buf'.
Proof.
  intros Hp i Hi _. transitivity (nth_error (firstn (length B0) buf') i); [|now rewrite Hp].
  rewrite nth_error_firstn'. destruct (Nat.ltb_spec i (length B0)); [reflexivity|lia].
Qed.

Lemma emit_parts_rt F : forall ps st st',
  G st F -> Forall part_wf ps -> emit_parts ps st = Ok st' ->
  G st' F /\ firstn (length (buf st)) (buf st') = buf st /\ (off st <= off st')%nat /\
  parts_at (buf st') (off st) ps (off st') F.
Proof.
  induction ps as [|p ps IH]; intros st st' HG Hwf E; cbn [emit_parts] in E.
  - inversion E; subst. split; [exact HG|]. split; [apply firstn_all|]. split; [lia|reflexivity].
  - inversion Hwf as [|? ? Hw1 Hw2]; subst. destruct p as [b|m n].
    + destruct (emit_slice b st) as [s1|] eqn:E1; cbn [bind] in E; [|discriminate].
      destruct (G_emit_slice _ _ _ _ HG E1) as (HG1 & Hb1 & Ho1).
      destruct (IH s1 st' HG1 Hw2 E) as (HG' & Hp' & Hle & Hpa).
      pose proof HG as (Ho & _ & _ & HF & _).
      assert (Hpre : firstn (length (buf st)) (buf st') = buf st).
      { transitivity (firstn (length (buf st)) (firstn (length (buf s1)) (buf st'))).
        - rewrite firstn_firstn. f_equal. rewrite Hb1, app_length. lia.
        - rewrite Hp', Hb1. rewrite firstn_app, firstn_all, Nat.sub_diag. cbn [firstn]. now rewrite app_nil_r. }
      split; [exact HG'|]. split; [exact Hpre|]. split; [lia|].
      cbn [parts_at]. rewrite Ho1 in Hpa.
      assert (Hs1 : slice (buf s1) (off st) (off st + length b) = b).
      { rewrite Hb1, Ho. rewrite <- (app_nil_r (buf st ++ b)), <- app_assoc. apply slice_app_mid. }
      assert (Hl1 : (off st + length b <= length (buf s1))%nat) by (rewrite Hb1, app_length; lia).
      split; [|exact Hpa].
      rewrite <- Hs1 at 2. eapply slice_agree_below with (F := F); [exact Hl1| |apply agree_of_prefix; exact Hp'].
      intros i Hi. apply HF. exact Hi.
    + destruct (emit_name m n st) as [s1|] eqn:E1; cbn [bind] in E; [|discriminate].
      destruct (G_emit_name _ _ _ _ _ HG Hw1 E1) as (HG1 & Hp1 & Hlt1 & sup & HD & Hav).
      destruct (IH s1 st' HG1 Hw2 E) as (HG' & Hp' & Hle & Hpa).
      pose proof HG1 as (Ho1 & _).
      assert (Hpre : firstn (length (buf st)) (buf st') = buf st).
      { assert (Hlen : (length (buf st) <= length (buf s1))%nat).
        { pose proof (f_equal (@length _) Hp1) as HL. rewrite firstn_length in HL. lia. }
        transitivity (firstn (length (buf st)) (firstn (length (buf s1)) (buf st'))).
        - rewrite firstn_firstn. f_equal. lia.
        - rewrite Hp'. exact Hp1. }
      split; [exact HG'|]. split; [exact Hpre|]. split; [lia|].
      cbn [parts_at]. exists (off s1), sup. split; [|split; [exact Hav|exact Hpa]].
      eapply Dec_agree_below; [exact HD|exact Hav|]. apply agree_of_prefix. exact Hp'.
Qed.

(* positions not in any candidate's support may be added to F *)
Lemma PtrInv_extend st F extra :
  PtrInv st F -> (forall i, In i extra -> (length (buf st) <= i)%nat) -> PtrInv st (F ++ extra).
Proof.
  unfold PtrInv. intros H He. eapply Forall_impl; [|exact H].
  intros c (H1 & ls & e & sup & Hw & Hs & HD & Hav). split; [exact H1|].
  exists ls, e, sup. repeat split; auto. intros i Hi Hin. apply in_app_or in Hin.
  destruct Hin as [Hin|Hin]; [exact (Hav i Hi Hin)|].
  pose proof (Dec_sup_lt _ _ _ _ _ _ HD i Hi). specialize (He i Hin). lia.
Qed.

Lemma PtrInv_weaken st F extra : PtrInv st (F ++ extra) -> PtrInv st F.
Proof.
  unfold PtrInv. intros H. eapply Forall_impl; [|exact H].
  intros c (H1 & ls & e & sup & Hw & Hs & HD & Hav). split; [exact H1|].
  exists ls, e, sup. repeat split; auto. intros i Hi Hin. apply (Hav i Hi). apply in_or_app. left; exact Hin.
Qed.

Lemma parts_at_weaken buf F extra : forall ps pos e,
  parts_at buf pos ps e (F ++ extra) -> parts_at buf pos ps e F.
Proof.
  induction ps as [|p ps IH]; intros pos e H; cbn [parts_at] in *; [exact H|].
  destruct p as [b|m n].
  - destruct H as (A & C). split; auto.
  - destruct H as (e1 & sup & HD & Hav & Hr). exists e1, sup. repeat split; auto.
    intros i Hi Hin. apply (Hav i Hi). apply in_or_app. left; exact Hin.
Qed.

(* Place::replace of the two RDLENGTH bytes: only those two positions change *)
Lemma replace_agree st pl d st' :
  replace pl d st = Ok st' -> (pl + length d <= length (buf st))%nat ->
  length (buf st') = length (buf st) /\ off st' = off st /\ ptrs st' = ptrs st /\ maxsz st' = maxsz st /\
  agree (length (buf st)) (seq pl (length d)) (buf st) (buf st') /\
  slice (buf st') pl (pl + length d) = d.
Proof.
  unfold replace. destruct (_ <? _)%nat; [discriminate|]. intros E Hl. inversion E; subst.
  cbn [set_buf buf off ptrs maxsz]. unfold buf_write.
  assert (HL : length (firstn pl (buf st) ++ d ++ skipn (pl + length d) (buf st)) = length (buf st)).
  { rewrite !app_length, firstn_length, skipn_length. lia. }
  repeat split; auto.
  - intros i Hi Hni.
    assert (Hcase : (i < pl)%nat \/ (pl + length d <= i)%nat).
    { destruct (Nat.lt_ge_cases i pl); [left; assumption|right].
      destruct (Nat.lt_ge_cases i (pl + length d)); [|assumption].
      exfalso. apply Hni. apply in_seq. lia. }
    destruct Hcase as [Hc|Hc].
    + rewrite nth_error_app1 by (rewrite firstn_length; lia).
      rewrite nth_error_firstn'. destruct (Nat.ltb_spec i pl); [reflexivity|lia].
    + rewrite nth_error_app2 by (rewrite firstn_length; lia).
      rewrite firstn_length. replace (Nat.min pl (length (buf st))) with pl by lia.
      rewrite nth_error_app2 by lia. rewrite nth_error_skipn'. f_equal. lia.
  - assert (Hpl : length (firstn pl (buf st)) = pl) by (rewrite firstn_length; lia).
    pose proof (slice_app_mid (firstn pl (buf st)) d (skipn (pl + length d) (buf st))) as H.
    rewrite Hpl in H. exact H.
Qed.

Lemma place_char n st pl s' :
  place n st = Ok (pl, s') -> off st = length (buf st) ->
  pl = off st /\ s' = mkEnc (buf st ++ repeat 0 n) (off st + n) (maxsz st) (ptrs st) (cnt st) /\
  (off st + n <= maxsz st)%nat.
Proof.
  unfold place. destruct (Nat.ltb_spec (maxsz st) (off st + n)); [discriminate|].
  intros E Ho. inversion E; subst. split; [reflexivity|]. split; [|lia].
  unfold set_off, set_buf; cbn [buf off maxsz ptrs cnt]. f_equal.
  rewrite firstn_all2 by lia. f_equal. f_equal. lia.
Qed.

Lemma agree_weaken n F F' b b' : (forall i, In i F -> In i F') -> agree n F b b' -> agree n F' b b'.
Proof. intros H Hag i Hi Hn. apply Hag; [exact Hi|]. intros Hin. apply Hn, H, Hin. Qed.

(* ------------------------------------------------------------------ *)
(* Record::emit round trip                                             *)
(* ------------------------------------------------------------------ *)

Theorem emit_rec_rt F r st st' :
  G st F -> rec_wf r -> emit_rec r st = Ok st' ->
  G st' F /\ firstn (length (buf st)) (buf st') = buf st /\ (off st < off st')%nat /\
  rec_at (buf st') (off st) r (off st') F.
Proof.
  intros HG (Hwn & Hwp) E. unfold emit_rec in E.
  destruct (emit_name Compressed (rname r) st) as [s1|] eqn:E1; cbn [bind] in E; [|discriminate].
  destruct (G_emit_name st F Compressed (rname r) s1 HG Hwn E1) as (HG1 & Hp1 & Hlt1 & sup1 & HD1 & Hav1).
  cbn [cased] in HD1.
  unfold emit_u16, emit_u32 in E.
  destruct (emit_slice (be16 (rtype r)) s1) as [s2|] eqn:E2; cbn [bind] in E; [|discriminate].
  destruct (G_emit_slice _ _ _ _ HG1 E2) as (HG2 & Hb2 & Ho2).
  destruct (emit_slice (be16 (rclass r)) s2) as [s3|] eqn:E3; cbn [bind] in E; [|discriminate].
  destruct (G_emit_slice _ _ _ _ HG2 E3) as (HG3 & Hb3 & Ho3).
  destruct (emit_slice (be32 (rttl r)) s3) as [s4|] eqn:E4; cbn [bind] in E; [|discriminate].
  destruct (G_emit_slice _ _ _ _ HG3 E4) as (HG4 & Hb4 & Ho4).
  destruct (place 2 s4) as [[pl s5]|] eqn:E5; cbn [bind] in E; [|discriminate].
  pose proof HG4 as (Hoff4 & Hlt4 & HPI4 & HF4 & Hmx4).
  destruct (place_char 2 s4 pl s5 E5 Hoff4) as (Hpl & Hs5 & Hmx5).
  set (F' := F ++ [pl; S pl]).
  assert (HG5 : G s5 F').
  { subst s5. unfold G; cbn [buf off ptrs maxsz]. repeat split.
    - rewrite Hoff4, app_length. reflexivity.
    - eapply Forall_impl; [|exact Hlt4]. cbn. intros; lia.
    - assert (HPx : PtrInv s4 F').
      { apply PtrInv_extend; [exact HPI4|]. intros i [<-|[<-|[]]]; lia. }
      unfold PtrInv in *; cbn [buf ptrs]. eapply Forall_impl; [|exact HPx]. intros c Hc.
      eapply cand_ok_prefix; [exact Hc|].
      rewrite firstn_app, firstn_all, Nat.sub_diag. cbn [firstn]. now rewrite app_nil_r.
    - intros i Hi. unfold F' in Hi. apply in_app_or in Hi. destruct Hi as [Hi|[<-|[<-|[]]]]; [specialize (HF4 i Hi); lia|lia|lia].
    - exact Hmx5. }
  destruct (emit_parts (rparts r) s5) as [s6|] eqn:E6; cbn [bind] in E; [|discriminate].
  destruct (emit_parts_rt F' (rparts r) s5 s6 HG5 Hwp E6) as (HG6 & Hp6 & Hle6 & Hpa6).
  pose proof HG6 as (Hoff6 & Hlt6 & HPI6 & HF6 & Hmx6).
  assert (Hoff5 : off s5 = (pl + 2)%nat) by (subst s5 pl; reflexivity).
  assert (Hlen5 : length (buf s5) = (pl + 2)%nat).
  { subst s5. cbn [buf]. rewrite app_length. cbn [repeat length]. lia. }
  assert (Hlen6 : (pl + 2 <= length (buf s6))%nat) by lia.
  destruct (replace_agree s6 pl (be16 (N.of_nat (off s6 - pl - 2))) st' E ltac:(cbn [be16 length]; lia))
    as (HL' & Ho' & Hp' & Hm' & Hag & Hsl).
  cbn [be16 length] in Hag, Hsl.
  assert (HagF' : agree (length (buf s6)) F' (buf s6) (buf st')).
  { eapply agree_weaken; [|exact Hag]. intros i Hi. unfold F'. apply in_or_app. right.
    apply in_seq in Hi. assert (i = pl \/ i = S pl) as [->| ->] by lia; cbn; auto. }
  (* chain of prefixes: st -> s1 -> s4 -> s5 -> s6 *)
  assert (Hb4' : buf s4 = buf s1 ++ fixed_fields r).
  { rewrite Hb4, Hb3, Hb2. unfold fixed_fields. rewrite <- !app_assoc. reflexivity. }
  assert (Ho4' : off s4 = (off s1 + 8)%nat).
  { rewrite Ho4, Ho3, Ho2. cbn [be16 be32 length]. lia. }
  assert (Hpre5 : firstn (length (buf s4)) (buf s5) = buf s4).
  { subst s5. cbn [buf]. rewrite firstn_app, firstn_all, Nat.sub_diag. cbn [firstn]. now rewrite app_nil_r. }
  assert (Hpre46 : firstn (length (buf s4)) (buf s6) = buf s4).
  { transitivity (firstn (length (buf s4)) (firstn (length (buf s5)) (buf s6))).
    - rewrite firstn_firstn. f_equal. lia.
    - rewrite Hp6. exact Hpre5. }
  assert (Hpre14 : firstn (length (buf s1)) (buf s4) = buf s1).
  { rewrite Hb4'. rewrite firstn_app, firstn_all, Nat.sub_diag. cbn [firstn]. now rewrite app_nil_r. }
  pose proof HG1 as (Hoff1 & _).
  assert (Hl14 : (length (buf s1) + 8 = length (buf s4))%nat).
  { rewrite Hb4', app_length. reflexivity. }
  assert (Hpre16 : firstn (length (buf s1)) (buf s6) = buf s1).
  { transitivity (firstn (length (buf s1)) (firstn (length (buf s4)) (buf s6))).
    - rewrite firstn_firstn. f_equal. lia.
    - rewrite Hpre46. exact Hpre14. }
  assert (Hplv : pl = (off s1 + 8)%nat) by lia.
  (* everything below pl is the same in buf s6 and buf st' *)
  assert (Hlow : forall i, (i < pl)%nat -> nth_error (buf st') i = nth_error (buf s6) i).
  { intros i Hi. apply Hag; [lia|]. intros Hin. apply in_seq in Hin. lia. }
  split; [|split; [|split]].
  - (* G st' F *)
    unfold G. rewrite Ho', Hp', Hm', HL'. repeat split; auto.
    + unfold PtrInv. rewrite Hp'. eapply Forall_impl; [|exact HPI6].
      intros c (H1 & ls & e & sup & Hw & Hs & HD & Hav). split; [exact H1|].
      exists ls, e, sup. split; [exact Hw|]. split; [exact Hs|]. split.
      * eapply Dec_agree_below; [exact HD|exact Hav|exact HagF'].
      * intros i Hi Hin. apply (Hav i Hi). unfold F'. apply in_or_app. left; exact Hin.
    + intros i Hi. apply HF6. unfold F'. apply in_or_app. left; exact Hi.
  - (* prefix *)
    pose proof HG as (Hoff0 & _).
    assert (Hl01 : (length (buf st) <= length (buf s1))%nat).
    { pose proof (f_equal (@length _) Hp1) as HL. rewrite firstn_length in HL. lia. }
    apply list_eq_nth_error. intros i. rewrite nth_error_firstn'.
    destruct (Nat.ltb_spec i (length (buf st))) as [Hi|Hi].
    + rewrite Hlow by lia.
      transitivity (nth_error (firstn (length (buf s1)) (buf s6)) i).
      * rewrite nth_error_firstn'. destruct (Nat.ltb_spec i (length (buf s1))); [reflexivity|lia].
      * rewrite Hpre16.
        transitivity (nth_error (firstn (length (buf st)) (buf s1)) i); [|now rewrite Hp1].
        rewrite nth_error_firstn'.
        destruct (Nat.ltb_spec i (length (buf st))); [reflexivity|lia].
    + symmetry. apply nth_error_None. exact Hi.
  - rewrite Ho'. lia.
  - (* the record is readable *)
    exists (off s1), sup1. rewrite Ho'.
    assert (Hsup1 : forall i, In i sup1 -> (i < pl)%nat).
    { intros i Hi. pose proof (Dec_sup_lt _ _ _ _ _ _ HD1 i Hi). lia. }
    split; [|split; [exact Hav1|split; [|split]]].
    + eapply Dec_agree; [exact HD1|]. intros i Hi. rewrite Hlow by (apply Hsup1; exact Hi).
      transitivity (nth_error (firstn (length (buf s1)) (buf s6)) i); [|now rewrite Hpre16].
      rewrite nth_error_firstn'. pose proof (Dec_sup_lt _ _ _ _ _ _ HD1 i Hi).
      destruct (Nat.ltb_spec i (length (buf s1))); [reflexivity|lia].
    + transitivity (slice (buf s4) (off s1) (off s1 + 8)).
      * apply slice_agree. intros i Hi. rewrite Hlow by lia.
        transitivity (nth_error (firstn (length (buf s4)) (buf s6)) i); [|now rewrite Hpre46].
        rewrite nth_error_firstn'. destruct (Nat.ltb_spec i (length (buf s4))); [reflexivity|lia].
      * rewrite Hb4', Hoff1. rewrite <- (app_nil_r (buf s1 ++ fixed_fields r)), <- app_assoc.
        apply slice_app_mid.
    + replace (off s1 + 8)%nat with pl by lia. replace (off s1 + 10)%nat with (pl + 2)%nat by lia.
      rewrite Hsl. do 2 f_equal. lia.
    + replace (off s1 + 10)%nat with (pl + 2)%nat by lia.
      apply parts_at_weaken with (extra := [pl; S pl]). fold F'.
      rewrite <- Hoff5.
      eapply parts_at_agree; [exact Hpa6| |exact HagF'].
      intros i Hi. destruct HG5 as (_ & _ & _ & HF5 & _). apply HF5. exact Hi.
Qed.
