(* C02 — every reachable encoder state: any sequence of names (in any encoding mode) and raw
   byte runs emitted from a fresh encoder can be read back from the final buffer, each item at
   the offset where it was written. *)
From HV Require Import Lib.Base Lib.ListX C03.Model C03.Inv C02.Spec C02.Model C02.NameRt C02.EmitName.
Open Scope N_scope.

Inductive item := IName (m : nmode) (n : name) | IBytes (b : list byte).

Definition emit_item (it : item) (st : enc) : res enc :=
  match it with IName m n => emit_name m n st | IBytes b => emit_slice b st end.

(* emits the items in order, recording the offset at which each one starts *)
Fixpoint emit_items (its : list item) (st : enc) (acc : list nat) : res (list nat * enc) :=
  match its with
  | [] => Ok (acc, st)
  | it :: its' => do st1 <- emit_item it st; emit_items its' st1 (acc ++ [off st])
  end.

Definition item_wf (it : item) : Prop :=
  match it with IName m n => wf_name (cased m n) | IBytes _ => True end.

(* what it means for item [it] to be readable at offset [s] of [buf] *)
Definition readable (buf : list byte) (it : item) (s : nat) : Prop :=
  match it with
  | IName m n => exists e sup, Dec buf s s (cased m n) e sup
  | IBytes b => slice buf s (s + length b) = b
  end.

Definition good (st : enc) : Prop :=
  off st = length (buf st) /\ Forall (fun c => (fst c < off st)%nat) (ptrs st) /\ PtrInv st [] /\
  (off st <= maxsz st)%nat.

Lemma good_new L : good (enc_new L).
Proof. unfold good, enc_new, PtrInv; cbn. repeat split; try constructor; lia. Qed.

Lemma readable_prefix B0 buf' it s :
  readable B0 it s -> firstn (length B0) buf' = B0 -> readable buf' it s.
Proof.
  destruct it as [m n|b]; cbn [readable].
  - intros (e & sup & HD) Hp. exists e, sup. eapply Dec_prefix; eassumption.
  - intros Hs Hp.
    assert (Hlen : (s + length b <= length B0)%nat \/ b = []).
    { destruct b as [|x b]; [right; reflexivity|left].
      apply (f_equal (@length _)) in Hs. unfold slice in Hs.
      rewrite firstn_length, skipn_length in Hs. cbn [length] in *. lia. }
    destruct Hlen as [Hlen| ->].
    + transitivity (slice B0 s (s + length b)); [|exact Hs]. apply slice_agree. intros i Hi.
      transitivity (nth_error (firstn (length B0) buf') i); [|now rewrite Hp].
      rewrite nth_error_firstn'.
      destruct (Nat.ltb_spec i (length B0)); [reflexivity|lia].
    + unfold slice. cbn [length]. rewrite Nat.add_0_r, Nat.sub_diag. reflexivity.
Qed.

Lemma emit_item_step it st st' :
  good st -> item_wf it -> emit_item it st = Ok st' ->
  readable (buf st') it (off st) /\ good st' /\ firstn (length (buf st)) (buf st') = buf st.
Proof.
  intros (Ho & Hlt & HPI & Hmx) Hwf E. destruct it as [m n|b]; cbn [emit_item item_wf readable] in *.
  - destruct (emit_name_rt st [] m n st' Ho Hlt HPI ltac:(intros i []) Hwf E) as ((sup & HD & _) & HPI' & Ho' & Hlt').
    assert (Hw : wfb st) by (unfold wfb; repeat split; auto).
    pose proof (emit_name_inv st st m n (inv_refl _ Hw) Hw) as Hi. rewrite E in Hi. cbn [rinv] in Hi.
    destruct Hi as (_ & Hmx' & _ & _ & H5 & _).
    split; [exists (off st'), sup; exact HD|]. split; [repeat split; assumption|].
    rewrite <- Ho. exact H5.
  - pose proof E as E0. apply emit_slice_char in E; [|exact Ho]. subst st'. cbn [buf off ptrs maxsz].
    split; [|split].
    + rewrite Ho. rewrite <- (app_nil_r (buf st ++ b)). rewrite <- app_assoc. apply slice_app_mid.
    + unfold good, PtrInv; cbn [buf off ptrs maxsz]. repeat split.
      * rewrite Ho, app_length. reflexivity.
      * eapply Forall_impl; [|exact Hlt]. cbn. intros; lia.
      * eapply Forall_impl; [|exact HPI]. intros c Hc. eapply cand_ok_prefix; [exact Hc|].
        rewrite firstn_app, firstn_all, Nat.sub_diag. cbn [firstn]. now rewrite app_nil_r.
      * unfold emit_slice in E0. destruct (Nat.ltb_spec (maxsz st) (off st + length b)); [discriminate|lia].
    + rewrite firstn_app, firstn_all, Nat.sub_diag. cbn [firstn]. now rewrite app_nil_r.
Qed.

Lemma emit_items_rt : forall its st acc starts st',
  good st -> Forall item_wf its -> emit_items its st acc = Ok (starts, st') ->
  exists new, starts = acc ++ new /\ Forall2 (readable (buf st')) its new /\
              good st' /\ firstn (length (buf st)) (buf st') = buf st.
Proof.
  induction its as [|it its IH]; intros st acc starts st' Hg Hwf E; cbn [emit_items] in E.
  - inversion E; subst. exists []. rewrite app_nil_r. split; [reflexivity|]. split; [constructor|]. split; [exact Hg|apply firstn_all].
  - inversion Hwf as [|? ? Hw1 Hw2]; subst.
    destruct (emit_item it st) as [st1|] eqn:E1; cbn [bind] in E; [|discriminate].
    destruct (emit_item_step it st st1 Hg Hw1 E1) as (Hr & Hg1 & Hp1).
    destruct (IH st1 _ _ _ Hg1 Hw2 E) as (new & Hs & HF & Hg' & Hp').
    exists (off st :: new). rewrite Hs, <- app_assoc. split; [reflexivity|]. split; [|split; [exact Hg'|]].
    + constructor; [|exact HF]. eapply readable_prefix; [exact Hr|exact Hp'].
    + assert (Hle : (length (buf st) <= length (buf st1))%nat).
      { pose proof (f_equal (@length _) Hp1) as HL. rewrite firstn_length in HL. lia. }
      transitivity (firstn (length (buf st)) (firstn (length (buf st1)) (buf st'))).
      * rewrite firstn_firstn. f_equal. lia.
      * rewrite Hp'. exact Hp1.
Qed.
