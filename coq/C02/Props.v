(* C02 — property theorems (statements + short proofs from EmitName.v / ItemsRt.v / DecSound.v).
   The encoder model is C03.Model (tied byte for byte to Message::emit by the C03 and C02
   correspondence runs); Spec.Dec is the independent reading of RFC 1035 §4.1.4 with the
   implementation's strict backward-pointer rule. *)
From HV Require Import Lib.Base C03.Model C03.Inv C02.Spec C02.Model C02.NameRt C02.EmitName
     C02.ItemsRt C02.DecSound C02.RecRt C02.MsgRt.
Open Scope N_scope.

(* The byte image of a label sequence determines the sequence: byte-equality of compression
   candidates is equality of name suffixes (no false pointer). *)
Theorem C02_label_seq_injective : forall a b, wf_name a -> wf_name b -> flat a = flat b -> a = b.
Proof. exact flat_inj. Qed.
Print Assumptions C02_label_seq_injective.

(* Name::emit, any encoding mode, any state of the compression table satisfying the table
   invariant: the bytes written decode — through whatever pointer was chosen — to exactly the
   labels given (lower-cased in the lowercase mode), case preserved, ending where the encoder's
   offset ends; pointers only ever target positions before the name. *)
Theorem C02_name_roundtrip : forall st F mode n st',
  off st = length (buf st) ->
  Forall (fun c => (fst c < off st)%nat) (ptrs st) ->
  PtrInv st F -> (forall i, In i F -> (i < off st)%nat) ->
  wf_name (cased mode n) ->
  emit_name mode n st = Ok st' ->
  exists sup, Dec (buf st') (off st) (off st) (cased mode n) (off st') sup /\
              (forall i, In i sup -> ~ In i F).
Proof. intros. eapply emit_name_rt; eassumption. Qed.
Print Assumptions C02_name_roundtrip.

(* ... and the table invariant is re-established: every candidate (old or new, also after a
   rewind + trim) still decodes to the suffix whose bytes it stores, so the next name can rely on it. *)
Theorem C02_ptr_table_inv : forall st F mode n st',
  off st = length (buf st) ->
  Forall (fun c => (fst c < off st)%nat) (ptrs st) ->
  PtrInv st F -> (forall i, In i F -> (i < off st)%nat) ->
  wf_name (cased mode n) ->
  emit_name mode n st = Ok st' ->
  PtrInv st' F /\ off st' = length (buf st') /\ Forall (fun c => (fst c < off st')%nat) (ptrs st').
Proof. intros. eapply emit_name_rt; eassumption. Qed.
Print Assumptions C02_ptr_table_inv.

(* Every reachable state: ANY sequence of names (any modes, shared suffixes, mixed case, more than
   120 names, more than 64 candidates, offsets beyond 0x3FFF) and raw byte runs emitted from a fresh
   encoder is readable from the final buffer, each item at the offset where it was written. *)
Theorem C02_all_names_roundtrip : forall L its starts st,
  Forall item_wf its ->
  emit_items its (enc_new L) [] = Ok (starts, st) ->
  Forall2 (readable (buf st)) its starts.
Proof.
  intros L its starts st Hwf E.
  destruct (emit_items_rt its (enc_new L) [] starts st (good_new L) Hwf E) as (new & Hs & HF & _).
  cbn [app] in Hs. subst. exact HF.
Qed.
Print Assumptions C02_all_names_roundtrip.

(* A decoded name is not disturbed by anything written later outside the positions it was read
   from (appends, RDLENGTH / header back-patches, truncation above it). *)
Theorem C02_decoding_stable : forall buf buf' pos bound ls e sup,
  Dec buf pos bound ls e sup ->
  (forall i, In i sup -> nth_error buf' i = nth_error buf i) ->
  Dec buf' pos bound ls e sup.
Proof. exact Dec_agree. Qed.
Print Assumptions C02_decoding_stable.

(* Decoding is a function of the bytes, and the executable reference decoder used by the
   correspondence check only returns what the specification allows. *)
Theorem C02_decoding_is_a_function : forall buf pos bound ls e sup ls' e' sup',
  Dec buf pos bound ls e sup -> Dec buf pos bound ls' e' sup' -> ls' = ls /\ e' = e.
Proof. intros. eapply Dec_fun; eassumption. Qed.
Print Assumptions C02_decoding_is_a_function.

Theorem C02_reference_decoder_sound : forall buf pos ls e,
  dec_name buf pos = Some (ls, e) -> exists sup, Dec buf pos pos ls e sup.
Proof. exact dec_name_sound. Qed.
Print Assumptions C02_reference_decoder_sound.

(* Record level: whatever Record::emit writes — from any reachable encoder state [G st F] — reads
   back: owner name through the compression table, TYPE/CLASS/TTL, RDLENGTH equal to the actual
   RDATA length, every RDATA part (raw runs byte for byte, embedded names in their encoding mode). *)
Theorem C02_record_roundtrip : forall F r st st',
  G st F -> rec_wf r -> emit_rec r st = Ok st' ->
  rec_at (buf st') (off st) r (off st') F /\ G st' F.
Proof. intros F r st st' HG Hw E. destruct (emit_rec_rt F r st st' HG Hw E) as (A & _ & _ & B). auto. Qed.
Print Assumptions C02_record_roundtrip.

(* Message level, any size limit: if the encoder succeeds, a reader finds in the output: a header
   whose counts are the numbers of records actually present and whose TC flag is the original one
   or-ed with "something was dropped"; every question; exactly a prefix of every section (and OPT /
   TSIG if kept), each record readable field by field; and the last record ends exactly at the end
   of the output (no bytes left over).  With a limit that drops nothing this is
   decode (encode m) = m for the modelled message structure. *)
Theorem C02_message_roundtrip : forall m L b,
  msg_wf m -> encode L m = OBytes b -> msg_readable b m.
Proof.
  intros m L b Hw E. unfold encode in E.
  destruct (emit_message m (enc_new L)) as [st|] eqn:Em; [|discriminate]. inversion E; subst.
  apply (emit_message_rt m L st Hw Em).
Qed.
Print Assumptions C02_message_roundtrip.

(* Scope of the message-level theorem: RDATA is the part sequence every RData::emit reduces to;
   the per-type RDATA codecs, OPT<->Edns / TSIG placement and the extended-rcode split are outside
   the model and are judged on the implementation by the harness's deep-comparison oracle. *)

(* Non-vacuity: three names sharing a suffix, mixed case, one uncompressed in between. *)
Example C02_example :
  let n1 := [[119; 119; 119]; [101; 120]; [99; 111; 109]] in      (* www.ex.com *)
  let n2 := [[109]; [69; 88]; [99; 111; 109]] in                   (* m.EX.com  *)
  let n3 := [[101; 120]; [99; 111; 109]] in                        (* ex.com    *)
  let its := [IBytes [0;0;0;0;0;0;0;0;0;0;0;0]; IName Compressed n1; IName Uncompressed n2;
              IName Compressed n3; IName Compressed n1] in
  Forall item_wf its /\
  exists starts st, emit_items its (enc_new 512) [] = Ok (starts, st) /\
                    starts = [0; 12; 24; 34; 36]%nat /\ length (buf st) = 38%nat.
Proof.
  cbv zeta. split.
  - repeat constructor; cbn; lia.
  - eexists _, _. split; [vm_compute; reflexivity|]. split; reflexivity.
Qed.
