(* C17 — model of TcpStream::poll_next (crates/net/src/tcp/tcp_stream.rs).
   Two machines, exactly as in the Rust: the receive machine
   (ReadTcpState::{LenBytes,Bytes}) and the send machine
   (WriteTcpState::{LenBytes,Bytes,Flushing}), each driven by a script of socket
   results.  One step of [rrun]/[wrun] = one poll_read / poll_write(_vectored)
   call on the socket.  No proofs in this file. *)
From HV Require Import Lib.Base.
Open Scope N_scope.

(* ------------------------------------------------------------------ *)
(* Receive machine                                                     *)
(* ------------------------------------------------------------------ *)

(* ReadTcpState: we keep the bytes read so far instead of (pos, buffer) *)
Inductive rstate :=
| RLen (got : list byte)                 (* LenBytes{pos = |got|}, |got| < 2 *)
| RBody (len : nat) (got : list byte).   (* Bytes{pos = |got|, bytes.len() = len} *)

Definition rinit := RLen [].

(* what the socket does on the next poll_read *)
Inductive rev := RPending | RData (chunk : list byte) | REof | RErr.
Inductive item := Msg (m : list byte) | ErrClosedLen | ErrClosedBody | ErrIo.
Inductive fin := Clean | Failed | Starved.   (* None / Some(Err) / script exhausted *)

(* u16::from_be_bytes *)
Definition be16 (hi lo : byte) : nat := N.to_nat (hi * 256 + lo).

Definition eof_item (st : rstate) : list item * fin :=
  match st with
  | RLen [] => ([], Clean)                       (* *pos == 0: clean end *)
  | RLen _ => ([ErrClosedLen], Failed)           (* "closed while reading length" *)
  | RBody _ _ => ([ErrClosedBody], Failed)       (* "closed while reading message" *)
  end.

(* poll_read(&mut bytes[pos..]) copies min(cap, |chunk|) bytes; the scripted socket
   keeps the rest of the chunk for the next call. *)
Fixpoint rrun (fuel : nat) (st : rstate) (s : list rev) : list item * fin :=
  match fuel with
  | O => ([], Starved)
  | S fuel' =>
    match s with
    | [] => ([], Starved)
    | RPending :: s' => rrun fuel' st s'    (* ready! -> Pending; the consumer polls again *)
    | RErr :: _ => ([ErrIo], Failed)        (* `?` on the io::Error *)
    | REof :: _ => eof_item st
    | RData [] :: _ => eof_item st          (* a read of 0 bytes is EOF to the code *)
    | RData (b :: ch) :: s' =>
        match st with
        | RLen got =>
            let cap := (2 - length got)%nat in
            let r := firstn cap (b :: ch) in
            let rest := skipn cap (b :: ch) in
            let s'' := match rest with [] => s' | _ => RData rest :: s' end in
            let got' := got ++ r in
            if (length got' <? 2)%nat then rrun fuel' (RLen got') s''
            else rrun fuel' (RBody (be16 (nth 0 got' 0) (nth 1 got' 0)) []) s''
        | RBody len got =>
            let cap := (len - length got)%nat in
            match cap with
            | O => ([ErrClosedBody], Failed)  (* empty buffer: read == 0 (zero-length frame) *)
            | _ =>
              let r := firstn cap (b :: ch) in
              let rest := skipn cap (b :: ch) in
              let s'' := match rest with [] => s' | _ => RData rest :: s' end in
              let got' := got ++ r in
              if (length got' <? len)%nat then rrun fuel' (RBody len got') s''
              else let (is, f) := rrun fuel' rinit s'' in (Msg got' :: is, f)
            end
        end
    end
  end.

Fixpoint rsize (s : list rev) : nat :=
  match s with
  | [] => O
  | RData ch :: s' => S (length ch) + rsize s'
  | _ :: s' => S (rsize s')
  end.

(* the entry point used by the correspondence check *)
Definition read_run (s : list rev) : list item * fin := rrun (S (rsize s)) rinit s.

(* ------------------------------------------------------------------ *)
(* Send machine                                                        *)
(* ------------------------------------------------------------------ *)

Inductive wstate :=
| WIdle                                   (* send_state = None and nothing queued *)
| WLen (pos : nat) (len2 : list byte) (bytes : list byte)   (* LenBytes{pos,length,bytes} *)
| WBytes (pos : nat) (bytes : list byte).                   (* Bytes{pos,bytes} *)

Inductive wev := WPend | WAcc (n : nat) | WErr.
Inductive wfin := WDone | WStarved | WFailed.

(* u16::to_be_bytes(buffer.len() as u16): the cast truncates *)
Definition len_prefix (m : list byte) : list byte :=
  let n := N.of_nat (length m) mod 65536 in [n / 256; n mod 256].

(* outbound_messages.poll_next: pop the next message, enter LenBytes{pos:0} *)
Definition wstart (q : list (list byte)) : wstate * list (list byte) :=
  match q with
  | [] => (WIdle, [])
  | m :: q' => (WLen 0 (len_prefix m) m, q')
  end.

(* bytes offered to the socket in the current state *)
Definition woffered (st : wstate) : list byte :=
  match st with
  | WIdle => []
  | WLen pos len2 bytes => skipn pos len2 ++ bytes   (* [IoSlice(&length[pos..]), IoSlice(bytes)] *)
  | WBytes pos bytes => skipn pos bytes              (* &bytes[pos..] *)
  end.

(* "switch states" after `*pos += wrote`; Flushing (always ready in the script) and the
   pop of the next message are folded in *)
Definition wadvance (st : wstate) (wrote : nat) (q : list (list byte)) : wstate * list (list byte) :=
  match st with
  | WIdle => (WIdle, q)
  | WLen pos len2 bytes =>
      let pos := (pos + wrote)%nat in
      if (pos <? length len2)%nat then (WLen pos len2 bytes, q)
      else if (pos <? length len2 + length bytes)%nat then (WBytes (pos - length len2) bytes, q)
      else wstart q
  | WBytes pos bytes =>
      let pos := (pos + wrote)%nat in
      if (pos <? length bytes)%nat then (WBytes pos bytes, q) else wstart q
  end.

Fixpoint wrun (s : list wev) (st : wstate) (q : list (list byte)) (acc : list byte)
  : list byte * wfin :=
  match st with
  | WIdle => (acc, WDone)
  | _ =>
    match s with
    | [] => (acc, WStarved)
    | WPend :: s' => wrun s' st q acc
    | WErr :: _ => (acc, WFailed)
    | WAcc n :: s' =>
        let off := woffered st in
        let w := Nat.min n (length off) in
        let '(st', q') := wadvance st w q in
        wrun s' st' q' (acc ++ firstn w off)
    end
  end.

Definition write_run (msgs : list (list byte)) (s : list wev) : list byte * wfin :=
  let '(st, q) := wstart msgs in wrun s st q [].

(* ------------------------------------------------------------------ *)
(* Specification                                                       *)
(* ------------------------------------------------------------------ *)

Definition ok_msg (m : list byte) : Prop := (1 <= length m)%nat /\ N.of_nat (length m) < 65536.
Definition frame (m : list byte) : list byte :=
  let n := N.of_nat (length m) in (n / 256) :: (n mod 256) :: m.
Definition stream (ms : list (list byte)) : list byte := concat (map frame ms).

Fixpoint payload (s : list rev) : list byte :=
  match s with
  | [] => []
  | RData ch :: s' => ch ++ payload s'
  | _ :: s' => payload s'
  end.

(* a script that only chunks and delays: no empty reads, no EOF, no error *)
Definition good_script (s : list rev) : Prop :=
  Forall (fun e => match e with RData [] => False | REof => False | RErr => False | _ => True end) s.

(* The chunking-free reference: what a byte stream [p] followed by EOF denotes. *)
Fixpoint deframe (fuel : nat) (p : list byte) : list item * fin :=
  match fuel with
  | O => ([], Starved)
  | S fuel' =>
    match p with
    | [] => ([], Clean)
    | [_] => ([ErrClosedLen], Failed)
    | hi :: lo :: body =>
        let len := be16 hi lo in
        if (len =? 0)%nat then ([ErrClosedBody], Failed)
        else if (length body <? len)%nat then ([ErrClosedBody], Failed)
        else let (is, f) := deframe fuel' (skipn len body) in (Msg (firstn len body) :: is, f)
    end
  end.
Definition denote (p : list byte) := deframe (S (length p)) p.

Definition wgood (s : list wev) : Prop :=
  Forall (fun e => match e with WAcc O => False | WErr => False | _ => True end) s.
Fixpoint waccs (s : list wev) : nat :=
  match s with [] => O | WAcc _ :: s' => S (waccs s') | _ :: s' => waccs s' end.
