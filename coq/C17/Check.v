(* C17 — correspondence glue: cases written by the Rust harness (inputs + what the real
   TcpStream did) are re-run on the model inside Coq and compared. *)
From HV Require Import Lib.Base Lib.Pack C17.Model.
From HV Require Export C17.Combined C17.Timeout.
Open Scope N_scope.

(* script events with packed payloads *)
Inductive revh := HPending | HData (d : pbytes) | HEof | HErr.
Definition rev_of (e : revh) : rev :=
  match e with HPending => RPending | HData h => RData (unpack h) | HEof => REof | HErr => RErr end.

(* observation: items as (tag, bytes): 0 = message, 1 = closed-in-length, 2 = closed-in-body,
   3 = io error; fin: 0 clean, 1 failed, 2 starved *)
Definition obs_item (i : item) : N * list byte :=
  match i with Msg m => (0, m) | ErrClosedLen => (1, []) | ErrClosedBody => (2, []) | ErrIo => (3, []) end.
Definition obs_fin (f : fin) : N := match f with Clean => 0 | Failed => 1 | Starved => 2 end.
Definition obs_wfin (f : wfin) : N := match f with WFailed => 1 | _ => 0 end.

Inductive case :=
| CRead (s : list revh) (items : list (N * pbytes)) (f : N)
| CWrite (msgs : list pbytes) (s : list wev) (written : pbytes) (failed : N)
(* combined poll_next: arrivals per poll (dst matches peer?, bytes), write / flush / read
   scripts; observed items (tags 0-3 as above, 4 = mismatched peer, 5 = write error,
   6 = flush error), fin (0 clean, 1 read-side failure, 2 polls used up), bytes written *)
| CComb (arr : list (list (bool * pbytes))) (ws : list wev) (fs : list fev) (rs : list revh)
        (items : list (N * pbytes)) (f : N) (written : pbytes)
(* TimeoutStream: duration (ms), (clock advance, inner poll result) per poll; observed items
   (0, id) ok item / (1, id) inner error item / (2, 0) timeout error; fin 0 end, 1 timed out,
   2 script used up *)
| CTimeout (d : N) (s : list (N * iev)) (items : list (N * N)) (f : N).

Definition obs_titem (i : titem) : N * N :=
  match i with TItem true id => (0, id) | TItem false id => (1, id) | TTimeout => (2, 0) end.
Definition obs_tfin (f : tfin) : N := match f with TEnd => 0 | TTimedOut => 1 | TMore => 2 end.
Definition nn_eqb (a b : N * N) : bool := N.eqb (fst a) (fst b) && N.eqb (snd a) (snd b).

Definition obs_citem (i : citem) : N * list byte :=
  match i with CRd i => obs_item i | CSnd EMismatch => (4, []) | CSnd EWrite => (5, []) | CSnd EFlush => (6, []) end.
Definition obs_cfin (f : cfin) : N := match f with CClean => 0 | CFailed => 1 | CMore => 2 end.
Definition arr_of (arr : list (list (bool * pbytes))) : list (list qmsg) :=
  map (map (fun bm => (fst bm, unpack (snd bm)))) arr.

Definition item_eqb (a : N * list byte) (b : N * pbytes) : bool :=
  N.eqb (fst a) (fst b) && bytes_eqb (snd a) (unpack (snd b)).

Fixpoint items_eqb (a : list (N * list byte)) (b : list (N * pbytes)) : bool :=
  match a, b with
  | [], [] => true
  | x :: a', y :: b' => item_eqb x y && items_eqb a' b'
  | _, _ => false
  end.

Definition check (c : case) : bool :=
  match c with
  | CRead s items f =>
      let '(is, fn) := read_run (map rev_of s) in
      items_eqb (map obs_item is) items && N.eqb (obs_fin fn) f
  | CWrite msgs s written failed =>
      let '(w, fn) := write_run (map unpack msgs) s in
      bytes_eqb w (unpack written) && N.eqb (obs_wfin fn) failed
  | CComb arr ws fs rs items f written =>
      let '(is, fn, c) := comb_run (arr_of arr) ws fs (map rev_of rs) in
      items_eqb (map obs_citem is) items && N.eqb (obs_cfin fn) f
        && bytes_eqb (c_out c) (unpack written)
  | CTimeout d s items f =>
      let '(is, fn) := timeout_run d s in
      list_eqb nn_eqb (map obs_titem is) items && N.eqb (obs_tfin fn) f
  end.

Definition bad (cs : list case) : list N := bad_idx check 0 cs.

(* full model output for one case (used in replay files) *)
Definition show (c : case) :=
  match c with
  | CRead s _ _ => let '(is, fn) := read_run (map rev_of s) in (map obs_item is, obs_fin fn, @nil byte)
  | CWrite msgs s _ _ => let '(w, fn) := write_run (map unpack msgs) s in ([], obs_wfin fn, w)
  | CComb arr ws fs rs _ _ _ =>
      let '(is, fn, c) := comb_run (arr_of arr) ws fs (map rev_of rs) in
      (map obs_citem is, obs_cfin fn, c_out c)
  | CTimeout d s _ _ =>
      let '(is, fn) := timeout_run d s in
      (map (fun i => (fst (obs_titem i), [snd (obs_titem i)])) is, obs_tfin fn, @nil byte)
  end.
