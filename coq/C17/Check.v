(* C17 — correspondence glue: cases written by the Rust harness (inputs + what the real
   TcpStream did) are re-run on the model inside Coq and compared. *)
From HV Require Import Lib.Base Lib.Pack C17.Model.
Open Scope N_scope.

(* script events with packed payloads *)
Inductive revh := HPending | HData (d : pbytes) | HEof | HErr.
Definition rev_of (e : revh) : rev :=
  match e with HPending => RPending | HData h => RData (unpack h) | HEof => REof | HErr => RErr end.

(* observation: items as (tag, bytes): 0 = message, 1 = closed-in-length, 2 = closed-in-body,
   3 = io error; fin: 0 clean, 1 failed, 2 starved *)
Definition obs_item (i : item) : N * list byte :=
  match i with Msg m => (0, m) | ErrClosedLen => (1, []) | ErrClosedBody => (2, []) | ErrIo => (3, []) end.
Definition obs_fin (f : fin) : N := match f with Clean => 0 | Failed => 1 | Starved => 2 end.
Definition obs_wfin (f : wfin) : N := match f with WFailed => 1 | _ => 0 end.

Inductive case :=
| CRead (s : list revh) (items : list (N * pbytes)) (f : N)
| CWrite (msgs : list pbytes) (s : list wev) (written : pbytes) (failed : N).

Definition item_eqb (a : N * list byte) (b : N * pbytes) : bool :=
  N.eqb (fst a) (fst b) && bytes_eqb (snd a) (unpack (snd b)).

Fixpoint items_eqb (a : list (N * list byte)) (b : list (N * pbytes)) : bool :=
  match a, b with
  | [], [] => true
  | x :: a', y :: b' => item_eqb x y && items_eqb a' b'
  | _, _ => false
  end.

Definition check (c : case) : bool :=
  match c with
  | CRead s items f =>
      let '(is, fn) := read_run (map rev_of s) in
      items_eqb (map obs_item is) items && N.eqb (obs_fin fn) f
  | CWrite msgs s written failed =>
      let '(w, fn) := write_run (map unpack msgs) s in
      bytes_eqb w (unpack written) && N.eqb (obs_wfin fn) failed
  end.

Definition bad (cs : list case) : list N := bad_idx check 0 cs.

(* full model output for one case (used in replay files) *)
Definition show (c : case) :=
  match c with
  | CRead s _ _ => let '(is, fn) := read_run (map rev_of s) in (map obs_item is, obs_fin fn, @nil byte)
  | CWrite msgs s _ _ => let '(w, fn) := write_run (map unpack msgs) s in ([], obs_wfin fn, w)
  end.
