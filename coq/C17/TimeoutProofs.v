(* C17 — proofs about the TimeoutStream model. *)
From HV Require Import Lib.Base C17.Timeout.
Open Scope N_scope.

(* items pass through unchanged and in order; at most one timeout error, last *)
Lemma trun_prefix d : forall s now tm,
  exists pre post, inner_items s = pre ++ post /\
    fst (trun d now tm s) = pre ++ (match snd (trun d now tm s) with TTimedOut => [TTimeout] | _ => [] end) /\
    (snd (trun d now tm s) <> TTimedOut -> post = []).
Proof.
  induction s as [|[dt e] s IH]; intros now tm.
  - exists [], []. cbn. repeat split.
  - cbn [trun inner_items].
    set (now' := now + dt). set (tm' := match tm with None => arm d now' | Some _ => tm end).
    destruct e as [|ok id|].
    + destruct tm' as [dl|].
      * destruct (dl <=? now').
        -- exists [], (inner_items s). cbn [fst snd app]. repeat split. congruence.
        -- apply IH.
      * apply IH.
    + destruct (arm d now') as [dl|].
      * destruct (dl <=? now').
        -- exists [], (TItem ok id :: inner_items s). cbn [fst snd app]. repeat split. congruence.
        -- destruct (IH now' (Some dl)) as (pre & post & E1 & E2 & E3).
           destruct (trun d now' (Some dl) s) as [is f]. cbn [fst snd] in *.
           exists (TItem ok id :: pre), post. rewrite E1, E2. repeat split. exact E3.
      * destruct (IH now' None) as (pre & post & E1 & E2 & E3).
        destruct (trun d now' None s) as [is f]. cbn [fst snd] in *.
        exists (TItem ok id :: pre), post. rewrite E1, E2. repeat split. exact E3.
    + destruct (arm d now') as [dl|].
      * destruct (dl <=? now'); exists [], []; cbn [fst snd app]; repeat split.
      * exists [], []. cbn [fst snd app]. repeat split.
Qed.

Lemma arm_pos d now : 0 < d -> arm d now = Some (now + d).
Proof. intros H. unfold arm. now apply N.ltb_lt in H; rewrite H. Qed.

(* armed-state invariant: deadline = arming time + d, acc = time since arming *)
Definition tinv (d now : N) (tm : option N) (acc : option N) : Prop :=
  match tm, acc with
  | None, None => True
  | Some dl, Some a => dl + a = now + d
  | _, _ => False
  end.

Lemma trun_quiet d : 0 < d -> forall s now tm acc,
  tinv d now tm acc -> gaps_lt d acc s -> snd (trun d now tm s) <> TTimedOut.
Proof.
  intros Hd. induction s as [|[dt e] s IH]; intros now tm acc Hi Hg; [cbn; discriminate|].
  cbn [trun gaps_lt] in *.
  set (now' := now + dt) in *.
  set (acc' := match acc with None => 0 | Some a => a + dt end) in *.
  assert (Hi' : tinv d now' (match tm with None => arm d now' | Some _ => tm end) (Some acc')).
  { destruct tm as [dl|], acc as [a|]; cbn [tinv] in Hi; try contradiction.
    - cbn [tinv]. unfold acc', now'. lia.
    - rewrite arm_pos by exact Hd. cbn [tinv]. unfold acc'. lia. }
  destruct e as [|ok id|].
  - destruct Hg as [Hlt Hg].
    destruct (match tm with None => arm d now' | Some _ => tm end) as [dl|]; [|contradiction].
    cbn [tinv] in Hi'.
    destruct (N.leb_spec dl now') as [Hle|Hgt]; [lia|].
    apply (IH now' (Some dl) (Some acc')); [exact Hi'|exact Hg].
  - rewrite arm_pos by exact Hd.
    destruct (N.leb_spec (now' + d) now') as [Hle|Hgt]; [lia|].
    pose proof (IH now' (Some (now' + d)) (Some 0) ltac:(cbn [tinv]; lia) Hg) as HR.
    destruct (trun d now' (Some (now' + d)) s) as [is f]. exact HR.
  - rewrite arm_pos by exact Hd.
    destruct (N.leb_spec (now' + d) now') as [Hle|Hgt]; [lia|]. cbn. discriminate.
Qed.

(* zero duration: no timer at all *)
Lemma trun_zero : forall s now, snd (trun 0 now None s) <> TTimedOut.
Proof.
  induction s as [|[dt e] s IH]; intros now; [cbn; discriminate|].
  cbn [trun]. change (arm 0 (now + dt)) with (@None N).
  destruct e as [|ok id|].
  - apply IH.
  - pose proof (IH (now + dt)) as HR. destruct (trun 0 (now + dt) None s) as [is f]. exact HR.
  - cbn. discriminate.
Qed.
