(* C17 — combined model of ONE TcpStream::poll_next call, as the code does it
   (crates/net/src/tcp/tcp_stream.rs): the send loop runs first (pop a message from the
   outbound queue, peer check, vectored length+body write, body write, Flushing with
   poll_flush), and only when the send side has nothing more to do does the receive loop
   run.  A Pending or an error on the send side returns from the whole poll, so nothing is
   read ("self throttling").
   Socket results come from three scripts, one per call kind (poll_write[_vectored],
   poll_flush, poll_read), each consumed in call order; an exhausted script answers
   Pending for ever.  The outbound queue receives one scripted batch of messages before
   every poll.  No proofs in this file. *)
From HV Require Import Lib.Base C17.Model.
Open Scope N_scope.

(* Some(WriteTcpState): LenBytes/Bytes are the [wstate]s of Model.v (never WIdle here) *)
Inductive sstate := SW (w : wstate) | SFlush.
Inductive fev := FOk | FPend | FErr.                 (* poll_flush results *)
(* items of the combined stream: read-side items, or an Err from the send side *)
Inductive serr := EMismatch | EWrite | EFlush.
Inductive citem := CRd (i : item) | CSnd (e : serr).
(* a queued SerialMessage: (dst == peer_addr, bytes) *)
Definition qmsg := (bool * list byte)%type.

Record cst := mkC {
  c_snd : option sstate;      (* send_state *)
  c_rd : rstate;              (* read_state *)
  c_q : list qmsg;            (* outbound_messages (already arrived) *)
  c_ws : list wev;            (* future poll_write results *)
  c_fs : list fev;            (* future poll_flush results *)
  c_rs : list rev;            (* future poll_read results *)
  c_out : list byte           (* bytes accepted by the socket so far *)
}.

(* "switch states" after `*pos += wrote`: wadvance with an empty queue says WIdle
   exactly where the Rust goes to Flushing *)
Definition sadvance (st : wstate) (wrote : nat) : sstate :=
  match fst (wadvance st wrote []) with WIdle => SFlush | st' => SW st' end.

Inductive sres := SBreak | SPend | SErr (e : serr).

(* the first `loop` of poll_next; one iteration per unit of fuel *)
Fixpoint csend (fuel : nat) (c : cst) : sres * cst :=
  match fuel with
  | O => (SPend, c)      (* not reached with [send_fuel] *)
  | S fuel' =>
    let 'mkC sn rd q ws fs rs out := c in
    match sn with
    | None =>
        (* outbound_messages.poll_next *)
        match q with
        | [] => (SBreak, c)                                      (* Pending / Ready(None): break *)
        | (false, _) :: q' => (SErr EMismatch, mkC None rd q' ws fs rs out)   (* peer != dst *)
        | (true, m) :: q' =>
            csend fuel' (mkC (Some (SW (WLen 0 (len_prefix m) m))) rd q' ws fs rs out)
        end
    | Some SFlush =>
        match fs with
        | [] => (SPend, c)
        | FPend :: fs' => (SPend, mkC sn rd q ws fs' rs out)
        | FErr :: fs' => (SErr EFlush, mkC sn rd q ws fs' rs out)   (* `?`: state kept *)
        | FOk :: fs' => csend fuel' (mkC None rd q ws fs' rs out)
        end
    | Some (SW st) =>
        match ws with
        | [] => (SPend, c)
        | WPend :: ws' => (SPend, mkC sn rd q ws' fs rs out)
        | WErr :: ws' => (SErr EWrite, mkC sn rd q ws' fs rs out)   (* `?`: state kept *)
        | WAcc n :: ws' =>
            let off := woffered st in
            let w := Nat.min n (length off) in
            csend fuel' (mkC (Some (sadvance st w)) rd q ws' fs rs (out ++ firstn w off))
        end
    end
  end.

Definition send_fuel (c : cst) : nat := S (length (c_q c) + length (c_ws c) + length (c_fs c)).

(* ---- one poll_read call and what the receive loop does with it ---- *)
Inductive rstepres :=
| RSStarve
| RSPend (s' : list rev)
| RSFin (i : list item) (f : fin)
| RSCont (st' : rstate) (s' : list rev)
| RSMsg (m : list byte) (s' : list rev).

Definition rstep (st : rstate) (s : list rev) : rstepres :=
  match s with
  | [] => RSStarve
  | RPending :: s' => RSPend s'
  | RErr :: _ => RSFin [ErrIo] Failed
  | REof :: _ => let (i, f) := eof_item st in RSFin i f
  | RData [] :: _ => let (i, f) := eof_item st in RSFin i f
  | RData (b :: ch) :: s' =>
      match st with
      | RLen got =>
          let cap := (2 - length got)%nat in
          let r := firstn cap (b :: ch) in
          let rest := skipn cap (b :: ch) in
          let s'' := match rest with [] => s' | _ => RData rest :: s' end in
          let got' := got ++ r in
          if (length got' <? 2)%nat then RSCont (RLen got') s''
          else RSCont (RBody (be16 (nth 0 got' 0) (nth 1 got' 0)) []) s''
      | RBody len got =>
          let cap := (len - length got)%nat in
          match cap with
          | O => RSFin [ErrClosedBody] Failed
          | _ =>
            let r := firstn cap (b :: ch) in
            let rest := skipn cap (b :: ch) in
            let s'' := match rest with [] => s' | _ => RData rest :: s' end in
            let got' := got ++ r in
            if (length got' <? len)%nat then RSCont (RBody len got') s''
            else RSMsg got' s''
          end
      end
  end.

Inductive pres :=
| PPending
| PSendErr (e : serr)
| PMsg (m : list byte)
| PFin (i : list item) (f : fin).     (* Ready(None) (i = []) or a read-side Err *)

(* the `while ret_buf.is_none()` loop of one poll *)
Fixpoint rpoll (fuel : nat) (st : rstate) (s : list rev) : pres * rstate * list rev :=
  match fuel with
  | O => (PPending, st, s)     (* not reached with fuel S (rsize s) *)
  | S fuel' =>
    match rstep st s with
    | RSStarve => (PPending, st, s)
    | RSPend s' => (PPending, st, s')
    | RSFin i f => (PFin i f, st, s)
    | RSCont st' s' => rpoll fuel' st' s'
    | RSMsg m s' => (PMsg m, rinit, s')
    end
  end.

(* one poll_next *)
Definition cpoll (c : cst) : pres * cst :=
  match csend (send_fuel c) c with
  | (SPend, c1) => (PPending, c1)
  | (SErr e, c1) => (PSendErr e, c1)
  | (SBreak, c1) =>
      let '(r, rd', rs') := rpoll (S (rsize (c_rs c1))) (c_rd c1) (c_rs c1) in
      (r, mkC (c_snd c1) rd' (c_q c1) (c_ws c1) (c_fs c1) rs' (c_out c1))
  end.

Definition enq (c : cst) (b : list qmsg) : cst :=
  mkC (c_snd c) (c_rd c) (c_q c ++ b) (c_ws c) (c_fs c) (c_rs c) (c_out c).

Inductive cfin := CClean | CFailed | CMore.   (* Ready(None) / read-side Err / polls used up *)

(* One poll per batch of arrivals.  The consumer stops at Ready(None) and at a read-side
   error (the socket is dead); it keeps polling after a send-side Err item, which is what
   the code permits (send_state is kept, the write is retried). *)
Fixpoint crun (arr : list (list qmsg)) (c : cst) : list citem * cfin * cst :=
  match arr with
  | [] => ([], CMore, c)
  | b :: arr' =>
    match cpoll (enq c b) with
    | (PPending, c') => crun arr' c'
    | (PSendErr e, c') => let '(is, f, c'') := crun arr' c' in (CSnd e :: is, f, c'')
    | (PMsg m, c') => let '(is, f, c'') := crun arr' c' in (CRd (Msg m) :: is, f, c'')
    | (PFin i f, c') => (map CRd i, match f with Clean => CClean | _ => CFailed end, c')
    end
  end.

Definition cinit (ws : list wev) (fs : list fev) (rs : list rev) : cst :=
  mkC None rinit [] ws fs rs [].

Definition comb_run arr ws fs rs := crun arr (cinit ws fs rs).

(* ---- specification vocabulary ---- *)
(* read-side items of a combined item list *)
Fixpoint ritems (l : list citem) : list item :=
  match l with
  | [] => []
  | CRd i :: l' => i :: ritems l'
  | _ :: l' => ritems l'
  end.

(* bodies of the queued messages whose destination is the peer, in queue order *)
Fixpoint goodq (q : list qmsg) : list (list byte) :=
  match q with
  | [] => []
  | (true, m) :: q' => m :: goodq q'
  | (false, _) :: q' => goodq q'
  end.

(* what is still owed to the socket by the current send state *)
Definition pending (sn : option sstate) : list byte :=
  match sn with Some (SW st) => woffered st | _ => [] end.
