(* C17 — model of TimeoutStream::poll_next (crates/server/src/server/timeout_stream.rs)
   over a logical clock (milliseconds).  The inner stream is a script: before each poll
   the clock advances by [dt], then the inner poll_next answers [e].  The timer is a
   deadline (tokio::time::sleep(d) created at time t completes at t + d).
   No proofs in this file. *)
From HV Require Import Lib.Base.
Open Scope N_scope.

Inductive iev := IPend | IItem (ok : bool) (id : N) | IEnd.   (* Pending / Some(Ok|Err) / None *)
Inductive titem := TItem (ok : bool) (id : N) | TTimeout.     (* passed through / TimedOut error *)
Inductive tfin := TEnd | TTimedOut | TMore.                   (* None / timeout error / script used up *)

(* Self::timeout(d): `if d > 0 { Some(sleep(d)) } else { None }` *)
Definition arm (d now : N) : option N := if 0 <? d then Some (now + d) else None.

(* The consumer stops at None and at the timeout error. *)
Fixpoint trun (d now : N) (tm : option N) (s : list (N * iev)) : list titem * tfin :=
  match s with
  | [] => ([], TMore)
  | (dt, e) :: s' =>
    let now := now + dt in
    (* "if the timer isn't set, set one now" *)
    let tm := match tm with None => arm d now | Some _ => tm end in
    match e with
    | IPend =>
        match tm with
        | Some dl => if dl <=? now then ([TTimeout], TTimedOut) else trun d now tm s'
        | None => trun d now None s'
        end
    | IItem ok id =>
        (* r @ Ready(_): a fresh timer is created and polled once *)
        match arm d now with
        | Some dl =>
            if dl <=? now then ([TTimeout], TTimedOut)      (* "timeout fired immediately!" *)
            else let (is, f) := trun d now (Some dl) s' in (TItem ok id :: is, f)
        | None => let (is, f) := trun d now None s' in (TItem ok id :: is, f)
        end
    | IEnd =>
        match arm d now with
        | Some dl => if dl <=? now then ([TTimeout], TTimedOut) else ([], TEnd)
        | None => ([], TEnd)
        end
    end
  end.

Definition timeout_run (d : N) (s : list (N * iev)) := trun d 0 None s.

(* ---- specification vocabulary ---- *)
(* items of the inner stream up to its end *)
Fixpoint inner_items (s : list (N * iev)) : list titem :=
  match s with
  | [] => []
  | (_, IPend) :: s' => inner_items s'
  | (_, IItem ok id) :: s' => TItem ok id :: inner_items s'
  | (_, IEnd) :: _ => []
  end.

(* every stretch of Pending polls since the timer was last armed (first poll, or the last
   Ready) is shorter than d.  [acc] = time since arming, None = not armed yet *)
Fixpoint gaps_lt (d : N) (acc : option N) (s : list (N * iev)) : Prop :=
  match s with
  | [] => True
  | (dt, e) :: s' =>
    let acc' := match acc with None => 0 | Some a => a + dt end in
    match e with
    | IPend => acc' < d /\ gaps_lt d (Some acc') s'
    | IItem _ _ => gaps_lt d (Some 0) s'
    | IEnd => True
    end
  end.
