(* C17 — property theorems (statements only; proofs are [exact]s of lemmas proved in
   ReadProofs.v / WriteProofs.v).  Print Assumptions under each. *)
From HV Require Import Lib.Base C17.Model C17.ReadProofs C17.WriteProofs C17.Combined C17.CombinedProofs C17.Timeout C17.TimeoutProofs.
Open Scope N_scope.

(* The outcome of reading depends only on the concatenated bytes, not on how they are
   chunked or how many would-block steps are interleaved. *)
Theorem C17_read_chunking_independent : forall s1 s2,
  good_script s1 -> good_script s2 -> payload s1 = payload s2 ->
  read_run (s1 ++ [REof]) = read_run (s2 ++ [REof]).
Proof. intros s1 s2 H1 H2 E. rewrite !read_run_denote by assumption. now rewrite E. Qed.
Print Assumptions C17_read_chunking_independent.

(* Any chunking of a stream of well-formed frames, closed at a frame boundary, yields
   exactly the messages, whole, in order, once, then a clean end. *)
Theorem C17_read_any_chunking : forall msgs s,
  Forall ok_msg msgs -> good_script s -> payload s = stream msgs ->
  read_run (s ++ [REof]) = (map Msg msgs, Clean).
Proof.
  intros msgs s Hm Hg Hp. rewrite read_run_denote by exact Hg. rewrite Hp.
  rewrite <- (app_nil_r (stream msgs)). rewrite denote_stream_app by exact Hm.
  cbn. now rewrite app_nil_r.
Qed.
Print Assumptions C17_read_any_chunking.

(* A close inside a length prefix or inside a body yields the complete messages before
   it and then an error. *)
Theorem C17_read_close_inside : forall msgs m k s,
  Forall ok_msg msgs -> ok_msg m -> (0 < k < length (frame m))%nat -> good_script s ->
  payload s = stream msgs ++ firstn k (frame m) ->
  read_run (s ++ [REof]) =
    (map Msg msgs ++ [if (k <? 2)%nat then ErrClosedLen else ErrClosedBody], Failed).
Proof.
  intros msgs m k s Hm Hok Hk Hg Hp. rewrite read_run_denote by exact Hg. rewrite Hp.
  rewrite denote_stream_app by exact Hm. rewrite denote_partial_frame by assumption. reflexivity.
Qed.
Print Assumptions C17_read_close_inside.

(* A zero-length frame is not a message: it ends the stream with an error. *)
Theorem C17_read_zero_len_frame : forall msgs rest s,
  Forall ok_msg msgs -> good_script s -> payload s = stream msgs ++ 0 :: 0 :: rest ->
  read_run (s ++ [REof]) = (map Msg msgs ++ [ErrClosedBody], Failed).
Proof.
  intros msgs rest s Hm Hg Hp. rewrite read_run_denote by exact Hg. rewrite Hp.
  rewrite denote_stream_app by exact Hm. rewrite denote_zero_frame. reflexivity.
Qed.
Print Assumptions C17_read_zero_len_frame.

(* Whatever the socket accepts per call (any script, errors included), the bytes handed
   to it are a prefix of the concatenated length-prefixed frames; all of them once the
   machine reports done. *)
Theorem C17_write_any_acceptance : forall msgs s,
  Forall ok_msg msgs ->
  exists rest, stream msgs = fst (write_run msgs s) ++ rest /\
               (snd (write_run msgs s) = WDone -> rest = []).
Proof. intros msgs s Hm. rewrite <- (streamw_ok msgs Hm). apply write_run_prefix. Qed.
Print Assumptions C17_write_any_acceptance.

(* Enough accepting calls, each taking at least one byte, complete the transmission,
   with would-block possible anywhere. *)
Theorem C17_write_progress : forall msgs s,
  Forall ok_msg msgs -> wgood s -> (length (stream msgs) <= waccs s)%nat ->
  write_run msgs s = (stream msgs, WDone).
Proof.
  intros msgs s Hm Hg Hl. rewrite <- (streamw_ok msgs Hm) in Hl.
  pose proof (write_run_progress msgs s Hg Hl) as Hd.
  destruct (write_run_prefix msgs s) as (rest & H1 & H2).
  rewrite (H2 Hd), app_nil_r in H1. rewrite (streamw_ok msgs Hm) in H1.
  destruct (write_run msgs s) as [w f]; cbn [fst snd] in *. now subst.
Qed.
Print Assumptions C17_write_progress.

(* End to end: send through one machine with any acceptance pattern, deliver the bytes to
   the other with any chunking: exactly the sent messages arrive. *)
Theorem C17_write_then_read : forall msgs ws rs,
  Forall ok_msg msgs -> wgood ws -> (length (stream msgs) <= waccs ws)%nat ->
  good_script rs -> payload rs = fst (write_run msgs ws) ->
  read_run (rs ++ [REof]) = (map Msg msgs, Clean).
Proof.
  intros msgs ws rs Hm Hg Hl Hr Hp.
  rewrite (C17_write_progress msgs ws Hm Hg Hl) in Hp. cbn [fst] in Hp.
  now apply C17_read_any_chunking.
Qed.
Print Assumptions C17_write_then_read.

(* Non-vacuity: concrete scripts meeting the hypotheses, with split points inside the
   prefix and a one-byte vectored write. *)
Example C17_read_example :
  let msgs := [[7; 8; 9]; [1]] in
  let s := [RData [0]; RPending; RData [3; 7]; RData [8; 9; 0]; RPending; RData [1; 1]] in
  Forall ok_msg msgs /\ good_script s /\ payload s = stream msgs /\
  read_run (s ++ [REof]) = (map Msg msgs, Clean).
Proof.
  cbv zeta. repeat split; try (repeat constructor; cbn; lia).
Qed.
Example C17_write_example :
  let msgs := [[7; 8; 9]; [1]] in
  let s := [WAcc 1; WPend; WAcc 2; WAcc 1; WAcc 100; WPend; WAcc 1; WAcc 5; WAcc 1; WAcc 1] in
  wgood s /\ (length (stream msgs) <= waccs s)%nat /\
  write_run msgs s = ([0; 3; 7; 8; 9; 0; 1; 1], WDone).
Proof. cbv zeta. repeat split; try (repeat constructor; cbn; lia). Qed.

(* ------------------------------------------------------------------ *)
(* Combined machine (Combined.v): one poll_next = send loop, then receive loop; any      *)
(* arrival schedule of outbound messages, any write / flush / read scripts.              *)
(* ------------------------------------------------------------------ *)

(* (a) Whatever the send side does (any arrivals, any write and flush scripts, any number
   of polls), the read-side items yielded are a prefix of what the chunking-free reference
   makes of the concatenated payload, and all of it, with the same ending, when the run
   ended on the read side (Ready(None) or a read-side error). *)
Theorem C17_combined_read_refines : forall arr ws fs s,
  good_script s ->
  exists tl,
    fst (denote (payload s)) = ritems (fst (fst (comb_run arr ws fs (s ++ [REof])))) ++ tl /\
    (snd (fst (comb_run arr ws fs (s ++ [REof]))) = CClean -> tl = [] /\ snd (denote (payload s)) = Clean) /\
    (snd (fst (comb_run arr ws fs (s ++ [REof]))) = CFailed -> tl = [] /\ snd (denote (payload s)) = Failed).
Proof. exact comb_read_refines. Qed.
Print Assumptions C17_combined_read_refines.

(* (a) Two runs with different chunkings of the same payload and arbitrary, different send
   activity, both ended on the read side, yield the same read-side items and ending.
   (Progress of the combined machine, i.e. that enough polls end the run, is not proved.) *)
Theorem C17_combined_chunking_independent : forall arr1 ws1 fs1 s1 arr2 ws2 fs2 s2,
  good_script s1 -> good_script s2 -> payload s1 = payload s2 ->
  snd (fst (comb_run arr1 ws1 fs1 (s1 ++ [REof]))) <> CMore ->
  snd (fst (comb_run arr2 ws2 fs2 (s2 ++ [REof]))) <> CMore ->
  ritems (fst (fst (comb_run arr1 ws1 fs1 (s1 ++ [REof])))) =
    ritems (fst (fst (comb_run arr2 ws2 fs2 (s2 ++ [REof])))) /\
  snd (fst (comb_run arr1 ws1 fs1 (s1 ++ [REof]))) = snd (fst (comb_run arr2 ws2 fs2 (s2 ++ [REof]))).
Proof. exact comb_chunking_independent. Qed.
Print Assumptions C17_combined_chunking_independent.

(* (a) With well-formed frames: exactly the messages, whole, in order, once. *)
Theorem C17_combined_any_chunking : forall arr ws fs msgs s,
  Forall ok_msg msgs -> good_script s -> payload s = stream msgs ->
  exists tl, map Msg msgs = ritems (fst (fst (comb_run arr ws fs (s ++ [REof])))) ++ tl /\
    (snd (fst (comb_run arr ws fs (s ++ [REof]))) = CClean -> tl = []) /\
    snd (fst (comb_run arr ws fs (s ++ [REof]))) <> CFailed.
Proof.
  intros arr ws fs msgs s Hm Hg Hp.
  destruct (comb_read_refines arr ws fs s Hg) as (tl & E & C & F).
  rewrite Hp in *. rewrite <- (app_nil_r (stream msgs)) in *.
  rewrite denote_stream_app in * by exact Hm. cbn [denote deframe length fst snd] in *.
  rewrite app_nil_r in E. exists tl. split; [exact E|]. split.
  - intros X. exact (proj1 (C X)).
  - intros X. destruct (F X) as [_ B]. discriminate B.
Qed.
Print Assumptions C17_combined_any_chunking.

(* (b) For every interleaving with reads, every arrival schedule and every socket script
   (errors, Pending, zero-byte writes included), the bytes accepted by the socket are a
   prefix of the frames of the queued messages addressed to the peer, in queue order
   (length prefix as the code computes it: `len as u16`). *)
Theorem C17_combined_write_prefix : forall arr ws fs rs,
  exists rest, streamw (goodq (concat arr)) = c_out (snd (comb_run arr ws fs rs)) ++ rest.
Proof. exact comb_write_prefix. Qed.
Print Assumptions C17_combined_write_prefix.

Theorem C17_combined_write_prefix_ok : forall arr ws fs rs,
  Forall ok_msg (goodq (concat arr)) ->
  exists rest, stream (goodq (concat arr)) = c_out (snd (comb_run arr ws fs rs)) ++ rest.
Proof. intros arr ws fs rs Hm. rewrite <- (streamw_ok _ Hm). apply comb_write_prefix. Qed.
Print Assumptions C17_combined_write_prefix_ok.

(* (c) When the send loop does not fall through (write or flush Pending, or a send-side
   error), the poll returns Pending / that error and the read state and the unread socket
   data are untouched: nothing is lost or duplicated. *)
Theorem C17_combined_send_blocked_keeps_read : forall c r c1,
  csend (send_fuel c) c = (r, c1) -> r <> SBreak ->
  cpoll c = (match r with SErr e => PSendErr e | _ => PPending end, c1) /\
  c_rd c1 = c_rd c /\ c_rs c1 = c_rs c.
Proof. exact cpoll_send_blocked. Qed.
Print Assumptions C17_combined_send_blocked_keeps_read.

(* (d) A queued message whose destination is not the peer yields the mismatch error in
   that poll, is dropped, and none of its bytes reach the socket (by (b) they never do:
   only [goodq] messages are framed). *)
Theorem C17_combined_mismatch : forall c m q',
  c_snd c = None -> c_q c = (false, m) :: q' ->
  cpoll c = (PSendErr EMismatch, mkC None (c_rd c) q' (c_ws c) (c_fs c) (c_rs c) (c_out c)).
Proof. exact cpoll_mismatch. Qed.
Print Assumptions C17_combined_mismatch.

(* The fuel that [cpoll] hands to the two loops is enough: with more fuel nothing changes
   (so the fuel-exhausted branches of csend / rpoll are never taken), and well-formedness
   of the read state, which the second statement needs, is kept by every poll. *)
Theorem C17_combined_fuel_enough :
  (forall c f, (send_fuel c <= f)%nat -> csend f c = csend (send_fuel c) c) /\
  (forall st s f, wf_r st -> (S (rsize s) <= f)%nat -> rpoll f st s = rpoll (S (rsize s)) st s) /\
  (forall c, wf_r (c_rd c) -> wf_r (c_rd (snd (cpoll c)))).
Proof.
  split; [exact send_fuel_enough|split; [|exact cpoll_wf]].
  intros st s f Hw Hf. apply rpoll_fuel; [exact Hw|lia|lia].
Qed.
Print Assumptions C17_combined_fuel_enough.

(* Non-vacuity for the combined theorems: sends interleaved with chunked reads, a flush
   Pending, a write Pending, a mismatched message. *)
Example C17_combined_example :
  let arr := [[(true, [7; 8])]; []; [(false, [9]); (true, [5])]; []; []; []; []; []; []; []; []; []] in
  let ws := [WAcc 1; WPend; WAcc 3; WAcc 9] in
  let fs := [FPend; FOk; FOk] in
  let s := [RData [0]; RPending; RData [3; 7]; RData [8; 9; 0]; RData [1; 1]] in
  let msgs := [[7; 8; 9]; [1]] in
  Forall ok_msg msgs /\ good_script s /\ payload s = stream msgs /\
  fst (comb_run arr ws fs (s ++ [REof])) =
    ([CSnd EMismatch; CRd (Msg [7; 8; 9]); CRd (Msg [1])], CClean) /\
  c_out (snd (comb_run arr ws fs (s ++ [REof]))) = [0; 2; 7; 8; 0; 1; 5] /\
  Forall ok_msg (goodq (concat arr)).
Proof. cbv zeta. repeat split; try (repeat constructor; cbn; lia). Qed.
Example C17_combined_blocked_example :
  let c := mkC (Some (SW (WBytes 1 [7; 8]))) (RBody 3 [4]) [] [WPend] [] [RData [5]] [0; 2; 7] in
  exists c1, csend (send_fuel c) c = (SPend, c1) /\ SPend <> SBreak.
Proof. cbv zeta. eexists. split; [reflexivity|discriminate]. Qed.
Example C17_combined_mismatch_example :
  let c := mkC None (RLen [1]) [(false, [9]); (true, [5])] [] [] [] [] in
  c_snd c = None /\ c_q c = (false, [9]) :: [(true, [5])].
Proof. cbv zeta. split; reflexivity. Qed.

(* ------------------------------------------------------------------ *)
(* TimeoutStream (Timeout.v): logical clock, scripted inner stream.                       *)
(* ------------------------------------------------------------------ *)

(* Items of the inner stream pass through unchanged and in order; the output is a prefix
   of the inner stream's items followed by at most one timeout error (then the consumer
   stops); without a timeout error everything the inner stream yielded was delivered. *)
Theorem C17_timeout_passthrough : forall d s,
  exists pre post, inner_items s = pre ++ post /\
    fst (timeout_run d s) =
      pre ++ (match snd (timeout_run d s) with TTimedOut => [TTimeout] | _ => [] end) /\
    (snd (timeout_run d s) <> TTimedOut -> post = []).
Proof. intros d s. apply trun_prefix. Qed.
Print Assumptions C17_timeout_passthrough.

(* No timeout error if every stretch without a Ready item (measured from the first poll or
   from the last Ready, which re-arms the timer) is shorter than the duration. *)
Theorem C17_timeout_quiet : forall d s,
  0 < d -> gaps_lt d None s -> snd (timeout_run d s) <> TTimedOut.
Proof. intros d s Hd Hg. exact (trun_quiet d Hd s 0 None None I Hg). Qed.
Print Assumptions C17_timeout_quiet.

(* Zero duration = no timer: never a timeout error. *)
Theorem C17_timeout_zero_duration : forall s, snd (timeout_run 0 s) <> TTimedOut.
Proof. intros s. apply trun_zero. Qed.
Print Assumptions C17_timeout_zero_duration.

(* A Pending poll at least d after arming yields the TimedOut error. *)
Theorem C17_timeout_fires : forall d dt s,
  0 < d -> d <= dt -> timeout_run d ((0, IPend) :: (dt, IPend) :: s) = ([TTimeout], TTimedOut).
Proof.
  intros d dt s Hd Hle. unfold timeout_run. cbn [trun]. rewrite arm_pos by exact Hd.
  destruct (N.leb_spec (0 + 0 + d) (0 + 0)) as [H|H]; [lia|].
  destruct (N.leb_spec (0 + 0 + d) (0 + 0 + dt)) as [H'|H']; [reflexivity|lia].
Qed.
Print Assumptions C17_timeout_fires.

Example C17_timeout_example :
  let s := [(0, IPend); (5, IPend); (4, IItem true 1); (9, IPend); (3, IItem false 2); (7, IEnd)] in
  0 < 10 /\ gaps_lt 10 None s /\
  timeout_run 10 s = ([TItem true 1; TItem false 2], TEnd) /\
  timeout_run 10 [(0, IPend); (5, IItem true 1); (9, IPend); (1, IPend)] = ([TItem true 1; TTimeout], TTimedOut).
Proof. cbv zeta. cbn [gaps_lt]. repeat split; try lia; reflexivity. Qed.
