(* C17 — property theorems (statements only; proofs are [exact]s of lemmas proved in
   ReadProofs.v / WriteProofs.v).  Print Assumptions under each. *)
From HV Require Import Lib.Base C17.Model C17.ReadProofs C17.WriteProofs.
Open Scope N_scope.

(* The outcome of reading depends only on the concatenated bytes, not on how they are
   chunked or how many would-block steps are interleaved. *)
Theorem C17_read_chunking_independent : forall s1 s2,
  good_script s1 -> good_script s2 -> payload s1 = payload s2 ->
  read_run (s1 ++ [REof]) = read_run (s2 ++ [REof]).
Proof. intros s1 s2 H1 H2 E. rewrite !read_run_denote by assumption. now rewrite E. Qed.
Print Assumptions C17_read_chunking_independent.

(* Any chunking of a stream of well-formed frames, closed at a frame boundary, yields
   exactly the messages, whole, in order, once, then a clean end. *)
Theorem C17_read_any_chunking : forall msgs s,
  Forall ok_msg msgs -> good_script s -> payload s = stream msgs ->
  read_run (s ++ [REof]) = (map Msg msgs, Clean).
Proof.
  intros msgs s Hm Hg Hp. rewrite read_run_denote by exact Hg. rewrite Hp.
  rewrite <- (app_nil_r (stream msgs)). rewrite denote_stream_app by exact Hm.
  cbn. now rewrite app_nil_r.
Qed.
Print Assumptions C17_read_any_chunking.

(* A close inside a length prefix or inside a body yields the complete messages before
   it and then an error. *)
Theorem C17_read_close_inside : forall msgs m k s,
  Forall ok_msg msgs -> ok_msg m -> (0 < k < length (frame m))%nat -> good_script s ->
  payload s = stream msgs ++ firstn k (frame m) ->
  read_run (s ++ [REof]) =
    (map Msg msgs ++ [if (k <? 2)%nat then ErrClosedLen else ErrClosedBody], Failed).
Proof.
  intros msgs m k s Hm Hok Hk Hg Hp. rewrite read_run_denote by exact Hg. rewrite Hp.
  rewrite denote_stream_app by exact Hm. rewrite denote_partial_frame by assumption. reflexivity.
Qed.
Print Assumptions C17_read_close_inside.

(* A zero-length frame is not a message: it ends the stream with an error. *)
Theorem C17_read_zero_len_frame : forall msgs rest s,
  Forall ok_msg msgs -> good_script s -> payload s = stream msgs ++ 0 :: 0 :: rest ->
  read_run (s ++ [REof]) = (map Msg msgs ++ [ErrClosedBody], Failed).
Proof.
  intros msgs rest s Hm Hg Hp. rewrite read_run_denote by exact Hg. rewrite Hp.
  rewrite denote_stream_app by exact Hm. rewrite denote_zero_frame. reflexivity.
Qed.
Print Assumptions C17_read_zero_len_frame.

(* Whatever the socket accepts per call (any script, errors included), the bytes handed
   to it are a prefix of the concatenated length-prefixed frames; all of them once the
   machine reports done. *)
Theorem C17_write_any_acceptance : forall msgs s,
  Forall ok_msg msgs ->
  exists rest, stream msgs = fst (write_run msgs s) ++ rest /\
               (snd (write_run msgs s) = WDone -> rest = []).
Proof. intros msgs s Hm. rewrite <- (streamw_ok msgs Hm). apply write_run_prefix. Qed.
Print Assumptions C17_write_any_acceptance.

(* Enough accepting calls, each taking at least one byte, complete the transmission,
   with would-block possible anywhere. *)
Theorem C17_write_progress : forall msgs s,
  Forall ok_msg msgs -> wgood s -> (length (stream msgs) <= waccs s)%nat ->
  write_run msgs s = (stream msgs, WDone).
Proof.
  intros msgs s Hm Hg Hl. rewrite <- (streamw_ok msgs Hm) in Hl.
  pose proof (write_run_progress msgs s Hg Hl) as Hd.
  destruct (write_run_prefix msgs s) as (rest & H1 & H2).
  rewrite (H2 Hd), app_nil_r in H1. rewrite (streamw_ok msgs Hm) in H1.
  destruct (write_run msgs s) as [w f]; cbn [fst snd] in *. now subst.
Qed.
Print Assumptions C17_write_progress.

(* End to end: send through one machine with any acceptance pattern, deliver the bytes to
   the other with any chunking: exactly the sent messages arrive. *)
Theorem C17_write_then_read : forall msgs ws rs,
  Forall ok_msg msgs -> wgood ws -> (length (stream msgs) <= waccs ws)%nat ->
  good_script rs -> payload rs = fst (write_run msgs ws) ->
  read_run (rs ++ [REof]) = (map Msg msgs, Clean).
Proof.
  intros msgs ws rs Hm Hg Hl Hr Hp.
  rewrite (C17_write_progress msgs ws Hm Hg Hl) in Hp. cbn [fst] in Hp.
  now apply C17_read_any_chunking.
Qed.
Print Assumptions C17_write_then_read.

(* Non-vacuity: concrete scripts meeting the hypotheses, with split points inside the
   prefix and a one-byte vectored write. *)
Example C17_read_example :
  let msgs := [[7; 8; 9]; [1]] in
  let s := [RData [0]; RPending; RData [3; 7]; RData [8; 9; 0]; RPending; RData [1; 1]] in
  Forall ok_msg msgs /\ good_script s /\ payload s = stream msgs /\
  read_run (s ++ [REof]) = (map Msg msgs, Clean).
Proof.
  cbv zeta. repeat split; try (repeat constructor; cbn; lia).
Qed.
Example C17_write_example :
  let msgs := [[7; 8; 9]; [1]] in
  let s := [WAcc 1; WPend; WAcc 2; WAcc 1; WAcc 100; WPend; WAcc 1; WAcc 5; WAcc 1; WAcc 1] in
  wgood s /\ (length (stream msgs) <= waccs s)%nat /\
  write_run msgs s = ([0; 3; 7; 8; 9; 0; 1; 1], WDone).
Proof. cbv zeta. repeat split; try (repeat constructor; cbn; lia). Qed.
