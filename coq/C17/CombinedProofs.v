(* C17 — proofs about the combined poll_next machine (Combined.v). *)
From HV Require Import Lib.Base Lib.ListX C17.Model C17.ReadProofs C17.WriteProofs C17.Combined.
Open Scope N_scope.

(* ================================================================== *)
(* Send side                                                           *)
(* ================================================================== *)

Definition wfs (sn : option sstate) : Prop :=
  match sn with Some (SW st) => wfw st /\ st <> WIdle | _ => True end.

(* everything accepted so far + everything still owed, in order *)
Definition total (c : cst) : list byte :=
  c_out c ++ pending (c_snd c) ++ streamw (goodq (c_q c)).

Lemma goodq_app a b : goodq (a ++ b) = goodq a ++ goodq b.
Proof.
  induction a as [|[[|] m] a IH]; cbn [app goodq]; [reflexivity| |exact IH].
  now rewrite IH.
Qed.

Lemma streamw_app a b : streamw (a ++ b) = streamw a ++ streamw b.
Proof. unfold streamw. now rewrite map_app, concat_app. Qed.

Lemma wadvance_nil st w : snd (wadvance st w []) = [].
Proof.
  destruct st as [|pos l b|pos b]; cbn [wadvance]; [reflexivity| |].
  - destruct (pos + w <? length l)%nat; [reflexivity|].
    destruct (pos + w <? length l + length b)%nat; reflexivity.
  - destruct (pos + w <? length b)%nat; reflexivity.
Qed.

Lemma sadvance_spec st w :
  wfw st -> st <> WIdle -> (w <= length (woffered st))%nat ->
  pending (Some (sadvance st w)) = skipn w (woffered st) /\ wfs (Some (sadvance st w)).
Proof.
  intros Hw Hn Hle. pose proof (wadvance_spec st w [] Hw Hn Hle) as HA.
  pose proof (wadvance_nil st w) as HQ.
  unfold sadvance. destruct (wadvance st w []) as [st' q']. destruct HA as (H1 & H2 & _).
  cbn [fst]. cbn [snd] in HQ. subst q'.
  unfold remaining in H1. change (streamw []) with (@nil byte) in H1.
  rewrite !app_nil_r in H1.
  destruct st' as [|pos l b|pos b]; cbn [pending wfs].
  - split; [exact H1|exact I].
  - split; [exact H1|split; [exact H2|discriminate]].
  - split; [exact H1|split; [exact H2|discriminate]].
Qed.

(* the send loop never touches the read state or the read script *)
Lemma csend_read fuel : forall c,
  c_rd (snd (csend fuel c)) = c_rd c /\ c_rs (snd (csend fuel c)) = c_rs c.
Proof.
  induction fuel as [|fuel IH]; intros [sn rd q ws fs rs out]; cbn [csend];
    [split; reflexivity|].
  destruct sn as [[st|]|].
  - destruct ws as [|[|n|] ws']; cbn [snd c_rd c_rs]; try (split; reflexivity).
    cbv zeta. exact (IH _).
  - destruct fs as [|[| |] fs']; cbn [snd c_rd c_rs]; try (split; reflexivity).
    exact (IH _).
  - destruct q as [|[[|] m] q']; cbn [snd c_rd c_rs]; try (split; reflexivity).
    exact (IH _).
Qed.

Ltac csend_done Hw :=
  split; [reflexivity|split; [first [exact Hw|exact I]|first [discriminate|intros _; split; reflexivity]]].

Lemma csend_inv fuel : forall c r c',
  wfs (c_snd c) -> csend fuel c = (r, c') ->
  total c' = total c /\ wfs (c_snd c') /\ (r = SBreak -> c_snd c' = None /\ c_q c' = []).
Proof.
  induction fuel as [|fuel IH]; intros [sn rd q ws fs rs out] r c' Hw H; cbn [csend] in H.
  - inversion H; subst. csend_done Hw.
  - cbn [c_snd] in Hw. destruct sn as [[st|]|].
    + destruct ws as [|[|n|] ws'].
      * inversion H; subst. csend_done Hw.
      * inversion H; subst. csend_done Hw.
      * cbv zeta in H. cbn [wfs] in Hw. destruct Hw as [Hw Hn].
        set (off := woffered st) in *. set (w := Nat.min n (length off)) in *.
        destruct (sadvance_spec st w Hw Hn ltac:(unfold w, off; lia)) as [HP HW].
        apply IH in H; [|exact HW]. destruct H as (HT & HW' & HB).
        split; [|split; [exact HW'|exact HB]]. rewrite HT.
        unfold total. cbn [c_out c_snd c_q]. rewrite HP. cbn [pending]. fold off.
        rewrite <- !app_assoc. f_equal. rewrite (app_assoc (firstn w off)).
        rewrite firstn_skipn. reflexivity.
      * inversion H; subst. csend_done Hw.
    + destruct fs as [|[| |] fs'].
      * inversion H; subst. csend_done Hw.
      * apply IH in H; [|exact I]. destruct H as (HT & HW' & HB).
        split; [|split; [exact HW'|exact HB]]. rewrite HT. reflexivity.
      * inversion H; subst. csend_done Hw.
      * inversion H; subst. csend_done Hw.
    + destruct q as [|[[|] m] q'].
      * inversion H; subst. csend_done Hw.
      * apply IH in H; [|cbn [c_snd wfs wfw]; split; [cbn; lia|discriminate]].
        destruct H as (HT & HW' & HB).
        split; [|split; [exact HW'|exact HB]]. rewrite HT.
        unfold total, streamw, framew. cbn [c_out c_snd c_q pending woffered skipn goodq map concat].
        rewrite <- !app_assoc. reflexivity.
      * inversion H; subst. csend_done Hw.
Qed.

Lemma cpoll_inv c r c' :
  wfs (c_snd c) -> cpoll c = (r, c') -> total c' = total c /\ wfs (c_snd c').
Proof.
  intros Hw H. unfold cpoll in H. destruct (csend (send_fuel c) c) as [sr c1] eqn:E.
  apply csend_inv in E; [|exact Hw]. destruct E as (HT & HW & _).
  destruct sr.
  - destruct (rpoll (S (rsize (c_rs c1))) (c_rd c1) (c_rs c1)) as [[r0 rd'] rs'].
    inversion H; subst. split; [|exact HW]. rewrite <- HT. reflexivity.
  - inversion H; subst. split; assumption.
  - inversion H; subst. split; assumption.
Qed.

Lemma enq_total c b : total (enq c b) = total c ++ streamw (goodq b).
Proof.
  unfold total, enq. cbn [c_out c_snd c_q]. rewrite goodq_app, streamw_app.
  now rewrite <- !app_assoc.
Qed.

Lemma crun_total : forall arr c is f c',
  wfs (c_snd c) -> crun arr c = (is, f, c') ->
  exists rest, total c ++ streamw (goodq (concat arr)) = total c' ++ rest.
Proof.
  induction arr as [|b arr IH]; intros c is f c' Hw H; cbn [crun] in H.
  - inversion H; subst. exists []. reflexivity.
  - destruct (cpoll (enq c b)) as [r c1] eqn:E.
    apply cpoll_inv in E; [|exact Hw]. destruct E as [HT HW].
    rewrite enq_total in HT.
    cbn [concat]. rewrite goodq_app, streamw_app, app_assoc, <- HT.
    destruct r as [|e|m|i fn].
    + exact (IH _ _ _ _ HW H).
    + destruct (crun arr c1) as [[is1 f1] c2] eqn:E2. inversion H; subst.
      exact (IH _ _ _ _ HW E2).
    + destruct (crun arr c1) as [[is1 f1] c2] eqn:E2. inversion H; subst.
      exact (IH _ _ _ _ HW E2).
    + inversion H; subst. eexists. reflexivity.
Qed.

(* (b) *)
Lemma comb_write_prefix arr ws fs rs :
  exists rest, streamw (goodq (concat arr)) = c_out (snd (comb_run arr ws fs rs)) ++ rest.
Proof.
  unfold comb_run. destruct (crun arr (cinit ws fs rs)) as [[is f] c'] eqn:E.
  apply crun_total in E; [|exact I]. destruct E as [rest E].
  unfold total in E. cbn [cinit c_out c_snd c_q pending goodq app] in E.
  change (streamw []) with (@nil byte) in E. cbn [app] in E.
  cbn [snd]. eexists. rewrite E. rewrite <- !app_assoc. reflexivity.
Qed.

(* (c) *)
Lemma cpoll_send_blocked c r c1 :
  csend (send_fuel c) c = (r, c1) -> r <> SBreak ->
  cpoll c = (match r with SErr e => PSendErr e | _ => PPending end, c1) /\
  c_rd c1 = c_rd c /\ c_rs c1 = c_rs c.
Proof.
  intros E Hr. pose proof (csend_read (send_fuel c) c) as HR. rewrite E in HR. cbn [snd] in HR.
  split; [|exact HR]. unfold cpoll. rewrite E. destruct r; [congruence|reflexivity|reflexivity].
Qed.

(* (d) *)
Lemma cpoll_mismatch c m q' :
  c_snd c = None -> c_q c = (false, m) :: q' ->
  cpoll c = (PSendErr EMismatch, mkC None (c_rd c) q' (c_ws c) (c_fs c) (c_rs c) (c_out c)).
Proof.
  destruct c as [sn rd q ws fs rs out]. cbn [c_snd c_q c_rd c_ws c_fs c_rs c_out].
  intros -> ->. unfold cpoll, send_fuel. cbn [c_q c_ws c_fs]. cbn [csend]. reflexivity.
Qed.

(* ================================================================== *)
(* Receive side inside the combined machine                            *)
(* ================================================================== *)

Lemma rrun_rstep f st s :
  rrun (S f) st s =
    match rstep st s with
    | RSStarve => ([], Starved)
    | RSPend s' => rrun f st s'
    | RSFin i fn => (i, fn)
    | RSCont st' s' => rrun f st' s'
    | RSMsg m s' => let (is, fn) := rrun f rinit s' in (Msg m :: is, fn)
    end.
Proof.
  destruct s as [|e s']; [reflexivity|].
  destruct e as [|ch| |]; cbn [rrun rstep]; try reflexivity.
  - destruct ch as [|b ch]; [destruct (eof_item st); reflexivity|].
    destruct st as [got|len got].
    + destruct (length (got ++ firstn (2 - length got) (b :: ch)) <? 2)%nat; reflexivity.
    + destruct (len - length got)%nat as [|cap']; [reflexivity|].
      destruct (length (got ++ firstn (S cap') (b :: ch)) <? len)%nat; reflexivity.
  - destruct (eof_item st); reflexivity.
Qed.

Lemma rsize_app_eof s : rsize (s ++ [REof]) = S (rsize s).
Proof.
  induction s as [|e s IH]; [reflexivity|]. destruct e; cbn [app rsize]; rewrite IH; lia.
Qed.

(* structure of one read call on a good script followed by EOF *)
Lemma rstep_struct st s : wf_r st -> good_script s ->
  match rstep st (s ++ [REof]) with
  | RSStarve => False
  | RSPend s1 => exists s0, s1 = s0 ++ [REof] /\ good_script s0 /\ (rsize s0 < rsize s)%nat
  | RSFin _ _ => True
  | RSCont st' s1 => exists s0, s1 = s0 ++ [REof] /\ good_script s0 /\ (rsize s0 < rsize s)%nat /\ wf_r st'
  | RSMsg m s1 => exists s0, s1 = s0 ++ [REof] /\ good_script s0 /\ (rsize s0 < rsize s)%nat
  end.
Proof.
  intros Hw Hg. destruct s as [|e s'].
  { cbn [app rstep]. destruct (eof_item st); exact I. }
  inversion Hg as [|? ? He Hg']; subst.
  destruct e as [|ch| |]; [| |contradiction|contradiction].
  - cbn [app rstep]. exists s'. repeat split; [exact Hg'|cbn [rsize]; lia].
  - destruct ch as [|b ch]; [contradiction|].
    change ((RData (b :: ch) :: s') ++ [REof]) with (RData (b :: ch) :: (s' ++ [REof])).
    destruct st as [got|len got]; cbn [wf_r] in Hw; cbn [rstep].
    + set (cap := (2 - length got)%nat).
      rewrite (step_app_eof cap b ch s').
      pose proof (step_good cap b ch s' Hg') as HG.
      pose proof (step_len cap b ch) as HL.
      pose proof (step_size cap b ch s' ltac:(unfold cap; lia)) as HS.
      set (s'' := match skipn cap (b :: ch) with [] => s' | _ => RData (skipn cap (b :: ch)) :: s' end) in *.
      destruct (Nat.ltb_spec (length (got ++ firstn cap (b :: ch))) 2) as [Hlt|Hge]; lazy beta iota.
      * exists s''. repeat split; [exact HG|exact HS|exact Hlt].
      * exists s''. repeat split; [exact HG|exact HS|].
        cbn [wf_r length]. destruct (be16 _ _); [right; split; reflexivity|left; lia].
    + destruct Hw as [Hw|[-> ->]]; [|cbn [length Nat.sub]; exact I].
      destruct (len - length got)%nat as [|cap'] eqn:Ecap; [lia|]. rewrite <- Ecap.
      set (cap := (len - length got)%nat).
      rewrite (step_app_eof cap b ch s').
      pose proof (step_good cap b ch s' Hg') as HG.
      pose proof (step_len cap b ch) as HL.
      pose proof (step_size cap b ch s' ltac:(unfold cap; lia)) as HS.
      set (s'' := match skipn cap (b :: ch) with [] => s' | _ => RData (skipn cap (b :: ch)) :: s' end) in *.
      destruct (Nat.ltb_spec (length (got ++ firstn cap (b :: ch))) len) as [Hlt|Hge]; lazy beta iota.
      * exists s''. repeat split; [exact HG|exact HS|left; exact Hlt].
      * exists s''. repeat split; [exact HG|exact HS].
Qed.

(* what one read call means in terms of the chunking-free reference *)
Lemma rstep_resume st s : wf_r st -> good_script s ->
  match rstep st (s ++ [REof]) with
  | RSStarve => False
  | RSPend s1 => exists s0, s1 = s0 ++ [REof] /\ good_script s0 /\
                   resume st (payload s0) = resume st (payload s)
  | RSFin i fn => resume st (payload s) = (i, fn)
  | RSCont st' s1 => exists s0, s1 = s0 ++ [REof] /\ good_script s0 /\ wf_r st' /\
                   resume st' (payload s0) = resume st (payload s)
  | RSMsg m s1 => exists s0, s1 = s0 ++ [REof] /\ good_script s0 /\
                   resume st (payload s) =
                     (let (is, fn) := resume rinit (payload s0) in (Msg m :: is, fn))
  end.
Proof.
  intros Hw Hg. pose proof (rstep_struct st s Hw Hg) as HS.
  pose proof (rrun_rstep (S (rsize s)) st (s ++ [REof])) as HR.
  rewrite (rrun_resume _ st s Hw Hg) in HR by lia.
  destruct (rstep st (s ++ [REof])) as [|s1|i fn|st' s1|m s1].
  - exact HS.
  - destruct HS as (s0 & -> & HG & Hsz). exists s0. repeat split; [exact HG|].
    rewrite HR. symmetry. apply rrun_resume; [exact Hw|exact HG|lia].
  - exact HR.
  - destruct HS as (s0 & -> & HG & Hsz & Hw'). exists s0. repeat split; [exact HG|exact Hw'|].
    rewrite HR. symmetry. apply rrun_resume; [exact Hw'|exact HG|lia].
  - destruct HS as (s0 & -> & HG & Hsz). exists s0. repeat split; [exact HG|].
    rewrite HR. rewrite (rrun_resume _ rinit s0); [reflexivity|cbn; lia|exact HG|lia].
Qed.

(* the receive loop of one poll *)
Lemma rpoll_resume fuel : forall st s r st' s1,
  wf_r st -> good_script s -> rpoll fuel st (s ++ [REof]) = (r, st', s1) ->
  match r with
  | PPending => exists s0, s1 = s0 ++ [REof] /\ good_script s0 /\ wf_r st' /\
                  resume st' (payload s0) = resume st (payload s)
  | PMsg m => exists s0, s1 = s0 ++ [REof] /\ good_script s0 /\ wf_r st' /\
                  resume st (payload s) =
                    (let (is, fn) := resume st' (payload s0) in (Msg m :: is, fn))
  | PFin i fn => resume st (payload s) = (i, fn)
  | PSendErr _ => False
  end.
Proof.
  induction fuel as [|fuel IH]; intros st s r st' s1 Hw Hg H; cbn [rpoll] in H.
  - inversion H; subst. exists s. repeat split; assumption.
  - pose proof (rstep_resume st s Hw Hg) as HS.
    destruct (rstep st (s ++ [REof])) as [|s2|i fn|st2 s2|m s2].
    + contradiction.
    + destruct HS as (s0 & -> & HG & HE). inversion H; subst.
      exists s0. repeat split; assumption.
    + inversion H; subst. exact HS.
    + destruct HS as (s0 & -> & HG & Hw2 & HE).
      specialize (IH st2 s0 r st' s1 Hw2 HG H). rewrite HE in IH. exact IH.
    + destruct HS as (s0 & -> & HG & HE). inversion H; subst.
      exists s0. repeat split; [exact HG|cbn; lia|exact HE].
Qed.

(* read-side view of a whole combined run: the read-side items are what the reference
   makes of the payload, up to where the run stopped *)
Definition rtail (f : cfin) (c' : cst) (tl : list item) (fn : fin) : Prop :=
  match f with
  | CClean => tl = [] /\ fn = Clean
  | CFailed => tl = [] /\ fn = Failed
  | CMore => exists s', c_rs c' = s' ++ [REof] /\ good_script s' /\ wf_r (c_rd c') /\
                        resume (c_rd c') (payload s') = (tl, fn)
  end.

Lemma eof_item_fin st i fn : eof_item st = (i, fn) -> fn = Clean \/ fn = Failed.
Proof.
  destruct st as [[|x got]|len got]; cbn [eof_item]; intros H; inversion H; auto.
Qed.

Lemma rstep_fin_not_starved st s i fn : rstep st s = RSFin i fn -> fn = Clean \/ fn = Failed.
Proof.
  destruct s as [|e s']; cbn [rstep]; [discriminate|].
  destruct e as [|ch| |]; try discriminate.
  - destruct ch as [|b ch].
    + destruct (eof_item st) as [i0 f0] eqn:E. intros H; inversion H; subst. eapply eof_item_fin; exact E.
    + destruct st as [got|len got].
      * destruct (length (got ++ firstn (2 - length got) (b :: ch)) <? 2)%nat; discriminate.
      * destruct (len - length got)%nat as [|cap']; [intros H; inversion H; auto|].
        destruct (length (got ++ firstn (S cap') (b :: ch)) <? len)%nat; discriminate.
  - destruct (eof_item st) as [i0 f0] eqn:E. intros H; inversion H; subst. eapply eof_item_fin; exact E.
  - intros H; inversion H; auto.
Qed.

Lemma rpoll_fin_not_starved fuel : forall st s i fn st' s1,
  rpoll fuel st s = (PFin i fn, st', s1) -> fn = Clean \/ fn = Failed.
Proof.
  induction fuel as [|fuel IH]; intros st s i fn st' s1 H; cbn [rpoll] in H; [discriminate|].
  destruct (rstep st s) as [|s2|i2 fn2|st2 s2|m s2] eqn:E; try discriminate.
  - inversion H; subst. eapply rstep_fin_not_starved; exact E.
  - eapply IH; exact H.
Qed.

Lemma ritems_map_CRd i : ritems (map CRd i) = i.
Proof. induction i as [|x i IH]; cbn [map ritems]; [reflexivity|now rewrite IH]. Qed.

Lemma crun_read : forall arr c s is f c',
  c_rs c = s ++ [REof] -> good_script s -> wf_r (c_rd c) ->
  crun arr c = (is, f, c') ->
  exists tl fn, resume (c_rd c) (payload s) = (ritems is ++ tl, fn) /\ rtail f c' tl fn.
Proof.
  induction arr as [|b arr IH]; intros c s is f c' Hs Hg Hw H; cbn [crun] in H.
  - inversion H; subst. destruct (resume (c_rd c') (payload s)) as [tl fn] eqn:E.
    exists tl, fn. split; [reflexivity|]. cbn [rtail]. exists s. repeat split; assumption.
  - unfold cpoll in H.
    pose proof (csend_read (send_fuel (enq c b)) (enq c b)) as HR.
    destruct (csend (send_fuel (enq c b)) (enq c b)) as [sr c1]. cbn [snd enq c_rd c_rs] in HR.
    destruct HR as [HR1 HR2].
    destruct sr as [| |e].
    + (* the receive loop runs *)
      rewrite HR1, HR2, Hs in H.
      destruct (rpoll (S (rsize (s ++ [REof]))) (c_rd c) (s ++ [REof])) as [[r rd'] rs'] eqn:EP.
      pose proof (rpoll_resume _ _ _ _ _ _ Hw Hg EP) as HP.
      destruct r as [|e|m|i fn].
      * destruct HP as (s0 & -> & HG & Hw' & HE).
        rewrite <- HE.
        exact (IH (mkC _ rd' _ _ _ (s0 ++ [REof]) _) s0 _ _ _ eq_refl HG Hw' H).
      * contradiction.
      * destruct HP as (s0 & -> & HG & Hw' & HE).
        destruct (crun arr _) as [[is1 f1] c2] eqn:E2. inversion H; subst.
        pose proof (IH (mkC _ rd' _ _ _ (s0 ++ [REof]) _) s0 _ _ _ eq_refl HG Hw' E2) as E3.
        cbn [c_rd] in E3. destruct E3 as (tl & fn & E3 & HT).
        exists tl, fn. split; [|exact HT]. rewrite HE, E3. reflexivity.
      * inversion H; subst. exists [], fn. rewrite HP.
        split; [|].
        -- rewrite app_nil_r, ritems_map_CRd. reflexivity.
        -- destruct (rpoll_fin_not_starved _ _ _ _ _ _ _ EP) as [->| ->]; cbn [rtail]; split; reflexivity.
    + (* send side blocked *)
      assert (HwX : wf_r (c_rd c1)) by (rewrite HR1; exact Hw).
      rewrite <- HR1.
      exact (IH c1 s _ _ _ (eq_trans HR2 Hs) Hg HwX H).
    + (* send-side Err item *)
      assert (HwX : wf_r (c_rd c1)) by (rewrite HR1; exact Hw).
      destruct (crun arr c1) as [[is1 f1] c2] eqn:E2. inversion H; subst.
      pose proof (IH c1 s _ _ _ (eq_trans HR2 Hs) Hg HwX E2) as E3.
      rewrite HR1 in E3. destruct E3 as (tl & fn & E3 & HT).
      exists tl, fn. split; [|exact HT]. rewrite E3. reflexivity.
Qed.


(* (a) the read-side items of any combined run are a prefix of what the chunking-free
   reference makes of the payload; all of it when the run ended on the read side *)
Lemma comb_read_refines arr ws fs s :
  good_script s ->
  exists tl, fst (denote (payload s)) = ritems (fst (fst (comb_run arr ws fs (s ++ [REof])))) ++ tl /\
    (snd (fst (comb_run arr ws fs (s ++ [REof]))) = CClean -> tl = [] /\ snd (denote (payload s)) = Clean) /\
    (snd (fst (comb_run arr ws fs (s ++ [REof]))) = CFailed -> tl = [] /\ snd (denote (payload s)) = Failed).
Proof.
  intros Hg. unfold comb_run.
  destruct (crun arr (cinit ws fs (s ++ [REof]))) as [[is f] c'] eqn:E.
  apply (crun_read arr _ s) in E; [|reflexivity|exact Hg|cbn; lia].
  cbn [cinit c_rd resume rinit app] in E. destruct E as (tl & fn & E & HT).
  rewrite E. cbn [fst snd]. exists tl. split; [reflexivity|].
  split; intros ->; cbn [rtail] in HT; destruct HT as [-> ->]; split; reflexivity.
Qed.

Lemma comb_chunking_independent arr1 ws1 fs1 s1 arr2 ws2 fs2 s2 :
  good_script s1 -> good_script s2 -> payload s1 = payload s2 ->
  snd (fst (comb_run arr1 ws1 fs1 (s1 ++ [REof]))) <> CMore ->
  snd (fst (comb_run arr2 ws2 fs2 (s2 ++ [REof]))) <> CMore ->
  ritems (fst (fst (comb_run arr1 ws1 fs1 (s1 ++ [REof])))) =
    ritems (fst (fst (comb_run arr2 ws2 fs2 (s2 ++ [REof])))) /\
  snd (fst (comb_run arr1 ws1 fs1 (s1 ++ [REof]))) = snd (fst (comb_run arr2 ws2 fs2 (s2 ++ [REof]))).
Proof.
  intros H1 H2 HP N1 N2.
  destruct (comb_read_refines arr1 ws1 fs1 s1 H1) as (tl1 & E1 & C1 & F1).
  destruct (comb_read_refines arr2 ws2 fs2 s2 H2) as (tl2 & E2 & C2 & F2).
  rewrite HP in *.
  destruct (snd (fst (comb_run arr1 ws1 fs1 (s1 ++ [REof])))) eqn:X1; [| |congruence];
  destruct (snd (fst (comb_run arr2 ws2 fs2 (s2 ++ [REof])))) eqn:X2; try congruence.
  - destruct (C1 eq_refl) as [-> _]. destruct (C2 eq_refl) as [-> _].
    rewrite app_nil_r in *. split; [congruence|reflexivity].
  - destruct (C1 eq_refl) as [_ A]. destruct (F2 eq_refl) as [_ B]. congruence.
  - destruct (F1 eq_refl) as [_ A]. destruct (C2 eq_refl) as [_ B]. congruence.
  - destruct (F1 eq_refl) as [-> _]. destruct (F2 eq_refl) as [-> _].
    rewrite app_nil_r in *. split; [congruence|reflexivity].
Qed.

(* ================================================================== *)
(* The fuel given by cpoll is enough: more fuel changes nothing        *)
(* ================================================================== *)
Definition smeasure (c : cst) : nat := (length (c_q c) + length (c_ws c) + length (c_fs c))%nat.

Lemma csend_fuel : forall f1 f2 c, (smeasure c < f1)%nat -> (smeasure c < f2)%nat ->
  csend f1 c = csend f2 c.
Proof.
  induction f1 as [|f1 IH]; intros f2 c H1 H2; [lia|]. destruct f2 as [|f2]; [lia|].
  destruct c as [sn rd q ws fs rs out]. unfold smeasure in *. cbn [c_q c_ws c_fs] in *.
  cbn [csend]. destruct sn as [[st|]|].
  - destruct ws as [|[|n|] ws']; try reflexivity.
    cbv zeta. apply IH; unfold smeasure; cbn [c_q c_ws c_fs length] in *; lia.
  - destruct fs as [|[| |] fs']; try reflexivity.
    apply IH; unfold smeasure; cbn [c_q c_ws c_fs length] in *; lia.
  - destruct q as [|[[|] m] q']; try reflexivity.
    apply IH; unfold smeasure; cbn [c_q c_ws c_fs length] in *; lia.
Qed.

Lemma send_fuel_enough c f : (send_fuel c <= f)%nat -> csend f c = csend (send_fuel c) c.
Proof. intros H. apply csend_fuel; unfold send_fuel, smeasure in *; lia. Qed.

(* one read call on any script: the state stays well-formed and the script shrinks *)
Lemma rstep_cont_wf st s st' s1 : wf_r st -> rstep st s = RSCont st' s1 ->
  wf_r st' /\ (rsize s1 < rsize s)%nat.
Proof.
  intros Hw. destruct s as [|e s']; cbn [rstep]; [discriminate|].
  destruct e as [|ch| |]; try discriminate.
  2:{ destruct (eof_item st); discriminate. }
  destruct ch as [|b ch]; [destruct (eof_item st); discriminate|].
  destruct st as [got|len got]; cbn [wf_r] in Hw.
  - set (cap := (2 - length got)%nat).
    pose proof (step_len cap b ch) as HL.
    pose proof (step_size cap b ch s' ltac:(unfold cap; lia)) as HS.
    destruct (Nat.ltb_spec (length (got ++ firstn cap (b :: ch))) 2) as [Hlt|Hge];
      intros H; inversion H; subst; (split; [|exact HS]).
    + cbn [wf_r]. exact Hlt.
    + cbn [wf_r length]. destruct (be16 _ _); [right; split; reflexivity|left; lia].
  - destruct Hw as [Hw|[-> ->]]; [|cbn [length Nat.sub]; discriminate].
    destruct (len - length got)%nat as [|cap'] eqn:Ecap; [lia|]. rewrite <- Ecap.
    set (cap := (len - length got)%nat).
    pose proof (step_size cap b ch s' ltac:(unfold cap; lia)) as HS.
    destruct (Nat.ltb_spec (length (got ++ firstn cap (b :: ch))) len) as [Hlt|Hge];
      intros H; inversion H; subst.
    split; [left; exact Hlt|exact HS].
Qed.

Lemma rpoll_fuel : forall f1 f2 st s, wf_r st -> (rsize s < f1)%nat -> (rsize s < f2)%nat ->
  rpoll f1 st s = rpoll f2 st s.
Proof.
  induction f1 as [|f1 IH]; intros f2 st s Hw H1 H2; [lia|]. destruct f2 as [|f2]; [lia|].
  cbn [rpoll]. destruct (rstep st s) as [|s1|i fn|st' s1|m s1] eqn:E; try reflexivity.
  destruct (rstep_cont_wf st s st' s1 Hw E) as [Hw' Hs]. apply IH; [exact Hw'|lia|lia].
Qed.

Lemma rpoll_wf : forall f st s, wf_r st -> wf_r (snd (fst (rpoll f st s))).
Proof.
  induction f as [|f IH]; intros st s Hw; cbn [rpoll]; [exact Hw|].
  destruct (rstep st s) as [|s1|i fn|st' s1|m s1] eqn:E; cbn [fst snd]; try exact Hw.
  - apply IH. exact (proj1 (rstep_cont_wf st s st' s1 Hw E)).
  - cbn. lia.
Qed.

Lemma cpoll_wf c : wf_r (c_rd c) -> wf_r (c_rd (snd (cpoll c))).
Proof.
  intros Hw. unfold cpoll. pose proof (csend_read (send_fuel c) c) as [HR _].
  destruct (csend (send_fuel c) c) as [sr c1]. cbn [snd] in HR.
  destruct sr; cbn [snd]; [|rewrite HR; exact Hw|rewrite HR; exact Hw].
  pose proof (rpoll_wf (S (rsize (c_rs c1))) (c_rd c1) (c_rs c1) ltac:(rewrite HR; exact Hw)) as HP.
  destruct (rpoll (S (rsize (c_rs c1))) (c_rd c1) (c_rs c1)) as [[r rd'] rs']. exact HP.
Qed.
