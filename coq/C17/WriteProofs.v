(* C17 — proofs for the send machine: whatever the socket accepts per call, the bytes
   handed to it are a prefix of the concatenated length-prefixed frames, and all of it
   once the machine is done. *)
From HV Require Import Lib.Base Lib.ListX C17.Model.
Open Scope N_scope.

Definition framew (m : list byte) : list byte := len_prefix m ++ m.
Definition streamw (ms : list (list byte)) : list byte := concat (map framew ms).

Definition wfw (st : wstate) : Prop :=
  match st with
  | WIdle => True
  | WLen pos len2 bytes => (pos < length len2)%nat
  | WBytes pos bytes => (pos < length bytes)%nat
  end.

Definition remaining (st : wstate) (q : list (list byte)) : list byte :=
  woffered st ++ streamw q.

Lemma wstart_remaining q :
  let '(st, q') := wstart q in remaining st q' = streamw q /\ wfw st /\ (st = WIdle -> q' = []).
Proof.
  destruct q as [|m q]; cbn [wstart].
  - repeat split.
  - unfold remaining, streamw, framew. cbn [woffered skipn map concat wfw].
    repeat split; [cbn; lia|discriminate].
Qed.

Lemma woffered_nonempty st : wfw st -> st <> WIdle -> (1 <= length (woffered st))%nat.
Proof.
  destruct st as [|pos len2 bytes|pos bytes]; cbn [wfw woffered]; intros H Hn.
  - congruence.
  - rewrite app_length, skipn_length. lia.
  - rewrite skipn_length. lia.
Qed.

Lemma wadvance_spec st w q :
  wfw st -> st <> WIdle -> (w <= length (woffered st))%nat ->
  let '(st', q') := wadvance st w q in
  remaining st' q' = skipn w (woffered st) ++ streamw q /\ wfw st' /\ (st' = WIdle -> q' = []).
Proof.
  destruct st as [|pos len2 bytes|pos bytes]; cbn [wfw woffered wadvance]; intros Hw Hn Hle.
  - congruence.
  - rewrite app_length, skipn_length in Hle.
    destruct (Nat.ltb_spec (pos + w) (length len2)) as [H1|H1].
    + unfold remaining. cbn [woffered wfw]. repeat split; [|exact H1|discriminate].
      rewrite skipn_app_le by (rewrite skipn_length; lia).
      rewrite skipn_skipn_add. reflexivity.
    + destruct (Nat.ltb_spec (pos + w) (length len2 + length bytes)) as [H2|H2].
      * unfold remaining. cbn [woffered wfw]. repeat split; [|lia|discriminate].
        rewrite skipn_app. rewrite (skipn_all2 (skipn pos len2)) by (rewrite skipn_length; lia).
        rewrite skipn_length. cbn [app]. f_equal. f_equal. lia.
      * pose proof (wstart_remaining q) as HS. destruct (wstart q) as [st' q'].
        destruct HS as (HS1 & HS2 & HS3). repeat split; [|exact HS2|exact HS3].
        rewrite HS1. rewrite skipn_all2 by (rewrite app_length, skipn_length; lia). reflexivity.
  - rewrite skipn_length in Hle.
    destruct (Nat.ltb_spec (pos + w) (length bytes)) as [H1|H1].
    + unfold remaining. cbn [woffered wfw]. repeat split; [|exact H1|discriminate].
      rewrite skipn_skipn_add. reflexivity.
    + pose proof (wstart_remaining q) as HS. destruct (wstart q) as [st' q'].
      destruct HS as (HS1 & HS2 & HS3). repeat split; [|exact HS2|exact HS3].
      rewrite HS1. rewrite skipn_all2 by (rewrite skipn_length; lia). reflexivity.
Qed.

Lemma wrun_idle s q acc : wrun s WIdle q acc = (acc, WDone).
Proof. destruct s; reflexivity. Qed.
Lemma wrun_nil st q acc : st <> WIdle -> wrun [] st q acc = (acc, WStarved).
Proof. destruct st; [congruence|reflexivity|reflexivity]. Qed.
Lemma wrun_pend s st q acc : st <> WIdle -> wrun (WPend :: s) st q acc = wrun s st q acc.
Proof. destruct st; [congruence|reflexivity|reflexivity]. Qed.
Lemma wrun_err s st q acc : st <> WIdle -> wrun (WErr :: s) st q acc = (acc, WFailed).
Proof. destruct st; [congruence|reflexivity|reflexivity]. Qed.
Lemma wrun_acc n s st q acc : st <> WIdle ->
  wrun (WAcc n :: s) st q acc =
    let '(st', q') := wadvance st (Nat.min n (length (woffered st))) q in
    wrun s st' q' (acc ++ firstn (Nat.min n (length (woffered st))) (woffered st)).
Proof. destruct st; [congruence|reflexivity|reflexivity]. Qed.

Lemma widle_dec st : {st = WIdle} + {st <> WIdle}.
Proof. destruct st; [left; reflexivity|right; discriminate|right; discriminate]. Qed.

(* the bytes written are always a prefix of acc ++ remaining; complete when WDone *)
Lemma wrun_prefix : forall s st q acc,
  wfw st -> (st = WIdle -> q = []) ->
  exists rest, acc ++ remaining st q = fst (wrun s st q acc) ++ rest /\
               (snd (wrun s st q acc) = WDone -> rest = []).
Proof.
  induction s as [|e s IH]; intros st q acc Hw Hq;
    (destruct (widle_dec st) as [Hi|Hn];
     [subst st; rewrite wrun_idle; cbn [fst snd]; exists []; rewrite (Hq eq_refl);
      unfold remaining; cbn; split; [now rewrite !app_nil_r|reflexivity]|]).
  - rewrite wrun_nil by exact Hn. cbn [fst snd]. eexists; split; [reflexivity|discriminate].
  - destruct e as [|n|].
    + rewrite wrun_pend by exact Hn. apply IH; assumption.
    + rewrite wrun_acc by exact Hn.
      set (off := woffered st). set (w := Nat.min n (length off)).
      pose proof (wadvance_spec st w q Hw Hn ltac:(unfold w, off; lia)) as HA.
      destruct (wadvance st w q) as [st' q']. destruct HA as (HA1 & HA2 & HA3).
      destruct (IH st' q' (acc ++ firstn w off) HA2 HA3) as (rest & HR1 & HR2).
      exists rest. split; [|exact HR2]. rewrite <- HR1, HA1.
      unfold remaining. fold off. rewrite <- !app_assoc. f_equal.
      rewrite (app_assoc (firstn w off)). rewrite firstn_skipn. reflexivity.
    + rewrite wrun_err by exact Hn. cbn [fst snd]. eexists; split; [reflexivity|discriminate].
Qed.

(* progress: enough accepting calls (each taking >= 1 byte) finish the job *)
Lemma wrun_progress : forall s st q acc,
  wfw st -> (st = WIdle -> q = []) -> wgood s ->
  (length (remaining st q) <= waccs s)%nat ->
  snd (wrun s st q acc) = WDone.
Proof.
  induction s as [|e s IH]; intros st q acc Hw Hq Hg Hlen;
    (destruct (widle_dec st) as [Hi|Hn]; [subst st; rewrite wrun_idle; reflexivity|]).
  - cbn [waccs] in Hlen. pose proof (woffered_nonempty _ Hw Hn) as H1.
    unfold remaining in Hlen. rewrite app_length in Hlen. lia.
  - inversion Hg as [|? ? He Hg']; subst.
    destruct e as [|n|]; [| |contradiction].
    + rewrite wrun_pend by exact Hn. apply IH; assumption.
    + destruct n as [|n]; [contradiction|].
      rewrite wrun_acc by exact Hn.
      set (off := woffered st). set (w := Nat.min (S n) (length off)).
      pose proof (woffered_nonempty _ Hw Hn) as H1. fold off in H1.
      pose proof (wadvance_spec st w q Hw Hn ltac:(unfold w, off; lia)) as HA.
      destruct (wadvance st w q) as [st' q']. destruct HA as (HA1 & HA2 & HA3).
      apply IH; [exact HA2|exact HA3|exact Hg'|].
      rewrite HA1. cbn [waccs] in Hlen. unfold remaining in Hlen. fold off in Hlen.
      fold off. rewrite app_length in *. rewrite skipn_length. unfold w. lia.
Qed.

Lemma len_prefix_ok m : ok_msg m -> framew m = frame m.
Proof.
  intros [H1 H2]. unfold framew, len_prefix, frame.
  rewrite N.mod_small by exact H2. reflexivity.
Qed.

Lemma streamw_ok ms : Forall ok_msg ms -> streamw ms = stream ms.
Proof.
  induction 1 as [|m ms Hm _ IH]; [reflexivity|].
  unfold streamw, stream in *. cbn [map concat]. rewrite IH, len_prefix_ok by exact Hm. reflexivity.
Qed.

Lemma write_run_prefix msgs s :
  exists rest, streamw msgs = fst (write_run msgs s) ++ rest /\
               (snd (write_run msgs s) = WDone -> rest = []).
Proof.
  unfold write_run. pose proof (wstart_remaining msgs) as HS.
  destruct (wstart msgs) as [st q]. destruct HS as (HS1 & HS2 & HS3).
  destruct (wrun_prefix s st q [] HS2 HS3) as (rest & H1 & H2).
  exists rest. rewrite <- HS1. split; [exact H1|exact H2].
Qed.

Lemma write_run_progress msgs s :
  wgood s -> (length (streamw msgs) <= waccs s)%nat -> snd (write_run msgs s) = WDone.
Proof.
  intros Hg Hl. unfold write_run. pose proof (wstart_remaining msgs) as HS.
  destruct (wstart msgs) as [st q]. destruct HS as (HS1 & HS2 & HS3).
  apply wrun_progress; [exact HS2|exact HS3|exact Hg|rewrite HS1; exact Hl].
Qed.
