(* C17 — proofs for the receive machine: the result of any chunked, delayed delivery
   depends only on the concatenated payload. *)
From HV Require Import Lib.Base Lib.ListX C17.Model.
Open Scope N_scope.

(* ---- one socket read of capacity cap from a non-empty chunk ---- *)
Section Step.
  Variables (cap : nat) (b : byte) (ch : list byte) (s' : list rev).
  Let r := firstn cap (b :: ch).
  Let rest := skipn cap (b :: ch).
  Let s'' := match rest with [] => s' | _ => RData rest :: s' end.
  Let p := payload (RData (b :: ch) :: s').

  Lemma step_len : length r = Nat.min cap (length (b :: ch)).
  Proof. unfold r. apply firstn_length. Qed.

  Lemma step_split : p = r ++ payload s''.
  Proof.
    unfold p, s'', r; cbn [payload]. fold rest.
    rewrite <- (firstn_skipn cap (b :: ch)) at 1. fold rest. rewrite <- app_assoc.
    destruct rest; cbn [payload app]; [reflexivity|reflexivity].
  Qed.

  Lemma step_size : (1 <= cap)%nat -> (rsize s'' < rsize (RData (b :: ch) :: s'))%nat.
  Proof.
    intros Hc. unfold s''. cbn [rsize]. destruct rest eqn:E; [lia|].
    cbn [rsize]. rewrite <- E. unfold rest. rewrite skipn_length. cbn [length]. lia.
  Qed.

  Lemma step_good : good_script s' -> good_script s''.
  Proof.
    intros H. unfold s''. destruct rest eqn:E; [exact H|]. constructor; [exact I|exact H].
  Qed.

  Lemma step_app_eof : match rest with [] => s' ++ [REof] | _ :: _ => RData rest :: s' ++ [REof] end = s'' ++ [REof].
  Proof. unfold s''. destruct rest; reflexivity. Qed.
End Step.

(* ---- deframe does not depend on its fuel once it exceeds the length ---- *)
Lemma deframe_fuel : forall f1 f2 p, (length p < f1)%nat -> (length p < f2)%nat ->
  deframe f1 p = deframe f2 p.
Proof.
  induction f1 as [|f1 IH]; intros f2 p H1 H2; [lia|].
  destruct f2 as [|f2]; [lia|].
  destruct p as [|hi [|lo body]]; cbn [deframe]; try reflexivity.
  destruct (be16 hi lo =? 0)%nat; [reflexivity|].
  destruct (length body <? be16 hi lo)%nat; [reflexivity|].
  rewrite (IH f2 (skipn (be16 hi lo) body)); [reflexivity| |];
    rewrite skipn_length; cbn [length] in *; lia.
Qed.

Lemma deframe_S_cons2 f hi lo body :
  deframe (S f) (hi :: lo :: body) =
    let len := be16 hi lo in
    if (len =? 0)%nat then ([ErrClosedBody], Failed)
    else if (length body <? len)%nat then ([ErrClosedBody], Failed)
    else let (is, f) := deframe f (skipn len body) in (Msg (firstn len body) :: is, f).
Proof. reflexivity. Qed.

Lemma denote_cons2 hi lo body :
  denote (hi :: lo :: body) =
    let len := be16 hi lo in
    if (len =? 0)%nat then ([ErrClosedBody], Failed)
    else if (length body <? len)%nat then ([ErrClosedBody], Failed)
    else let (is, f) := denote (skipn len body) in (Msg (firstn len body) :: is, f).
Proof.
  unfold denote at 1. rewrite deframe_S_cons2. cbv zeta.
  destruct (be16 hi lo =? 0)%nat; [reflexivity|].
  destruct (length body <? be16 hi lo)%nat; [reflexivity|].
  unfold denote.
  rewrite (deframe_fuel (length (hi :: lo :: body)) (S (length (skipn (be16 hi lo) body))) (skipn (be16 hi lo) body)); [reflexivity| |lia].
  rewrite skipn_length. cbn [length]. lia.
Qed.

(* what a machine in state [st] makes of remaining payload [p] followed by EOF *)
Definition resume (st : rstate) (p : list byte) : list item * fin :=
  match st with
  | RLen got => denote (got ++ p)
  | RBody len got =>
      let all := got ++ p in
      if ((len =? 0) || (length all <? len))%nat then ([ErrClosedBody], Failed)
      else let (is, f) := denote (skipn len all) in (Msg (firstn len all) :: is, f)
  end.

Definition wf_r (st : rstate) : Prop :=
  match st with
  | RLen got => (length got < 2)%nat
  | RBody len got => (length got < len)%nat \/ (len = O /\ got = [])
  end.

Lemma rrun_resume : forall fuel st s,
  wf_r st -> good_script s -> (rsize s < fuel)%nat ->
  rrun fuel st (s ++ [REof]) = resume st (payload s).
Proof.
  induction fuel as [|fuel IH]; intros st s Hw Hg Hf; [lia|].
  destruct s as [|e s'].
  - (* only EOF left *)
    cbn [app rrun payload]. destruct st as [got|len got]; cbn [eof_item resume wf_r] in *.
    + rewrite app_nil_r. destruct got as [|x [|y got]]; cbn [length] in Hw; try lia; reflexivity.
    + rewrite app_nil_r. destruct Hw as [Hw|[-> ->]].
      * replace (length got <? len)%nat with true by (symmetry; apply Nat.ltb_lt; exact Hw).
        rewrite orb_true_r. reflexivity.
      * reflexivity.
  - inversion Hg as [|? ? He Hg']; subst.
    destruct e as [|ch| |]; [| |contradiction|contradiction].
    + (* Pending *) cbn [app rrun payload]. apply IH; [exact Hw|exact Hg'|cbn [rsize] in Hf; lia].
    + destruct ch as [|b ch]; [contradiction|].
      change ((RData (b :: ch) :: s') ++ [REof]) with (RData (b :: ch) :: (s' ++ [REof])).
      destruct st as [got|len got]; cbn [wf_r] in Hw.
      * (* reading the length prefix *)
        cbn [rrun]. set (cap := (2 - length got)%nat).
        pose proof (step_len cap b ch) as HL.
        pose proof (step_split cap b ch s') as HP.
        pose proof (step_size cap b ch s' ltac:(unfold cap; lia)) as HS.
        pose proof (step_good cap b ch s' Hg') as HG.
        rewrite (step_app_eof cap b ch s').
        set (r := firstn cap (b :: ch)) in *.
        set (s'' := match skipn cap (b :: ch) with [] => s' | _ => RData (skipn cap (b :: ch)) :: s' end) in *.
        assert (Hr1 : (1 <= length r <= cap)%nat) by (rewrite HL; cbn [length]; unfold cap; lia).
        cbn [resume]. rewrite HP. rewrite app_assoc.
        rewrite app_length.
        destruct (Nat.ltb_spec (length got + length r) 2) as [Hlt|Hge].
        -- rewrite IH; [reflexivity| |exact HG|cbn [rsize] in *; lia].
           cbn [wf_r]. rewrite app_length. exact Hlt.
        -- assert (Hk2 : (length (got ++ r) = 2)%nat) by (rewrite app_length; unfold cap in Hr1; lia).
           destruct (got ++ r) as [|hi [|lo [|z t]]] eqn:Egr; cbn [length] in Hk2; try lia.
           cbn [nth app]. rewrite denote_cons2. cbv zeta.
           rewrite IH; [| |exact HG|cbn [rsize] in *; lia].
           ++ cbn [resume app]. destruct (be16 hi lo =? 0)%nat eqn:E0; cbn [orb]; [reflexivity|].
              destruct (length (payload s'') <? be16 hi lo)%nat; reflexivity.
           ++ cbn [wf_r length]. destruct (be16 hi lo); [right; split; reflexivity|left; lia].
      * (* reading the body *)
        cbn [rrun]. destruct Hw as [Hw|[-> ->]].
        2:{ cbn [length Nat.sub resume]. reflexivity. }
        destruct (len - length got)%nat as [|cap'] eqn:Ecap; [lia|]. rewrite <- Ecap.
        set (cap := (len - length got)%nat).
        pose proof (step_len cap b ch) as HL.
        pose proof (step_split cap b ch s') as HP.
        pose proof (step_size cap b ch s' ltac:(unfold cap; lia)) as HS.
        pose proof (step_good cap b ch s' Hg') as HG.
        rewrite (step_app_eof cap b ch s').
        set (r := firstn cap (b :: ch)) in *.
        set (s'' := match skipn cap (b :: ch) with [] => s' | _ => RData (skipn cap (b :: ch)) :: s' end) in *.
        assert (Hr1 : (1 <= length r <= cap)%nat) by (rewrite HL; cbn [length]; unfold cap; lia).
        cbn [resume]. rewrite HP. rewrite app_assoc.
        rewrite app_length.
        destruct (Nat.ltb_spec (length got + length r) len) as [Hlt|Hge].
        -- rewrite IH; [reflexivity| |exact HG|cbn [rsize] in *; lia].
           cbn [wf_r]. rewrite app_length. left; exact Hlt.
        -- assert (Hk2 : (length (got ++ r) = len)%nat) by (rewrite app_length; unfold cap in Hr1; lia).
           rewrite IH; [| |exact HG|cbn [rsize] in *; lia]; [|cbn [wf_r rinit length]; lia].
           cbn [resume rinit app].
           replace (len =? 0)%nat with false by (symmetry; apply Nat.eqb_neq; lia).
           replace (length ((got ++ r) ++ payload s'') <? len)%nat with false
             by (symmetry; apply Nat.ltb_ge; rewrite app_length; lia).
           cbn [orb].
           rewrite skipn_app_le by lia. rewrite firstn_app_le by lia.
           rewrite <- Hk2. rewrite skipn_all, firstn_all. cbn [app]. reflexivity.
Qed.

(* ---- headline: the outcome depends only on the payload ---- *)
Lemma read_run_denote s : good_script s -> read_run (s ++ [REof]) = denote (payload s).
Proof.
  intros Hg. unfold read_run.
  rewrite (rrun_resume _ rinit s); [reflexivity|cbn; lia|exact Hg|].
  clear. induction s as [|e s IH]; cbn [app rsize]; [lia|]. destruct e; cbn [app rsize]; lia.
Qed.

(* ---- what the reference makes of a well-formed stream ---- *)
Lemma frame_len m : length (frame m) = S (S (length m)).
Proof. reflexivity. Qed.

Lemma be16_frame (m : list byte) : N.of_nat (length m) < 65536 ->
  be16 (N.of_nat (length m) / 256) (N.of_nat (length m) mod 256) = length m.
Proof.
  intros H. unfold be16.
  rewrite N.mul_comm, <- N.div_mod by discriminate. apply Nat2N.id.
Qed.

Lemma denote_frame_app m rest : ok_msg m ->
  denote (frame m ++ rest) = let (is, f) := denote rest in (Msg m :: is, f).
Proof.
  intros [H1 H2]. unfold frame. cbn [app]. rewrite denote_cons2. cbv zeta.
  rewrite be16_frame by exact H2.
  replace (length m =? 0)%nat with false by (symmetry; apply Nat.eqb_neq; lia).
  replace (length (m ++ rest) <? length m)%nat with false
    by (symmetry; apply Nat.ltb_ge; rewrite app_length; lia).
  rewrite skipn_app_le, firstn_app_le by lia. rewrite skipn_all, firstn_all. cbn [app].
  reflexivity.
Qed.

Lemma denote_stream_app ms rest : Forall ok_msg ms ->
  denote (stream ms ++ rest) = let (is, f) := denote rest in (map Msg ms ++ is, f).
Proof.
  induction 1 as [|m ms Hm Hms IH]; unfold stream in *; cbn [map concat app].
  - destruct (denote rest); reflexivity.
  - rewrite <- app_assoc. rewrite denote_frame_app by exact Hm. rewrite IH.
    destruct (denote rest); reflexivity.
Qed.

Lemma denote_partial_frame m k : ok_msg m -> (0 < k < length (frame m))%nat ->
  denote (firstn k (frame m)) =
    ([if (k <? 2)%nat then ErrClosedLen else ErrClosedBody], Failed).
Proof.
  intros [H1 H2] Hk. rewrite frame_len in Hk. unfold frame.
  destruct k as [|[|k]]; [lia| |].
  - cbn [firstn]. reflexivity.
  - cbn [firstn]. rewrite denote_cons2. cbv zeta. rewrite be16_frame by exact H2.
    replace (length m =? 0)%nat with false by (symmetry; apply Nat.eqb_neq; lia).
    replace (length (firstn k m) <? length m)%nat with true
      by (symmetry; apply Nat.ltb_lt; rewrite firstn_length; lia).
    reflexivity.
Qed.

Lemma denote_zero_frame rest : denote (0 :: 0 :: rest) = ([ErrClosedBody], Failed).
Proof. rewrite denote_cons2. reflexivity. Qed.
