(* C20 — whatever the text, every record the loader returns is well formed: labels of 1..63
   octets, names of at most 255 octets, TTL below 2^32, octets/preferences/SOA timers in range
   (no value is ever accepted by wrapping around). *)
From Coq Require Import String Ascii.
From HV Require Import Lib.Base C20.Model C20.LexProofs C20.FieldProofs.
Open Scope N_scope.

Ltac inv_ok H := match type of H with ROk _ = ROk _ => inversion H; subst; clear H end.

Lemma bind_ok {A B} (r : R A) (f : A -> R B) b : bind r f = ROk b -> exists a, r = ROk a /\ f a = ROk b.
Proof. destruct r; cbn; intros H; try discriminate. eauto. Qed.

Lemma opt_r_ok {A} (o : option A) a : opt_r o = ROk a -> o = Some a.
Proof. destruct o; cbn; intros H; [inversion H; reflexivity|discriminate]. Qed.

(* ---------------- labels and names ---------------- *)

Lemma label_from_ascii_wf s l : label_from_ascii s = ROk l -> l = s /\ label_wf l = true.
Proof.
  unfold label_from_ascii, perr. destruct (63 <? N.of_nat (length s)) eqn:E; [discriminate|].
  apply N.ltb_ge in E. intros H.
  assert (W : s <> [] -> label_wf s = true).
  { intros Hne. unfold label_wf. apply andb_true_iff. split; apply N.leb_le; [|exact E].
    destruct s; [congruence|]. cbn [length]. lia. }
  destruct (str_eqb s [42]) eqn:E42.
  - inversion H; subst. split; [reflexivity|]. apply W. apply str_eqb_eq in E42. subst. discriminate.
  - destruct s as [|c r]; [discriminate|].
    destruct (all_b (fun x => x <? 128) (c :: r) && safe_ascii true c && all_b (safe_ascii false) r); [|discriminate].
    inversion H; subst. split; [reflexivity|]. apply W. discriminate.
Qed.

Lemma to_label_wf s l : to_label s = ROk l -> label_wf l = true.
Proof.
  unfold to_label, perr. intros H.
  destruct (str_eqb s [42]) eqn:E42.
  { inversion H; subst. apply str_eqb_eq in E42. subst. reflexivity. }
  destruct (has_prefix [95] s); [apply label_from_ascii_wf in H; tauto|].
  destruct (negb (all_b (fun x => x <? 128) s)); [discriminate|].
  destruct (has_infix (s2l "xn--") (map to_lower s)); [discriminate|].
  destruct (all_b uts46_ascii_ok s); [|discriminate].
  apply label_from_ascii_wf in H. tauto.
Qed.

Definition labels_wf (ls : list str) : Prop := forallb label_wf ls = true /\ encoded_len ls <= 255.

Lemma labels_wf_nil : labels_wf [].
Proof. split; [reflexivity|]. unfold encoded_len, name_data_len. cbn [length fold_right]. lia. Qed.

Lemma extend_name_wf ls l ls' : extend_name ls l = ROk ls' -> labels_wf ls -> label_wf l = true -> labels_wf ls'.
Proof.
  unfold extend_name, perr. destruct (255 <? encoded_len ls + N.of_nat (length l) + 1) eqn:E; [discriminate|].
  apply N.ltb_ge in E. intros H [W1 W2] Wl. inversion H; subst. split.
  - rewrite forallb_app, W1. cbn. now rewrite Wl.
  - rewrite encoded_len_snoc. exact E.
Qed.

Lemma append_label_wf ls raw ls' : append_label ls raw = ROk ls' -> labels_wf ls -> labels_wf ls'.
Proof.
  unfold append_label. intros H W. apply bind_ok in H as (l & Hl & He).
  eapply extend_name_wf; eauto. eapply to_label_wf; eauto.
Qed.

Lemma append_labels_wf : forall more ls ls', append_labels ls more = ROk ls' ->
  labels_wf ls -> forallb label_wf more = true -> labels_wf ls'.
Proof.
  induction more as [|l m IH]; intros ls ls' H W Wm; cbn [append_labels] in H.
  - inversion H; subst. exact W.
  - cbn [forallb] in Wm. apply andb_true_iff in Wm as [Wl Wm].
    apply bind_ok in H as (x & Hx & Hr). eapply IH; [exact Hr| |exact Wm]. eapply extend_name_wf; eauto.
Qed.

Lemma name_loop_wf : forall s st ls lab ls' lab',
  name_loop s st ls lab = ROk (ls', lab') -> labels_wf ls -> labels_wf ls'.
Proof.
  induction s as [|c r IH]; intros st ls lab ls' lab' H W; cbn [name_loop] in H.
  - inversion H; subst. exact W.
  - unfold perr in H. destruct st.
    + destruct (c =? 46).
      * apply bind_ok in H as (x & Hx & Hr). eapply IH; [exact Hr|]. eapply append_label_wf; eauto.
      * destruct (c =? 92); [eapply IH; eauto|]. destruct (is_plain c); [eapply IH; eauto|discriminate].
    + destruct (is_numeric c); [destruct (digit8 c); [eapply IH; eauto|discriminate]|eapply IH; eauto].
    + destruct (is_numeric c); [destruct (digit8 c); [eapply IH; eauto|discriminate]|discriminate].
    + destruct (is_numeric c); [destruct (digit8 c); [eapply IH; eauto|discriminate]|discriminate].
Qed.

Definition oname_wf (o : option name) : bool := match o with Some n => name_wf n | None => true end.

Lemma name_wf_iff n : name_wf n = true <-> labels_wf (labels n).
Proof.
  unfold name_wf, labels_wf. rewrite andb_true_iff, N.leb_le. tauto.
Qed.

Lemma name_parse_wf s o n : name_parse s o = ROk n -> oname_wf o = true -> name_wf n = true.
Proof.
  unfold name_parse. intros H Wo. destruct (str_eqb s [46]).
  { inversion H; subst. reflexivity. }
  apply bind_ok in H as ([ls lab] & Hloop & H).
  apply bind_ok in H as (ls' & Hl & H).
  assert (W1 : labels_wf ls) by (eapply name_loop_wf; [exact Hloop|apply labels_wf_nil]).
  assert (W2 : labels_wf ls').
  { destruct lab; [inversion Hl; subst; exact W1|eapply append_label_wf; eauto]. }
  assert (Fin : forall f, name_wf (MkName ls' f) = true) by (intros f; apply name_wf_iff; exact W2).
  assert (Org : match o with
                | Some o' => (do ls'' <- append_labels ls' (labels o');; ROk (MkName ls'' true)) = ROk n -> name_wf n = true
                | None => True end).
  { destruct o as [o'|]; [|exact I]. intros Hx. apply bind_ok in Hx as (ls'' & Ha & Hx). inversion Hx; subst.
    apply name_wf_iff. cbn [labels]. cbn [oname_wf] in Wo. apply name_wf_iff in Wo. destruct Wo as [Wo1 _].
    eapply append_labels_wf; eauto. }
  destruct lab as [|x lab]; destruct s as [|y s]; try (inversion H; subst; apply Fin);
    destruct o as [o'|]; try (inversion H; subst; apply Fin); apply Org; exact H.
Qed.

(* ---------------- numbers ---------------- *)

Lemma dec_acc_bound : forall s b a v, dec_acc b s a = Some v -> a <= b -> v <= b.
Proof.
  induction s as [|c r IH]; intros b a v H Ha; cbn [dec_acc] in H.
  - inversion H; subst. exact Ha.
  - destruct (digit10 c); [|discriminate]. destruct (b <? a * 10 + n) eqn:E; [discriminate|].
    apply N.ltb_ge in E. eapply IH; eauto.
Qed.

Lemma ttl_loop_bound : forall s cur v r, ttl_loop s cur v = Some r -> v <= u32max -> r <= u32max.
Proof.
  induction s as [|c s IH]; intros cur v r H Hv; cbn [ttl_loop] in H.
  - destruct cur as [ds|]; [|inversion H; subst; exact Hv].
    destruct (dec_acc u32max ds 0); [|discriminate]. destruct (u32max <? v + n) eqn:E; [discriminate|].
    apply N.ltb_ge in E. inversion H; subst. exact E.
  - destruct (is_digit c); [eapply IH; eauto|].
    destruct cur as [ds|]; [|discriminate]. destruct (ttl_mult c); [|discriminate].
    destruct (dec_acc u32max ds 0); [|discriminate].
    destruct (u32max <? n0 * n); [discriminate|]. destruct (u32max <? v + n0 * n) eqn:E; [discriminate|].
    apply N.ltb_ge in E. eapply IH; eauto.
Qed.

Lemma parse_ttl_bound s v : parse_ttl s = Some v -> v <= u32max.
Proof. unfold parse_ttl. destruct s; [discriminate|]. intros H. eapply ttl_loop_bound; eauto. unfold u32max. lia. Qed.

Lemma parse_u16_bound s v : parse_u16 s = Some v -> v <= 65535.
Proof.
  unfold parse_u16. intros H.
  destruct (match s with 43 :: r => r | _ => s end); [discriminate|]. eapply dec_acc_bound; eauto. lia.
Qed.

Lemma parse_octet_bound s v : parse_octet s = Some v -> v <= 255.
Proof.
  unfold parse_octet. destruct s as [|c r]; [discriminate|]. intros H.
  destruct (3 <? N.of_nat (length (c :: r))); [discriminate|].
  destruct ((c =? 48) && negb match r with [] => true | _ => false end); [discriminate|].
  eapply dec_acc_bound; eauto. lia.
Qed.

Lemma parse_ipv4_bound s a b c d : parse_ipv4 s = Some (a, b, c, d) -> a <= 255 /\ b <= 255 /\ c <= 255 /\ d <= 255.
Proof.
  unfold parse_ipv4. intros H. destruct (split_on 46 s []) as [|x1 [|x2 [|x3 [|x4 [|x5 t]]]]]; try discriminate.
  destruct (parse_octet x1) eqn:E1; [|discriminate]. destruct (parse_octet x2) eqn:E2; [|discriminate].
  destruct (parse_octet x3) eqn:E3; [|discriminate]. destruct (parse_octet x4) eqn:E4; [|discriminate].
  inversion H; subst. repeat split; eapply parse_octet_bound; eauto.
Qed.

(* ---------------- RDATA ---------------- *)

Lemma tok_ttl_bound o v : tok_ttl o = ROk v -> v <= u32max.
Proof. unfold tok_ttl, perr. destruct o; [|discriminate]. intros H. apply opt_r_ok in H. eapply parse_ttl_bound; eauto. Qed.

Lemma tok_i32_bound o v : tok_i32 o = ROk v -> v <= i32max.
Proof.
  unfold tok_i32, perr. intros H. apply bind_ok in H as (x & _ & H).
  destruct (i32max <? x) eqn:E; [discriminate|]. apply N.ltb_ge in E. inversion H; subst. exact E.
Qed.

Lemma tok_name_wf t o n : tok_name t o = ROk n -> oname_wf o = true -> name_wf n = true.
Proof. unfold tok_name, perr. destruct t; [apply name_parse_wf|discriminate]. Qed.

Ltac leb_true := repeat (apply andb_true_iff; split); try (apply N.leb_le; assumption); try assumption.

Lemma rdata_of_wf t toks o d : rdata_of t toks o = ROk d -> oname_wf o = true -> rdata_wf d = true.
Proof.
  unfold rdata_of, perr. intros H Wo. destruct t.
  - destruct toks as [|s r]; [discriminate|]. destruct (parse_ipv4 s) as [[[[a b] c] e]|] eqn:E; [|discriminate].
    inversion H; subst. apply parse_ipv4_bound in E as (Ha & Hb & Hc & He).
    apply N.leb_le in Ha, Hb, Hc, He. cbn [rdata_wf]. rewrite Ha, Hb, Hc, He. reflexivity.
  - apply bind_ok in H as (n & Hn & H). inversion H; subst. eapply tok_name_wf; eauto.
  - apply bind_ok in H as (n & Hn & H). inversion H; subst. eapply tok_name_wf; eauto.
  - apply bind_ok in H as (n & Hn & H). inversion H; subst. eapply tok_name_wf; eauto.
  - apply bind_ok in H as (p & Hp & H). apply bind_ok in H as (n & Hn & H). inversion H; subst.
    cbn [rdata_wf]. apply andb_true_iff. split; [|eapply tok_name_wf; eauto].
    destruct toks; [discriminate|]. apply opt_r_ok in Hp. apply N.leb_le. eapply parse_u16_bound; eauto.
  - inversion H; subst. reflexivity.
  - apply bind_ok in H as (m & Hm & H). apply bind_ok in H as (r & Hr & H).
    apply bind_ok in H as (a & Ha & H). apply bind_ok in H as (b & Hb & H). apply bind_ok in H as (c & Hc & H).
    apply bind_ok in H as (e & He & H). apply bind_ok in H as (f & Hf & H). inversion H; subst.
    apply tok_ttl_bound in Ha, Hf. apply tok_i32_bound in Hb, Hc, He.
    pose proof (tok_name_wf _ _ _ Hm Wo) as Wm. pose proof (tok_name_wf _ _ _ Hr Wo) as Wr.
    apply N.leb_le in Ha, Hf, Hb, Hc, He.
    cbn [rdata_wf]. rewrite Wm, Wr, Ha, Hb, Hc, He, Hf. reflexivity.
  - discriminate.
  - discriminate.
Qed.

(* ---------------- the store and the context ---------------- *)

Lemma store_put_wf : forall rs r, forallb rr_wf rs = true -> rr_wf r = true -> forallb rr_wf (store_put rs r) = true.
Proof.
  induction rs as [|x rs IH]; intros r W Wr; cbn [store_put].
  - cbn. now rewrite Wr.
  - cbn [forallb] in W. apply andb_true_iff in W as [Wx Wrs].
    destruct (same_key x r && rdata_eqb (rdat x) (rdat r)).
    + destruct (rec_eqb x r); cbn [forallb]; [now rewrite Wx, Wrs|now rewrite Wr, Wrs].
    + cbn [forallb]. rewrite Wx. now apply IH.
Qed.

Lemma forallb_filter {A} (f g : A -> bool) l : forallb f l = true -> forallb f (filter g l) = true.
Proof.
  induction l as [|x l IH]; cbn; [reflexivity|]. intros H. apply andb_true_iff in H as [H1 H2].
  destruct (g x); cbn; [rewrite H1|]; auto.
Qed.

Lemma store_insert_wf rs r rs' : store_insert rs r = ROk rs' -> forallb rr_wf rs = true -> rr_wf r = true ->
  forallb rr_wf rs' = true.
Proof.
  unfold store_insert, perr. intros H W Wr.
  assert (A : forall l, forallb rr_wf l = true -> forallb rr_wf (l ++ [r]) = true).
  { intros l Hl. rewrite forallb_app, Hl. cbn. now rewrite Wr. }
  destruct (rty_of_rdata (rdat r)); try (inversion H; subst; now apply store_put_wf).
  - inversion H; subst. apply A. now apply forallb_filter.
  - destruct (existsb (fun x => same_key x r) rs); [discriminate|]. inversion H; subst. now apply A.
Qed.

Definition ottl_wf (o : option N) : bool := match o with Some t => t <=? u32max | None => true end.
Definition ctx_wf (c : ctx) : Prop :=
  oname_wf (c_origin c) = true /\ forallb rr_wf (c_recs c) = true /\ class_known (c_class c) = true /\
  oname_wf (c_cur c) = true /\ ottl_wf (c_default c) = true /\ ottl_wf (c_last c) = true /\ ottl_wf (c_this c) = true.

Lemma class_of_known s k : class_of s = Some k -> class_known k = true.
Proof.
  unfold class_of. intros H.
  repeat match type of H with (if ?b then _ else _) = _ => destruct b end;
    inversion H; subst; reflexivity.
Qed.

Lemma ttl_take_wf c t c' : ttl_take c = Some (t, c') -> ctx_wf c -> t <= u32max /\ ctx_wf c'.
Proof.
  unfold ttl_take. intros H (W1 & W2 & W3 & W4 & W5 & W6 & W7).
  destruct (c_this c) as [x|] eqn:E1.
  - inversion H; subst. cbn [ottl_wf] in W7. split; [now apply N.leb_le|]. repeat split; cbn; auto.
  - assert (W : ctx_wf c) by (repeat split; auto; now rewrite E1).
    destruct (c_default c) as [x|] eqn:E2.
    + inversion H; subst. cbn [ottl_wf] in W5. split; [now apply N.leb_le|exact W].
    + destruct (c_last c) as [x|] eqn:E3; [|discriminate]. inversion H; subst. cbn [ottl_wf] in W6.
      split; [now apply N.leb_le|exact W].
Qed.

Lemma ctx_insert_wf c parts c' : ctx_insert c parts = ROk c' -> ctx_wf c -> ctx_wf c'.
Proof.
  unfold ctx_insert. intros H W. pose proof W as (W1 & W2 & W3 & W4 & W5 & W6 & W7).
  apply bind_ok in H as (t & Ht & H). apply bind_ok in H as (d & Hd & H).
  apply bind_ok in H as (n & Hn & H). apply bind_ok in H as ([ttl c1] & Htt & H).
  apply bind_ok in H as (rs & Hrs & H). inversion H; subst. clear H.
  apply opt_r_ok in Hn, Htt. destruct (ttl_take_wf _ _ _ Htt W) as (Httl & (V1 & V2 & V3 & V4 & V5 & V6 & V7)).
  repeat split; cbn; auto.
  eapply store_insert_wf; [exact Hrs|exact V2|].
  unfold rr_wf. cbn [rname rclass rttl rdat fqdn labels].
  rewrite Hn in W4. cbn [oname_wf] in W4.
  apply andb_true_iff; split; [|eapply rdata_of_wf; eauto].
  apply andb_true_iff; split; [|now apply N.leb_le].
  apply andb_true_iff; split; [|exact V3].
  apply andb_true_iff; split; [|reflexivity].
  apply name_wf_iff. cbn [labels]. now apply name_wf_iff.
Qed.

Lemma ptoken_wf c st t c' st' : ptoken c st t = ROk (c', st') -> ctx_wf c -> ctx_wf c'.
Proof.
  intros H W. pose proof W as (W1 & W2 & W3 & W4 & W5 & W6 & W7).
  assert (W0 : ctx_wf (set_rtype c None)) by (repeat split; cbn; auto).
  unfold ptoken, perr in H. destruct st.
  - destruct t; try discriminate; try (inversion H; subst; exact W0).
    + apply bind_ok in H as (n & Hn & H). inversion H; subst.
      repeat split; cbn; auto. cbn [oname_wf]. eapply name_parse_wf; eauto.
    + inversion H; subst. repeat split; cbn; auto.
  - destruct t; try discriminate; [|inversion H; subst; exact W].
    destruct (parse_ttl s) eqn:E.
    + inversion H; subst. repeat split; cbn; auto. apply N.leb_le. eapply parse_ttl_bound; eauto.
    + destruct (class_of (upper_str s)) eqn:Ec.
      * inversion H; subst. repeat split; cbn; auto. eapply class_of_known; eauto.
      * destruct (type_of (upper_str s)); [|discriminate]. inversion H; subst. repeat split; cbn; auto.
  - destruct t; try discriminate. apply bind_ok in H as (v & Hv & H). inversion H; subst.
    apply opt_r_ok in Hv. repeat split; cbn; auto. apply N.leb_le. eapply parse_ttl_bound; eauto.
  - destruct t; try discriminate.
    + inversion H; subst. exact W.
    + inversion H; subst. exact W.
    + apply bind_ok in H as (c2 & Hc & H). inversion H; subst. eapply ctx_insert_wf; eauto.
  - destruct t; destruct p; try discriminate; try (inversion H; subst; exact W).
    destruct (has_prefix [47] s); discriminate.
  - destruct t; try discriminate. apply bind_ok in H as (n & Hn & H). inversion H; subst.
    repeat split; cbn; auto. cbn [oname_wf]. eapply name_parse_wf; eauto.
Qed.

Lemma parse_loop_wf lex : forall f txt ls c st c', parse_loop lex f txt ls c st = ROk c' -> ctx_wf c -> ctx_wf c'.
Proof.
  induction f as [|f IH]; intros txt ls c st c' H W; [discriminate|].
  cbn [parse_loop] in H. destruct (lex txt ls); try discriminate.
  - apply bind_ok in H as ([c1 st1] & Hp & H). eapply IH; [exact H|]. eapply ptoken_wf; eauto.
  - destruct st; try (inversion H; subst; exact W). eapply ctx_insert_wf; eauto.
Qed.

Theorem parse_wf o txt rs : oname_wf o = true -> parse o txt = ROk rs -> forallb rr_wf rs = true.
Proof.
  unfold parse, parse_with. intros Wo H. apply bind_ok in H as (c & Hc & H).
  destruct (c_origin c); [|discriminate]. inversion H; subst.
  apply parse_loop_wf in Hc as (_ & W & _); [exact W|].
  repeat split; cbn; auto. destruct o as [on|]; [|reflexivity]. cbn [oname_wf] in *.
  apply name_wf_iff. cbn [labels]. now apply name_wf_iff.
Qed.
