(* C20 — record lines through the parser state machine, and whole zones. *)
From Coq Require Import String Ascii.
From HV Require Import Lib.Base C20.Model C20.LexProofs C20.FieldProofs C20.LineProofs.
Open Scope N_scope.

(* ------------------------------------------------------------------ *)
(* the token loop over a known token sequence                          *)
(* ------------------------------------------------------------------ *)

Fixpoint ptokens (c : ctx) (st : pstate) (ts : list token) : R (ctx * pstate) :=
  match ts with
  | [] => ROk (c, st)
  | t :: r => match ptoken c st t with
              | ROk (c', st') => ptokens c' st' r
              | RErr k => RErr k | RUnmod => RUnmod | RPanic => RPanic | RFuel => RFuel
              end
  end.

Lemma ptokens_app c st a b c1 st1 :
  ptokens c st a = ROk (c1, st1) -> ptokens c st (a ++ b) = ptokens c1 st1 b.
Proof.
  revert c st. induction a as [|t a IH]; intros c st H; cbn [app ptokens] in *.
  - inversion H; subst. reflexivity.
  - destruct (ptoken c st t) as [[c' st']| | | |]; try discriminate. now apply IH.
Qed.

Lemma parse_loop_toks lex txt ls ts txt' ls' : Toks lex txt ls ts txt' ls' ->
  forall c st c' st' f, ptokens c st ts = ROk (c', st') ->
  parse_loop lex (length ts + f) txt ls c st = parse_loop lex f txt' ls' c' st'.
Proof.
  induction 1 as [|txt st0 t txt1 st1 ts txt2 st2 Hl HT IH]; intros c pst c' pst' f Hp.
  - cbn in Hp. inversion Hp; subst. reflexivity.
  - cbn [length plus parse_loop]. rewrite Hl. cbn [ptokens] in Hp.
    destruct (ptoken c pst t) as [[c1 s1]| | | |]; try discriminate. cbn [bind]. now apply IH.
Qed.

Lemma parse_loop_fuel_indep lex : forall f1 f2 txt ls c st,
  parse_loop lex f1 txt ls c st <> RFuel -> parse_loop lex f2 txt ls c st <> RFuel ->
  parse_loop lex f1 txt ls c st = parse_loop lex f2 txt ls c st.
Proof.
  induction f1 as [|f1 IH]; intros f2 txt ls c st H1 H2; [cbn in H1; congruence|].
  destruct f2 as [|f2]; [cbn in H2; congruence|].
  cbn [parse_loop] in *. destruct (lex txt ls); try reflexivity.
  destruct (ptoken c st t) as [[c1 s1]| | | |]; cbn [bind] in *; try reflexivity. now apply IH.
Qed.

(* ------------------------------------------------------------------ *)
(* fields                                                              *)
(* ------------------------------------------------------------------ *)

Lemma name_text_parse o n t : NameText o n t -> name_ok n = true ->
  name_parse t (Some (abs_name o)) = ROk (abs_name n).
Proof.
  intros [|rel Hne ->] Hok.
  - now apply name_parse_abs.
  - apply (name_parse_rel rel (abs_name o)); assumption.
Qed.

Definition sty (d : sdata) : rty := rty_of_rdata (denote_data d).

Lemma i32_lt_u32 v : v <= i32max -> v <= u32max.
Proof. unfold i32max, u32max. lia. Qed.

Lemma tok_ttl_dec v : v <= u32max -> tok_ttl (Some (dec v)) = ROk v.
Proof. intros H. unfold tok_ttl. now rewrite parse_ttl_dec. Qed.

Lemma tok_i32_dec v : v <= i32max -> tok_i32 (Some (dec v)) = ROk v.
Proof.
  intros H. unfold tok_i32. rewrite tok_ttl_dec by now apply i32_lt_u32. cbn [bind].
  replace (i32max <? v) with false by (symmetry; apply N.ltb_ge; exact H). reflexivity.
Qed.

Lemma tok_ttl_text v s : TtlText v s -> v <= u32max -> tok_ttl (Some s) = ROk v.
Proof. intros T H. unfold tok_ttl. now rewrite (parse_ttl_text _ _ T H). Qed.

Lemma tok_i32_text v s : TtlText v s -> v <= i32max -> tok_i32 (Some s) = ROk v.
Proof.
  intros T H. unfold tok_i32. rewrite (tok_ttl_text _ _ T) by now apply i32_lt_u32. cbn [bind].
  replace (i32max <? v) with false by (symmetry; apply N.ltb_ge; exact H). reflexivity.
Qed.

Ltac split_ands H :=
  repeat match type of H with
  | _ && _ = true => let H' := fresh "H" in apply andb_true_iff in H as [H H']
  end.

Lemma data_words_parse o d ws : DataWords o d ws -> sdata_ok d = true ->
  rdata_of (sty d) ws (Some (abs_name o)) = ROk (denote_data d).
Proof.
  intros W Hok. unfold sdata_ok in Hok. apply andb_true_iff in Hok as [Hn Hv].
  destruct W as [a b c d|n t NT|n t NT|n t NT|p n t NT|ss|m r tm tr a b c e f tb tc te tf Nm Nr Tb Tc Te Tf];
    cbn [names_of forallb] in Hn; cbn [sty denote_data rty_of_rdata rdata_of nth_error tok_name].
  - apply andb_true_iff in Hv as [Hv H4]. apply andb_true_iff in Hv as [Hv H3]. apply andb_true_iff in Hv as [H1 H2].
    apply N.leb_le in H1, H2, H3, H4. now rewrite parse_ipv4_print.
  - rewrite andb_true_r in Hn. now rewrite (name_text_parse _ _ _ NT Hn).
  - rewrite andb_true_r in Hn. now rewrite (name_text_parse _ _ _ NT Hn).
  - rewrite andb_true_r in Hn. now rewrite (name_text_parse _ _ _ NT Hn).
  - rewrite andb_true_r in Hn. apply N.leb_le in Hv. rewrite parse_u16_dec by exact Hv. cbn [opt_r bind].
    now rewrite (name_text_parse _ _ _ NT Hn).
  - reflexivity.
  - apply andb_true_iff in Hn as [Hm Hr]. rewrite andb_true_r in Hr.
    apply andb_true_iff in Hv as [Hv H5]. apply andb_true_iff in Hv as [Hv H4].
    apply andb_true_iff in Hv as [Hv H3]. apply andb_true_iff in Hv as [H1 H2].
    apply N.leb_le in H1, H2, H3, H4, H5.
    rewrite (name_text_parse _ _ _ Nm Hm). cbn [bind]. rewrite (name_text_parse _ _ _ Nr Hr). cbn [bind].
    rewrite tok_ttl_dec by exact H1. cbn [bind].
    rewrite (tok_i32_text _ _ Tb H2). cbn [bind]. rewrite (tok_i32_text _ _ Tc H3). cbn [bind].
    rewrite (tok_i32_text _ _ Te H4). cbn [bind]. rewrite (tok_ttl_text _ _ Tf H5). reflexivity.
Qed.

Lemma type_text_facts d s : Mnem (type_text d) s ->
  parse_ttl s = None /\ class_of (upper_str s) = None /\ type_of (upper_str s) = Some (sty d).
Proof.
  intros M. split.
  - destruct d; eapply parse_ttl_mnem; try exact M; reflexivity.
  - unfold Mnem in M. rewrite M. destruct d; split; reflexivity.
Qed.

Lemma class_text_facts k s : class_ok k = true -> Mnem (class_text k) s ->
  parse_ttl s = None /\ class_of (upper_str s) = Some k.
Proof.
  unfold class_ok. intros H M. split.
  - apply orb_true_iff in H as [H|H]; [apply orb_true_iff in H as [H|H]|];
      apply N.eqb_eq in H; subst; eapply parse_ttl_mnem; try exact M; reflexivity.
  - unfold Mnem in M. rewrite M.
    apply orb_true_iff in H as [H|H]; [apply orb_true_iff in H as [H|H]|];
      apply N.eqb_eq in H; subst; reflexivity.
Qed.

(* ------------------------------------------------------------------ *)
(* the store                                                           *)
(* ------------------------------------------------------------------ *)

Lemma store_put_fresh : forall rs r,
  forallb (fun x => negb (same_key x r && rdata_eqb (rdat x) (rdat r))) rs = true ->
  store_put rs r = rs ++ [r].
Proof.
  induction rs as [|x rs IH]; intros r H; cbn [store_put app]; [reflexivity|].
  cbn [forallb] in H. apply andb_true_iff in H as [Hx Hr]. apply negb_true_iff in Hx.
  rewrite Hx. now rewrite IH.
Qed.

Lemma filter_all {A} (f : A -> bool) l : forallb f l = true -> filter f l = l.
Proof. induction l as [|x l IH]; cbn; [reflexivity|]. intros H. apply andb_true_iff in H as [H1 H2]. now rewrite H1, IH. Qed.

Lemma store_insert_fresh rs r : forallb (fun x => negb (collides r x)) rs = true ->
  store_insert rs r = ROk (rs ++ [r]).
Proof.
  intros H. unfold store_insert, collides in *.
  destruct (rty_of_rdata (rdat r)) eqn:E; cbn [single orb] in H;
    try (rewrite store_put_fresh; [reflexivity|exact H]).
  - (* CNAME *)
    rewrite filter_all; [reflexivity|].
    eapply forallb_impl; [|exact H]. intros x Hx. cbn beta in Hx. now rewrite andb_true_r in Hx.
  - (* SOA *)
    replace (existsb (fun x => same_key x r) rs) with false; [reflexivity|].
    symmetry. apply not_true_iff_false. intros Ex. apply existsb_exists in Ex as (x & Hin & Hk).
    rewrite forallb_forall in H. specialize (H x Hin). cbn beta in H. rewrite Hk in H. discriminate.
Qed.

(* ------------------------------------------------------------------ *)
(* one line                                                            *)
(* ------------------------------------------------------------------ *)

Definition Match (c : ctx) (ps : pstate_) : Prop :=
  c_origin c = Some (abs_name (p_origin ps)) /\
  c_cur c = option_map abs_name (p_prev ps) /\
  c_default c = p_dttl ps /\ c_last c = p_last ps /\ c_this c = None /\ c_class c = p_class ps.

Lemma ptokens_rdata : forall rd ws c parts, flat_tokens rd = Some ws ->
  ptokens c (PRecord parts) rd = ROk (c, PRecord (parts ++ ws)).
Proof.
  induction rd as [|t rd IH]; intros ws c parts H; cbn [flat_tokens] in H.
  - inversion H; subst. cbn. now rewrite app_nil_r.
  - destruct t; try discriminate; destruct (flat_tokens rd) as [w|] eqn:E; try discriminate;
      cbn [option_map] in H; inversion H; subst; cbn [ptokens ptoken].
    + rewrite (IH w) by reflexivity. now rewrite <- app_assoc.
    + rewrite (IH w) by reflexivity. now rewrite <- app_assoc.
Qed.

Definition with_cur (c : ctx) (n : list str) : ctx :=
  MkCtx (c_origin c) (c_recs c) (c_class c) (Some (abs_name n)) None (c_default c) (c_last c) (c_this c).

Lemma ptokens_owner ps owner own c : OwnerToks ps owner own -> Match c ps -> name_ok owner = true ->
  forall rest, ptokens c PStart (own ++ rest) = ptokens (with_cur c owner) PTtlClassType rest.
Proof.
  intros O (Mo & Mc & Md & Ml & Mt & Mk) Hok rest. destruct O as [t NT|E|E]; cbn [app ptokens ptoken].
  - cbn [set_rtype c_origin]. rewrite Mo. rewrite (name_text_parse _ _ _ NT Hok). cbn [bind].
    unfold with_cur, set_cur. cbn. now rewrite Mo.
  - unfold with_cur, set_cur, set_rtype. cbn. rewrite Mo, E. reflexivity.
  - unfold with_cur, set_rtype. cbn. rewrite Mc, E. reflexivity.
Qed.

Definition with_tc (c : ctx) (k : N) (this : option N) : ctx :=
  MkCtx (c_origin c) (c_recs c) k (c_cur c) (c_rtype c) (c_default c) (c_last c) this.

Lemma ptoken_ttl c t s : TtlText t s -> t <= u32max ->
  ptoken c PTtlClassType (TChar s) = ROk (set_this c (Some t), PTtlClassType).
Proof. intros T H. cbn [ptoken]. now rewrite (parse_ttl_text _ _ T H). Qed.

Lemma ptoken_class c k s : Mnem (class_text k) s -> class_ok k = true ->
  ptoken c PTtlClassType (TChar s) = ROk (set_class c k, PTtlClassType).
Proof. intros M H. destruct (class_text_facts k s H M) as [H1 H2]. cbn [ptoken]. now rewrite H1, H2. Qed.

Lemma ptokens_tc ps t k tc explicit c : TtlClassToks ps t k tc explicit ->
  t <= u32max -> class_ok k = true -> c_class c = p_class ps -> c_this c = None ->
  forall rest, ptokens c PTtlClassType (tc ++ rest) =
               ptokens (with_tc c k (if explicit then Some t else None)) PTtlClassType rest.
Proof.
  intros T Ht Hk Mk Mt rest. destruct c as [o rs cl cur rt d l th]. cbn in Mk, Mt. subst cl th.
  destruct T; cbn [app ptokens];
    repeat (first [ erewrite ptoken_ttl by eassumption | erewrite ptoken_class by eassumption ]; cbn [ptokens]);
    unfold with_tc, set_this, set_class; cbn; try reflexivity; subst; reflexivity.
Qed.

Lemma ttl_take_ok ps t (explicit : bool) c : c_default c = p_dttl ps -> c_last c = p_last ps ->
  c_this c = (if explicit then Some t else None) -> (explicit = true \/ ttl_omissible ps t) ->
  ttl_take c = Some (t, MkCtx (c_origin c) (c_recs c) (c_class c) (c_cur c) (c_rtype c) (c_default c)
                              (if explicit then Some t else c_last c) None).
Proof.
  intros Md Ml Mt H. destruct c as [o rs cl cur rt d l th]. cbn in *. subst d l th. unfold ttl_take. cbn.
  destruct explicit; [reflexivity|]. destruct H as [H|H]; [discriminate|].
  unfold ttl_omissible in H. destruct (p_dttl ps); [now subst|]. now rewrite H.
Qed.

Definition line_effect (c : ctx) (o : option srec) (ps' : pstate_) (c' : ctx) : Prop :=
  Match c' ps' /\ c_recs c' = c_recs c ++ match o with Some r => [denote r] | None => [] end.

Lemma tc_explicit_or ps t k tc explicit : TtlClassToks ps t k tc explicit -> explicit = true \/ ttl_omissible ps t.
Proof. destruct 1; auto. Qed.

Theorem line_tokens_ok ps ts o ps' c : LineToks ps ts o ps' -> Match c ps ->
  match o with
  | Some r => srec_ok r = true /\ forallb (fun x => negb (collides (denote r) x)) (c_recs c) = true
  | None => True
  end ->
  exists c', ptokens c PStart ts = ROk (c', PStart) /\ line_effect c o ps' c'.
Proof.
  intros L M Hr. pose proof M as (Mo & Mc & Md & Ml & Mt & Mk).
  destruct L as [ps|ps|ps n nt Hn HNT|ps t tt Ht HTT|ps r own tc explicit ty rd ws HO HT HM HD HF].
  - exists (set_rtype c None). split; [reflexivity|]. split; [exact M|cbn; now rewrite app_nil_r].
  - exists (set_rtype c None). split; [reflexivity|]. split; [exact M|cbn; now rewrite app_nil_r].
  - (* $ORIGIN *)
    cbn [ptokens ptoken]. cbn [set_rtype c_origin]. rewrite Mo. rewrite (name_text_parse _ _ _ HNT Hn). cbn [bind ptokens ptoken].
    eexists. split; [reflexivity|]. split; [|cbn; now rewrite app_nil_r].
    repeat split; cbn; assumption.
  - (* $TTL *)
    cbn [ptokens ptoken]. rewrite (parse_ttl_text _ _ HTT Ht). cbn [opt_r bind ptokens ptoken].
    eexists. split; [reflexivity|]. split; [|cbn; now rewrite app_nil_r].
    repeat split; cbn; assumption.
  - (* a record *)
    destruct Hr as [Hok Hfresh]. unfold srec_ok in Hok. split_ands Hok.
    match goal with H : name_ok _ = true |- _ => rename H into Hown end.
    match goal with H : class_ok _ = true |- _ => rename H into Hcls end.
    match goal with H : (_ <=? u32max) = true |- _ => apply N.leb_le in H; rename H into Httl end.
    match goal with H : sdata_ok _ = true |- _ => rename H into Hdat end.
    rewrite (ptokens_owner ps _ own c HO M Hown).
    rewrite (ptokens_tc ps _ _ tc explicit (with_cur c (s_owner r)) HT Httl Hcls) by (cbn; assumption).
    cbn [app ptokens ptoken].
    destruct (type_text_facts (s_data r) ty HM) as (T1 & T2 & T3). rewrite T1, T2, T3.
    rewrite (ptokens_app _ _ rd [TEOL] _ _ (ptokens_rdata rd ws _ [] HF)). cbn [app ptokens ptoken].
    (* the insert *)
    unfold ctx_insert. cbn [set_rtype with_tc with_cur c_rtype c_origin c_cur opt_r bind].
    rewrite Mo. rewrite (data_words_parse _ _ _ HD Hdat). cbn [bind].
    erewrite (ttl_take_ok ps (s_ttl r) explicit); [|cbn; eassumption|cbn; eassumption|reflexivity|eapply tc_explicit_or; eassumption].
    cbn [opt_r bind labels abs_name c_recs c_class c_origin c_cur c_rtype c_default c_last c_this set_rtype with_tc with_cur].
    change (MkRR (MkName (s_owner r) true) (s_class r) (s_ttl r) (denote_data (s_data r))) with (denote r).
    rewrite (store_insert_fresh _ _ Hfresh). cbn [bind].
    eexists. split; [reflexivity|]. split; [|reflexivity].
    repeat split; cbn; try assumption; try reflexivity.
    destruct explicit; [reflexivity|exact Ml].
Qed.

(* ------------------------------------------------------------------ *)
(* the whole zone                                                      *)
(* ------------------------------------------------------------------ *)

Lemma lex_end_empty : next_token_nocap [] SStartLine = LEnd [] SEOF.
Proof. reflexivity. Qed.

Lemma zone_loop : forall lines ps rs c,
  forallb line_ok lines = true ->
  ZoneToks ps (map line_tokens lines) rs ->
  Match c ps ->
  forallb srec_ok rs = true ->
  distinct_from (c_recs c) (map denote rs) = true ->
  exists F c', parse_loop next_token_nocap F (render_zone lines) SStartLine c PStart = ROk c' /\
               c_recs c' = c_recs c ++ map denote rs /\ c_origin c' <> None.
Proof.
  induction lines as [|l lines IH]; intros ps rs c Hl Z M Hok Hd.
  - cbn [map] in Z. inversion Z; subst. exists 1%nat, c. cbn [render_zone flat_map parse_loop].
    rewrite lex_end_empty. split; [reflexivity|]. split; [cbn; now rewrite app_nil_r|].
    destruct M as (Mo & _). rewrite Mo. discriminate.
  - cbn [map] in Z. inversion Z as [|ps0' ts o ps' tss rs' HL HZ]; subst.
    cbn [forallb] in Hl. apply andb_true_iff in Hl as [Hl1 Hl2].
    assert (Hside : match o with
                    | Some r => srec_ok r = true /\ forallb (fun x => negb (collides (denote r) x)) (c_recs c) = true
                    | None => True end).
    { destruct o as [r|]; [|exact I]. cbn [map forallb distinct_from] in *.
      apply andb_true_iff in Hok as [H1 _]. apply andb_true_iff in Hd as [H2 _]. auto. }
    destruct (line_tokens_ok ps _ o ps' c HL M Hside) as (c1 & Hp & M1 & Hr1).
    assert (Hok' : forallb srec_ok rs' = true).
    { destruct o; [cbn [forallb] in Hok; apply andb_true_iff in Hok as [_ H]; exact H|exact Hok]. }
    assert (Hd' : distinct_from (c_recs c1) (map denote rs') = true).
    { rewrite Hr1. destruct o; [cbn [map distinct_from] in Hd; apply andb_true_iff in Hd as [_ H]; exact H|].
      now rewrite app_nil_r. }
    destruct (IH ps' rs' c1 Hl2 HZ M1 Hok' Hd') as (F & c' & HP & HR & HO).
    exists (length (line_tokens l) + F)%nat, c'.
    cbn [render_zone flat_map]. fold (render_zone lines).
    rewrite (parse_loop_toks _ _ _ _ _ _ (toks_line l (render_zone lines) Hl1) _ _ _ _ F Hp).
    split; [exact HP|]. split; [|exact HO].
    rewrite HR, Hr1. destruct o; cbn [map]; rewrite <- app_assoc; reflexivity.
Qed.

Lemma match0 o : Match (ctx0 (Some (abs_name o))) (ps0 o).
Proof. repeat split. Qed.

Theorem zone_roundtrip_nocap o lines rs :
  forallb line_ok lines = true ->
  ZoneToks (ps0 o) (map line_tokens lines) rs ->
  forallb srec_ok rs = true ->
  distinct (map denote rs) = true ->
  parse_nocap (Some (abs_name o)) (render_zone lines) = ROk (map denote rs).
Proof.
  intros Hl Z Hok Hd.
  destruct (zone_loop lines (ps0 o) rs (ctx0 (Some (abs_name o))) Hl Z (match0 o) Hok Hd) as (F & c' & HP & HR & HO).
  unfold parse_nocap, parse_with.
  rewrite (parse_loop_fuel_indep next_token_nocap (S (length (render_zone lines))) F).
  - rewrite HP. cbn [bind]. destruct (c_origin c'); [|congruence]. now rewrite HR.
  - apply parse_loop_no_fuel; [exact next_token_nocap_ok|left; reflexivity|lia].
  - rewrite HP. discriminate.
Qed.

Theorem zone_roundtrip o lines rs :
  forallb line_ok lines = true ->
  ZoneToks (ps0 o) (map line_tokens lines) rs ->
  forallb srec_ok rs = true ->
  distinct (map denote rs) = true ->
  (length (render_zone lines) <= 2045)%nat ->
  parse (Some (abs_name o)) (render_zone lines) = ROk (map denote rs).
Proof.
  intros Hl Z Hok Hd Hlen.
  rewrite parse_cap_refines by (now apply parse_short_no_panic).
  now apply zone_roundtrip_nocap.
Qed.

(* ------------------------------------------------------------------ *)
(* the capped lexer on zones whose lines are short                     *)
(* ------------------------------------------------------------------ *)

(* a call that returns a token needs at most (measure - 2*|remainder|) + 1 iterations *)
Lemma lex_loop_iters : forall f txt st cd cdv t r s,
  lex_loop f txt st cd cdv = LTok t r s ->
  forall f', (mu txt st - 2 * length r + 1 <= f')%nat -> lex_loop f' txt st cd cdv = LTok t r s.
Proof.
  induction f as [|f IH]; intros txt st cd cdv t r s H f' Hf; [discriminate|].
  cbn [lex_loop] in H. destruct f' as [|f']; [lia|]. cbn [lex_loop].
  destruct (step txt st cd cdv) eqn:E; try discriminate.
  - eapply IH; [exact H|]. apply step_mu in E. pose proof (lex_loop_len _ _ _ _ _ _ _ _ H) as L. unfold mu in *. lia.
  - exact H.
Qed.

Lemma cap_of_nocap txt st t r s :
  next_token_nocap txt st = LTok t r s -> (length txt - length r <= 2045)%nat ->
  next_token_cap cap txt st = LTok t r s.
Proof.
  unfold next_token_nocap, next_token_cap. intros H Hc.
  eapply lex_loop_iters; [exact H|]. rewrite cap_val. unfold mu.
  pose proof (rank_le3 st txt). apply lex_loop_len in H. lia.
Qed.

Lemma next_token_of_nocap txt st t r s :
  next_token_nocap txt st = LTok t r s -> (length txt - length r <= 2045)%nat ->
  next_token txt st = LTok t r s.
Proof. which_lexer. first [apply cap_of_nocap | intros H _; exact H]. Qed.

Lemma toks_len lex (L : forall txt st t r s, lex txt st = LTok t r s -> (length r <= length txt)%nat) :
  forall a sa ts b sb, Toks lex a sa ts b sb -> (length b <= length a)%nat.
Proof. induction 1; [lia|]. apply L in H. lia. Qed.

Lemma toks_cap a sa ts b sb : Toks next_token_nocap a sa ts b sb ->
  (length a - length b <= 2045)%nat -> Toks next_token a sa ts b sb.
Proof.
  induction 1 as [|txt st t txt1 st1 ts txt2 st2 Hl HT IH]; intros Hc; [constructor|].
  pose proof (toks_len _ nocap_len _ _ _ _ _ HT). pose proof (nocap_len _ _ _ _ _ Hl).
  econstructor; [apply next_token_of_nocap; [exact Hl|lia]|]. apply IH. lia.
Qed.

Lemma lex_end_empty_cap : next_token [] SStartLine = LEnd [] SEOF.
Proof. reflexivity. Qed.

Lemma zone_loop_cap : forall lines ps rs c,
  forallb line_ok lines = true -> forallb short_line lines = true ->
  ZoneToks ps (map line_tokens lines) rs ->
  Match c ps ->
  forallb srec_ok rs = true ->
  distinct_from (c_recs c) (map denote rs) = true ->
  exists F c', parse_loop next_token F (render_zone lines) SStartLine c PStart = ROk c' /\
               c_recs c' = c_recs c ++ map denote rs /\ c_origin c' <> None.
Proof.
  induction lines as [|l lines IH]; intros ps rs c Hl Hs Z M Hok Hd.
  - cbn [map] in Z. inversion Z; subst. exists 1%nat, c. cbn [render_zone flat_map parse_loop].
    rewrite lex_end_empty_cap. split; [reflexivity|]. split; [cbn; now rewrite app_nil_r|].
    destruct M as (Mo & _). rewrite Mo. discriminate.
  - cbn [map] in Z. inversion Z as [|ps0' ts o ps' tss rs' HL HZ]; subst.
    cbn [forallb] in Hl, Hs. apply andb_true_iff in Hl as [Hl1 Hl2]. apply andb_true_iff in Hs as [Hs1 Hs2].
    assert (Hside : match o with
                    | Some r => srec_ok r = true /\ forallb (fun x => negb (collides (denote r) x)) (c_recs c) = true
                    | None => True end).
    { destruct o as [r|]; [|exact I]. cbn [map forallb distinct_from] in *.
      apply andb_true_iff in Hok as [H1 _]. apply andb_true_iff in Hd as [H2 _]. auto. }
    destruct (line_tokens_ok ps _ o ps' c HL M Hside) as (c1 & Hp & M1 & Hr1).
    assert (Hok' : forallb srec_ok rs' = true).
    { destruct o; [cbn [forallb] in Hok; apply andb_true_iff in Hok as [_ H]; exact H|exact Hok]. }
    assert (Hd' : distinct_from (c_recs c1) (map denote rs') = true).
    { rewrite Hr1. destruct o; [cbn [map distinct_from] in Hd; apply andb_true_iff in Hd as [_ H]; exact H|].
      now rewrite app_nil_r. }
    destruct (IH ps' rs' c1 Hl2 Hs2 HZ M1 Hok' Hd') as (F & c' & HP & HR & HO).
    exists (length (line_tokens l) + F)%nat, c'.
    cbn [render_zone flat_map]. fold (render_zone lines).
    assert (TK : Toks next_token (render_line l ++ render_zone lines) SStartLine (line_tokens l) (render_zone lines) SStartLine).
    { apply toks_cap; [apply toks_line; exact Hl1|]. rewrite app_length.
      unfold short_line in Hs1. apply N.leb_le in Hs1. lia. }
    rewrite (parse_loop_toks _ _ _ _ _ _ TK _ _ _ _ F Hp).
    split; [exact HP|]. split; [|exact HO].
    rewrite HR, Hr1. destruct o; cbn [map]; rewrite <- app_assoc; reflexivity.
Qed.

Theorem zone_roundtrip_lines o lines rs :
  forallb line_ok lines = true -> forallb short_line lines = true ->
  ZoneToks (ps0 o) (map line_tokens lines) rs ->
  forallb srec_ok rs = true ->
  distinct (map denote rs) = true ->
  parse (Some (abs_name o)) (render_zone lines) = ROk (map denote rs).
Proof.
  intros Hl Hs Z Hok Hd.
  destruct (zone_loop_cap lines (ps0 o) rs (ctx0 (Some (abs_name o))) Hl Hs Z (match0 o) Hok Hd) as (F & c' & HP & HR & HO).
  unfold parse, parse_with.
  rewrite (parse_loop_fuel_indep next_token (S (length (render_zone lines))) F).
  - rewrite HP. cbn [bind]. destruct (c_origin c'); [|congruence]. now rewrite HR.
  - apply parse_loop_no_fuel; [exact next_token_ok|left; reflexivity|lia].
  - rewrite HP. discriminate.
Qed.

(* ------------------------------------------------------------------ *)
(* a last line without line break: the flush at the end of the input  *)
(* ------------------------------------------------------------------ *)

Lemma ptokens_snoc_inv : forall ts c st t r, ptokens c st (ts ++ [t]) = ROk r ->
  exists c1 st1, ptokens c st ts = ROk (c1, st1) /\ ptoken c1 st1 t = ROk r.
Proof.
  induction ts as [|x ts IH]; intros c st t r H; cbn [app ptokens] in *.
  - exists c, st. split; [reflexivity|]. destruct (ptoken c st t) as [[c' st']| | | |]; try discriminate.
    cbn [ptokens] in H. inversion H; subst. reflexivity.
  - destruct (ptoken c st x) as [[c' st']| | | |]; try discriminate. now apply IH.
Qed.

Definition flush (c : ctx) (st : pstate) : R ctx :=
  match st with PRecord parts => ctx_insert c parts | _ => ROk c end.

(* at the end of the input the flush does what a line break would have done *)
Lemma flush_eol c st c' : ptoken c st TEOL = ROk (c', PStart) ->
  exists cf, flush c st = ROk cf /\ c_recs cf = c_recs c' /\ c_origin cf = c_origin c'.
Proof.
  destruct st; cbn [ptoken flush]; unfold perr; intros H; try discriminate.
  - inversion H; subst. exists c. auto.
  - inversion H; subst. exists c'. auto.
  - destruct (ctx_insert c parts) as [x| | | |]; cbn [bind] in H; try discriminate.
    inversion H; subst. exists c'. auto.
  - destruct p; [destruct (has_prefix [47] s)|]; discriminate.
Qed.

Lemma distinct_from_app : forall a e b, distinct_from e (a ++ b) = true ->
  distinct_from e a = true /\ distinct_from (e ++ a) b = true.
Proof.
  induction a as [|r a IH]; intros e b H; cbn [app distinct_from] in *.
  - split; [reflexivity|]. now rewrite app_nil_r.
  - apply andb_true_iff in H as [H1 H2]. destruct (IH _ _ H2) as [I1 I2].
    split; [now rewrite H1, I1|]. now rewrite <- app_assoc in I2.
Qed.

Section Tail.
  Variable lex : str -> lst -> lres.
  Variable good : line -> bool.
  Hypothesis good_toks : forall l rest, good l = true ->
    Toks lex (render_line l ++ rest) SStartLine (line_tokens l) rest SStartLine.

  (* the lines of a zone, followed by more text whose token lists are [tail] *)
  Lemma zone_loop_tail : forall lines ps rs c tail rest,
    forallb good lines = true ->
    ZoneToks ps (map line_tokens lines ++ tail) rs ->
    Match c ps ->
    forallb srec_ok rs = true ->
    distinct_from (c_recs c) (map denote rs) = true ->
    exists n c' ps' rs1 rs2,
      rs = rs1 ++ rs2 /\
      (forall F, parse_loop lex (n + F) (render_zone lines ++ rest) SStartLine c PStart =
                 parse_loop lex F rest SStartLine c' PStart) /\
      Match c' ps' /\ c_recs c' = c_recs c ++ map denote rs1 /\
      ZoneToks ps' tail rs2 /\ forallb srec_ok rs2 = true /\
      distinct_from (c_recs c') (map denote rs2) = true.
  Proof.
    induction lines as [|l lines IH]; intros ps rs c tail rest Hg Z M Hok Hd.
    - exists 0%nat, c, ps, [], rs. cbn [map app render_zone flat_map plus] in *.
      split; [reflexivity|]. split; [intros F; reflexivity|]. split; [exact M|].
      split; [now rewrite app_nil_r|]. auto.
    - cbn [map app] in Z. inversion Z as [|ps0' ts o ps1 tss rs' HL HZ]; subst.
      cbn [forallb] in Hg. apply andb_true_iff in Hg as [Hg1 Hg2].
      assert (Hside : match o with
                      | Some r => srec_ok r = true /\ forallb (fun x => negb (collides (denote r) x)) (c_recs c) = true
                      | None => True end).
      { destruct o as [r|]; [|exact I]. cbn [map forallb distinct_from] in *.
        apply andb_true_iff in Hok as [H1 _]. apply andb_true_iff in Hd as [H2 _]. auto. }
      destruct (line_tokens_ok ps _ o ps1 c HL M Hside) as (c1 & Hp & M1 & Hr1).
      assert (Hok' : forallb srec_ok rs' = true).
      { destruct o; [cbn [forallb] in Hok; apply andb_true_iff in Hok as [_ H]; exact H|exact Hok]. }
      assert (Hd' : distinct_from (c_recs c1) (map denote rs') = true).
      { rewrite Hr1. destruct o; [cbn [map distinct_from] in Hd; apply andb_true_iff in Hd as [_ H]; exact H|].
        now rewrite app_nil_r. }
      destruct (IH ps1 rs' c1 tail rest Hg2 HZ M1 Hok' Hd')
        as (n & c' & ps' & rs1 & rs2 & Ers & HP & M' & HR & HZ' & Hok2 & Hd2).
      exists (length (line_tokens l) + n)%nat, c', ps', (match o with Some r => r :: rs1 | None => rs1 end), rs2.
      split; [destruct o; subst; reflexivity|].
      split.
      { intros F. cbn [render_zone flat_map]. fold (render_zone lines). rewrite <- app_assoc.
        rewrite <- Nat.add_assoc.
        rewrite (parse_loop_toks _ _ _ _ _ _ (good_toks l (render_zone lines ++ rest) Hg1) _ _ _ _ (n + F)%nat Hp).
        apply HP. }
      split; [exact M'|]. split; [|auto].
      rewrite HR, Hr1. destruct o; cbn [map]; rewrite <- app_assoc; reflexivity.
  Qed.

  Hypothesis lex_ok : lexer_ok lex.

  (* the zone ends with a line that has no line break *)
  Lemma zone_last_line o lines last rs rem st :
    forallb good lines = true ->
    Toks lex (render_noeol last) SStartLine (line_tokens_noeol last) rem st ->
    is_end (lex rem st) ->
    ZoneToks (ps0 o) (map line_tokens lines ++ [line_tokens_noeol last ++ [TEOL]]) rs ->
    forallb srec_ok rs = true ->
    distinct (map denote rs) = true ->
    parse_with lex (Some (abs_name o)) (render_zone lines ++ render_noeol last) = ROk (map denote rs).
  Proof.
    intros Hg HT HE Z Hok Hd.
    destruct (zone_loop_tail lines (ps0 o) rs (ctx0 (Some (abs_name o))) _ (render_noeol last) Hg Z (match0 o) Hok Hd)
      as (n & c' & ps' & rs1 & rs2 & Ers & HP & M' & HR & HZ' & Hok2 & Hd2).
    inversion HZ' as [|ps0' ts oo ps1 tss rs' HL HZ0]; subst. inversion HZ0; subst.
    assert (Hside : match oo with
                    | Some r => srec_ok r = true /\ forallb (fun x => negb (collides (denote r) x)) (c_recs c') = true
                    | None => True end).
    { destruct oo as [r|]; [|exact I]. cbn [map forallb distinct_from] in *.
      apply andb_true_iff in Hok2 as [H1 _]. apply andb_true_iff in Hd2 as [H2 _]. auto. }
    destruct (line_tokens_ok ps' _ oo ps1 c' HL M' Hside) as (c2 & Hp & M2 & Hr2).
    destruct (ptokens_snoc_inv _ _ _ _ _ Hp) as (c1 & st1 & Hp1 & Heol).
    destruct (flush_eol _ _ _ Heol) as (cf & Hf & Hfr & Hfo).
    (* the run: all the lines, the tokens of the last line, the end of the input, the flush *)
    assert (RUN : parse_loop lex (n + (length (line_tokens_noeol last) + 1)) (render_zone lines ++ render_noeol last)
                    SStartLine (ctx0 (Some (abs_name o))) PStart = ROk cf).
    { rewrite HP. rewrite (parse_loop_toks _ _ _ _ _ _ HT _ _ _ _ 1%nat Hp1).
      cbn [parse_loop]. destruct (lex rem st); try contradiction. exact Hf. }
    unfold parse_with.
    rewrite (parse_loop_fuel_indep lex (S (length (render_zone lines ++ render_noeol last)))
               (n + (length (line_tokens_noeol last) + 1))).
    - rewrite RUN. cbn [bind]. rewrite Hfo. destruct M2 as (Mo & _). rewrite Mo.
      rewrite Hfr, Hr2, HR. cbn [ctx0 c_recs app]. destruct oo; cbn [map]; rewrite ?app_nil_r, ?map_app; reflexivity.
    - apply parse_loop_no_fuel; [exact lex_ok|left; reflexivity|lia].
    - rewrite RUN. discriminate.
  Qed.
End Tail.

Theorem zone_roundtrip_last_nocap o lines last rs :
  forallb line_ok lines = true -> line_noeol_ok last = true ->
  ZoneToks (ps0 o) (map line_tokens lines ++ [line_tokens_noeol last ++ [TEOL]]) rs ->
  forallb srec_ok rs = true ->
  distinct (map denote rs) = true ->
  parse_nocap (Some (abs_name o)) (render_zone lines ++ render_noeol last) = ROk (map denote rs).
Proof.
  intros Hl Hlast Z Hok Hd. destruct (toks_last_line last Hlast) as (rem & st & HT & HE).
  unfold parse_nocap.
  eapply (zone_last_line next_token_nocap line_ok); eauto.
  - intros l rest H. now apply toks_line.
  - exact next_token_nocap_ok.
Qed.

Definition good_short (l : line) : bool := line_ok l && short_line l.

Theorem zone_roundtrip_last o lines last rs :
  forallb good_short lines = true -> line_noeol_ok last = true ->
  (length (render_noeol last) <= 2045)%nat ->
  ZoneToks (ps0 o) (map line_tokens lines ++ [line_tokens_noeol last ++ [TEOL]]) rs ->
  forallb srec_ok rs = true ->
  distinct (map denote rs) = true ->
  parse (Some (abs_name o)) (render_zone lines ++ render_noeol last) = ROk (map denote rs).
Proof.
  intros Hl Hlast Hlen Z Hok Hd. destruct (toks_last_line last Hlast) as (rem & st & HT & HE).
  pose proof (toks_len _ nocap_len _ _ _ _ _ HT) as Hrem.
  assert (GT : forall l rest, good_short l = true ->
            Toks next_token (render_line l ++ rest) SStartLine (line_tokens l) rest SStartLine).
  { intros l rest H. unfold good_short in H. apply andb_true_iff in H as [H1 H2].
    apply toks_cap; [now apply toks_line|]. rewrite app_length. unfold short_line in H2. apply N.leb_le in H2. lia. }
  assert (HT' : Toks next_token (render_noeol last) SStartLine (line_tokens_noeol last) rem st)
    by (apply toks_cap; [exact HT|lia]).
  assert (HE' : is_end (next_token rem st))
    by (rewrite next_token_cap_refines; [exact HE|]; apply next_token_short; lia).
  exact (zone_last_line next_token good_short GT next_token_ok o lines last rs rem st Hl HT' HE' Z Hok Hd).
Qed.

(* ------------------------------------------------------------------ *)
(* convenience forms for building concrete derivations                *)
(* ------------------------------------------------------------------ *)

Lemma zt_rec ps ts r ps' tss rs : LineToks ps ts (Some r) ps' -> ZoneToks ps' tss rs -> ZoneToks ps (ts :: tss) (r :: rs).
Proof. intros H1 H2. exact (zt_cons ps ts (Some r) ps' tss rs H1 H2). Qed.
Lemma zt_skip ps ts ps' tss rs : LineToks ps ts None ps' -> ZoneToks ps' tss rs -> ZoneToks ps (ts :: tss) rs.
Proof. intros H1 H2. exact (zt_cons ps ts None ps' tss rs H1 H2). Qed.
Lemma lt_rec_eq ps r own tc explicit ty rd ws ts :
  OwnerToks ps (s_owner r) own -> TtlClassToks ps (s_ttl r) (s_class r) tc explicit ->
  Mnem (type_text (s_data r)) ty ->
  DataWords (p_origin ps) (s_data r) ws -> flat_tokens rd = Some ws ->
  ts = own ++ tc ++ [TChar ty] ++ rd ++ [TEOL] ->
  LineToks ps ts (Some r)
    (MkPs (p_origin ps) (Some (s_owner r)) (p_dttl ps) (if explicit then Some (s_ttl r) else p_last ps) (s_class r)).
Proof. intros. subst ts. apply (lt_rec ps r own tc explicit ty rd ws); assumption. Qed.
Lemma nt_rel_eq o n rel t : rel <> [] -> n = rel ++ o -> t = print_rel rel -> NameText o n t.
Proof. intros. subst t. now apply nt_rel. Qed.
Lemma nt_abs_eq o n t : t = print_abs n -> NameText o n t.
Proof. intros. subst t. apply nt_abs. Qed.

