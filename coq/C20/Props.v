(* C20 — property theorems (statements; proofs are in the *Proofs.v files).
   [parse o txt] is the model of Parser::new(txt, None, o).parse(); results: ROk records,
   RErr class, RPanic (the lexer's assert!(i < 4095)), RUnmod (outside the model), RFuel (the
   model's own recursion bound, shown unreachable).  [parse_nocap] is the same loader over the
   lexer without its 4096-iteration cap, [parse_capped c] over the lexer with a cap of c.
   Which of the two [parse] is, is the single definition [lex_cap] in Model.v; this file checks
   unchanged under both settings ([Some cap]: finding F2 open; [None]: lexer repaired). *)
From Coq Require Import String.
From HV Require Import Lib.Base C20.Model C20.LexProofs C20.FieldProofs C20.LineProofs C20.ZoneProofs
  C20.WfProofs C20.ExampleProofs C20.EofProofs.
Open Scope N_scope.

(* ---- never an endless loop --------------------------------------------------------- *)

(* The token loop of next_token needs no iteration cap: without the cap, 2*|text|+4 iterations
   always suffice (every iteration consumes a character or lowers a rank bounded by 3). *)
Theorem C20_lexer_terminates : forall txt st, next_token_nocap txt st <> LPanic.
Proof. exact next_token_nocap_total. Qed.
Print Assumptions C20_lexer_terminates.

(* The whole load terminates for every text and origin (the model's recursion bound |text|+1 on
   the number of tokens is never reached: every token consumes at least one character), and
   without the cap it never panics. *)
Theorem C20_parse_total : forall o txt,
  parse o txt <> RFuel /\ parse_nocap o txt <> RFuel /\ parse_nocap o txt <> RPanic.
Proof.
  intros o txt. repeat split.
  - apply parse_with_no_fuel. exact next_token_ok.
  - apply parse_with_no_fuel. exact next_token_nocap_ok.
  - apply parse_with_panic_free. exact next_token_nocap_total.
Qed.
Print Assumptions C20_parse_total.

(* ---- never a panic: refuted, and guarded ------------------------------------------- *)

(* which loader [parse] is *)
Theorem C20_model_variant :
  parse = match lex_cap with Some c => parse_capped c | None => parse_nocap end.
Proof. reflexivity. Qed.
Print Assumptions C20_model_variant.

(* The only effect of the cap is to turn a result into a panic. *)
Theorem C20_cap_only_panics : forall o txt, parse o txt <> RPanic -> parse o txt = parse_nocap o txt.
Proof. exact parse_cap_refines. Qed.
Print Assumptions C20_cap_only_panics.

(* "Text of any kind never panics" is false for the loader with the 4096-iteration assert: a
   first token of 4093 letters trips it (replayed on the real code by the harness family
   long-lexeme and corpus/C20/f2-*.zone: finding F2). *)
Theorem C20_no_panic_refuted : exists o txt, parse_capped cap o txt = RPanic.
Proof. exists None, (repeat 97 (N.to_nat 4093)). vm_compute. reflexivity. Qed.
Print Assumptions C20_no_panic_refuted.

(* The loader can panic exactly when it has the cap: with [lex_cap = Some cap] this is the
   refutation above for [parse] itself; with [lex_cap = None] it says that no text panics. *)
Theorem C20_panic_iff_capped : (exists o txt, parse o txt = RPanic) <-> lex_cap <> None.
Proof.
  split.
  - intros (o & txt & H).
    first [ unfold lex_cap; discriminate
          | exfalso; exact (parse_with_panic_free next_token_nocap o txt next_token_nocap_total H) ].
  - intros H.
    first [ exists None, (repeat 97 (N.to_nat 4093)); vm_compute; reflexivity
          | exfalso; apply H; reflexivity ].
Qed.
Print Assumptions C20_panic_iff_capped.

(* Guarded form: texts of at most 2045 characters never panic, whatever they contain. *)
Theorem C20_no_panic_guarded : forall o txt, (length txt <= 2045)%nat -> parse o txt <> RPanic.
Proof. exact parse_short_no_panic. Qed.
Print Assumptions C20_no_panic_guarded.

(* ---- layout independence at the lexical level -------------------------------------- *)

(* Whatever the blanks, the comment, the line ending, the quoting of strings and the
   parenthesised groups (with their line breaks and comments) of a line, the lexer delivers
   exactly the tokens of its items, then the end-of-line token, and is back at the start of the
   next line.  ([line_ok]: blanks are spaces/tabs, comments and group separators are well formed,
   a word is followed by a blank when another item follows.) *)
Theorem C20_line_layout : forall l rest, line_ok l = true ->
  Toks next_token_nocap (render_line l ++ rest) SStartLine (line_tokens l) rest SStartLine.
Proof. exact toks_line. Qed.
Print Assumptions C20_line_layout.

(* ---- zone files load to exactly the records they denote ---------------------------- *)

(* For every origin [o], every list of lines in any lexical layout ([line_ok]) whose token
   sequences follow the master-file grammar [ZoneToks] for the records [rs] (owner absolute,
   origin-relative, @ or inherited from the previous record; TTL (decimal or with s/m/h/d/w
   units) and class stated in either order or inherited from $TTL / the last stated value; class
   and type mnemonics in any letter case; $ORIGIN (with an absolute name, or a relative one that
   is completed with the origin then in force) and $TTL directives, blank and comment
   lines anywhere; RDATA words plain, quoted or gathered in parentheses), with well-formed,
   pairwise distinct records: the loader without the cap returns exactly [rs], in order. *)
Theorem C20_roundtrip_nocap : forall o lines rs,
  forallb line_ok lines = true ->
  ZoneToks (ps0 o) (map line_tokens lines) rs ->
  forallb srec_ok rs = true ->
  distinct (map denote rs) = true ->
  parse_nocap (Some (abs_name o)) (render_zone lines) = ROk (map denote rs).
Proof. exact zone_roundtrip_nocap. Qed.
Print Assumptions C20_roundtrip_nocap.

(* The same for the real (capped) loader, for zones of any size, guarded by [short_line]: no line
   (with its parenthesised continuation) exceeds 2045 characters, so that no single token can
   need 4096 lexer iterations.  Unguarded it is false by C20_no_panic_refuted: any line can be
   given a 4093-character comment. *)
Theorem C20_roundtrip_guarded : forall o lines rs,
  forallb line_ok lines = true ->
  forallb short_line lines = true ->
  ZoneToks (ps0 o) (map line_tokens lines) rs ->
  forallb srec_ok rs = true ->
  distinct (map denote rs) = true ->
  parse (Some (abs_name o)) (render_zone lines) = ROk (map denote rs).
Proof. exact zone_roundtrip_lines. Qed.
Print Assumptions C20_roundtrip_guarded.

(* A last line without line break is loaded like any other (the flush at the end of the input):
   the zone [lines] followed by the unterminated line [last], whose token list is completed by
   the missing end-of-line token in the grammar. *)
Theorem C20_roundtrip_no_final_newline_guarded : forall o lines last rs,
  forallb good_short lines = true -> line_noeol_ok last = true ->
  (length (render_noeol last) <= 2045)%nat ->
  ZoneToks (ps0 o) (map line_tokens lines ++ [line_tokens_noeol last ++ [TEOL]]) rs ->
  forallb srec_ok rs = true ->
  distinct (map denote rs) = true ->
  parse (Some (abs_name o)) (render_zone lines ++ render_noeol last) = ROk (map denote rs).
Proof. exact zone_roundtrip_last. Qed.
Print Assumptions C20_roundtrip_no_final_newline_guarded.

(* ---- whatever the text, what is loaded is well formed ------------------------------- *)

(* For every text (garbage included): every record returned has labels of 1..63 octets, names of
   at most 255 octets, a known class, a TTL below 2^32, address octets, preferences and SOA
   timers in range.  Out-of-range input is refused, never wrapped. *)
Theorem C20_loaded_records_wellformed : forall o txt rs,
  oname_wf o = true -> parse o txt = ROk rs -> forallb rr_wf rs = true.
Proof. exact parse_wf. Qed.
Print Assumptions C20_loaded_records_wellformed.

(* ---- legal layouts outside the grammar above that the loader mishandles (findings) -- *)

Definition ex_o : option name := Some (abs_name [s2l "example"; s2l "com"]).
Definition ex_a : name := abs_name [s2l "a"; s2l "example"; s2l "com"].
Definition nl (s : string) : str := s2l s ++ [10].

(* F2b: a quoted string inside parentheses is split at blanks and keeps its quotes *)
Theorem C20_quotes_in_parens_refuted :
  parse ex_o (nl "a 60 IN TXT ""b c""") = ROk [MkRR ex_a 1 60 (DTXT [s2l "b c"])] /\
  parse ex_o (nl "a 60 IN TXT ( ""b c"" )") = ROk [MkRR ex_a 1 60 (DTXT [s2l """b"; s2l "c"""])].
Proof. split; vm_compute; reflexivity. Qed.
Print Assumptions C20_quotes_in_parens_refuted.

(* F2b: \DDD in a quoted string is (d1<<16)+(d2<<8)+d3, not the decimal octet: \065 is U+0605 *)
Theorem C20_ddd_escape_refuted :
  parse ex_o (nl "a 60 IN TXT ""\065""") = ROk [MkRR ex_a 1 60 (DTXT [[216; 133]])].
Proof. vm_compute. reflexivity. Qed.
Print Assumptions C20_ddd_escape_refuted.

(* F2b: @ for the origin inside RDATA is refused *)
Theorem C20_at_in_rdata_refuted : parse ex_o (nl "a 60 IN NS @") = RErr 2.
Proof. vm_compute. reflexivity. Qed.
Print Assumptions C20_at_in_rdata_refuted.

(* F2e (repaired): a relative name after $ORIGIN is completed with the current origin.  The
   grammar of the round-trip theorems covers it (LineToks.lt_origin: any NameText of the new
   origin); stated on its own: a zone that starts with "$ORIGIN rel" (any layout [l] of that line),
   loaded under the origin [o], is the rest of the zone loaded under rel.o *)
Theorem C20_relative_origin : forall o rel l lines rs,
  rel <> [] -> name_ok (rel ++ o) = true ->
  line_ok l = true -> line_tokens l = [TOrigin; TChar (print_rel rel); TEOL] ->
  forallb line_ok lines = true ->
  ZoneToks (ps0 (rel ++ o)) (map line_tokens lines) rs ->
  forallb srec_ok rs = true ->
  distinct (map denote rs) = true ->
  parse_nocap (Some (abs_name o)) (render_zone (l :: lines)) = ROk (map denote rs).
Proof.
  intros o rel l lines rs Hne Hok Hl Ht Hls HZ Hrs Hd.
  apply zone_roundtrip_nocap; [cbn [forallb]; now rewrite Hl| |exact Hrs|exact Hd].
  cbn [map]. rewrite Ht. eapply zt_skip; [|exact HZ].
  apply (lt_origin (ps0 o) (rel ++ o) (print_rel rel) Hok). now apply nt_rel.
Qed.
Print Assumptions C20_relative_origin.

(* F2c (repaired): a text that ends inside parentheses is never accepted.  Whatever precedes the
   opening parenthesis (any text [pre] after which the lexer is at the start of a line, or in the
   middle of one and then after any blanks [bl]; [toks] are the tokens of [pre]) and whatever
   follows it, if the closing parenthesis is missing ([closes]: no ")" outside a comment up to
   the end of the text) the load is an error (or outside the model: $INCLUDE of an absolute path
   before it; a panic only for the lexer with the cap). *)
Theorem C20_eof_in_parens_is_error : forall o pre bl toks r st,
  at_open st bl ->
  Toks next_token_nocap (pre ++ bl ++ 40 :: r) SStartLine toks (bl ++ 40 :: r) st ->
  closes false r = false ->
  (exists k, parse o (pre ++ bl ++ 40 :: r) = RErr k) \/ parse o (pre ++ bl ++ 40 :: r) = RUnmod \/
  (lex_cap <> None /\ parse o (pre ++ bl ++ 40 :: r) = RPanic).
Proof. exact parse_unclosed. Qed.
Print Assumptions C20_eof_in_parens_is_error.

(* at the lexer: an opening parenthesis that is never closed yields an error, never a token or
   the end-of-input result *)
Theorem C20_unclosed_list_lexer_error : forall bl r st,
  at_open st bl -> closes false r = false ->
  exists e, next_token_nocap (bl ++ 40 :: r) st = LErr e.
Proof. exact next_token_unclosed. Qed.
Print Assumptions C20_unclosed_list_lexer_error.

(* F2d: RDATA fields after the last expected one are ignored instead of refused *)
Theorem C20_trailing_field_refuted :
  parse ex_o (nl "a 60 IN A 192.0.2.1 192.0.2.2") = ROk [MkRR ex_a 1 60 (DA 192 0 2 1)].
Proof. vm_compute. reflexivity. Qed.
Print Assumptions C20_trailing_field_refuted.

(* ---- non-vacuity ------------------------------------------------------------------- *)

(* a short text that loads, texts that are refused *)
Example C20_short_text_example :
  let txt := nl "www 60 IN A 192.0.2.1" in
  (length txt <= 2045)%nat /\
  parse ex_o txt = ROk [MkRR (abs_name [s2l "www"; s2l "example"; s2l "com"]) 1 60 (DA 192 0 2 1)] /\
  parse ex_o (s2l "www 60 IN A 192.0.2.256") = RErr 2 /\
  parse ex_o (s2l "www 60 IN TXT ""abc") = RErr 1.
Proof. cbv zeta. split; [cbn; lia|]. vm_compute. auto. Qed.

(* the former witnesses of F2e and F2c: the relative $ORIGIN is completed; the three texts that
   end inside parentheses are refused; the hypotheses of C20_eof_in_parens_is_error and of
   C20_relative_origin hold for them *)
Example C20_relative_origin_example :
  parse ex_o (nl "$ORIGIN sub" ++ nl "www 60 IN A 192.0.2.1") =
    ROk [MkRR (abs_name [s2l "www"; s2l "sub"; s2l "example"; s2l "com"]) 1 60 (DA 192 0 2 1)] /\
  let l := MkLine [] [(IDir DOrigin, [32]); (IWord (s2l "sub"), [])] None [10] in
  line_ok l = true /\ line_tokens l = [TOrigin; TChar (print_rel [s2l "sub"]); TEOL] /\
  render_line l = nl "$ORIGIN sub" /\ name_ok ([s2l "sub"] ++ [s2l "example"; s2l "com"]) = true.
Proof. cbv zeta. repeat split; vm_compute; reflexivity. Qed.

Example C20_eof_in_parens_example :
  parse ex_o (s2l "a 60 IN TXT ( b c") = RErr 1 /\
  parse ex_o (s2l "a 60 IN TXT ( b c ;") = RErr 1 /\
  parse ex_o (s2l "a 60 IN TXT ( b c ") = RErr 1 /\
  parse ex_o (nl "a 60 IN TXT ( b c )") = ROk [MkRR ex_a 1 60 (DTXT [s2l "b"; s2l "c"])] /\
  at_open SRestOfLine [32] /\
  Toks next_token_nocap (s2l "a 60 IN TXT" ++ [32] ++ 40 :: s2l " b c ;)") SStartLine
       [TChar (s2l "a"); TChar (s2l "60"); TChar (s2l "IN"); TChar (s2l "TXT")]
       ([32] ++ 40 :: s2l " b c ;)") SRestOfLine /\
  closes false (s2l " b c ;)") = false /\ closes false (s2l " b c )") = true.
Proof.
  repeat split; try (vm_compute; reflexivity).
  - right. split; reflexivity.
  - repeat (eapply toks_cons; [vm_compute; reflexivity|]). apply toks_nil.
Qed.

(* the hypotheses of the round-trip theorems hold for a nine-line zone using every layout
   feature of the grammar (ExampleProofs.v); its text, and what it loads to *)
Example C20_roundtrip_example :
  forallb line_ok ex_lines = true /\
  forallb short_line ex_lines = true /\
  ZoneToks (ps0 ex_origin) (map line_tokens ex_lines) ex_recs /\
  forallb srec_ok ex_recs = true /\
  distinct (map denote ex_recs) = true /\
  length ex_recs = 5%nat /\
  parse (Some (abs_name ex_origin)) (render_zone ex_lines) = ROk (map denote ex_recs) /\
  forallb rr_wf (map denote ex_recs) = true.
Proof.
  destruct ex_side as (H1 & H2 & H3 & H4).
  assert (P : parse (Some (abs_name ex_origin)) (render_zone ex_lines) = ROk (map denote ex_recs))
    by (apply C20_roundtrip_guarded; auto; exact ex_zone_toks).
  split; [exact H1|]. split; [exact H4|]. split; [exact ex_zone_toks|]. split; [exact H2|]. split; [exact H3|].
  split; [reflexivity|]. split; [exact P|].
  eapply C20_loaded_records_wellformed; [|exact P]. reflexivity.
Qed.

Example C20_no_final_newline_example :
  forallb good_short ex2_lines = true /\ line_noeol_ok ex2_last = true /\
  ZoneToks (ps0 ex_origin) (map line_tokens ex2_lines ++ [line_tokens_noeol ex2_last ++ [TEOL]]) ex2_recs /\
  parse (Some (abs_name ex_origin)) (s2l "$TTL 1h" ++ [10] ++ s2l "www A 192.0.2.7") = ROk (map denote ex2_recs).
Proof.
  destruct ex2_side as (H1 & H2 & H3 & H4 & H5 & H6).
  split; [exact H1|]. split; [exact H2|]. split; [exact ex2_zone_toks|].
  rewrite <- H6. apply C20_roundtrip_no_final_newline_guarded; auto. exact ex2_zone_toks.
Qed.

Example C20_line_example :
  let l := MkLine [9] [(IWord (s2l "TXT"), [32]); (IQuoted (s2l "a;b"), []);
                       (IGroup [([], s2l "x"); ([LComment (s2l "c") 10], s2l "y")] [LBlank 32], [32])]
                  (Some (s2l " done")) [13; 10] in
  line_ok l = true /\
  render_line l = [9] ++ s2l "TXT ""a;b""(x;c" ++ [10] ++ s2l "y ) ; done" ++ [13; 10] /\
  line_tokens l = [TBlank; TChar (s2l "TXT"); TChar (s2l "a;b"); TList [s2l "x"; s2l "y"]; TEOL].
Proof. cbv zeta. repeat split; vm_compute; reflexivity. Qed.
