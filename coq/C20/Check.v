(* C20 — correspondence glue: a case carries the origin, the zone text (Latin-1 code points) and
   what the real Parser::parse did (class + canonical dump of the loaded records, sorted);
   [check] re-runs the model and compares. *)
From HV Require Import Lib.Base Lib.Pack C20.Model.
Open Scope N_scope.

Inductive case :=
| CParse (origin : option (list pbytes)) (txt : pbytes) (cls : N) (recs : list pbytes).

Definition origin_of (o : option (list pbytes)) : option name :=
  match o with Some ls => Some (MkName (map unpack ls) true) | None => None end.

Fixpoint remove_one (x : list N) (l : list (list N)) : option (list (list N)) :=
  match l with
  | [] => None
  | y :: l' => if bytes_eqb x y then Some l'
               else match remove_one x l' with Some r => Some (y :: r) | None => None end
  end.
Fixpoint multiset_eqb (a b : list (list N)) : bool :=
  match a with
  | [] => match b with [] => true | _ => false end
  | x :: a' => match remove_one x b with Some b' => multiset_eqb a' b' | None => false end
  end.

(* model result as (class, dump); class 9 = outside the model, 8 = out of fuel (never) *)
Definition run (o : option (list pbytes)) (txt : pbytes) : N * list (list N) :=
  match parse (origin_of o) (unpack txt) with
  | ROk rs => (0, map enc_rec rs)
  | RErr k => (k, [])
  | RPanic => (3, [])
  | RUnmod => (9, [])
  | RFuel => (8, [])
  end.

Definition check (c : case) : bool :=
  match c with
  | CParse o txt cls recs =>
      let '(k, d) := run o txt in
      if k =? 9 then true
      else (k =? cls) && multiset_eqb d (map unpack recs)
  end.

Definition bad (cs : list case) : list N := bad_idx check 0 cs.

Definition show (c : case) := match c with CParse o txt _ _ => run o txt end.

(* how many cases of a list fall outside the model (for the coverage figure) *)
Definition unmodelled (cs : list case) : N :=
  N.of_nat (length (filter (fun c => match c with CParse o txt _ _ => fst (run o txt) =? 9 end) cs)).
