(* C20 — field level: decimal numerals, TTLs, u16, IPv4 and domain names read back what the
   printer of the specification writes. *)
From Coq Require Import String Ascii.
From HV Require Import Lib.Base C20.Model.
Open Scope N_scope.

(* ---------------- decimal numerals ---------------- *)

Lemma digit10_48 m : m < 10 -> digit10 (48 + m) = Some m.
Proof.
  intros H. unfold digit10, is_digit.
  replace (48 <=? 48 + m) with true by (symmetry; apply N.leb_le; lia).
  replace (48 + m <=? 57) with true by (symmetry; apply N.leb_le; lia).
  cbn. f_equal. lia.
Qed.

Lemma is_digit_48 m : m < 10 -> is_digit (48 + m) = true.
Proof.
  intros H. unfold is_digit.
  replace (48 <=? 48 + m) with true by (symmetry; apply N.leb_le; lia).
  replace (48 + m <=? 57) with true by (symmetry; apply N.leb_le; lia). reflexivity.
Qed.

Lemma dec_aux_acc : forall f n acc b, n < 2 ^ N.of_nat f -> n <= b ->
  dec_acc b (dec_aux f n acc) 0 = dec_acc b acc n.
Proof.
  induction f as [|f IH]; intros n acc b Hn Hb.
  - cbn in Hn. assert (n = 0) by lia. subst. reflexivity.
  - cbn [dec_aux]. assert (Hm : n mod 10 < 10) by (apply N.mod_lt; lia).
    destruct (n <? 10) eqn:E.
    + apply N.ltb_lt in E. rewrite N.mod_small by lia.
      cbn [dec_acc]. rewrite digit10_48 by lia.
      replace (0 * 10 + n) with n by lia.
      replace (b <? n) with false by (symmetry; apply N.ltb_ge; lia). reflexivity.
    + apply N.ltb_ge in E.
      rewrite IH.
      * cbn [dec_acc]. rewrite digit10_48 by lia.
        replace (n / 10 * 10 + n mod 10) with n by (rewrite (N.div_mod n 10) at 1; lia).
        replace (b <? n) with false by (symmetry; apply N.ltb_ge; lia). reflexivity.
      * rewrite Nat2N.inj_succ, N.pow_succ_r' in Hn.
        apply N.div_lt_upper_bound; lia.
      * assert (n / 10 <= n) by (apply N.div_le_upper_bound; lia). lia.
Qed.

Lemma log2_fuel n : n < 2 ^ N.of_nat (S (N.to_nat (N.log2 n))).
Proof.
  rewrite Nat2N.inj_succ, N2Nat.id.
  destruct (N.eq_dec n 0) as [->|Hz]; [cbn; lia|].
  apply N.log2_spec. lia.
Qed.

Lemma dec_value n b : n <= b -> dec_acc b (dec n) 0 = Some n.
Proof. intros H. unfold dec. rewrite dec_aux_acc; [reflexivity|apply log2_fuel|exact H]. Qed.

Lemma dec_aux_digits : forall f n acc, Forall (fun c => is_digit c = true) acc ->
  Forall (fun c => is_digit c = true) (dec_aux f n acc).
Proof.
  induction f as [|f IH]; intros n acc H; cbn [dec_aux]; [exact H|].
  assert (Hm : n mod 10 < 10) by (apply N.mod_lt; lia).
  destruct (n <? 10); [|apply IH]; constructor; auto using is_digit_48.
Qed.

Lemma dec_digits n : Forall (fun c => is_digit c = true) (dec n).
Proof. apply dec_aux_digits. constructor. Qed.

Lemma dec_aux_nonempty : forall f n acc, acc <> [] \/ f <> O -> dec_aux f n acc <> [].
Proof.
  induction f as [|f IH]; intros n acc H; cbn [dec_aux].
  - destruct H; congruence.
  - destruct (n <? 10); [discriminate|]. apply IH. left. discriminate.
Qed.

Lemma dec_nonempty n : dec n <> [].
Proof. unfold dec. apply dec_aux_nonempty. right. intros E; discriminate E. Qed.

(* ---------------- parse_ttl ---------------- *)

Lemma ttl_loop_digits : forall s cur v, Forall (fun c => is_digit c = true) s -> s <> [] ->
  ttl_loop s cur v = ttl_loop [] (Some (match cur with Some ds => ds ++ s | None => s end)) v.
Proof.
  induction s as [|c r IH]; intros cur v H Hne; [congruence|].
  inversion H as [|? ? Hc Hr]; subst. cbn [ttl_loop]. rewrite Hc.
  destruct r as [|c2 r2].
  - destruct cur; reflexivity.
  - rewrite IH by (auto; discriminate). destruct cur; cbn; [rewrite <- app_assoc|]; reflexivity.
Qed.

Lemma parse_ttl_dec n : n <= u32max -> parse_ttl (dec n) = Some n.
Proof.
  intros H. unfold parse_ttl. pose proof (dec_nonempty n) as Hne.
  destruct (dec n) eqn:E; [congruence|]. rewrite <- E.
  rewrite ttl_loop_digits by (auto using dec_digits, dec_nonempty). cbn [ttl_loop].
  rewrite dec_value by exact H. rewrite N.add_0_l.
  replace (u32max <? n) with false by (symmetry; apply N.ltb_ge; lia). reflexivity.
Qed.

Lemma dec_head_digit n : exists c r, dec n = c :: r /\ is_digit c = true.
Proof.
  pose proof (dec_nonempty n). pose proof (dec_digits n) as D.
  destruct (dec n) as [|c r]; [congruence|]. inversion D; subst. eauto.
Qed.

Lemma strip_plus (c : N) (r : str) : c <> 43 ->
  (match c :: r with 43 :: r0 => r0 | _ => c :: r end) = c :: r.
Proof.
  intros H. destruct c as [|p]; [reflexivity|].
  do 6 (destruct p as [p|p|]; try reflexivity). congruence.
Qed.

Lemma parse_u16_dec n : n <= 65535 -> parse_u16 (dec n) = Some n.
Proof.
  intros H. unfold parse_u16. destruct (dec_head_digit n) as (c & r & E & D).
  assert (c <> 43). { intros ->. discriminate. }
  rewrite E, strip_plus by assumption. rewrite <- E. apply dec_value. exact H.
Qed.

(* ---------------- TTL texts with units, mnemonics in any case ---------------- *)

Lemma ttl_loop_digits_app : forall s rest cur v, Forall (fun c => is_digit c = true) s -> s <> [] ->
  ttl_loop (s ++ rest) cur v = ttl_loop rest (Some (match cur with Some ds => ds ++ s | None => s end)) v.
Proof.
  induction s as [|c r IH]; intros rest cur v H Hne; [congruence|].
  inversion H as [|? ? Hc Hr]; subst. cbn [app ttl_loop]. rewrite Hc.
  destruct r as [|c2 r2].
  - destruct cur; reflexivity.
  - rewrite IH by (auto; discriminate). destruct cur; cbn; [rewrite <- app_assoc|]; reflexivity.
Qed.

Lemma unit_secs_mult u m : unit_secs u = Some m -> ttl_mult u = Some m /\ is_digit u = false /\ 1 <= m.
Proof.
  unfold unit_secs. intros H.
  repeat match type of H with
  | (if ?b then _ else _) = _ => let E := fresh "E" in destruct b eqn:E;
      [apply orb_true_iff in E as [E|E]; apply N.eqb_eq in E; subst u; inversion H; subst; repeat split; try reflexivity; lia|]
  end. discriminate.
Qed.

Lemma units_value_le : forall ps v, units_value ps = Some v -> True.
Proof. auto. Qed.

Lemma ttl_loop_units : forall ps tv rest v, units_value ps = Some tv -> v + tv <= u32max ->
  ttl_loop (units_text ps ++ rest) None v = ttl_loop rest None (v + tv).
Proof.
  induction ps as [|[n u] ps IH]; intros tv rest v Hv Hb; cbn [units_text units_value] in *.
  - inversion Hv; subst. cbn [app]. now rewrite N.add_0_r.
  - destruct (unit_secs u) as [m|] eqn:Eu; [|discriminate].
    destruct (units_value ps) as [w|] eqn:Ew; [|discriminate]. inversion Hv; subst. clear Hv.
    destruct (unit_secs_mult u m Eu) as (Hm & Hd & Hm1).
    rewrite <- app_assoc. rewrite ttl_loop_digits_app by (auto using dec_digits, dec_nonempty).
    cbn [app ttl_loop]. rewrite Hd, Hm.
    assert (Hn : n <= n * m) by nia.
    rewrite dec_value by (unfold u32max in *; nia).
    replace (u32max <? n * m) with false by (symmetry; apply N.ltb_ge; unfold u32max in *; nia).
    replace (u32max <? v + n * m) with false by (symmetry; apply N.ltb_ge; unfold u32max in *; nia).
    rewrite (IH w rest (v + n * m) eq_refl) by (unfold u32max in *; nia).
    f_equal. lia.
Qed.

Lemma parse_ttl_text t s : TtlText t s -> t <= u32max -> parse_ttl s = Some t.
Proof.
  intros [|ps Hne Hv|ps v n Hne Hv ->] Ht.
  - now apply parse_ttl_dec.
  - unfold parse_ttl. destruct (units_text ps) eqn:E.
    { destruct ps as [|[n u] r]; [congruence|]. cbn [units_text] in E.
      pose proof (dec_nonempty n). destruct (dec n); [congruence|discriminate]. }
    rewrite <- E. rewrite <- (app_nil_r (units_text ps)).
    rewrite (ttl_loop_units ps t [] 0 Hv) by (rewrite N.add_0_l; exact Ht). reflexivity.
  - unfold parse_ttl. destruct (units_text ps ++ dec n) eqn:E.
    { pose proof (dec_nonempty n). destruct (units_text ps); destruct (dec n); try congruence; discriminate. }
    rewrite <- E. rewrite (ttl_loop_units ps v (dec n) 0 Hv) by lia.
    rewrite N.add_0_l. rewrite ttl_loop_digits by (auto using dec_digits, dec_nonempty). cbn [ttl_loop].
    rewrite dec_value by lia.
    replace (u32max <? v + n) with false by (symmetry; apply N.ltb_ge; lia). reflexivity.
Qed.

Lemma parse_ttl_nondigit c r : is_digit c = false -> parse_ttl (c :: r) = None.
Proof. intros H. unfold parse_ttl. cbn [ttl_loop]. rewrite H. reflexivity. Qed.

Lemma to_upper_digit c : is_digit c = true -> to_upper c = c.
Proof.
  unfold to_upper, is_lower, is_digit. intros H. apply andb_true_iff in H as [H1 H2].
  apply N.leb_le in H1, H2. replace (97 <=? c) with false by (symmetry; apply N.leb_gt; lia). reflexivity.
Qed.

(* a word whose upper-case form starts with a capital letter is not a TTL *)
Lemma parse_ttl_mnem x X s : Mnem (x :: X) s -> is_upper x = true -> parse_ttl s = None.
Proof.
  unfold Mnem, upper_str. intros H Hx. destruct s as [|c r]; [discriminate|].
  cbn [map] in H. inversion H as [[Hc Hr]]. apply parse_ttl_nondigit.
  destruct (is_digit c) eqn:E; [|reflexivity]. rewrite (to_upper_digit c E) in Hc. subst c.
  unfold is_upper, is_digit in *. apply andb_true_iff in Hx as [H1 H2]. apply andb_true_iff in E as [H3 H4].
  apply N.leb_le in H1, H2, H3, H4. lia.
Qed.

(* ---------------- IPv4 ---------------- *)

Lemma split_on_nosep : forall x sep rest cur, Forall (fun c => (c =? sep) = false) x ->
  split_on sep (x ++ sep :: rest) cur = (cur ++ x) :: split_on sep rest [].
Proof.
  induction x as [|c x IH]; intros sep rest cur H; cbn [app split_on].
  - rewrite N.eqb_refl, app_nil_r. reflexivity.
  - inversion H as [|? ? Hc Hx]; subst. rewrite Hc, IH by exact Hx. rewrite <- app_assoc. reflexivity.
Qed.

Lemma split_on_last : forall x sep cur, Forall (fun c => (c =? sep) = false) x ->
  split_on sep x cur = [cur ++ x].
Proof.
  induction x as [|c x IH]; intros sep cur H; cbn [split_on].
  - now rewrite app_nil_r.
  - inversion H as [|? ? Hc Hx]; subst. rewrite Hc, IH by exact Hx. rewrite <- app_assoc. reflexivity.
Qed.

Lemma digit_not_dot c : is_digit c = true -> (c =? 46) = false.
Proof. unfold is_digit. intros H. apply andb_true_iff in H as [H1 H2]. apply N.leb_le in H1. apply N.eqb_neq. lia. Qed.

Lemma dec_nodot n : Forall (fun c => (c =? 46) = false) (dec n).
Proof. eapply Forall_impl; [|apply dec_digits]. intros c. apply digit_not_dot. Qed.

Definition octets : list N := map N.of_nat (seq 0 256).

Lemma parse_octet_all : forallb (fun a => option_eqb N.eqb (parse_octet (dec a)) (Some a)) octets = true.
Proof. vm_compute. reflexivity. Qed.

Lemma parse_octet_dec a : a <= 255 -> parse_octet (dec a) = Some a.
Proof.
  intros H. pose proof parse_octet_all as A. rewrite forallb_forall in A.
  assert (I : In a octets).
  { unfold octets. apply in_map_iff. exists (N.to_nat a). split; [apply N2Nat.id|]. apply in_seq. lia. }
  specialize (A a I). destruct (parse_octet (dec a)) as [v|]; cbn in A; [|discriminate].
  apply N.eqb_eq in A. now subst.
Qed.

Lemma parse_ipv4_print a b c d : a <= 255 -> b <= 255 -> c <= 255 -> d <= 255 ->
  parse_ipv4 (print_ipv4 a b c d) = Some (a, b, c, d).
Proof.
  intros Ha Hb Hc Hd. unfold parse_ipv4, print_ipv4. cbn [app].
  rewrite split_on_nosep by apply dec_nodot.
  rewrite split_on_nosep by apply dec_nodot.
  rewrite split_on_nosep by apply dec_nodot.
  rewrite split_on_last by apply dec_nodot. cbn [app].
  now rewrite !parse_octet_dec by assumption.
Qed.

(* ---------------- names ---------------- *)

Ltac cmp_cases :=
  repeat match goal with
  | |- context [?a <=? ?b] => destruct (N.leb_spec a b)
  | |- context [?a <? ?b] => destruct (N.ltb_spec a b)
  | |- context [?a =? ?b] => destruct (N.eqb_spec a b)
  | H : context [?a <=? ?b] |- _ => destruct (N.leb_spec a b)
  | H : context [?a <? ?b] |- _ => destruct (N.ltb_spec a b)
  | H : context [?a =? ?b] |- _ => destruct (N.eqb_spec a b)
  end.

Ltac resolve_cmp :=
  repeat match goal with
  | |- context [?a <=? ?b] => first [ replace (a <=? b) with true by (symmetry; apply N.leb_le; lia)
                                     | replace (a <=? b) with false by (symmetry; apply N.leb_gt; lia) ]
  | |- context [?a <? ?b] => first [ replace (a <? b) with true by (symmetry; apply N.ltb_lt; lia)
                                    | replace (a <? b) with false by (symmetry; apply N.ltb_ge; lia) ]
  | |- context [?a =? ?b] => first [ replace (a =? b) with true by (symmetry; apply N.eqb_eq; lia)
                                    | replace (a =? b) with false by (symmetry; apply N.eqb_neq; lia) ]
  end.

Definition labch (c : N) : bool := is_plain c && negb (c =? 92).

Lemma ldh_range c : ldh_ch c = true -> (97 <= c <= 122) \/ (48 <= c <= 57) \/ c = 45 \/ c = 46.
Proof. unfold ldh_ch, is_lower, is_digit. intros H. cmp_cases; cbn in H; try discriminate; lia. Qed.
Lemma us_range c : us_ch c = true ->
  (97 <= c <= 122) \/ (65 <= c <= 90) \/ (48 <= c <= 57) \/ c = 45 \/ c = 95 \/ c = 46.
Proof. unfold us_ch, is_alnum, is_upper, is_lower, is_digit. intros H. cmp_cases; cbn in H; try discriminate; lia. Qed.

Ltac ldh_cases H := apply ldh_range in H; destruct H as [H|[H|[H|H]]].
Ltac us_cases H := apply us_range in H; destruct H as [H|[H|[H|[H|[H|H]]]]].

Lemma ldh_labch c : ldh_ch c = true -> labch c = true.
Proof. intros H. unfold labch, is_plain, is_ctl, is_ws. ldh_cases H; resolve_cmp; reflexivity. Qed.
Lemma us_labch c : us_ch c = true -> labch c = true.
Proof. intros H. unfold labch, is_plain, is_ctl, is_ws. us_cases H; resolve_cmp; reflexivity. Qed.
Lemma ldh_lower c : ldh_ch c = true -> to_lower c = c.
Proof. intros H. unfold to_lower, is_upper. ldh_cases H; resolve_cmp; reflexivity. Qed.
Lemma ldh_lt128 c : ldh_ch c = true -> (c <? 128) = true.
Proof. intros H. ldh_cases H; resolve_cmp; reflexivity. Qed.
Lemma us_lt128 c : us_ch c = true -> (c <? 128) = true.
Proof. intros H. us_cases H; resolve_cmp; reflexivity. Qed.
Lemma ldh_uts c : ldh_ch c = true -> uts46_ascii_ok c = true.
Proof. intros H. unfold uts46_ascii_ok, is_alnum, is_upper, is_lower, is_digit. ldh_cases H; resolve_cmp; reflexivity. Qed.
Lemma ldh_safe c : ldh_ch c = true -> safe_ascii false c = true.
Proof. intros H. unfold safe_ascii, is_alnum, is_upper, is_lower, is_digit. ldh_cases H; resolve_cmp; reflexivity. Qed.
Lemma ldh_safe_first c : ldh_ch c = true -> (c =? 45) = false -> safe_ascii true c = true.
Proof.
  intros H H45. apply N.eqb_neq in H45. unfold safe_ascii, is_alnum, is_upper, is_lower, is_digit.
  ldh_cases H; try lia; resolve_cmp; reflexivity.
Qed.
Lemma us_safe c : us_ch c = true -> safe_ascii false c = true.
Proof. intros H. unfold safe_ascii, is_alnum, is_upper, is_lower, is_digit. us_cases H; resolve_cmp; reflexivity. Qed.

Lemma forallb_impl {A} (f g : A -> bool) l : (forall x, f x = true -> g x = true) -> forallb f l = true -> forallb g l = true.
Proof. intros H. rewrite !forallb_forall. auto. Qed.

Lemma map_id_on {A} (f : A -> A) l : Forall (fun x => f x = x) l -> map f l = l.
Proof. induction 1; cbn; congruence. Qed.

Lemma str_eqb_eq a b : str_eqb a b = true <-> a = b.
Proof. apply bytes_eqb_eq. Qed.

Lemma to_label_ok l : lab_ok l = true -> to_label l = ROk l.
Proof.
  unfold lab_ok. intros H. apply andb_true_iff in H as [HL H].
  unfold to_label. destruct (str_eqb l [42]) eqn:E42; [reflexivity|].
  cbn [orb] in H. destruct l as [|c r]; [discriminate|].
  destruct (c =? 95) eqn:E95.
  - (* underscore label *)
    apply N.eqb_eq in E95. subst c. cbn [has_prefix]. rewrite N.eqb_refl. cbn [andb].
    unfold label_from_ascii. rewrite E42.
    replace (63 <? N.of_nat (length (95 :: r))) with false by (symmetry; apply N.ltb_ge; apply N.leb_le; exact HL).
    unfold all_b. cbn [forallb]. rewrite (forallb_impl _ _ r us_lt128 H), (forallb_impl _ _ r us_safe H). reflexivity.
  - apply andb_true_iff in H as [H HX]. apply andb_true_iff in H as [H45 H].
    apply negb_true_iff in H45. apply negb_true_iff in HX.
    cbn [has_prefix]. rewrite (N.eqb_sym 95 c), E95. cbn [andb].
    unfold all_b. rewrite (forallb_impl _ _ _ ldh_lt128 H). cbn [negb].
    assert (ML : map to_lower (c :: r) = c :: r).
    { apply map_id_on. apply Forall_forall. intros x Hx. apply ldh_lower.
      rewrite forallb_forall in H. auto. }
    rewrite ML, HX. rewrite (forallb_impl _ _ _ ldh_uts H).
    unfold label_from_ascii. rewrite E42.
    replace (63 <? N.of_nat (length (c :: r))) with false by (symmetry; apply N.ltb_ge; apply N.leb_le; exact HL).
    unfold all_b. rewrite (forallb_impl _ _ _ ldh_lt128 H).
    cbn [forallb] in H. apply andb_true_iff in H as [Hc Hr].
    rewrite (ldh_safe_first c Hc H45), (forallb_impl _ _ r ldh_safe Hr). reflexivity.
Qed.

Lemma lab_ok_labch l : lab_ok l = true -> forallb labch l = true.
Proof.
  unfold lab_ok. intros H. apply andb_true_iff in H as [_ H]. apply orb_true_iff in H as [H|H].
  - apply str_eqb_eq in H. subst. reflexivity.
  - destruct l as [|c r]; [discriminate|]. destruct (c =? 95) eqn:E.
    + apply N.eqb_eq in E. subst. cbn [forallb]. rewrite (forallb_impl _ _ r us_labch H). reflexivity.
    + apply andb_true_iff in H as [H _]. apply andb_true_iff in H as [_ H].
      apply (forallb_impl _ _ _ ldh_labch H).
Qed.

Lemma lab_ok_nonempty l : lab_ok l = true -> l <> [].
Proof. intros H ->. discriminate. Qed.

Lemma labch_facts c : labch c = true -> (c =? 92) = false /\ is_plain c = true /\ is_numeric c = false \/ True.
Proof. auto. Qed.

(* the character loop reads a printed label back *)
Lemma name_loop_label : forall l rest ls lab, forallb labch l = true ->
  name_loop (print_label l ++ rest) PLabel ls lab = name_loop rest PLabel ls (lab ++ l).
Proof.
  induction l as [|c l IH]; intros rest ls lab H; cbn [print_label flat_map app].
  - now rewrite app_nil_r.
  - cbn [forallb] in H. apply andb_true_iff in H as [Hc Hl].
    unfold labch in Hc. apply andb_true_iff in Hc as [Hp H92]. apply negb_true_iff in H92.
    fold (print_label l). destruct (c =? 46) eqn:E46.
    + apply N.eqb_eq in E46. subst c. cbn [app name_loop].
      change (46 =? 46) with true. change (92 =? 46) with false. change (92 =? 92) with true.
      cbn [name_loop]. change (is_numeric 46) with false. cbn iota.
      rewrite IH by exact Hl. now rewrite <- app_assoc.
    + cbn [app name_loop]. rewrite E46, H92, Hp. rewrite IH by exact Hl. now rewrite <- app_assoc.
Qed.

Lemma ndl_app a b : name_data_len (a ++ b) = name_data_len a + name_data_len b.
Proof. unfold name_data_len. induction a as [|x a IH]; cbn [app fold_right]; [lia|]. rewrite IH. lia. Qed.

Lemma encoded_len_app a b : encoded_len (a ++ b) + 1 = encoded_len a + encoded_len b.
Proof. unfold encoded_len. rewrite app_length, ndl_app, Nat2N.inj_add. lia. Qed.

Lemma encoded_len_snoc a l : encoded_len (a ++ [l]) = encoded_len a + N.of_nat (length l) + 1.
Proof. pose proof (encoded_len_app a [l]) as H. unfold encoded_len in *. cbn in *. lia. Qed.

Lemma extend_name_ok ls l : encoded_len (ls ++ [l]) <= 255 -> extend_name ls l = ROk (ls ++ [l]).
Proof.
  intros H. unfold extend_name. rewrite encoded_len_snoc in H.
  replace (255 <? encoded_len ls + N.of_nat (length l) + 1) with false by (symmetry; apply N.ltb_ge; lia).
  reflexivity.
Qed.

Lemma append_label_ok ls l : lab_ok l = true -> encoded_len (ls ++ [l]) <= 255 ->
  append_label ls l = ROk (ls ++ [l]).
Proof. intros H1 H2. unfold append_label. rewrite to_label_ok by exact H1. cbn [bind]. now apply extend_name_ok. Qed.

Lemma encoded_len_prefix a b : encoded_len a <= encoded_len (a ++ b).
Proof. pose proof (encoded_len_app a b). unfold encoded_len in *. lia. Qed.

Lemma append_labels_ok : forall more ls, encoded_len (ls ++ more) <= 255 -> append_labels ls more = ROk (ls ++ more).
Proof.
  induction more as [|l m IH]; intros ls H; cbn [append_labels].
  - now rewrite app_nil_r.
  - assert (H' : encoded_len ((ls ++ [l]) ++ m) <= 255) by (rewrite <- app_assoc; exact H).
    rewrite extend_name_ok by (pose proof (encoded_len_prefix (ls ++ [l]) m); lia).
    cbn [bind]. rewrite IH by exact H'. now rewrite <- app_assoc.
Qed.

(* absolute names *)
Lemma name_loop_abs : forall ls acc, ls <> [] -> forallb lab_ok ls = true -> encoded_len (acc ++ ls) <= 255 ->
  name_loop (print_labels ls ++ [46]) PLabel acc [] = ROk (acc ++ ls, []).
Proof.
  induction ls as [|l ls IH]; intros acc Hne Hok Hlen; [congruence|].
  cbn [forallb] in Hok. apply andb_true_iff in Hok as [Hl Hls].
  assert (Hstep : forall rest, name_loop (print_label l ++ 46 :: rest) PLabel acc [] = name_loop rest PLabel (acc ++ [l]) []).
  { intros rest. rewrite name_loop_label by (now apply lab_ok_labch). cbn [app name_loop].
    change (46 =? 46) with true. cbn iota.
    rewrite append_label_ok; [reflexivity|exact Hl|].
    pose proof (encoded_len_prefix (acc ++ [l]) ls) as P. rewrite <- app_assoc in P. cbn [app] in P. lia. }
  destruct ls as [|l2 ls'].
  - cbn [print_labels]. rewrite Hstep. reflexivity.
  - change (print_labels (l :: l2 :: ls')) with (print_label l ++ 46 :: print_labels (l2 :: ls')).
    rewrite <- app_assoc. cbn [app]. rewrite Hstep.
    rewrite IH; [now rewrite <- app_assoc|discriminate|exact Hls|now rewrite <- app_assoc].
Qed.

Lemma print_label_nonempty l : l <> [] -> print_label l <> [].
Proof. destruct l as [|c l]; [congruence|]. intros _. cbn. destruct (c =? 46); discriminate. Qed.

Lemma print_labels_nonempty ls : ls <> [] -> forallb lab_ok ls = true -> print_labels ls <> [].
Proof.
  destruct ls as [|l ls]; [congruence|]. intros _ H. cbn [forallb] in H. apply andb_true_iff in H as [Hl _].
  pose proof (print_label_nonempty l (lab_ok_nonempty l Hl)) as P.
  destruct ls; cbn [print_labels]; [exact P|]. destruct (print_label l); [congruence|discriminate].
Qed.

Theorem name_parse_abs ls o : name_ok ls = true -> name_parse (print_abs ls) o = ROk (MkName ls true).
Proof.
  unfold name_ok. intros H. apply andb_true_iff in H as [Hok Hlen]. apply N.leb_le in Hlen.
  destruct ls as [|l ls]; [reflexivity|].
  unfold print_abs, name_parse.
  pose proof (print_labels_nonempty (l :: ls) ltac:(discriminate) Hok) as Hne.
  destruct (str_eqb (print_labels (l :: ls) ++ [46]) [46]) eqn:E.
  { apply str_eqb_eq in E. destruct (print_labels (l :: ls)) as [|x [|y t]]; [congruence|discriminate|discriminate]. }
  rewrite (name_loop_abs (l :: ls) []) by (auto; discriminate). cbn [bind app].
  destruct (print_labels (l :: ls) ++ [46]) eqn:E2; [destruct (print_labels (l :: ls)); discriminate|].
  reflexivity.
Qed.

(* relative names *)
Lemma name_loop_rel : forall ls acc, ls <> [] -> forallb lab_ok ls = true -> encoded_len (acc ++ ls) <= 255 ->
  name_loop (print_labels ls) PLabel acc [] = ROk (acc ++ removelast ls, last ls []).
Proof.
  induction ls as [|l ls IH]; intros acc Hne Hok Hlen; [congruence|].
  cbn [forallb] in Hok. apply andb_true_iff in Hok as [Hl Hls].
  destruct ls as [|l2 ls'].
  - cbn [print_labels removelast last]. rewrite <- (app_nil_r (print_label l)).
    rewrite name_loop_label by (now apply lab_ok_labch). cbn [name_loop app]. now rewrite app_nil_r.
  - change (print_labels (l :: l2 :: ls')) with (print_label l ++ 46 :: print_labels (l2 :: ls')).
    rewrite name_loop_label by (now apply lab_ok_labch). cbn [app name_loop].
    change (46 =? 46) with true. cbn iota.
    rewrite append_label_ok; [|exact Hl|].
    + cbn [bind]. rewrite IH; [|discriminate|exact Hls|now rewrite <- app_assoc].
      rewrite <- app_assoc. reflexivity.
    + pose proof (encoded_len_prefix (acc ++ [l]) (l2 :: ls')) as P. rewrite <- app_assoc in P. cbn [app] in P. lia.
Qed.

Lemma last_lab_ok ls : ls <> [] -> forallb lab_ok ls = true -> lab_ok (last ls []) = true.
Proof.
  induction ls as [|l ls IH]; [congruence|]. intros _ H. cbn [forallb] in H. apply andb_true_iff in H as [Hl Hls].
  destruct ls; [exact Hl|]. apply IH; [discriminate|exact Hls].
Qed.

Theorem name_parse_rel rel o : rel <> [] -> name_ok (rel ++ labels o) = true ->
  name_parse (print_rel rel) (Some o) = ROk (MkName (rel ++ labels o) true).
Proof.
  unfold name_ok. intros Hne H. apply andb_true_iff in H as [Hok Hlen]. apply N.leb_le in Hlen.
  rewrite forallb_app in Hok. apply andb_true_iff in Hok as [Hrel _].
  unfold print_rel, name_parse.
  pose proof (print_labels_nonempty rel Hne Hrel) as Hpn.
  destruct (str_eqb (print_labels rel) [46]) eqn:E.
  { (* a printed label never is a bare dot: dots are escaped *)
    apply str_eqb_eq in E. exfalso.
    destruct rel as [|l [|l2 r]]; [congruence| |].
    - cbn [print_labels] in E. destruct l as [|c l]; [discriminate|]. cbn in E. destruct (c =? 46) eqn:E46; [discriminate|].
      inversion E; subst. discriminate.
    - change (print_labels (l :: l2 :: r)) with (print_label l ++ 46 :: print_labels (l2 :: r)) in E.
      cbn [forallb] in Hrel. apply andb_true_iff in Hrel as [Hl _].
      pose proof (print_label_nonempty l (lab_ok_nonempty l Hl)).
      destruct (print_label l) as [|x t]; [congruence|]. destruct t; discriminate. }
  pose proof (encoded_len_prefix rel (labels o)) as P.
  rewrite (name_loop_rel rel []) by (auto; cbn [app]; lia). cbn [bind app].
  pose proof (last_lab_ok rel Hne Hrel) as HL.
  pose proof (lab_ok_nonempty _ HL) as HLne.
  assert (R : removelast rel ++ [last rel []] = rel) by (symmetry; now apply app_removelast_last).
  destruct (last rel []) as [|c t] eqn:EL; [congruence|].
  rewrite append_label_ok; [|exact HL|rewrite R; lia].
  cbn [bind]. rewrite R.
  rewrite append_labels_ok by exact Hlen. reflexivity.
Qed.
