(* C20 — executable model of the zone-file (master file) loader:
     crates/proto/src/serialize/txt/zone_lex.rs   Lexer::next_token, escape_seq
     crates/proto/src/serialize/txt/zone.rs       Parser::parse, Ttl::take, Context::insert
     crates/proto/src/serialize/txt/mod.rs        parse_ttl
     crates/proto/src/rr/domain/name.rs           Name::from_encoded_str (Name::parse), extend_name
     crates/proto/src/rr/domain/label.rs          Label::from_utf8 / from_ascii (ASCII part)
     crates/proto/src/rr/record_data.rs           RData::from_tokens for A NS CNAME PTR MX TXT SOA
     crates/proto/src/rr/rr_set.rs                RecordSet::insert
   Characters are Unicode code points as N; the character classes are exact for code points
   below 256 (the harness alphabet).  What the model does not cover evaluates to [RUnmod]:
   IDNA processing of non-ASCII / xn-- labels, $INCLUDE of an absolute path, and the record
   types whose RDATA parser is not modelled.
   The model says what the code DOES ([lex_cap]: the former 4096-iteration assert was [RPanic]).
   No proofs in this file. *)
From Coq Require Import String Ascii.
From HV Require Import Lib.Base.
Open Scope N_scope.

Definition str := list N.

Definition s2l (s : string) : str := map N_of_ascii (list_ascii_of_string s).
Definition str_eqb (a b : str) : bool := list_eqb N.eqb a b.

(* ------------------------------------------------------------------ *)
(* Character classes (Rust char::is_whitespace / is_control / is_numeric) *)
(* ------------------------------------------------------------------ *)

Definition is_ws (c : N) : bool :=
  ((9 <=? c) && (c <=? 13)) || (c =? 32) || (c =? 133) || (c =? 160) ||
  (c =? 5760) || ((8192 <=? c) && (c <=? 8202)) || (c =? 8232) || (c =? 8233) ||
  (c =? 8239) || (c =? 8287) || (c =? 12288).
Definition is_ctl (c : N) : bool := (c <? 32) || ((127 <=? c) && (c <=? 159)).
Definition is_digit (c : N) : bool := (48 <=? c) && (c <=? 57).
(* Nd/Nl/No below 256: 0-9, superscripts 2 3 1, fractions *)
Definition is_numeric (c : N) : bool :=
  is_digit c || (c =? 178) || (c =? 179) || (c =? 185) || ((188 <=? c) && (c <=? 190)).
Definition is_upper (c : N) : bool := (65 <=? c) && (c <=? 90).
Definition is_lower (c : N) : bool := (97 <=? c) && (c <=? 122).
Definition is_alnum (c : N) : bool := is_digit c || is_upper c || is_lower c.
Definition to_lower (c : N) : N := if is_upper c then c + 32 else c.
Definition to_upper (c : N) : N := if is_lower c then c - 32 else c.
(* a character that can start / continue an unquoted token *)
Definition is_plain (c : N) : bool := negb (is_ctl c) && negb (is_ws c).

(* ------------------------------------------------------------------ *)
(* Lexer                                                               *)
(* ------------------------------------------------------------------ *)

Inductive lst :=
| SStartLine | SRestOfLine | SBlank | SList | SCharData (is_list : bool)
| SComment (is_list : bool) | SAt | SQuote | SDollar | SEOL | SEOF.

Inductive token :=
| TBlank | TList (l : list str) | TChar (s : str) | TAt | TInclude | TOrigin | TTtl | TEOL.

Inductive lerr :=
| EEof | EIllegalChar | EIllegalState | EUnclosedList | EUnclosedQuote
| EUnrecognizedChar | EUnrecognizedDollar | EUnrecognizedOctet.

(* one iteration of the `for i in 0..4_096` loop of next_token *)
Inductive sres :=
| Cont (txt : str) (st : lst) (cd : option str) (cdv : option (list str))
| RetTok (t : token) (txt : str) (st : lst)
| RetEnd (txt : str) (st : lst)
| RetErr (e : lerr).

(* push_to_str *)
Definition push (cd : option str) (c : N) : option (option str) :=
  match cd with Some s => Some (Some (s ++ [c])) | None => None end.

(* char::to_digit(10) *)
Definition digit10 (c : N) : option N := if is_digit c then Some (c - 48) else None.

(* escape_seq: [txt] starts with the backslash.  Result: the character and the remaining text *)
Definition escape_seq (txt : str) : lerr + (N * str) :=
  match tl txt with
  | [] => inl EEof
  | c :: r =>
    if is_ctl c then inl EIllegalChar
    else if is_numeric c then
      match digit10 c with
      | None => inl EIllegalChar
      | Some d1 =>
        match r with
        | [] => inl EEof
        | c2 :: r2 =>
          match digit10 c2 with
          | None => inl EIllegalChar
          | Some d2 =>
            match r2 with
            | [] => inl EEof
            | c3 :: r3 =>
              match digit10 c3 with
              | None => inl EIllegalChar
              | Some d3 =>
                let v := d1 * 65536 + d2 * 256 + d3 in       (* (d1 << 16) + (d2 << 8) + d3 *)
                if ((55296 <=? v) && (v <=? 57343)) || (1114111 <? v)
                then inl EUnrecognizedOctet else inr (v, r3)
              end
            end
          end
        end
      end
    else inr (c, r)
  end.

Definition dollar_token (s : str) : option token :=
  if str_eqb s (s2l "INCLUDE") then Some TInclude
  else if str_eqb s (s2l "ORIGIN") then Some TOrigin
  else if str_eqb s (s2l "TTL") then Some TTtl
  else None.

Definition is_nl (c : N) : bool := (c =? 13) || (c =? 10).

Definition step (txt : str) (st : lst) (cd : option str) (cdv : option (list str)) : sres :=
  match st with
  | SStartLine =>
      match txt with
      | [] => Cont txt SEOF cd cdv
      | c :: _ =>
        if is_nl c then Cont txt SEOL cd cdv
        else if is_ws c then Cont txt SBlank cd cdv
        else Cont txt SRestOfLine cd cdv
      end
  | SRestOfLine =>
      match txt with
      | [] => Cont txt SEOF cd cdv
      | c :: r =>
        if c =? 64 then Cont txt SAt cd cdv                        (* @ *)
        else if c =? 40 then Cont r SList cd (Some [])             (* ( *)
        else if c =? 41 then RetErr EIllegalChar                   (* ) *)
        else if c =? 36 then Cont r SDollar (Some []) cdv          (* $ *)
        else if is_nl c then Cont txt SEOL cd cdv
        else if c =? 34 then Cont r SQuote (Some []) cdv           (* dquote *)
        else if c =? 59 then Cont txt (SComment false) cd cdv      (* ; *)
        else if is_ws c then Cont r SRestOfLine cd cdv
        else if is_plain c then Cont txt (SCharData false) (Some []) cdv
        else RetErr EUnrecognizedChar
      end
  | SBlank => RetTok TBlank (tl txt) SRestOfLine
  | SComment l =>
      match txt with
      | [] => if l then RetErr EUnclosedList else Cont txt SEOF cd cdv   (* end of input inside ( ) *)
      | c :: r => if is_nl c then Cont txt (if l then SList else SEOL) cd cdv
                  else Cont r (SComment l) cd cdv
      end
  | SQuote =>
      match txt with
      | [] => RetErr EUnclosedQuote
      | c :: r =>
        if c =? 34 then RetTok (TChar (match cd with Some s => s | None => [] end)) r SRestOfLine
        else if c =? 92 then
          match escape_seq txt with
          | inl e => RetErr e
          | inr (x, r') => match push cd x with
                           | Some cd' => Cont r' SQuote cd' cdv
                           | None => RetErr EIllegalState
                           end
          end
        else match push cd c with
             | Some cd' => Cont r SQuote cd' cdv
             | None => RetErr EIllegalState
             end
      end
  | SDollar =>
      match txt with
      | c :: r =>
        if is_upper c then
          match push cd c with
          | Some cd' => Cont r SDollar cd' cdv
          | None => RetErr EIllegalState
          end
        else match cd with
             | None => RetErr EIllegalState
             | Some s => match dollar_token s with
                         | Some t => RetTok t txt SRestOfLine
                         | None => RetErr EUnrecognizedDollar
                         end
             end
      | [] => match cd with
              | None => RetErr EIllegalState
              | Some s => match dollar_token s with
                          | Some t => RetTok t txt SRestOfLine
                          | None => RetErr EUnrecognizedDollar
                          end
              end
      end
  | SList =>
      match txt with
      | [] => RetErr EUnclosedList
      | c :: r =>
        if c =? 59 then Cont r (SComment true) cd cdv
        else if c =? 41 then
          match cdv with
          | Some v => RetTok (TList v) r SRestOfLine
          | None => RetErr EIllegalState
          end
        else if is_ws c then Cont r SList cd cdv
        else if is_plain c then Cont txt (SCharData true) (Some []) cdv
        else RetErr EUnrecognizedChar
      end
  | SCharData l =>
      match txt with
      | [] => if l then RetErr EUnclosedList                (* end of input inside ( ) *)
              else match cd with
                   | Some s => RetTok (TChar s) txt SEOF
                   | None => RetErr EIllegalState
                   end
      | c :: r =>
        if (c =? 41) && negb l then RetErr EIllegalChar
        else if is_ws c || (c =? 41) || (c =? 59) then
          if l then
            match cdv, cd with
            | Some v, Some s => Cont txt SList None (Some (v ++ [s]))
            | _, _ => RetErr EIllegalState
            end
          else match cd with
               | Some s => RetTok (TChar s) txt SRestOfLine
               | None => RetErr EIllegalState
               end
        else if is_plain c then
          match push cd c with
          | Some cd' => Cont r (SCharData l) cd' cdv
          | None => RetErr EIllegalState
          end
        else RetErr EUnrecognizedChar
      end
  | SAt => RetTok TAt (tl txt) SRestOfLine
  | SEOL =>
      match txt with
      | [] => RetErr EEof
      | c :: r =>
        if c =? 13 then Cont r SEOL cd cdv
        else if c =? 10 then RetTok TEOL r SStartLine
        else RetErr EIllegalChar
      end
  | SEOF => RetEnd (tl txt) SEOF
  end.

Inductive lres :=
| LTok (t : token) (txt : str) (st : lst)
| LEnd (txt : str) (st : lst)
| LErr (e : lerr)
| LPanic.     (* capped loop: assert!(i < 4095);  uncapped loop: out of fuel *)

Fixpoint lex_loop (fuel : nat) (txt : str) (st : lst) (cd : option str) (cdv : option (list str)) : lres :=
  match fuel with
  | O => LPanic
  | S f =>
    match step txt st cd cdv with
    | Cont t s c v => lex_loop f t s c v
    | RetTok t r s => LTok t r s
    | RetEnd r s => LEnd r s
    | RetErr e => LErr e
    end
  end.

(* iterations i = 0 .. 4094 run; the iteration with i = 4095 fails the assert *)
Definition cap : nat := N.to_nat 4095.
Definition next_token_cap (c : nat) (txt : str) (st : lst) : lres := lex_loop c txt st None None.

(* the same loop without the cap (fuel linear in the text: never exhausted, C20_lexer_terminates) *)
Definition next_token_nocap (txt : str) (st : lst) : lres :=
  lex_loop (4 * length txt + 4) txt st None None.

(* THE ONE LINE that says which lexer the code has: [Some cap] = the loop with
   `assert!(i < 4095)` (the code before /repo commit 06f967f, finding C20-F2-lexer-cap-panic);
   [None] = the unbounded `loop` of the repaired lexer (the code now).  Every proof below and
   Props.v check under both settings. *)
Definition lex_cap : option nat := None.

Definition next_token (txt : str) (st : lst) : lres :=
  match lex_cap with
  | Some c => next_token_cap c txt st
  | None => next_token_nocap txt st
  end.

(* ------------------------------------------------------------------ *)
(* Results                                                             *)
(* ------------------------------------------------------------------ *)

(* error classes: 1 = ParseError::Lexer, 2 = every other ParseError *)
Inductive R (A : Type) :=
| ROk (a : A) | RErr (k : N) | RUnmod | RPanic | RFuel.
Arguments ROk {A} a. Arguments RErr {A} k. Arguments RUnmod {A}. Arguments RPanic {A}. Arguments RFuel {A}.

Definition bind {A B} (r : R A) (f : A -> R B) : R B :=
  match r with
  | ROk a => f a | RErr k => RErr k | RUnmod => RUnmod | RPanic => RPanic | RFuel => RFuel
  end.
Notation "'do' x <- r ;; k" := (bind r (fun x => k)) (at level 200, x name, r at level 100, k at level 200).
Notation "'do' ' p <- r ;; k" := (bind r (fun x => match x with p => k end))
  (at level 200, p pattern, r at level 100, k at level 200).

Definition perr {A} : R A := RErr 2.

(* ------------------------------------------------------------------ *)
(* Names                                                               *)
(* ------------------------------------------------------------------ *)

Record name := MkName { labels : list str; fqdn : bool }.

Definition all_b {A} (f : A -> bool) (l : list A) : bool := forallb f l.

(* is_safe_ascii(c, is_first, for_encoding = false) on an ASCII character *)
Definition safe_ascii (first : bool) (c : N) : bool :=
  is_alnum c || ((c =? 45) && negb first) || (c =? 95) || ((c =? 42) && first) || (c =? 46).

(* Label::from_ascii *)
Definition label_from_ascii (s : str) : R str :=
  if (63 <? N.of_nat (length s)) then perr
  else if str_eqb s [42] then ROk s
  else match s with
       | [] => perr
       | c :: r =>
         if all_b (fun x => x <? 128) s && safe_ascii true c && all_b (safe_ascii false) r
         then ROk s else perr
       end.

Fixpoint has_prefix (p s : str) : bool :=
  match p, s with
  | [], _ => true
  | a :: p', b :: s' => (a =? b) && has_prefix p' s'
  | _, _ => false
  end.
Fixpoint has_infix (p s : str) : bool :=
  has_prefix p s || match s with [] => false | _ :: s' => has_infix p s' end.

(* what UTS-46 to_ascii(STD3 deny list, hyphens allowed, length ignored) does to a label
   made of ASCII only and free of "xn--": lower-case it, reject anything but [a-z0-9.-] *)
Definition uts46_ascii_ok (c : N) : bool := is_alnum c || (c =? 45) || (c =? 46).

(* Label::from_utf8 *)
Definition to_label (s : str) : R str :=
  if str_eqb s [42] then ROk s
  else if has_prefix [95] s then label_from_ascii s
  else if negb (all_b (fun x => x <? 128) s) then RUnmod
  else if has_infix (s2l "xn--") (map to_lower s) then RUnmod
  else if all_b uts46_ascii_ok s then label_from_ascii (map to_lower s)
  else perr.

Definition name_data_len (ls : list str) : N :=
  fold_right (fun l a => N.of_nat (length l) + a) 0 ls.
(* Name::encoded_len *)
Definition encoded_len (ls : list str) : N := N.of_nat (length ls) + name_data_len ls + 1.

(* Name::extend_name *)
Definition extend_name (ls : list str) (l : str) : R (list str) :=
  if 255 <? encoded_len ls + N.of_nat (length l) + 1 then perr else ROk (ls ++ [l]).

Definition append_label (ls : list str) (raw : str) : R (list str) :=
  do l <- to_label raw ;; extend_name ls l.

Fixpoint append_labels (ls : list str) (more : list str) : R (list str) :=
  match more with
  | [] => ROk ls
  | l :: m => do ls' <- extend_name ls l ;; append_labels ls' m
  end.

Inductive pst := PLabel | PEsc1 | PEsc2 (i : N) | PEsc3 (i ii : N).

(* char::to_digit(8) *)
Definition digit8 (c : N) : option N := if (48 <=? c) && (c <=? 55) then Some (c - 48) else None.

(* the character loop of from_encoded_str; returns the labels so far and the pending label text *)
Fixpoint name_loop (s : str) (st : pst) (ls : list str) (lab : str) : R (list str * str) :=
  match s with
  | [] => ROk (ls, lab)
  | c :: r =>
    match st with
    | PLabel =>
        if c =? 46 then do ls' <- append_label ls lab ;; name_loop r PLabel ls' []
        else if c =? 92 then name_loop r PEsc1 ls lab
        else if is_plain c then name_loop r PLabel ls (lab ++ [c])
        else perr
    | PEsc1 =>
        if is_numeric c then
          match digit8 c with Some d => name_loop r (PEsc2 d) ls lab | None => perr end
        else name_loop r PLabel ls (lab ++ [c])
    | PEsc2 i =>
        if is_numeric c then
          match digit8 c with Some d => name_loop r (PEsc3 i d) ls lab | None => perr end
        else perr
    | PEsc3 i ii =>
        if is_numeric c then
          match digit8 c with
          | Some d => name_loop r PLabel ls (lab ++ [i * 64 + ii * 8 + d])
          | None => perr
          end
        else perr
    end
  end.

(* Name::parse(local, origin) *)
Definition name_parse (local : str) (origin : option name) : R name :=
  if str_eqb local [46] then ROk (MkName [] true)
  else
    do '(ls, lab) <- name_loop local PLabel [] [] ;;
    do ls' <- (match lab with [] => ROk ls | _ => append_label ls lab end) ;;
    match lab, local with
    | [], _ :: _ => ROk (MkName ls' true)
    | _, _ =>
      match origin with
      | Some o => do ls'' <- append_labels ls' (labels o) ;; ROk (MkName ls'' true)
      | None => ROk (MkName ls' false)
      end
    end.

(* ------------------------------------------------------------------ *)
(* Numbers                                                             *)
(* ------------------------------------------------------------------ *)

(* u32::from_str / u16::from_str on a non-empty run of ASCII digits: None on overflow *)
Fixpoint dec_acc (bound : N) (s : str) (acc : N) : option N :=
  match s with
  | [] => Some acc
  | c :: r => match digit10 c with
              | None => None
              | Some d => let v := acc * 10 + d in if bound <? v then None else dec_acc bound r v
              end
  end.
Definition u32max : N := 4294967295.

Definition ttl_mult (c : N) : option N :=
  let u := to_upper c in
  if u =? 83 then Some 1 else if u =? 77 then Some 60 else if u =? 72 then Some 3600
  else if u =? 68 then Some 86400 else if u =? 87 then Some 604800 else None.

(* parse_ttl: [cur] = digits of the number being read (None = no digits yet) *)
Fixpoint ttl_loop (s : str) (cur : option str) (value : N) : option N :=
  match s with
  | [] => match cur with
          | None => Some value
          | Some ds => match dec_acc u32max ds 0 with
                       | Some n => if u32max <? value + n then None else Some (value + n)
                       | None => None
                       end
          end
  | c :: r =>
    if is_digit c then ttl_loop r (Some (match cur with Some ds => ds ++ [c] | None => [c] end)) value
    else match cur, ttl_mult c with
         | Some ds, Some m =>
             match dec_acc u32max ds 0 with
             | Some n => if u32max <? n * m then None
                         else if u32max <? value + n * m then None
                         else ttl_loop r None (value + n * m)
             | None => None
             end
         | _, _ => None
         end
  end.
Definition parse_ttl (s : str) : option N :=
  match s with [] => None | _ => ttl_loop s None 0 end.

(* str::parse::<u16>(): optional '+', at least one digit, no overflow *)
Definition parse_u16 (s : str) : option N :=
  let ds := match s with 43 :: r => r | _ => s end in
  match ds with [] => None | _ => dec_acc 65535 ds 0 end.

(* Ipv4Addr::from_str: four decimal octets, 1-3 digits, no leading zero, <= 255 *)
Fixpoint split_on (sep : N) (s : str) (cur : str) : list str :=
  match s with
  | [] => [cur]
  | c :: r => if c =? sep then cur :: split_on sep r [] else split_on sep r (cur ++ [c])
  end.
Definition parse_octet (s : str) : option N :=
  match s with
  | [] => None
  | c :: r =>
    if (3 <? N.of_nat (length s)) then None
    else if (c =? 48) && negb (match r with [] => true | _ => false end) then None
    else dec_acc 255 s 0
  end.
Definition parse_ipv4 (s : str) : option (N * N * N * N) :=
  match split_on 46 s [] with
  | [a; b; c; d] =>
    match parse_octet a, parse_octet b, parse_octet c, parse_octet d with
    | Some a', Some b', Some c', Some d' => Some (a', b', c', d')
    | _, _, _, _ => None
    end
  | _ => None
  end.

(* ------------------------------------------------------------------ *)
(* Records                                                             *)
(* ------------------------------------------------------------------ *)

Inductive rty := TyA | TyNS | TyCNAME | TyPTR | TyMX | TyTXT | TySOA
               | TyRefused      (* from_tokens always errors: AXFR NULL SIG DNSKEY ... *)
               | TyUnmod.       (* RDATA parser outside the model: AAAA SRV CAA ... *)

Inductive rdata :=
| DA (a b c d : N)
| DNS (n : name) | DCNAME (n : name) | DPTR (n : name)
| DMX (pref : N) (n : name)
| DTXT (ss : list str)
| DSOA (m r : name) (serial refresh retry expire minimum : N).

Record rr := MkRR { rname : name; rclass : N; rttl : N; rdat : rdata }.

Definition in_strs (s : str) (l : list string) : bool := existsb (fun x => str_eqb s (s2l x)) l.

(* DNSClass::from_str on the upper-cased token: value of u16::from(class) *)
Definition class_of (s : str) : option N :=
  if str_eqb s (s2l "IN") then Some 1 else if str_eqb s (s2l "CH") then Some 3
  else if str_eqb s (s2l "HS") then Some 4 else if str_eqb s (s2l "NONE") then Some 254
  else if str_eqb s (s2l "ANY") || str_eqb s [42] then Some 255 else None.

(* RecordType::from_str on the upper-cased token *)
Definition type_of (s : str) : option rty :=
  if str_eqb s (s2l "A") then Some TyA else if str_eqb s (s2l "NS") then Some TyNS
  else if str_eqb s (s2l "CNAME") then Some TyCNAME else if str_eqb s (s2l "PTR") then Some TyPTR
  else if str_eqb s (s2l "MX") then Some TyMX else if str_eqb s (s2l "TXT") then Some TyTXT
  else if str_eqb s (s2l "SOA") then Some TySOA
  else if in_strs s ["AXFR"; "NULL"; "SIG"; "DNSKEY"; "CDNSKEY"; "KEY"; "CDS"; "NSEC"; "NSEC3";
                     "NSEC3PARAM"; "RRSIG"; "TSIG"; "ANY"; "*"]%string then Some TyRefused
  else if in_strs s ["AAAA"; "ANAME"; "CAA"; "CERT"; "CSYNC"; "DS"; "HINFO"; "HTTPS"; "NAPTR";
                     "OPENPGPKEY"; "SMIMEA"; "SRV"; "SSHFP"; "SVCB"; "TLSA"]%string then Some TyUnmod
  else None.

Definition opt_r {A} (o : option A) : R A := match o with Some a => ROk a | None => perr end.

(* code points -> UTF-8 bytes (String::into_bytes of TXT strings) *)
Definition utf8_char (c : N) : list N :=
  if c <? 128 then [c]
  else if c <? 2048 then [192 + c / 64; 128 + c mod 64]
  else if c <? 65536 then [224 + c / 4096; 128 + (c / 64) mod 64; 128 + c mod 64]
  else [240 + c / 262144; 128 + (c / 4096) mod 64; 128 + (c / 64) mod 64; 128 + c mod 64].
Definition utf8 (s : str) : list N := flat_map utf8_char s.

(* RData::from_tokens *)
Definition i32max : N := 2147483647.
Definition tok_ttl (o : option str) : R N :=
  match o with Some s => opt_r (parse_ttl s) | None => perr end.
Definition tok_i32 (o : option str) : R N :=
  do v <- tok_ttl o ;; if i32max <? v then perr else ROk v.
Definition tok_name (o : option str) (origin : option name) : R name :=
  match o with Some s => name_parse s origin | None => perr end.

Definition rdata_of (t : rty) (toks : list str) (origin : option name) : R rdata :=
  match t with
  | TyA => match toks with
           | s :: _ => match parse_ipv4 s with Some (a, b, c, d) => ROk (DA a b c d) | None => perr end
           | [] => perr
           end
  | TyNS => do n <- tok_name (nth_error toks 0) origin ;; ROk (DNS n)
  | TyCNAME => do n <- tok_name (nth_error toks 0) origin ;; ROk (DCNAME n)
  | TyPTR => do n <- tok_name (nth_error toks 0) origin ;; ROk (DPTR n)
  | TyMX =>
      do p <- (match toks with s :: _ => opt_r (parse_u16 s) | [] => perr end) ;;
      do n <- tok_name (nth_error toks 1) origin ;; ROk (DMX p n)
  | TyTXT => ROk (DTXT (map utf8 toks))
  | TySOA =>
      do m <- tok_name (nth_error toks 0) origin ;;
      do r <- tok_name (nth_error toks 1) origin ;;
      do serial <- tok_ttl (nth_error toks 2) ;;
      do refresh <- tok_i32 (nth_error toks 3) ;;
      do retry <- tok_i32 (nth_error toks 4) ;;
      do expire <- tok_i32 (nth_error toks 5) ;;
      do minimum <- tok_ttl (nth_error toks 6) ;;
      ROk (DSOA m r serial refresh retry expire minimum)
  | TyRefused => perr
  | TyUnmod => RUnmod
  end.

Definition rty_of_rdata (d : rdata) : rty :=
  match d with
  | DA _ _ _ _ => TyA | DNS _ => TyNS | DCNAME _ => TyCNAME | DPTR _ => TyPTR
  | DMX _ _ => TyMX | DTXT _ => TyTXT | DSOA _ _ _ _ _ _ _ => TySOA
  end.
Definition rty_tag (t : rty) : N :=
  match t with TyA => 1 | TyNS => 2 | TyCNAME => 3 | TyMX => 4 | TyTXT => 5 | TySOA => 6 | TyPTR => 7
             | _ => 255 end.

(* Name == Name: ASCII-case-insensitive, label by label *)
Definition lower_str (s : str) : str := map to_lower s.
Definition label_eqb (a b : str) : bool := str_eqb (lower_str a) (lower_str b).
Definition name_eqb (a b : name) : bool :=
  list_eqb label_eqb (labels a) (labels b) && Bool.eqb (fqdn a) (fqdn b).

Definition rdata_eqb (x y : rdata) : bool :=
  match x, y with
  | DA a b c d, DA a' b' c' d' => (a =? a') && (b =? b') && (c =? c') && (d =? d')
  | DNS n, DNS n' => name_eqb n n'
  | DCNAME n, DCNAME n' => name_eqb n n'
  | DPTR n, DPTR n' => name_eqb n n'
  | DMX p n, DMX p' n' => (p =? p') && name_eqb n n'
  | DTXT s, DTXT s' => list_eqb str_eqb s s'
  | DSOA m r a b c d e, DSOA m' r' a' b' c' d' e' =>
      name_eqb m m' && name_eqb r r' && (a =? a') && (b =? b') && (c =? c') && (d =? d') && (e =? e')
  | _, _ => false
  end.

(* RrKey: (LowerName, type) *)
Definition same_key (x y : rr) : bool :=
  name_eqb (rname x) (rname y) && (rty_tag (rty_of_rdata (rdat x)) =? rty_tag (rty_of_rdata (rdat y))).
Definition rec_eqb (x y : rr) : bool :=
  name_eqb (rname x) (rname y) && (rclass x =? rclass y) && (rttl x =? rttl y) && rdata_eqb (rdat x) (rdat y).

(* RecordSet::insert on a flat store: replace the first record of the same set with equal RDATA
   (or leave the store alone when it is entirely equal), else append *)
Fixpoint store_put (rs : list rr) (r : rr) : list rr :=
  match rs with
  | [] => [r]
  | x :: rs' =>
    if same_key x r && rdata_eqb (rdat x) (rdat r)
    then (if rec_eqb x r then x :: rs' else r :: rs')
    else x :: store_put rs' r
  end.

(* Context::insert, map part *)
Definition store_insert (rs : list rr) (r : rr) : R (list rr) :=
  match rty_of_rdata (rdat r) with
  | TySOA => if existsb (fun x => same_key x r) rs then perr else ROk (rs ++ [r])
  | TyCNAME => ROk (filter (fun x => negb (same_key x r)) rs ++ [r])
  | _ => ROk (store_put rs r)
  end.

(* ------------------------------------------------------------------ *)
(* Parser::parse                                                       *)
(* ------------------------------------------------------------------ *)

Inductive pstate :=
| PStart | PTtlClassType | PTtl | PRecord (parts : list str) | PInclude (p : option str) | POrigin.

Record ctx := MkCtx {
  c_origin : option name;
  c_recs : list rr;
  c_class : N;
  c_cur : option name;
  c_rtype : option rty;
  c_default : option N;     (* $TTL *)
  c_last : option N;
  c_this : option N
}.

Definition ctx0 (origin : option name) : ctx :=
  MkCtx (match origin with Some o => Some (MkName (labels o) true) | None => None end)
        [] 1 None None None None None.

Definition set_rtype (c : ctx) (t : option rty) : ctx :=
  MkCtx (c_origin c) (c_recs c) (c_class c) (c_cur c) t (c_default c) (c_last c) (c_this c).
Definition set_cur (c : ctx) (n : option name) : ctx :=
  MkCtx (c_origin c) (c_recs c) (c_class c) n (c_rtype c) (c_default c) (c_last c) (c_this c).
Definition set_origin (c : ctx) (n : option name) : ctx :=
  MkCtx n (c_recs c) (c_class c) (c_cur c) (c_rtype c) (c_default c) (c_last c) (c_this c).
Definition set_class (c : ctx) (k : N) : ctx :=
  MkCtx (c_origin c) (c_recs c) k (c_cur c) (c_rtype c) (c_default c) (c_last c) (c_this c).
Definition set_default (c : ctx) (t : option N) : ctx :=
  MkCtx (c_origin c) (c_recs c) (c_class c) (c_cur c) (c_rtype c) t (c_last c) (c_this c).
Definition set_this (c : ctx) (t : option N) : ctx :=
  MkCtx (c_origin c) (c_recs c) (c_class c) (c_cur c) (c_rtype c) (c_default c) (c_last c) t.

(* Ttl::take: this, then $TTL, then last *)
Definition ttl_take (c : ctx) : option (N * ctx) :=
  match c_this c with
  | Some t => Some (t, MkCtx (c_origin c) (c_recs c) (c_class c) (c_cur c) (c_rtype c) (c_default c) (Some t) None)
  | None => match c_default c with
            | Some t => Some (t, c)
            | None => match c_last c with Some t => Some (t, c) | None => None end
            end
  end.

(* Context::insert *)
Definition ctx_insert (c : ctx) (parts : list str) : R ctx :=
  do t <- opt_r (c_rtype c) ;;
  do d <- rdata_of t parts (c_origin c) ;;
  do n <- opt_r (c_cur c) ;;
  do '(ttl, c1) <- opt_r (ttl_take c) ;;
  let r := MkRR (MkName (labels n) true) (c_class c1) ttl d in
  do rs <- store_insert (c_recs c1) r ;;
  ROk (MkCtx (c_origin c1) rs (c_class c1) (c_cur c1) (c_rtype c1) (c_default c1) (c_last c1) (c_this c1)).

Definition upper_str (s : str) : str := map to_upper s.

(* one token through the line state machine *)
Definition ptoken (c : ctx) (st : pstate) (t : token) : R (ctx * pstate) :=
  match st with
  | PStart =>
      let c := set_rtype c None in
      match t with
      | TInclude => ROk (c, PInclude None)
      | TOrigin => ROk (c, POrigin)
      | TTtl => ROk (c, PTtl)
      | TChar s => do n <- name_parse s (c_origin c) ;; ROk (set_cur c (Some n), PTtlClassType)
      | TAt => ROk (set_cur c (c_origin c), PTtlClassType)
      | TBlank => ROk (c, PTtlClassType)
      | TEOL => ROk (c, PStart)
      | TList _ => perr
      end
  | PTtl =>
      match t with
      | TChar s => do v <- opt_r (parse_ttl s) ;; ROk (set_default c (Some v), PStart)
      | _ => perr
      end
  | POrigin =>
      match t with
      | TChar s => do n <- name_parse s (c_origin c) ;; ROk (set_origin c (Some n), PStart)
      | _ => perr
      end
  | PInclude p =>
      match t, p with
      | TChar s, None => ROk (c, PInclude (Some s))
      | TEOL, Some s => if has_prefix [47] s then RUnmod else perr   (* no base path: relative is refused *)
      | _, _ => perr
      end
  | PTtlClassType =>
      match t with
      | TChar s =>
          match parse_ttl s with
          | Some v => ROk (set_this c (Some v), PTtlClassType)
          | None =>
            let u := upper_str s in
            match class_of u with
            | Some k => ROk (set_class c k, PTtlClassType)
            | None => match type_of u with
                      | Some ty => ROk (set_rtype c (Some ty), PRecord [])
                      | None => perr
                      end
            end
          end
      | TEOL => ROk (c, PStart)
      | _ => perr
      end
  | PRecord parts =>
      match t with
      | TEOL => do c' <- ctx_insert c parts ;; ROk (c', PStart)
      | TChar s => ROk (c, PRecord (parts ++ [s]))
      | TList l => ROk (c, PRecord (parts ++ l))
      | _ => perr
      end
  end.

(* `while let Some(t) = lexer.next_token()?` + the flush at end of input *)
Fixpoint parse_loop (lex : str -> lst -> lres) (fuel : nat) (txt : str) (ls : lst) (c : ctx) (st : pstate) : R ctx :=
  match fuel with
  | O => RFuel
  | S f =>
    match lex txt ls with
    | LPanic => RPanic
    | LErr _ => RErr 1
    | LEnd _ _ =>
        match st with
        | PRecord parts => ctx_insert c parts
        | _ => ROk c
        end
    | LTok t txt' ls' =>
        do '(c', st') <- ptoken c st t ;; parse_loop lex f txt' ls' c' st'
    end
  end.

Definition parse_with (lex : str -> lst -> lres) (origin : option name) (txt : str) : R (list rr) :=
  do c <- parse_loop lex (S (length txt)) txt SStartLine (ctx0 origin) PStart ;;
  match c_origin c with
  | Some _ => ROk (c_recs c)
  | None => perr          (* "$ORIGIN was not specified" *)
  end.

(* Parser::new(text, None, origin).parse() *)
Definition parse (origin : option name) (txt : str) : R (list rr) := parse_with next_token origin txt.
(* the same parser over the uncapped lexer, and over the lexer with a cap of [c] iterations *)
Definition parse_nocap (origin : option name) (txt : str) : R (list rr) := parse_with next_token_nocap origin txt.
Definition parse_capped (c : nat) (origin : option name) (txt : str) : R (list rr) :=
  parse_with (next_token_cap c) origin txt.

(* ------------------------------------------------------------------ *)
(* Canonical dump of a record (same layout as the harness)             *)
(* ------------------------------------------------------------------ *)

Definition be16 (n : N) : list N := [n / 256; n mod 256].
Definition be32 (n : N) : list N := [n / 16777216; (n / 65536) mod 256; (n / 256) mod 256; n mod 256].
Definition enc_name (n : name) : list N :=
  (if fqdn n then 1 else 0) :: N.of_nat (length (labels n)) ::
  flat_map (fun l => N.of_nat (length l) :: l) (labels n).
Definition enc_rdata (d : rdata) : list N :=
  match d with
  | DA a b c e => [a; b; c; e]
  | DNS n | DCNAME n | DPTR n => enc_name n
  | DMX p n => be16 p ++ enc_name n
  | DTXT ss => be16 (N.of_nat (length ss)) ++ flat_map (fun s => be16 (N.of_nat (length s)) ++ s) ss
  | DSOA m r a b c e f => enc_name m ++ enc_name r ++ be32 a ++ be32 b ++ be32 c ++ be32 e ++ be32 f
  end.
Definition enc_rec (r : rr) : list N :=
  enc_name (rname r) ++ [rty_tag (rty_of_rdata (rdat r))] ++ be16 (rclass r) ++ be32 (rttl r) ++ enc_rdata (rdat r).

(* ================================================================== *)
(* SPECIFICATION SIDE (definitions only; nothing below is used by the model above) *)
(* ================================================================== *)

(* ------------------------------------------------------------------ *)
(* Specification: an independent master-file printer (RFC 1035 5.1)    *)
(* ------------------------------------------------------------------ *)

(* decimal numerals *)
Fixpoint dec_aux (f : nat) (n : N) (acc : str) : str :=
  match f with
  | O => acc
  | S f' => let d := 48 + n mod 10 in
            if n <? 10 then d :: acc else dec_aux f' (n / 10) (d :: acc)
  end.
Definition dec (n : N) : str := dec_aux (S (N.to_nat (N.log2 n))) n [].

Definition print_ipv4 (a b c d : N) : str := dec a ++ [46] ++ dec b ++ [46] ++ dec c ++ [46] ++ dec d.

(* labels the printer is specified for: the wildcard, underscore-led service labels, and
   lower-case letters-digits-hyphen labels that may contain dots (printed escaped) *)
Definition ldh_ch (c : N) : bool := is_lower c || is_digit c || (c =? 45) || (c =? 46).
Definition us_ch (c : N) : bool := is_alnum c || (c =? 45) || (c =? 95) || (c =? 46).
Definition lab_ok (l : str) : bool :=
  (N.of_nat (length l) <=? 63) &&
  (str_eqb l [42] ||
   match l with
   | [] => false
   | c :: r => if c =? 95 then forallb us_ch r
               else negb (c =? 45) && forallb ldh_ch l && negb (has_infix (s2l "xn--") l)
   end).

Definition print_label (l : str) : str := flat_map (fun c => if c =? 46 then [92; 46] else [c]) l.
Fixpoint print_labels (ls : list str) : str :=
  match ls with
  | [] => []
  | [l] => print_label l
  | l :: ls' => print_label l ++ 46 :: print_labels ls'
  end.
(* absolute form; the root is "." *)
Definition print_abs (ls : list str) : str :=
  match ls with [] => [46] | _ => print_labels ls ++ [46] end.
(* relative form of rel ++ origin (rel non-empty) *)
Definition print_rel (rel : list str) : str := print_labels rel.

Definition name_ok (ls : list str) : bool := forallb lab_ok ls && (encoded_len ls <=? 255).

(* ---- lines: lexical layout ------------------------------------------------------ *)

Definition blank (c : N) : bool := (c =? 32) || (c =? 9).
(* characters of an unquoted word: printable, and none of: parentheses, double quote, semicolon *)
Definition wordch (c : N) : bool :=
  is_plain c && negb (c =? 40) && negb (c =? 41) && negb (c =? 34) && negb (c =? 59).
Definition gword_ok (w : str) : bool := match w with [] => false | _ => forallb wordch w end.
(* a word outside parentheses must not start with @ or $ *)
Definition word_ok (w : str) : bool :=
  match w with [] => false | c :: _ => forallb wordch w && negb (c =? 64) && negb (c =? 36) end.

(* separators inside parentheses: blanks, line breaks, comments running to a line break *)
Inductive lpiece := LBlank (c : N) | LComment (text : str) (nl : N).
Definition lpiece_ok (p : lpiece) : bool :=
  match p with
  | LBlank c => blank c || is_nl c
  | LComment t nl => forallb (fun c => negb (is_nl c)) t && is_nl nl
  end.
Definition render_lpiece (p : lpiece) : str :=
  match p with LBlank c => [c] | LComment t nl => 59 :: t ++ [nl] end.
Definition lgap := list lpiece.
Definition lgap_ok (g : lgap) : bool := forallb lpiece_ok g.
Definition render_lgap (g : lgap) : str := flat_map render_lpiece g.

Inductive directive := DOrigin | DTtl.
Inductive item :=
| IWord (w : str)
| IQuoted (s : str)                      (* the string denoted; printed with escaped quotes and backslashes *)
| IAt
| IDir (d : directive)
| IGroup (ws : list (lgap * str)) (close : lgap).

Definition esc_ch (c : N) : str := if (c =? 34) || (c =? 92) then [92; c] else [c].
Definition esc (s : str) : str := flat_map esc_ch s.

Definition render_group_body (ws : list (lgap * str)) : str :=
  flat_map (fun gw => render_lgap (fst gw) ++ snd gw) ws.

Definition render_item (i : item) : str :=
  match i with
  | IWord w => w
  | IQuoted s => 34 :: esc s ++ [34]
  | IAt => [64]
  | IDir DOrigin => s2l "$ORIGIN"
  | IDir DTtl => s2l "$TTL"
  | IGroup ws close => 40 :: render_group_body ws ++ render_lgap close ++ [41]
  end.

Definition item_tok (i : item) : token :=
  match i with
  | IWord w => TChar w
  | IQuoted s => TChar s
  | IAt => TAt
  | IDir DOrigin => TOrigin
  | IDir DTtl => TTtl
  | IGroup ws _ => TList (map snd ws)
  end.

(* every word of a group after the first is preceded by a non-empty separator *)
Fixpoint group_seps_ok (ws : list (lgap * str)) : bool :=
  match ws with
  | [] => true
  | (g, w) :: r => lgap_ok g && gword_ok w &&
                   match r with [] => true | (g2, _) :: _ => match g2 with [] => false | _ => true end end &&
                   group_seps_ok r
  end.

Definition item_ok (i : item) : bool :=
  match i with
  | IWord w => word_ok w
  | IGroup ws close => group_seps_ok ws && lgap_ok close
  | _ => true
  end.

(* does the item need a separator after it?  (a word or a directive runs until a blank) *)
Definition needs_sep (i : item) : bool :=
  match i with IWord _ | IDir _ => true | _ => false end.

(* ---- a line: leading blanks, items each followed by blanks, optional comment, line end ---- *)

Record line := MkLine {
  l_lead : str;
  l_items : list (item * str);
  l_comment : option str;
  l_eol : str
}.

Definition render_comment (c : option str) : str := match c with Some t => 59 :: t | None => [] end.
Definition render_items (its : list (item * str)) : str := flat_map (fun ig => render_item (fst ig) ++ snd ig) its.
Definition render_line (l : line) : str :=
  l_lead l ++ render_items (l_items l) ++ render_comment (l_comment l) ++ l_eol l.

Definition comment_ok (c : option str) : bool :=
  match c with Some t => forallb (fun c => negb (is_nl c)) t | None => true end.
Definition eol_ok (e : str) : bool := str_eqb e [10] || str_eqb e [13; 10].

(* an item that runs until a blank must be followed by one when another item comes next *)
Fixpoint items_ok (its : list (item * str)) : bool :=
  match its with
  | [] => true
  | (i, g) :: r => item_ok i && forallb blank g &&
                   (match r with [] => true | _ => negb (needs_sep i) || match g with [] => false | _ => true end end) &&
                   items_ok r
  end.

Definition line_ok (l : line) : bool :=
  forallb blank (l_lead l) && items_ok (l_items l) && comment_ok (l_comment l) && eol_ok (l_eol l).

Definition line_tokens (l : line) : list token :=
  (match l_lead l with [] => [] | _ => [TBlank] end) ++ map (fun ig => item_tok (fst ig)) (l_items l) ++ [TEOL].

(* ---- records and the token-level grammar of their lines --------------------------- *)

(* names are lists of labels (absolute); TXT strings are code-point strings *)
Inductive sdata :=
| SA (a b c d : N)
| SNS (n : list str) | SCNAME (n : list str) | SPTR (n : list str)
| SMX (pref : N) (n : list str)
| STXT (ss : list str)
| SSOA (m r : list str) (serial refresh retry expire minimum : N).

Record srec := MkSrec { s_owner : list str; s_class : N; s_ttl : N; s_data : sdata }.

Definition abs_name (ls : list str) : name := MkName ls true.

Definition denote_data (d : sdata) : rdata :=
  match d with
  | SA a b c e => DA a b c e
  | SNS n => DNS (abs_name n) | SCNAME n => DCNAME (abs_name n) | SPTR n => DPTR (abs_name n)
  | SMX p n => DMX p (abs_name n)
  | STXT ss => DTXT (map utf8 ss)
  | SSOA m r a b c e f => DSOA (abs_name m) (abs_name r) a b c e f
  end.
Definition denote (r : srec) : rr := MkRR (abs_name (s_owner r)) (s_class r) (s_ttl r) (denote_data (s_data r)).

Definition names_of (d : sdata) : list (list str) :=
  match d with
  | SNS n | SCNAME n | SPTR n | SMX _ n => [n]
  | SSOA m r _ _ _ _ _ => [m; r]
  | _ => []
  end.

Definition sdata_ok (d : sdata) : bool :=
  forallb name_ok (names_of d) &&
  match d with
  | SA a b c e => (a <=? 255) && (b <=? 255) && (c <=? 255) && (e <=? 255)
  | SMX p _ => p <=? 65535
  | SSOA _ _ a b c e f => (a <=? u32max) && (b <=? i32max) && (c <=? i32max) && (e <=? i32max) && (f <=? u32max)
  | _ => true
  end.
Definition class_ok (k : N) : bool := (k =? 1) || (k =? 3) || (k =? 4).
Definition srec_ok (r : srec) : bool :=
  name_ok (s_owner r) && class_ok (s_class r) && (s_ttl r <=? u32max) && sdata_ok (s_data r).

(* a domain name as it may be written when the origin is [o]: absolute, or relative *)
Inductive NameText (o : list str) (n : list str) : str -> Prop :=
| nt_abs : NameText o n (print_abs n)
| nt_rel rel : rel <> [] -> n = rel ++ o -> NameText o n (print_rel rel).

(* TTL texts: decimal seconds, or BIND-style number-unit groups optionally followed by seconds *)
Definition unit_secs (c : N) : option N :=
  if (c =? 115) || (c =? 83) then Some 1 else if (c =? 109) || (c =? 77) then Some 60
  else if (c =? 104) || (c =? 72) then Some 3600 else if (c =? 100) || (c =? 68) then Some 86400
  else if (c =? 119) || (c =? 87) then Some 604800 else None.
Fixpoint units_text (ps : list (N * N)) : str :=
  match ps with [] => [] | (n, u) :: r => dec n ++ u :: units_text r end.
Fixpoint units_value (ps : list (N * N)) : option N :=
  match ps with
  | [] => Some 0
  | (n, u) :: r => match unit_secs u, units_value r with
                   | Some m, Some v => Some (n * m + v)
                   | _, _ => None
                   end
  end.
Inductive TtlText (t : N) : str -> Prop :=
| tt_dec : TtlText t (dec t)
| tt_units ps : ps <> [] -> units_value ps = Some t -> TtlText t (units_text ps)
| tt_units_secs ps v n : ps <> [] -> units_value ps = Some v -> t = v + n -> TtlText t (units_text ps ++ dec n).

(* class and type mnemonics in any letter case *)
Definition Mnem (upper : str) (s : str) : Prop := upper_str s = upper.

Definition class_text (k : N) : str :=
  if k =? 1 then s2l "IN" else if k =? 3 then s2l "CH" else s2l "HS".
Definition type_text (d : sdata) : str :=
  match d with
  | SA _ _ _ _ => s2l "A" | SNS _ => s2l "NS" | SCNAME _ => s2l "CNAME" | SPTR _ => s2l "PTR"
  | SMX _ _ => s2l "MX" | STXT _ => s2l "TXT" | SSOA _ _ _ _ _ _ _ => s2l "SOA"
  end.

(* the RDATA fields, as the words the loader must see *)
Inductive DataWords (o : list str) : sdata -> list str -> Prop :=
| dw_a a b c d : DataWords o (SA a b c d) [print_ipv4 a b c d]
| dw_ns n t : NameText o n t -> DataWords o (SNS n) [t]
| dw_cname n t : NameText o n t -> DataWords o (SCNAME n) [t]
| dw_ptr n t : NameText o n t -> DataWords o (SPTR n) [t]
| dw_mx p n t : NameText o n t -> DataWords o (SMX p n) [dec p; t]
| dw_txt ss : DataWords o (STXT ss) ss
| dw_soa m r tm tr a b c e f tb tc te tf : NameText o m tm -> NameText o r tr ->
    TtlText b tb -> TtlText c tc -> TtlText e te -> TtlText f tf ->
    DataWords o (SSOA m r a b c e f) [tm; tr; dec a; tb; tc; te; tf].

(* tokens of the RDATA part: words, possibly gathered in parenthesised groups *)
Fixpoint flat_tokens (ts : list token) : option (list str) :=
  match ts with
  | [] => Some []
  | TChar s :: r => option_map (cons s) (flat_tokens r)
  | TList l :: r => option_map (app l) (flat_tokens r)
  | _ => None
  end.

(* what the printer remembers from line to line *)
Record pstate_ := MkPs {
  p_origin : list str;
  p_prev : option (list str);   (* owner of the previous record *)
  p_dttl : option N;            (* $TTL in force *)
  p_last : option N;            (* last TTL written explicitly *)
  p_class : N                   (* last class written explicitly; IN at the start *)
}.

Inductive OwnerToks (ps : pstate_) (owner : list str) : list token -> Prop :=
| ot_text t : NameText (p_origin ps) owner t -> OwnerToks ps owner [TChar t]
| ot_at : owner = p_origin ps -> OwnerToks ps owner [TAt]
| ot_inherit : p_prev ps = Some owner -> OwnerToks ps owner [TBlank].

Definition ttl_omissible (ps : pstate_) (t : N) : Prop :=
  match p_dttl ps with Some d => d = t | None => p_last ps = Some t end.

(* the optional TTL and class, in either order *)
Inductive TtlClassToks (ps : pstate_) (t k : N) : list token -> bool -> Prop :=
| tc_both1 tt ct : TtlText t tt -> Mnem (class_text k) ct -> TtlClassToks ps t k [TChar tt; TChar ct] true
| tc_both2 tt ct : TtlText t tt -> Mnem (class_text k) ct -> TtlClassToks ps t k [TChar ct; TChar tt] true
| tc_ttl tt : TtlText t tt -> p_class ps = k -> TtlClassToks ps t k [TChar tt] true
| tc_class ct : Mnem (class_text k) ct -> ttl_omissible ps t -> TtlClassToks ps t k [TChar ct] false
| tc_none : p_class ps = k -> ttl_omissible ps t -> TtlClassToks ps t k [] false.

Inductive LineToks : pstate_ -> list token -> option srec -> pstate_ -> Prop :=
| lt_blank ps : LineToks ps [TEOL] None ps
| lt_blank2 ps : LineToks ps [TBlank; TEOL] None ps
| lt_origin ps n t : name_ok n = true -> NameText (p_origin ps) n t ->
    LineToks ps [TOrigin; TChar t; TEOL] None
             (MkPs n (p_prev ps) (p_dttl ps) (p_last ps) (p_class ps))
| lt_ttl ps t tt : t <= u32max -> TtlText t tt ->
    LineToks ps [TTtl; TChar tt; TEOL] None
             (MkPs (p_origin ps) (p_prev ps) (Some t) (p_last ps) (p_class ps))
| lt_rec ps r own tc explicit ty rd ws :
    OwnerToks ps (s_owner r) own ->
    TtlClassToks ps (s_ttl r) (s_class r) tc explicit ->
    Mnem (type_text (s_data r)) ty ->
    DataWords (p_origin ps) (s_data r) ws ->
    flat_tokens rd = Some ws ->
    LineToks ps (own ++ tc ++ [TChar ty] ++ rd ++ [TEOL]) (Some r)
             (MkPs (p_origin ps) (Some (s_owner r)) (p_dttl ps)
                   (if explicit then Some (s_ttl r) else p_last ps) (s_class r)).

Inductive ZoneToks : pstate_ -> list (list token) -> list srec -> Prop :=
| zt_nil ps : ZoneToks ps [] []
| zt_cons ps ts o ps' tss rs :
    LineToks ps ts o ps' -> ZoneToks ps' tss rs ->
    ZoneToks ps (ts :: tss) (match o with Some r => r :: rs | None => rs end).

Definition ps0 (o : list str) : pstate_ := MkPs o None None None 1.

(* a zone text: lines, each a lexical layout of its token list *)
Definition render_zone (ls : list line) : str := flat_map render_line ls.

(* records pairwise distinct (names compared as DNS names, i.e. ignoring ASCII case): no record
   has the owner, type and RDATA of an earlier one; an SOA or CNAME is alone at its owner *)
Definition single (t : rty) : bool := match t with TySOA | TyCNAME => true | _ => false end.
Definition collides (r x : rr) : bool :=
  same_key x r && (single (rty_of_rdata (rdat r)) || rdata_eqb (rdat x) (rdat r)).
Fixpoint distinct_from (earlier : list rr) (rs : list rr) : bool :=
  match rs with
  | [] => true
  | r :: rest => forallb (fun x => negb (collides r x)) earlier && distinct_from (earlier ++ [r]) rest
  end.
Definition distinct (rs : list rr) : bool := distinct_from [] rs.

(* the last line of a file may lack its line end *)
Definition render_noeol (l : line) : str :=
  l_lead l ++ render_items (l_items l) ++ render_comment (l_comment l).
Definition line_tokens_noeol (l : line) : list token :=
  (match l_lead l with [] => [] | _ => [TBlank] end) ++ map (fun ig => item_tok (fst ig)) (l_items l).
Definition line_noeol_ok (l : line) : bool :=
  forallb blank (l_lead l) && items_ok (l_items l) && comment_ok (l_comment l).

(* a line short enough for the lexer's iteration cap never to be reached inside it *)
Definition short_line (l : line) : bool := (N.of_nat (length (render_line l)) <=? 2045).

(* ---- what a loaded record must look like whatever the text ------------------------------ *)

Definition label_wf (l : str) : bool := (1 <=? N.of_nat (length l)) && (N.of_nat (length l) <=? 63).
Definition name_wf (n : name) : bool := forallb label_wf (labels n) && (encoded_len (labels n) <=? 255).
Definition rdata_wf (d : rdata) : bool :=
  match d with
  | DA a b c e => (a <=? 255) && (b <=? 255) && (c <=? 255) && (e <=? 255)
  | DNS n | DCNAME n | DPTR n => name_wf n
  | DMX p n => (p <=? 65535) && name_wf n
  | DTXT _ => true
  | DSOA m r a b c e f =>
      name_wf m && name_wf r && (a <=? u32max) && (b <=? i32max) && (c <=? i32max) && (e <=? i32max) && (f <=? u32max)
  end.
Definition class_known (k : N) : bool := (k =? 1) || (k =? 3) || (k =? 4) || (k =? 254) || (k =? 255).
Definition rr_wf (r : rr) : bool :=
  name_wf (rname r) && fqdn (rname r) && class_known (rclass r) && (rttl r <=? u32max) && rdata_wf (rdat r).
