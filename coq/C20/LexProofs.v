(* C20 — lexer: termination measure, cap vs no cap, consumption, parser totality. *)
From HV Require Import Lib.Base C20.Model.
Open Scope N_scope.

(* ------------------------------------------------------------------ *)
(* generic case analysis on one [step]                                 *)
(* ------------------------------------------------------------------ *)

Ltac break_in H :=
  repeat match type of H with
  | context [if ?b then _ else _] => destruct b eqn:?
  | context [match ?x with _ => _ end] => destruct x eqn:?
  end.

Ltac break_goal :=
  repeat match goal with
  | |- context [if ?b then _ else _] => destruct b eqn:?
  | |- context [match ?x with _ => _ end] => destruct x eqn:?
  end.

(* ------------------------------------------------------------------ *)
(* measure: 2*|txt| + rank(state, next char)                           *)
(* ------------------------------------------------------------------ *)

Definition sepch (c : N) : bool := is_ws c || (c =? 41) || (c =? 59).

Definition rank (st : lst) (txt : str) : nat :=
  match st with
  | SStartLine => 3
  | SRestOfLine => 2
  | SComment _ => 1
  | SList => match txt with c :: _ => if sepch c then 0 else 1 | [] => 0 end
  | SCharData _ => match txt with c :: _ => if sepch c then 1 else 0 | [] => 0 end
  | _ => 0
  end%nat.

Definition mu (txt : str) (st : lst) : nat := (2 * length txt + rank st txt)%nat.

Lemma rank_le3 st txt : (rank st txt <= 3)%nat.
Proof. destruct st; cbn [rank]; break_goal; lia. Qed.

Lemma is_nl_ws c : is_nl c = true -> is_ws c = true.
Proof.
  unfold is_nl, is_ws. intros H. apply orb_true_iff in H.
  destruct H as [H|H]; apply N.eqb_eq in H; subst; reflexivity.
Qed.

Lemma is_nl_sepch c : is_nl c = true -> sepch c = true.
Proof. intros H. unfold sepch. rewrite (is_nl_ws _ H). reflexivity. Qed.

Lemma escape_seq_len txt x r : escape_seq txt = inr (x, r) -> (length r + 2 <= length txt)%nat.
Proof.
  unfold escape_seq. destruct txt as [|b t]; cbn [tl]; [discriminate|].
  intros H. break_in H; try discriminate; inversion H; subst; cbn [length]; lia.
Qed.

(* every continuing iteration strictly decreases the measure *)
Lemma step_mu txt st cd cdv t s c v :
  step txt st cd cdv = Cont t s c v -> (mu t s < mu txt st)%nat.
Proof.
  unfold mu. destruct st; cbn [step]; intros H.
  - (* StartLine *) destruct txt as [|a r]; break_in H; inversion H; subst; cbn [rank length]; lia.
  - (* RestOfLine *)
    destruct txt as [|a r]; [inversion H; subst; cbn [rank length]; lia|].
    break_in H; try discriminate; inversion H; subst; cbn [rank length]; try lia; break_goal; lia.
  - (* Blank *) discriminate.
  - (* List *)
    destruct txt as [|a r]; [discriminate|].
    break_in H; try discriminate; inversion H; subst; cbn [rank length]; try lia;
      try (break_goal; lia).
    unfold sepch.
    repeat match goal with E : (_ =? _) = false |- _ => rewrite E; clear E end.
    match goal with E : is_ws _ = false |- _ => rewrite E end. cbn. lia.
  - (* CharData *)
    destruct txt as [|a r]; [break_in H; discriminate|].
    break_in H; try discriminate; inversion H; subst; cbn [rank length]; try (break_goal; lia).
    unfold sepch.
    match goal with E : is_ws _ || _ || _ = true |- _ => rewrite E end. lia.
  - (* Comment *)
    destruct txt as [|a r]; [break_in H; try discriminate; inversion H; subst; cbn [rank length]; lia|].
    break_in H; inversion H; subst; cbn [rank length]; try lia.
    match goal with E : is_nl _ = true |- _ => rewrite (is_nl_sepch _ E) end. lia.
  - (* At *) discriminate.
  - (* Quote *)
    destruct txt as [|a r]; [discriminate|].
    break_in H; try discriminate; inversion H; subst; cbn [rank length]; try lia.
    match goal with E : escape_seq _ = inr _ |- _ => apply escape_seq_len in E; cbn [length] in E end. lia.
  - (* Dollar *)
    destruct txt as [|a r]; break_in H; try discriminate; inversion H; subst; cbn [rank length]; lia.
  - (* EOL *)
    destruct txt as [|a r]; [discriminate|].
    break_in H; try discriminate; inversion H; subst; cbn [rank length]; lia.
  - (* EOF *) discriminate.
Qed.

Lemma lex_loop_fuel_enough : forall f txt st cd cdv,
  (mu txt st < f)%nat -> lex_loop f txt st cd cdv <> LPanic.
Proof.
  induction f as [|f IH]; intros txt st cd cdv Hf; [lia|].
  cbn [lex_loop]. destruct (step txt st cd cdv) eqn:E; try discriminate.
  apply IH. apply step_mu in E. lia.
Qed.

(* results that are not LPanic do not depend on the fuel *)
Lemma lex_loop_fuel_indep : forall f1 f2 txt st cd cdv,
  lex_loop f1 txt st cd cdv <> LPanic -> lex_loop f2 txt st cd cdv <> LPanic ->
  lex_loop f1 txt st cd cdv = lex_loop f2 txt st cd cdv.
Proof.
  induction f1 as [|f1 IH]; intros f2 txt st cd cdv H1 H2; [cbn in H1; congruence|].
  destruct f2 as [|f2]; [cbn in H2; congruence|].
  cbn [lex_loop] in *. destruct (step txt st cd cdv); try reflexivity. now apply IH.
Qed.

Lemma next_token_nocap_total txt st : next_token_nocap txt st <> LPanic.
Proof.
  unfold next_token_nocap. apply lex_loop_fuel_enough. unfold mu.
  pose proof (rank_le3 st txt). lia.
Qed.

Lemma cap_refines c txt st :
  next_token_cap c txt st <> LPanic -> next_token_cap c txt st = next_token_nocap txt st.
Proof.
  intros H. unfold next_token_cap, next_token_nocap in *. apply lex_loop_fuel_indep; [exact H|].
  apply next_token_nocap_total.
Qed.

Lemma cap_val : cap = 4095%nat.
Proof. reflexivity. Qed.

Lemma cap_short txt st : (length txt <= 2045)%nat -> next_token_cap cap txt st <> LPanic.
Proof.
  intros H. unfold next_token_cap. apply lex_loop_fuel_enough. rewrite cap_val. unfold mu.
  pose proof (rank_le3 st txt). lia.
Qed.

(* the lexer the code has ([lex_cap]): these hold with and without the cap *)
Ltac which_lexer := unfold next_token, lex_cap; cbv iota beta.

Lemma next_token_cap_refines txt st :
  next_token txt st <> LPanic -> next_token txt st = next_token_nocap txt st.
Proof. which_lexer. first [apply cap_refines | reflexivity]. Qed.

Lemma next_token_short txt st : (length txt <= 2045)%nat -> next_token txt st <> LPanic.
Proof. which_lexer. first [apply cap_short | intros _; apply next_token_nocap_total]. Qed.

(* ------------------------------------------------------------------ *)
(* the text only shrinks; a returned token has consumed something     *)
(* ------------------------------------------------------------------ *)

Lemma step_len_cont txt st cd cdv t s c v :
  step txt st cd cdv = Cont t s c v -> (length t <= length txt)%nat.
Proof.
  destruct st; cbn [step]; intros H; destruct txt as [|a r]; cbn [tl] in H;
    break_in H; try discriminate; inversion H; subst; cbn [length]; try lia.
  match goal with E : escape_seq _ = inr _ |- _ => apply escape_seq_len in E; cbn [length] in E end. lia.
Qed.

Lemma step_len_tok txt st cd cdv t r s :
  step txt st cd cdv = RetTok t r s -> (length r <= length txt)%nat.
Proof.
  destruct st; cbn [step]; intros H; destruct txt as [|a q]; cbn [tl] in H;
    break_in H; try discriminate; inversion H; subst; cbn [length]; lia.
Qed.

Lemma lex_loop_len : forall f txt st cd cdv t r s,
  lex_loop f txt st cd cdv = LTok t r s -> (length r <= length txt)%nat.
Proof.
  induction f as [|f IH]; intros txt st cd cdv t r s H; [discriminate|].
  cbn [lex_loop] in H. destruct (step txt st cd cdv) eqn:E; try discriminate.
  - apply IH in H. apply step_len_cont in E. lia.
  - inversion H; subst. eapply step_len_tok; eauto.
Qed.

(* configurations in which nothing has been consumed yet but the next return will consume *)
Definition fresh (txt : str) (st : lst) (cd : option str) : Prop :=
  match st with
  | SStartLine | SRestOfLine | SEOL | SEOF => True
  | SBlank | SAt => txt <> []
  | SComment false => exists r, txt = 59 :: r
  | SCharData false => cd = Some [] /\ exists c r, txt = c :: r /\ is_plain c = true /\ sepch c = false
  | _ => False
  end.

Lemma plain_not_nl c : is_plain c = true -> is_nl c = false.
Proof.
  unfold is_plain. intros H. destruct (is_nl c) eqn:E; [|reflexivity].
  apply is_nl_ws in E. rewrite E in H. rewrite andb_false_r in H. discriminate.
Qed.

Lemma step_fresh_cont txt st cd cdv t s c v :
  fresh txt st cd -> step txt st cd cdv = Cont t s c v ->
  (length t < length txt)%nat \/ (t = txt /\ fresh t s c).
Proof.
  intros F H. destruct st as [ | | | |l|l| | | | | ]; cbn [fresh] in F; try contradiction; cbn [step] in H.
  - (* StartLine *)
    destruct txt as [|a r]; break_in H; inversion H; subst; right; split; try reflexivity; cbn [fresh]; auto; discriminate.
  - (* RestOfLine *)
    destruct txt as [|a r]; [inversion H; subst; right; split; [reflexivity|exact I]|].
    break_in H; try discriminate; inversion H; subst; cbn [length];
      try (left; lia); right; (split; [reflexivity|]); cbn [fresh]; auto; try discriminate.
    + eexists. f_equal. now apply N.eqb_eq.
    + split; [reflexivity|]. exists a, r. repeat split; auto. unfold sepch.
      repeat match goal with E : (_ =? _) = false |- _ => rewrite E; clear E end.
      match goal with E : is_ws _ = false |- _ => rewrite E end. reflexivity.
  - (* Blank *) discriminate.
  - (* CharData *)
    destruct l; [contradiction|]. destruct F as (-> & a & r & -> & P & S).
    unfold sepch in S. apply orb_false_iff in S as [S S3]. apply orb_false_iff in S as [S1 S2].
    rewrite S1, S2, S3, P in H. cbn in H. inversion H; subst. left. cbn [length]. lia.
  - (* Comment *)
    destruct l; [contradiction|]. destruct F as (r & ->).
    cbn in H. inversion H; subst. left. cbn [length]. lia.
  - (* At *) discriminate.
  - (* EOL *)
    destruct txt as [|a r]; [discriminate|].
    break_in H; try discriminate; inversion H; subst. left. cbn [length]. lia.
  - discriminate.
Qed.

Lemma step_fresh_tok txt st cd cdv t r s :
  fresh txt st cd -> step txt st cd cdv = RetTok t r s -> (length r < length txt)%nat.
Proof.
  intros F H. destruct st as [ | | | |l|l| | | | | ]; cbn [fresh] in F; try contradiction; cbn [step] in H.
  - destruct txt; break_in H; discriminate.
  - destruct txt; break_in H; discriminate.
  - destruct txt; [congruence|]. inversion H; subst. cbn [tl length]. lia.
  - destruct l; [contradiction|]. destruct F as (-> & a & q & -> & P & S).
    unfold sepch in S. apply orb_false_iff in S as [S S3]. apply orb_false_iff in S as [S1 S2].
    rewrite S1, S2, S3, P in H. cbn in H. discriminate.
  - destruct l; [contradiction|]. destruct F as (q & ->). cbn in H. discriminate.
  - destruct txt; [congruence|]. inversion H; subst. cbn [tl length]. lia.
  - destruct txt as [|a q]; [discriminate|]. break_in H; try discriminate. inversion H; subst. cbn [length]. lia.
  - discriminate.
Qed.

Lemma lex_loop_consumes : forall f txt st cd cdv t r s,
  fresh txt st cd -> lex_loop f txt st cd cdv = LTok t r s -> (length r < length txt)%nat.
Proof.
  induction f as [|f IH]; intros txt st cd cdv t r s F H; [discriminate|].
  cbn [lex_loop] in H. destruct (step txt st cd cdv) eqn:E; try discriminate.
  - destruct (step_fresh_cont _ _ _ _ _ _ _ _ F E) as [L|[-> F']].
    + apply lex_loop_len in H. lia.
    + eapply IH; eauto.
  - inversion H; subst. eapply step_fresh_tok; eauto.
Qed.

(* states in which a call can start *)
Definition entry (st : lst) : Prop := st = SStartLine \/ st = SRestOfLine \/ st = SEOF.

Lemma step_tok_entry txt st cd cdv t r s : step txt st cd cdv = RetTok t r s -> entry s.
Proof.
  unfold entry. destruct st; cbn [step]; intros H; destruct txt as [|a q]; cbn [tl] in H;
    break_in H; try discriminate; inversion H; subst; auto.
Qed.

Lemma lex_loop_entry : forall f txt st cd cdv t r s,
  lex_loop f txt st cd cdv = LTok t r s -> entry s.
Proof.
  induction f as [|f IH]; intros txt st cd cdv t r s H; [discriminate|].
  cbn [lex_loop] in H. destruct (step txt st cd cdv) eqn:E; try discriminate.
  - eapply IH; eauto.
  - inversion H; subst. eapply step_tok_entry; eauto.
Qed.

Lemma entry_fresh txt st : entry st -> fresh txt st None.
Proof. intros [->|[->| ->]]; exact I. Qed.

(* ------------------------------------------------------------------ *)
(* a lexer, abstractly                                                 *)
(* ------------------------------------------------------------------ *)

Record lexer_ok (lex : str -> lst -> lres) : Prop := {
  lx_consumes : forall txt st t r s, entry st -> lex txt st = LTok t r s -> (length r < length txt)%nat;
  lx_entry : forall txt st t r s, lex txt st = LTok t r s -> entry s
}.

Lemma cap_ok c : lexer_ok (next_token_cap c).
Proof.
  split; unfold next_token_cap; intros.
  - eapply lex_loop_consumes; eauto. now apply entry_fresh.
  - eapply lex_loop_entry; eauto.
Qed.

Lemma next_token_nocap_ok : lexer_ok next_token_nocap.
Proof.
  split; unfold next_token_nocap; intros.
  - eapply lex_loop_consumes; eauto. now apply entry_fresh.
  - eapply lex_loop_entry; eauto.
Qed.

Lemma next_token_ok : lexer_ok next_token.
Proof. which_lexer. first [apply cap_ok | apply next_token_nocap_ok]. Qed.

Lemma nocap_len txt st t r s : next_token_nocap txt st = LTok t r s -> (length r <= length txt)%nat.
Proof. unfold next_token_nocap. apply lex_loop_len. Qed.

Lemma next_token_len txt st t r s : next_token txt st = LTok t r s -> (length r <= length txt)%nat.
Proof.
  intros H. rewrite next_token_cap_refines in H by (rewrite H; discriminate). eapply nocap_len; eauto.
Qed.

(* ------------------------------------------------------------------ *)
(* the token loop never runs out of fuel                               *)
(* ------------------------------------------------------------------ *)

Lemma bind_not_fuel {A B} (r : R A) (f : A -> R B) :
  r <> RFuel -> (forall a, r = ROk a -> f a <> RFuel) -> bind r f <> RFuel.
Proof. destruct r; cbn; intros; auto; congruence. Qed.

(* none of the per-token functions ever answers RFuel or RPanic *)
Definition calm {A} (r : R A) : Prop := r <> RFuel /\ r <> RPanic.

Lemma calm_bind {A B} (r : R A) (f : A -> R B) :
  calm r -> (forall a, calm (f a)) -> calm (bind r f).
Proof. intros [H1 H2] Hf. destruct r; cbn; try (split; congruence). apply Hf. Qed.

Lemma calm_ok {A} (a : A) : calm (ROk a). Proof. split; discriminate. Qed.
Lemma calm_err {A} k : calm (@RErr A k). Proof. split; discriminate. Qed.
Lemma calm_unmod {A} : calm (@RUnmod A). Proof. split; discriminate. Qed.
Lemma calm_opt_r {A} (o : option A) : calm (opt_r o).
Proof. destruct o; [apply calm_ok|apply calm_err]. Qed.
#[global] Hint Resolve calm_ok calm_err calm_unmod calm_opt_r : calm.

Ltac calm_tac :=
  repeat first
    [ apply calm_ok | apply calm_err | apply calm_unmod | apply calm_opt_r
    | apply calm_bind; [|intros]
    | match goal with
      | |- calm (if ?b then _ else _) => destruct b
      | |- calm (match ?x with _ => _ end) => destruct x
      | |- calm (let '(_, _) := ?x in _) => destruct x
      end ].

Lemma calm_label_from_ascii s : calm (label_from_ascii s).
Proof. unfold label_from_ascii, perr. calm_tac. Qed.

Lemma calm_to_label s : calm (to_label s).
Proof. unfold to_label, perr. calm_tac; apply calm_label_from_ascii. Qed.

Lemma calm_extend_name ls l : calm (extend_name ls l).
Proof. unfold extend_name, perr. calm_tac. Qed.

Lemma calm_append_label ls l : calm (append_label ls l).
Proof. unfold append_label. apply calm_bind; [apply calm_to_label|intros; apply calm_extend_name]. Qed.

Lemma calm_append_labels : forall more ls, calm (append_labels ls more).
Proof.
  induction more as [|l m IH]; intros ls; cbn [append_labels]; [apply calm_ok|].
  apply calm_bind; [apply calm_extend_name|intros; apply IH].
Qed.

Lemma calm_name_loop : forall s st ls lab, calm (name_loop s st ls lab).
Proof.
  induction s as [|c r IH]; intros st ls lab; cbn [name_loop]; [apply calm_ok|].
  destruct st; unfold perr;
    repeat first [ apply IH | apply calm_err
                 | apply calm_bind; [apply calm_append_label|intros]
                 | match goal with
                   | |- calm (if ?b then _ else _) => destruct b
                   | |- calm (match ?x with _ => _ end) => destruct x
                   end ].
Qed.

Lemma calm_name_parse s o : calm (name_parse s o).
Proof.
  unfold name_parse. destruct (str_eqb s [46]); [apply calm_ok|].
  apply calm_bind; [apply calm_name_loop|]. intros [ls lab].
  apply calm_bind.
  - destruct lab; [apply calm_ok|apply calm_append_label].
  - intros ls'. destruct lab; destruct s; try apply calm_ok;
      destruct o; try apply calm_ok;
      (apply calm_bind; [apply calm_append_labels|intros; apply calm_ok]).
Qed.

Lemma calm_tok_ttl o : calm (tok_ttl o).
Proof. unfold tok_ttl, perr. calm_tac. Qed.
Lemma calm_tok_i32 o : calm (tok_i32 o).
Proof. unfold tok_i32, perr. apply calm_bind; [apply calm_tok_ttl|intros]. calm_tac. Qed.
Lemma calm_tok_name o og : calm (tok_name o og).
Proof. unfold tok_name, perr. destruct o; [apply calm_name_parse|apply calm_err]. Qed.

Lemma calm_rdata_of t toks o : calm (rdata_of t toks o).
Proof.
  unfold rdata_of, perr. destruct t;
    repeat first
      [ apply calm_ok | apply calm_err | apply calm_unmod | apply calm_opt_r
      | apply calm_tok_name | apply calm_tok_ttl | apply calm_tok_i32
      | apply calm_bind; [|intros]
      | match goal with
        | |- calm (if ?b then _ else _) => destruct b
        | |- calm (match ?x with _ => _ end) => destruct x
        end ].
Qed.

Lemma calm_store_insert rs r : calm (store_insert rs r).
Proof. unfold store_insert, perr. calm_tac. Qed.

Lemma calm_ctx_insert c parts : calm (ctx_insert c parts).
Proof.
  unfold ctx_insert.
  apply calm_bind; [apply calm_opt_r|intros t].
  apply calm_bind; [apply calm_rdata_of|intros d].
  apply calm_bind; [apply calm_opt_r|intros n].
  apply calm_bind; [apply calm_opt_r|intros [ttl c1]].
  apply calm_bind; [apply calm_store_insert|intros; apply calm_ok].
Qed.

Lemma calm_ptoken c st t : calm (ptoken c st t).
Proof.
  unfold ptoken, perr. destruct st; destruct t;
    repeat first
      [ apply calm_ok | apply calm_err | apply calm_unmod | apply calm_opt_r
      | apply calm_name_parse | apply calm_ctx_insert
      | apply calm_bind; [|intros]
      | match goal with
        | |- calm (if ?b then _ else _) => destruct b
        | |- calm (match ?x with _ => _ end) => destruct x
        end ].
Qed.

Lemma parse_loop_no_fuel lex (L : lexer_ok lex) : forall f txt ls c st,
  entry ls -> (length txt < f)%nat -> parse_loop lex f txt ls c st <> RFuel.
Proof.
  induction f as [|f IH]; intros txt ls c st He Hf; [lia|].
  cbn [parse_loop]. destruct (lex txt ls) eqn:E; try discriminate.
  - (* token *)
    destruct (calm_ptoken c st t) as [P1 P2].
    destruct (ptoken c st t) as [[c' st']| | | |]; cbn [bind]; try discriminate; try congruence.
    apply IH.
    + eapply lx_entry; eauto.
    + pose proof (lx_consumes _ L _ _ _ _ _ He E). lia.
  - destruct st; try discriminate. apply (calm_ctx_insert c parts).
Qed.

Lemma parse_with_no_fuel lex (L : lexer_ok lex) o txt : parse_with lex o txt <> RFuel.
Proof.
  unfold parse_with.
  pose proof (parse_loop_no_fuel lex L (S (length txt)) txt SStartLine (ctx0 o) PStart) as H.
  destruct (parse_loop lex (S (length txt)) txt SStartLine (ctx0 o) PStart); cbn [bind]; try discriminate.
  - destruct (c_origin a); discriminate.
  - exfalso. apply H; [left; reflexivity|lia|reflexivity].
Qed.

(* RPanic can only come from the lexer *)
Lemma parse_loop_panic_free lex : (forall txt st, lex txt st <> LPanic) ->
  forall f txt ls c st, parse_loop lex f txt ls c st <> RPanic.
Proof.
  intros NP. induction f as [|f IH]; intros txt ls c st; [discriminate|].
  cbn [parse_loop]. pose proof (NP txt ls). destruct (lex txt ls) eqn:E; try discriminate; try congruence.
  - destruct (calm_ptoken c st t) as [P1 P2].
    destruct (ptoken c st t) as [[c' st']| | | |]; cbn [bind]; try discriminate; try congruence; try apply IH.
  - destruct st; try discriminate. apply (calm_ctx_insert c parts).
Qed.

Lemma parse_with_panic_free lex o txt : (forall txt st, lex txt st <> LPanic) -> parse_with lex o txt <> RPanic.
Proof.
  intros NP. unfold parse_with.
  pose proof (parse_loop_panic_free lex NP (S (length txt)) txt SStartLine (ctx0 o) PStart) as H.
  destruct (parse_loop lex (S (length txt)) txt SStartLine (ctx0 o) PStart); cbn [bind]; try discriminate; try congruence.
  destruct (c_origin a); discriminate.
Qed.

(* two lexers that agree wherever the first does not panic give the same parse unless it panics *)
Lemma parse_loop_refines lex1 lex2 :
  (forall txt st, lex1 txt st <> LPanic -> lex1 txt st = lex2 txt st) ->
  forall f txt ls c st, parse_loop lex1 f txt ls c st <> RPanic ->
    parse_loop lex1 f txt ls c st = parse_loop lex2 f txt ls c st.
Proof.
  intros A. induction f as [|f IH]; intros txt ls c st NP; [reflexivity|].
  cbn [parse_loop] in *.
  destruct (lex1 txt ls) eqn:E.
  - rewrite <- A by (rewrite E; discriminate). rewrite E.
    destruct (ptoken c st t) as [[c' st']| | | |]; cbn [bind] in *; try reflexivity. now apply IH.
  - rewrite <- A by (rewrite E; discriminate). rewrite E. reflexivity.
  - rewrite <- A by (rewrite E; discriminate). rewrite E. reflexivity.
  - congruence.
Qed.

Lemma parse_cap_refines o txt : parse o txt <> RPanic -> parse o txt = parse_nocap o txt.
Proof.
  unfold parse, parse_nocap, parse_with. intros NP.
  rewrite (parse_loop_refines next_token next_token_nocap next_token_cap_refines).
  - reflexivity.
  - intros E. rewrite E in NP. cbn in NP. congruence.
Qed.

(* short texts: every call sees a suffix no longer than the text *)
Lemma parse_loop_short : forall f txt ls c st,
  (length txt <= 2045)%nat -> parse_loop next_token f txt ls c st <> RPanic.
Proof.
  induction f as [|f IH]; intros txt ls c st Hl; [discriminate|].
  cbn [parse_loop]. pose proof (next_token_short txt ls Hl).
  destruct (next_token txt ls) eqn:E; try discriminate; try congruence.
  - destruct (calm_ptoken c st t) as [P1 P2].
    destruct (ptoken c st t) as [[c' st']| | | |]; cbn [bind]; try discriminate; try congruence.
    apply IH. apply next_token_len in E. lia.
  - destruct st; try discriminate. apply (calm_ctx_insert c parts).
Qed.

Lemma parse_short_no_panic o txt : (length txt <= 2045)%nat -> parse o txt <> RPanic.
Proof.
  intros Hl. unfold parse, parse_with.
  pose proof (parse_loop_short (S (length txt)) txt SStartLine (ctx0 o) PStart Hl) as H.
  destruct (parse_loop next_token (S (length txt)) txt SStartLine (ctx0 o) PStart); cbn [bind]; try discriminate; try congruence.
  destruct (c_origin a); discriminate.
Qed.
