(* C20 — a text that ends inside parentheses is refused (the repaired lexer: finding F2c). *)
From HV Require Import Lib.Base C20.Model C20.LexProofs C20.LineProofs C20.WfProofs.
Open Scope N_scope.

(* spec, independent of the state machine: does the text that follows an opening parenthesis
   contain the closing one?  (a parenthesis in a comment does not count; [in_comment]: the text
   starts inside a comment) *)
Fixpoint closes (in_comment : bool) (txt : str) : bool :=
  match txt with
  | [] => false
  | c :: r => if in_comment then closes (negb (is_nl c)) r
              else if c =? 59 then closes true r
              else if c =? 41 then true
              else closes false r
  end.

(* blanks, then an opening parenthesis that is never closed *)
Fixpoint after_blanks (txt : str) : bool :=
  match txt with
  | [] => false
  | c :: r => if c =? 40 then negb (closes false r) else blank c && after_blanks r
  end.

Ltac ev b := let v := eval vm_compute in b in change b with v.

(* the lexer is inside a group, or about to open one, whose closing parenthesis is missing *)
Definition unclosed_from (st : lst) (txt : str) : bool :=
  match st with
  | SList | SCharData true => negb (closes false txt)
  | SComment true => negb (closes true txt)
  | SStartLine => match txt with c :: r => (c =? 40) && negb (closes false r) | [] => false end
  | SRestOfLine => after_blanks txt
  | _ => false
  end.

Definition lex_refused (r : lres) : Prop :=
  match r with LErr _ | LPanic => True | _ => False end.

Lemma is_nl_not_sep c : is_nl c = true -> (c =? 59) = false /\ (c =? 41) = false.
Proof.
  unfold is_nl. intros H. apply orb_true_iff in H.
  destruct H as [H|H]; apply N.eqb_eq in H; subst; split; reflexivity.
Qed.

Lemma lex_loop_unclosed : forall f txt st cd cdv,
  unclosed_from st txt = true -> lex_refused (lex_loop f txt st cd cdv).
Proof.
  induction f as [|f IH]; intros txt st cd cdv H; [exact I|].
  cbn [lex_loop]. destruct st as [ | | | |l|l| | | | | ]; cbn [unclosed_from] in H; try discriminate.
  - (* StartLine, at "(" *)
    destruct txt as [|c r]; [discriminate|]. apply andb_true_iff in H as [Hc Hr].
    apply N.eqb_eq in Hc. subst c. cbn [step].
    change (is_nl 40) with false. change (is_ws 40) with false. cbv iota.
    apply IH. cbn [unclosed_from after_blanks]. change (40 =? 40) with true. cbv iota. exact Hr.
  - (* RestOfLine: blanks, then "(" *)
    destruct txt as [|c r]; [discriminate|]. cbn [after_blanks] in H.
    destruct (c =? 40) eqn:Hc.
    + apply N.eqb_eq in Hc. subst c. cbn [step].
      change (40 =? 64) with false. change (40 =? 40) with true. cbv iota.
      apply IH. cbn [unclosed_from]. exact H.
    + apply andb_true_iff in H as [Hb Hr]. unfold blank in Hb. apply orb_true_iff in Hb.
      destruct Hb as [Hb|Hb]; apply N.eqb_eq in Hb; subst c; cbn [step].
      * ev (32 =? 64); ev (32 =? 40); ev (32 =? 41); ev (32 =? 36); ev (is_nl 32); ev (32 =? 34);
          ev (32 =? 59); ev (is_ws 32). cbv iota. apply IH. exact Hr.
      * ev (9 =? 64); ev (9 =? 40); ev (9 =? 41); ev (9 =? 36); ev (is_nl 9); ev (9 =? 34);
          ev (9 =? 59); ev (is_ws 9). cbv iota. apply IH. exact Hr.
  - (* List *)
    apply negb_true_iff in H.
    destruct txt as [|c r]; cbn [step]; [exact I|]. cbn [closes] in H.
    destruct (c =? 59) eqn:E59.
    { apply IH. cbn [unclosed_from]. now rewrite H. }
    destruct (c =? 41) eqn:E41; [discriminate|].
    destruct (is_ws c) eqn:Ews.
    { apply IH. cbn [unclosed_from]. now rewrite H. }
    destruct (is_plain c) eqn:Epl; [|exact I].
    apply IH. cbn [unclosed_from closes]. now rewrite E59, E41, H.
  - (* CharData *)
    destruct l; [|discriminate]. apply negb_true_iff in H.
    destruct txt as [|c r]; cbn [step]; [exact I|]. cbn [closes] in H.
    cbn [negb]. rewrite andb_false_r.
    destruct (is_ws c || (c =? 41) || (c =? 59)) eqn:Esep.
    { destruct cdv as [v|]; [|exact I]. destruct cd as [s|]; [|exact I].
      apply IH. cbn [unclosed_from closes]. now rewrite H. }
    apply orb_false_iff in Esep as [Esep E59]. apply orb_false_iff in Esep as [Ews E41].
    rewrite E59, E41 in H.
    destruct (is_plain c) eqn:Epl; [|exact I].
    destruct (push cd c) as [cd'|]; [|exact I].
    apply IH. cbn [unclosed_from]. now rewrite H.
  - (* Comment *)
    destruct l; [|discriminate]. apply negb_true_iff in H.
    destruct txt as [|c r]; cbn [step]; [exact I|]. cbn [closes] in H.
    destruct (is_nl c) eqn:Enl; cbn [negb] in H.
    + destruct (is_nl_not_sep c Enl) as [E59 E41].
      apply IH. cbn [unclosed_from closes]. now rewrite E59, E41, H.
    + apply IH. cbn [unclosed_from]. now rewrite H.
Qed.

Lemma after_blanks_app bl r : forallb blank bl = true -> closes false r = false ->
  after_blanks (bl ++ 40 :: r) = true.
Proof.
  intros Hb Hr. induction bl as [|c bl IH]; cbn [app after_blanks].
  - change (40 =? 40) with true. cbv iota. now rewrite Hr.
  - cbn [forallb] in Hb. apply andb_true_iff in Hb as [Hc Hb]. rewrite Hc, (IH Hb).
    unfold blank in Hc. apply orb_true_iff in Hc.
    destruct Hc as [Hc|Hc]; apply N.eqb_eq in Hc; subst c; reflexivity.
Qed.

(* where a group can open: at the start of a line, or after any blanks in the middle of one *)
Definition at_open (st : lst) (bl : str) : Prop :=
  (st = SStartLine /\ bl = []) \/ (st = SRestOfLine /\ forallb blank bl = true).

(* the lexer, at an opening parenthesis that is never closed, returns an error *)
Theorem next_token_unclosed bl r st : at_open st bl -> closes false r = false ->
  exists e, next_token_nocap (bl ++ 40 :: r) st = LErr e.
Proof.
  intros Hst Hr.
  assert (U : unclosed_from st (bl ++ 40 :: r) = true).
  { destruct Hst as [[-> ->]|[-> Hb]]; cbn [unclosed_from app].
    - change (40 =? 40) with true. now rewrite Hr.
    - now apply after_blanks_app. }
  pose proof (lex_loop_unclosed (4 * length (bl ++ 40 :: r) + 4) (bl ++ 40 :: r) st None None U) as L.
  pose proof (next_token_nocap_total (bl ++ 40 :: r) st) as T. unfold next_token_nocap in *.
  destruct (lex_loop (4 * length (bl ++ 40 :: r) + 4) (bl ++ 40 :: r) st None None); try contradiction; eauto.
Qed.

(* the loader over the tokens that precede a point of the text *)
Lemma parse_loop_toks lex txt st toks rest st' : Toks lex txt st toks rest st' ->
  forall f c pst c', parse_loop lex f txt st c pst = ROk c' ->
  exists f' c1 pst1, parse_loop lex f' rest st' c1 pst1 = ROk c'.
Proof.
  induction 1 as [txt st|txt st t txt1 st1 ts txt2 st2 Hl HT IH]; intros f c pst c' H; [eauto|].
  destruct f as [|f]; [discriminate|]. cbn [parse_loop] in H. rewrite Hl in H.
  apply bind_ok in H as ([c1 p1] & _ & H). eapply IH; eauto.
Qed.

Theorem parse_unclosed_nocap o pre bl toks r st :
  at_open st bl ->
  Toks next_token_nocap (pre ++ bl ++ 40 :: r) SStartLine toks (bl ++ 40 :: r) st ->
  closes false r = false ->
  forall rs, parse_nocap o (pre ++ bl ++ 40 :: r) <> ROk rs.
Proof.
  intros Hst HT Hr rs H. unfold parse_nocap, parse_with in H.
  apply bind_ok in H as (c & Hc & _).
  destruct (parse_loop_toks _ _ _ _ _ _ HT _ _ _ _ Hc) as (f' & c1 & p1 & H1).
  destruct f' as [|f']; [discriminate|]. cbn [parse_loop] in H1.
  destruct (next_token_unclosed bl r st Hst Hr) as (e & He). rewrite He in H1. discriminate.
Qed.

Theorem parse_unclosed o pre bl toks r st :
  at_open st bl ->
  Toks next_token_nocap (pre ++ bl ++ 40 :: r) SStartLine toks (bl ++ 40 :: r) st ->
  closes false r = false ->
  (exists k, parse o (pre ++ bl ++ 40 :: r) = RErr k) \/ parse o (pre ++ bl ++ 40 :: r) = RUnmod \/
  (lex_cap <> None /\ parse o (pre ++ bl ++ 40 :: r) = RPanic).
Proof.
  intros Hst HT Hr. pose proof (parse_unclosed_nocap o pre bl toks r st Hst HT Hr) as N.
  destruct (parse o (pre ++ bl ++ 40 :: r)) as [rs|k| | |] eqn:E.
  - exfalso. apply (N rs). rewrite <- E. symmetry. apply parse_cap_refines. rewrite E. discriminate.
  - left. eauto.
  - right. left. reflexivity.
  - right. right. split; [|reflexivity]. intros Hc.
    first [ discriminate Hc
          | exact (parse_with_panic_free next_token_nocap o _ next_token_nocap_total E) ].
  - exfalso. exact (parse_with_no_fuel _ next_token_ok o _ E).
Qed.
