(* C20 — lexical level: every layout of a line (blanks, comments, CRLF, quoted strings,
   parenthesised groups with line breaks and comments) lexes to the tokens of its items. *)
From Coq Require Import String Ascii.
From HV Require Import Lib.Base C20.Model C20.LexProofs.
Open Scope N_scope.

(* ------------------------------------------------------------------ *)
(* big-step view of the token loop                                     *)
(* ------------------------------------------------------------------ *)

Lemma cons_snoc {A} (v : list A) x l : v ++ x :: l = (v ++ [x]) ++ l.
Proof. now rewrite <- app_assoc. Qed.

Definition cfg := (str * lst * option str * option (list str))%type.

Inductive Steps : cfg -> cfg -> Prop :=
| steps_refl c : Steps c c
| steps_cons txt st cd cdv t s c v c' :
    step txt st cd cdv = Cont t s c v -> Steps (t, s, c, v) c' -> Steps (txt, st, cd, cdv) c'.

Lemma steps_trans a b c : Steps a b -> Steps b c -> Steps a c.
Proof. induction 1; intros; [assumption|]. eapply steps_cons; eauto. Qed.

Lemma steps_one txt st cd cdv t s c v :
  step txt st cd cdv = Cont t s c v -> Steps (txt, st, cd, cdv) (t, s, c, v).
Proof. intros H. eapply steps_cons; [exact H|apply steps_refl]. Qed.

Lemma steps_tok_fuel a b : Steps a b ->
  forall txt st cd cdv t s c v tk r s', a = (txt, st, cd, cdv) -> b = (t, s, c, v) ->
  step t s c v = RetTok tk r s' -> exists f, lex_loop f txt st cd cdv = LTok tk r s'.
Proof.
  induction 1 as [x|txt0 st0 cd0 cdv0 t0 s0 c0 v0 c' Hs Hst IH];
    intros txt st cd cdv t s c v tk r s' Ea Eb Hr.
  - subst. inversion Eb; subst. exists 1%nat. cbn [lex_loop]. now rewrite Hr.
  - inversion Ea; subst.
    destruct (IH _ _ _ _ _ _ _ _ _ _ _ eq_refl eq_refl Hr) as [f Hf].
    exists (S f). cbn [lex_loop]. now rewrite Hs.
Qed.

Lemma nocap_of_loop f txt st tk r s' :
  lex_loop f txt st None None = LTok tk r s' -> next_token_nocap txt st = LTok tk r s'.
Proof.
  intros H. unfold next_token_nocap. rewrite <- H. apply lex_loop_fuel_indep.
  - apply next_token_nocap_total.
  - rewrite H. discriminate.
Qed.

(* the way token lemmas are stated and used *)
Lemma tok_of_steps txt st t s c v tk r s' :
  Steps (txt, st, None, None) (t, s, c, v) -> step t s c v = RetTok tk r s' ->
  next_token_nocap txt st = LTok tk r s'.
Proof.
  intros H1 H2. destruct (steps_tok_fuel _ _ H1 _ _ _ _ _ _ _ _ _ _ _ eq_refl eq_refl H2) as [f Hf].
  eapply nocap_of_loop; eauto.
Qed.

(* ------------------------------------------------------------------ *)
(* character facts                                                     *)
(* ------------------------------------------------------------------ *)

Lemma blank_cases c : blank c = true -> c = 32 \/ c = 9.
Proof. unfold blank. intros H. apply orb_true_iff in H as [H|H]; apply N.eqb_eq in H; auto. Qed.

Lemma wordch_facts c : wordch c = true ->
  is_plain c = true /\ (c =? 40) = false /\ (c =? 41) = false /\ (c =? 34) = false /\ (c =? 59) = false.
Proof.
  unfold wordch. intros H. repeat (apply andb_true_iff in H as [H ?]).
  repeat match goal with X : negb _ = true |- _ => apply negb_true_iff in X end.
  unfold is_plain. rewrite H, H4. repeat split; assumption.
Qed.

Lemma plain_facts c : is_plain c = true -> is_ws c = false /\ is_ctl c = false /\ is_nl c = false.
Proof.
  intros H. pose proof (plain_not_nl c H). unfold is_plain in H.
  apply andb_true_iff in H as [H1 H2]. apply negb_true_iff in H1. apply negb_true_iff in H2.
  repeat split; assumption.
Qed.

(* ------------------------------------------------------------------ *)
(* single steps                                                        *)
(* ------------------------------------------------------------------ *)

Lemma step_rol_blank c r cd cdv : blank c = true ->
  step (c :: r) SRestOfLine cd cdv = Cont r SRestOfLine cd cdv.
Proof. intros H. destruct (blank_cases c H); subst; reflexivity. Qed.

Lemma step_rol_word c r cd cdv : wordch c = true -> (c =? 64) = false -> (c =? 36) = false ->
  step (c :: r) SRestOfLine cd cdv = Cont (c :: r) (SCharData false) (Some []) cdv.
Proof.
  intros W H64 H36. destruct (wordch_facts c W) as (P & H40 & H41 & H34 & H59).
  destruct (plain_facts c P) as (Hws & Hctl & Hnl).
  cbn [step]. now rewrite H64, H40, H41, H36, Hnl, H34, H59, Hws, P.
Qed.

Lemma step_cd_push c r l s cdv : wordch c = true ->
  step (c :: r) (SCharData l) (Some s) cdv = Cont r (SCharData l) (Some (s ++ [c])) cdv.
Proof.
  intros W. destruct (wordch_facts c W) as (P & H40 & H41 & H34 & H59).
  destruct (plain_facts c P) as (Hws & Hctl & Hnl).
  cbn [step]. rewrite H41, H59, Hws, P. cbn. reflexivity.
Qed.

(* a word ends before a blank, a line break or a semicolon *)
Definition wend (c : N) : bool := is_ws c || (c =? 59).

Lemma wend_not41 c : wend c = true -> (c =? 41) = false.
Proof.
  unfold wend. intros H. apply orb_true_iff in H as [H|H].
  - destruct (N.eqb_spec c 41); [subst; discriminate|reflexivity].
  - apply N.eqb_eq in H. subst. reflexivity.
Qed.

Lemma step_cd_end c r s cdv : wend c = true ->
  step (c :: r) (SCharData false) (Some s) cdv = RetTok (TChar s) (c :: r) SRestOfLine.
Proof.
  intros H. pose proof (wend_not41 c H) as H41. cbn [step]. rewrite H41. cbn [andb negb].
  unfold wend in H. apply orb_true_iff in H as [H|H]; rewrite H; cbn [orb]; rewrite ?orb_true_r; reflexivity.
Qed.

Lemma steps_word_chars : forall w r l acc cdv, forallb wordch w = true ->
  Steps (w ++ r, SCharData l, Some acc, cdv) (r, SCharData l, Some (acc ++ w), cdv).
Proof.
  induction w as [|c w IH]; intros r l acc cdv H; cbn [app].
  - rewrite app_nil_r. apply steps_refl.
  - cbn [forallb] in H. apply andb_true_iff in H as [Hc Hw].
    eapply steps_cons; [apply step_cd_push; exact Hc|].
    replace (acc ++ c :: w) with ((acc ++ [c]) ++ w) by (rewrite <- app_assoc; reflexivity).
    apply IH. exact Hw.
Qed.

Lemma steps_blanks : forall g r cd cdv, forallb blank g = true ->
  Steps (g ++ r, SRestOfLine, cd, cdv) (r, SRestOfLine, cd, cdv).
Proof.
  induction g as [|c g IH]; intros r cd cdv H; cbn [app]; [apply steps_refl|].
  cbn [forallb] in H. apply andb_true_iff in H as [Hc Hg].
  eapply steps_cons; [apply step_rol_blank; exact Hc|]. apply IH. exact Hg.
Qed.

(* ------------------------------------------------------------------ *)
(* quoted strings                                                      *)
(* ------------------------------------------------------------------ *)

Lemma step_quote_esc c r s cdv : (c =? 34) || (c =? 92) = true ->
  step (92 :: c :: r) SQuote (Some s) cdv = Cont r SQuote (Some (s ++ [c])) cdv.
Proof.
  intros H. apply orb_true_iff in H as [H|H]; apply N.eqb_eq in H; subst; reflexivity.
Qed.

Lemma step_quote_plain c r s cdv : (c =? 34) || (c =? 92) = false ->
  step (c :: r) SQuote (Some s) cdv = Cont r SQuote (Some (s ++ [c])) cdv.
Proof.
  intros H. apply orb_false_iff in H as [H1 H2]. cbn [step]. now rewrite H1, H2.
Qed.

Lemma steps_quote_body : forall s r acc cdv,
  Steps (esc s ++ r, SQuote, Some acc, cdv) (r, SQuote, Some (acc ++ s), cdv).
Proof.
  induction s as [|c s IH]; intros r acc cdv; cbn [esc flat_map app].
  - rewrite app_nil_r. apply steps_refl.
  - fold (esc s). unfold esc_ch. destruct ((c =? 34) || (c =? 92)) eqn:E; cbn [app].
    + eapply steps_cons; [apply step_quote_esc; exact E|].
      replace (acc ++ c :: s) with ((acc ++ [c]) ++ s) by (rewrite <- app_assoc; reflexivity). apply IH.
    + eapply steps_cons; [apply step_quote_plain; exact E|].
      replace (acc ++ c :: s) with ((acc ++ [c]) ++ s) by (rewrite <- app_assoc; reflexivity). apply IH.
Qed.

(* ------------------------------------------------------------------ *)
(* parenthesised groups                                                *)
(* ------------------------------------------------------------------ *)

Lemma lws_cases c : blank c || is_nl c = true -> c = 32 \/ c = 9 \/ c = 13 \/ c = 10.
Proof.
  intros H. apply orb_true_iff in H as [H|H].
  - destruct (blank_cases c H); auto.
  - unfold is_nl in H. apply orb_true_iff in H as [H|H]; apply N.eqb_eq in H; auto.
Qed.

Lemma step_list_ws c r cd cdv : blank c || is_nl c = true ->
  step (c :: r) SList cd cdv = Cont r SList cd cdv.
Proof. intros H. destruct (lws_cases c H) as [->|[->|[->| ->]]]; reflexivity. Qed.

Lemma step_comment_char c r l cd cdv : is_nl c = false ->
  step (c :: r) (SComment l) cd cdv = Cont r (SComment l) cd cdv.
Proof. intros H. cbn [step]. now rewrite H. Qed.

Lemma steps_comment_text : forall t r l cd cdv, forallb (fun c => negb (is_nl c)) t = true ->
  Steps (t ++ r, SComment l, cd, cdv) (r, SComment l, cd, cdv).
Proof.
  induction t as [|c t IH]; intros r l cd cdv H; cbn [app]; [apply steps_refl|].
  cbn [forallb] in H. apply andb_true_iff in H as [Hc Ht]. apply negb_true_iff in Hc.
  eapply steps_cons; [apply step_comment_char; exact Hc|]. now apply IH.
Qed.

Lemma steps_lpiece p r cd cdv : lpiece_ok p = true ->
  Steps (render_lpiece p ++ r, SList, cd, cdv) (r, SList, cd, cdv).
Proof.
  destruct p as [c|t nl]; cbn [lpiece_ok render_lpiece]; intros H.
  - cbn [app]. apply steps_one. now apply step_list_ws.
  - apply andb_true_iff in H as [Ht Hnl]. cbn [app].
    eapply steps_cons; [reflexivity|]. rewrite <- app_assoc.
    eapply steps_trans; [apply steps_comment_text; exact Ht|]. cbn [app].
    eapply steps_cons; [cbn [step]; rewrite Hnl; reflexivity|].
    apply steps_one. apply step_list_ws. rewrite Hnl. apply orb_true_r.
Qed.

Lemma steps_lgap : forall g r cd cdv, lgap_ok g = true ->
  Steps (render_lgap g ++ r, SList, cd, cdv) (r, SList, cd, cdv).
Proof.
  induction g as [|p g IH]; intros r cd cdv H; cbn [render_lgap flat_map app]; [apply steps_refl|].
  cbn [lgap_ok forallb] in H. apply andb_true_iff in H as [Hp Hg].
  rewrite <- app_assoc. eapply steps_trans; [apply steps_lpiece; exact Hp|]. now apply IH.
Qed.

Lemma step_list_word c r cd cdv : wordch c = true ->
  step (c :: r) SList cd cdv = Cont (c :: r) (SCharData true) (Some []) cdv.
Proof.
  intros W. destruct (wordch_facts c W) as (P & H40 & H41 & H34 & H59).
  destruct (plain_facts c P) as (Hws & Hctl & Hnl).
  cbn [step]. now rewrite H59, H41, Hws, P.
Qed.

(* inside parentheses a word ends before white space, a semicolon or the closing parenthesis *)
Definition gend (c : N) : bool := is_ws c || (c =? 41) || (c =? 59).

Lemma step_cd_end_list c r s v : gend c = true ->
  step (c :: r) (SCharData true) (Some s) (Some v) = Cont (c :: r) SList None (Some (v ++ [s])).
Proof. intros H. cbn [step]. unfold gend in H. rewrite H. now rewrite andb_false_r. Qed.

(* the head of what follows a separator-or-close inside a group *)
Lemma lgap_head_gend : forall g r, lgap_ok g = true -> g <> [] ->
  exists c t, render_lgap g ++ r = c :: t /\ gend c = true.
Proof.
  intros [|p g] r H Hne; [congruence|]. cbn [lgap_ok forallb] in H. apply andb_true_iff in H as [Hp _].
  destruct p as [c|t nl]; cbn [render_lgap flat_map render_lpiece app].
  - exists c. eexists. split; [reflexivity|]. unfold gend. cbn [lpiece_ok] in Hp.
    destruct (lws_cases c Hp) as [->|[->|[->| ->]]]; reflexivity.
  - exists 59. eexists. split; [reflexivity|]. reflexivity.
Qed.

(* words of a group, accumulated in cdv *)
Lemma steps_group_words : forall ws close r v,
  group_seps_ok ws = true -> lgap_ok close = true ->
  Steps (render_group_body ws ++ render_lgap close ++ 41 :: r, SList, None, Some v)
        (41 :: r, SList, None, Some (v ++ map snd ws)).
Proof.
  induction ws as [|[g w] ws IH]; intros close r v Hs Hc.
  - cbn [render_group_body flat_map app map]. rewrite app_nil_r. now apply steps_lgap.
  - cbn [group_seps_ok] in Hs. apply andb_true_iff in Hs as [Hs Hrest].
    apply andb_true_iff in Hs as [Hs Hsep]. apply andb_true_iff in Hs as [Hg Hw].
    cbn [render_group_body flat_map fst snd]. fold (render_group_body ws).
    rewrite <- !app_assoc.
    eapply steps_trans; [apply steps_lgap; exact Hg|].
    unfold gword_ok in Hw. destruct w as [|c w]; [discriminate|].
    cbn [forallb] in Hw. pose proof Hw as Hw'. apply andb_true_iff in Hw' as [Hc0 _].
    cbn [app]. eapply steps_cons; [apply step_list_word; exact Hc0|].
    change (c :: w ++ render_group_body ws ++ render_lgap close ++ 41 :: r)
      with ((c :: w) ++ render_group_body ws ++ render_lgap close ++ 41 :: r).
    eapply steps_trans; [apply steps_word_chars; exact Hw|]. cbn [app].
    (* what follows the word starts with a separator or the closing parenthesis *)
    assert (HE : exists x t, render_group_body ws ++ render_lgap close ++ 41 :: r = x :: t /\ gend x = true).
    { destruct ws as [|[g2 w2] ws2].
      - cbn [render_group_body flat_map app]. destruct close as [|p cl].
        + exists 41. eexists. split; reflexivity.
        + apply lgap_head_gend; [exact Hc|discriminate].
      - cbn [render_group_body flat_map fst snd]. rewrite <- !app_assoc.
        cbn [group_seps_ok] in Hrest. apply andb_true_iff in Hrest as [Hr1 _].
        apply andb_true_iff in Hr1 as [Hr1 _]. apply andb_true_iff in Hr1 as [Hg2 _].
        apply lgap_head_gend; [exact Hg2|]. destruct g2; [discriminate|discriminate]. }
    destruct HE as (x & t & E & Hx). rewrite E.
    eapply steps_cons; [apply step_cd_end_list; exact Hx|]. rewrite <- E.
    cbn [map snd]. rewrite (cons_snoc v (c :: w) (map snd ws)).
    apply IH; assumption.
Qed.

(* ------------------------------------------------------------------ *)
(* one item                                                            *)
(* ------------------------------------------------------------------ *)

Definition follows (i : item) (more : str) : Prop :=
  match i with
  | IWord _ => exists c t, more = c :: t /\ wend c = true
  | IDir _ => match more with c :: _ => is_upper c = false | [] => True end
  | _ => True
  end.

Lemma word_ok_inv w : word_ok w = true ->
  exists c r, w = c :: r /\ forallb wordch w = true /\ (c =? 64) = false /\ (c =? 36) = false.
Proof.
  destruct w as [|c r]; [discriminate|]. cbn [word_ok]. intros H.
  apply andb_true_iff in H as [H H36]. apply andb_true_iff in H as [H H64].
  apply negb_true_iff in H36. apply negb_true_iff in H64. exists c, r. auto.
Qed.

Lemma dollar_steps d more : match more with c :: _ => is_upper c = false | [] => True end ->
  exists s, Steps (render_item (IDir d) ++ more, SRestOfLine, None, None) (more, SDollar, Some s, None)
           /\ step more SDollar (Some s) None = RetTok (item_tok (IDir d)) more SRestOfLine.
Proof.
  intros H. destruct d; cbn [render_item item_tok].
  - exists (s2l "ORIGIN").
    split.
    + change (s2l "$ORIGIN") with [36; 79; 82; 73; 71; 73; 78]. cbn [app].
      do 7 (eapply steps_cons; [reflexivity|]). apply steps_refl.
    + destruct more as [|c r]; [reflexivity|]. cbn [step]. rewrite H. reflexivity.
  - exists (s2l "TTL").
    split.
    + change (s2l "$TTL") with [36; 84; 84; 76]. cbn [app].
      do 4 (eapply steps_cons; [reflexivity|]). apply steps_refl.
    + destruct more as [|c r]; [reflexivity|]. cbn [step]. rewrite H. reflexivity.
Qed.

(* an item, possibly after blanks, from the RestOfLine state *)
Lemma tok_item_rol g i more : forallb blank g = true -> item_ok i = true -> follows i more ->
  next_token_nocap (g ++ render_item i ++ more) SRestOfLine = LTok (item_tok i) more SRestOfLine.
Proof.
  intros Hg Hi Hf.
  destruct i as [w|s| |d|ws close]; cbn [item_ok follows] in *.
  - (* word *)
    destruct (word_ok_inv w Hi) as (c & r & -> & Hw & H64 & H36).
    destruct Hf as (x & t & -> & Hx).
    pose proof Hw as Hw'. cbn [forallb] in Hw'. apply andb_true_iff in Hw' as [Hc _].
    eapply tok_of_steps.
    + eapply steps_trans; [apply steps_blanks; exact Hg|]. cbn [render_item item_tok app].
      eapply steps_cons; [apply step_rol_word; assumption|].
      change (c :: r ++ x :: t) with ((c :: r) ++ x :: t).
      apply steps_word_chars. exact Hw.
    + cbn [app]. apply step_cd_end. exact Hx.
  - (* quoted *)
    eapply tok_of_steps.
    + eapply steps_trans; [apply steps_blanks; exact Hg|]. cbn [render_item app].
      eapply steps_cons; [reflexivity|]. rewrite <- app_assoc. apply steps_quote_body.
    + reflexivity.
  - (* @ *)
    eapply tok_of_steps.
    + eapply steps_trans; [apply steps_blanks; exact Hg|]. cbn [render_item app].
      eapply steps_cons; [reflexivity|]. apply steps_refl.
    + reflexivity.
  - (* directive *)
    destruct (dollar_steps d more Hf) as (s & HS & HR).
    eapply tok_of_steps.
    + eapply steps_trans; [apply steps_blanks; exact Hg|]. exact HS.
    + exact HR.
  - (* group *)
    apply andb_true_iff in Hi as [Hws Hcl].
    eapply tok_of_steps.
    + eapply steps_trans; [apply steps_blanks; exact Hg|]. cbn [render_item app].
      eapply steps_cons; [reflexivity|]. rewrite <- !app_assoc. cbn [app].
      apply (steps_group_words ws close more []); assumption.
    + reflexivity.
Qed.

(* the first character of an item is not white space *)
Lemma item_head i more : item_ok i = true ->
  exists c t, render_item i ++ more = c :: t /\ is_ws c = false.
Proof.
  destruct i as [w|s| |d|ws close]; cbn [item_ok render_item]; intros H.
  - destruct (word_ok_inv w H) as (c & r & -> & Hw & _). cbn [forallb] in Hw.
    apply andb_true_iff in Hw as [Hc _]. destruct (wordch_facts c Hc) as (P & _).
    destruct (plain_facts c P) as (Hws & _). exists c. eexists. split; [reflexivity|exact Hws].
  - exists 34. eexists. split; reflexivity.
  - exists 64. eexists. split; reflexivity.
  - destruct d; exists 36; eexists; split; reflexivity.
  - exists 40. eexists. split; reflexivity.
Qed.

Lemma ws_false_nl c : is_ws c = false -> is_nl c = false.
Proof. intros H. destruct (is_nl c) eqn:E; [|reflexivity]. apply is_nl_ws in E. congruence. Qed.

(* a call that starts in StartLine on a non-blank behaves like RestOfLine *)
Lemma startline_nonblank c t r : is_ws c = false ->
  next_token_nocap (c :: t) SRestOfLine = r -> r <> LPanic -> next_token_nocap (c :: t) SStartLine = r.
Proof.
  intros Hws Hr Hnp. subst r. unfold next_token_nocap in *.
  set (f := (4 * length (c :: t) + 4)%nat) in *.
  assert (E : lex_loop (S f) (c :: t) SStartLine None None = lex_loop f (c :: t) SRestOfLine None None).
  { cbn [lex_loop step]. rewrite (ws_false_nl c Hws), Hws. reflexivity. }
  rewrite <- E. apply lex_loop_fuel_indep.
  - apply (next_token_nocap_total (c :: t) SStartLine).
  - rewrite E. exact Hnp.
Qed.

Lemma tok_item_start i more : item_ok i = true -> follows i more ->
  next_token_nocap (render_item i ++ more) SStartLine = LTok (item_tok i) more SRestOfLine.
Proof.
  intros Hi Hf. destruct (item_head i more Hi) as (c & t & E & Hws).
  rewrite E. apply startline_nonblank; [exact Hws| |discriminate].
  rewrite <- E. apply (tok_item_rol [] i more); auto.
Qed.

Lemma tok_blank c r : blank c = true ->
  next_token_nocap (c :: r) SStartLine = LTok TBlank r SRestOfLine.
Proof.
  intros H. eapply tok_of_steps.
  - apply steps_one. destruct (blank_cases c H); subst; reflexivity.
  - reflexivity.
Qed.

(* ------------------------------------------------------------------ *)
(* end of line                                                         *)
(* ------------------------------------------------------------------ *)

Lemma eol_cases e : eol_ok e = true -> e = [10] \/ e = [13; 10].
Proof. unfold eol_ok. intros H. apply orb_true_iff in H as [H|H]; apply bytes_eqb_eq in H; auto. Qed.

Lemma steps_eol e rest cd cdv : eol_ok e = true ->
  Steps (e ++ rest, SEOL, cd, cdv) (10 :: rest, SEOL, cd, cdv).
Proof.
  intros H. destruct (eol_cases e H) as [-> | ->]; cbn [app].
  - apply steps_refl.
  - apply steps_one. reflexivity.
Qed.

Lemma tok_eol_rol g cm e rest : forallb blank g = true -> comment_ok cm = true -> eol_ok e = true ->
  next_token_nocap (g ++ render_comment cm ++ e ++ rest) SRestOfLine = LTok TEOL rest SStartLine.
Proof.
  intros Hg Hc He. pose proof (steps_eol e rest None None He) as HE.
  assert (Hnl : exists x t, e ++ rest = x :: t /\ is_nl x = true).
  { destruct (eol_cases e He) as [-> | ->]; cbn [app]; eexists; eexists; split; reflexivity. }
  destruct Hnl as (x & t & Ex & Hx).
  eapply tok_of_steps.
  - eapply steps_trans; [apply steps_blanks; exact Hg|].
    destruct cm as [txt|]; cbn [render_comment comment_ok app] in *.
    + eapply steps_cons; [reflexivity|]. eapply steps_cons; [reflexivity|].
      eapply steps_trans; [apply steps_comment_text; exact Hc|].
      rewrite Ex. eapply steps_cons; [cbn [step]; rewrite Hx; reflexivity|]. rewrite <- Ex. exact HE.
    + rewrite Ex. eapply steps_cons.
      * cbn [step]. pose proof (is_nl_ws x Hx) as W.
        unfold is_nl in Hx. apply orb_true_iff in Hx as [Hx|Hx]; apply N.eqb_eq in Hx; subst x; reflexivity.
      * rewrite <- Ex. exact HE.
  - reflexivity.
Qed.

Lemma tok_eol_start cm e rest : comment_ok cm = true -> eol_ok e = true ->
  next_token_nocap (render_comment cm ++ e ++ rest) SStartLine = LTok TEOL rest SStartLine.
Proof.
  intros Hc He. destruct cm as [txt|].
  - cbn [render_comment app]. apply startline_nonblank; [reflexivity| |discriminate].
    apply (tok_eol_rol [] (Some txt) e rest); auto.
  - cbn [render_comment app]. pose proof (steps_eol e rest None None He) as HE.
    destruct (eol_cases e He) as [-> | ->]; cbn [app] in *.
    + eapply tok_of_steps; [apply steps_one; reflexivity|reflexivity].
    + eapply tok_of_steps; [eapply steps_cons; [reflexivity|]; apply steps_one; reflexivity|reflexivity].
Qed.

(* ------------------------------------------------------------------ *)
(* a whole line                                                        *)
(* ------------------------------------------------------------------ *)

Inductive Toks (lex : str -> lst -> lres) : str -> lst -> list token -> str -> lst -> Prop :=
| toks_nil txt st : Toks lex txt st [] txt st
| toks_cons txt st t txt1 st1 ts txt2 st2 :
    lex txt st = LTok t txt1 st1 -> Toks lex txt1 st1 ts txt2 st2 -> Toks lex txt st (t :: ts) txt2 st2.

Lemma toks_app lex a sa t1 b sb t2 c sc :
  Toks lex a sa t1 b sb -> Toks lex b sb t2 c sc -> Toks lex a sa (t1 ++ t2) c sc.
Proof. induction 1; intros; cbn [app]; [assumption|]. econstructor; eauto. Qed.

(* what follows the items of a line *)
Definition line_tail (cm : option str) (e rest : str) : str := render_comment cm ++ e ++ rest.

Lemma tail_head cm e rest : eol_ok e = true ->
  exists c t, line_tail cm e rest = c :: t /\ wend c = true /\ is_upper c = false.
Proof.
  intros He. unfold line_tail. destruct cm as [txt|]; cbn [render_comment app].
  - exists 59. eexists. repeat split; reflexivity.
  - destruct (eol_cases e He) as [-> | ->]; cbn [app]; eexists; eexists; repeat split; reflexivity.
Qed.

Lemma blank_head_facts c : blank c = true -> wend c = true /\ is_upper c = false.
Proof. intros H. destruct (blank_cases c H); subst; split; reflexivity. Qed.

Lemma follows_of_head i c t : wend c = true -> is_upper c = false -> follows i (c :: t).
Proof. intros H1 H2. destruct i; cbn [follows]; eauto. Qed.

Lemma toks_items : forall its g0 cm e rest,
  forallb blank g0 = true -> items_ok its = true -> eol_ok e = true ->
  exists g1, forallb blank g1 = true /\
  Toks next_token_nocap (g0 ++ render_items its ++ line_tail cm e rest) SRestOfLine
       (map (fun ig => item_tok (fst ig)) its) (g1 ++ line_tail cm e rest) SRestOfLine.
Proof.
  induction its as [|[i g] its IH]; intros g0 cm e rest Hg0 Hok He.
  - exists g0. split; [exact Hg0|]. cbn [render_items flat_map map app]. constructor.
  - cbn [items_ok] in Hok. apply andb_true_iff in Hok as [Hok Hrest].
    apply andb_true_iff in Hok as [Hok Hsep]. apply andb_true_iff in Hok as [Hi Hg].
    destruct (IH g cm e rest Hg Hrest He) as (g1 & Hg1 & HT).
    exists g1. split; [exact Hg1|].
    cbn [render_items flat_map map fst snd]. fold (render_items its).
    rewrite <- !app_assoc.
    econstructor; [|exact HT].
    apply tok_item_rol; [exact Hg0|exact Hi|].
    (* what follows the item *)
    destruct g as [|b g'].
    + cbn [app]. destruct its as [|[i2 g2] its2].
      * cbn [render_items flat_map app]. destruct (tail_head cm e rest He) as (c & t & -> & H1 & H2).
        now apply follows_of_head.
      * (* another item follows directly: the item must not need a separator *)
        rewrite orb_false_r in Hsep. apply negb_true_iff in Hsep.
        destruct i; cbn [needs_sep] in Hsep; try discriminate; exact I.
    + cbn [forallb] in Hg. apply andb_true_iff in Hg as [Hb _].
      destruct (blank_head_facts b Hb). cbn [app]. now apply follows_of_head.
Qed.

Theorem toks_line l rest : line_ok l = true ->
  Toks next_token_nocap (render_line l ++ rest) SStartLine (line_tokens l) rest SStartLine.
Proof.
  destruct l as [lead its cm e]. unfold line_ok, render_line, line_tokens. cbn [l_lead l_items l_comment l_eol].
  intros H. apply andb_true_iff in H as [H He]. apply andb_true_iff in H as [H Hc].
  apply andb_true_iff in H as [Hl Hi].
  rewrite <- !app_assoc. fold (line_tail cm e rest).
  destruct lead as [|b lead'].
  - (* no leading blank *)
    cbn [app]. destruct its as [|[i g] its'].
    + cbn [render_items flat_map map app]. econstructor; [|constructor].
      unfold line_tail. now apply tok_eol_start.
    + (* first item at column 0 *)
      cbn [items_ok] in Hi. apply andb_true_iff in Hi as [Hi Hrest].
      apply andb_true_iff in Hi as [Hi Hsep]. apply andb_true_iff in Hi as [Hit Hg].
      destruct (toks_items its' g cm e rest Hg Hrest He) as (g1 & Hg1 & HT).
      cbn [render_items flat_map map fst snd app]. fold (render_items its'). rewrite <- !app_assoc.
      econstructor.
      * apply tok_item_start; [exact Hit|].
        destruct g as [|b g'].
        -- cbn [app]. destruct its' as [|[i2 g2] its2].
           ++ cbn [render_items flat_map app]. destruct (tail_head cm e rest He) as (c & t & -> & H1 & H2).
              now apply follows_of_head.
           ++ rewrite orb_false_r in Hsep. apply negb_true_iff in Hsep.
              destruct i; cbn [needs_sep] in Hsep; try discriminate; exact I.
        -- cbn [forallb] in Hg. apply andb_true_iff in Hg as [Hb _].
           destruct (blank_head_facts b Hb). cbn [app]. now apply follows_of_head.
      * eapply toks_app; [exact HT|]. econstructor; [|constructor].
        unfold line_tail. now apply tok_eol_rol.
  - (* leading blanks *)
    cbn [forallb] in Hl. apply andb_true_iff in Hl as [Hb Hl'].
    destruct (toks_items its lead' cm e rest Hl' Hi He) as (g1 & Hg1 & HT).
    cbn [app]. econstructor; [apply tok_blank; exact Hb|].
    eapply toks_app; [exact HT|]. econstructor; [|constructor].
    unfold line_tail. now apply tok_eol_rol.
Qed.

(* ------------------------------------------------------------------ *)
(* the last line of a text that does not end with a line break         *)
(* ------------------------------------------------------------------ *)

Lemma steps_end_fuel a b : Steps a b ->
  forall txt st cd cdv t s c v r s', a = (txt, st, cd, cdv) -> b = (t, s, c, v) ->
  step t s c v = RetEnd r s' -> exists f, lex_loop f txt st cd cdv = LEnd r s'.
Proof.
  induction 1 as [x|txt0 st0 cd0 cdv0 t0 s0 c0 v0 c' Hs Hst IH];
    intros txt st cd cdv t s c v r s' Ea Eb Hr.
  - subst. inversion Eb; subst. exists 1%nat. cbn [lex_loop]. now rewrite Hr.
  - inversion Ea; subst.
    destruct (IH _ _ _ _ _ _ _ _ _ _ eq_refl eq_refl Hr) as [f Hf].
    exists (S f). cbn [lex_loop]. now rewrite Hs.
Qed.

Lemma end_of_steps txt st t s c v r s' :
  Steps (txt, st, None, None) (t, s, c, v) -> step t s c v = RetEnd r s' ->
  next_token_nocap txt st = LEnd r s'.
Proof.
  intros H1 H2. destruct (steps_end_fuel _ _ H1 _ _ _ _ _ _ _ _ _ _ eq_refl eq_refl H2) as [f Hf].
  unfold next_token_nocap. rewrite <- Hf. apply lex_loop_fuel_indep.
  - apply next_token_nocap_total.
  - rewrite Hf. discriminate.
Qed.

Definition is_end (r : lres) : Prop := match r with LEnd _ _ => True | _ => False end.

Lemma end_rol g cm : forallb blank g = true -> comment_ok cm = true ->
  is_end (next_token_nocap (g ++ render_comment cm) SRestOfLine).
Proof.
  intros Hg Hc. destruct cm as [t|]; cbn [render_comment comment_ok] in *.
  - assert (E : next_token_nocap (g ++ 59 :: t) SRestOfLine = LEnd [] SEOF).
    { eapply end_of_steps.
      - eapply steps_trans; [apply steps_blanks; exact Hg|].
        eapply steps_cons; [reflexivity|]. eapply steps_cons; [reflexivity|].
        rewrite <- (app_nil_r t). eapply steps_trans; [apply steps_comment_text; exact Hc|].
        apply steps_one. reflexivity.
      - reflexivity. }
    rewrite E. exact I.
  - rewrite app_nil_r.
    assert (E : next_token_nocap g SRestOfLine = LEnd [] SEOF).
    { eapply end_of_steps.
      - rewrite <- (app_nil_r g). eapply steps_trans; [apply steps_blanks; exact Hg|].
        apply steps_one. reflexivity.
      - reflexivity. }
    rewrite E. exact I.
Qed.

Lemma end_start cm : comment_ok cm = true -> is_end (next_token_nocap (render_comment cm) SStartLine).
Proof.
  intros Hc. destruct cm as [t|]; cbn [render_comment].
  - pose proof (end_rol [] (Some t) eq_refl Hc) as E. cbn [app render_comment] in E.
    destruct (next_token_nocap (59 :: t) SRestOfLine) eqn:R; try contradiction.
    rewrite (startline_nonblank 59 t _ eq_refl R); [exact I|discriminate].
  - exact I.
Qed.

Lemma end_eof : is_end (next_token_nocap [] SEOF).
Proof. exact I. Qed.

Lemma tok_word_eof g w : forallb blank g = true -> word_ok w = true ->
  next_token_nocap (g ++ w) SRestOfLine = LTok (TChar w) [] SEOF.
Proof.
  intros Hg Hw. destruct (word_ok_inv w Hw) as (c & r & -> & Hall & H64 & H36).
  pose proof Hall as Hw'. cbn [forallb] in Hw'. apply andb_true_iff in Hw' as [Hc _].
  eapply tok_of_steps.
  - eapply steps_trans; [apply steps_blanks; exact Hg|].
    eapply steps_cons; [apply step_rol_word; assumption|].
    rewrite <- (app_nil_r (c :: r)). apply steps_word_chars. exact Hall.
  - reflexivity.
Qed.

(* where the lexer stands after the items of a line: before the tail, or at the very end *)
Definition tail_ok (tail : str) : Prop :=
  tail = [] \/ exists c t, tail = c :: t /\ wend c = true /\ is_upper c = false.

Definition ends_ok (rem : str) (st : lst) (tail : str) : Prop :=
  (st = SRestOfLine /\ exists g1, forallb blank g1 = true /\ rem = g1 ++ tail) \/
  (tail = [] /\ rem = [] /\ st = SEOF).

Lemma toks_items_gen : forall its g0 tail,
  forallb blank g0 = true -> items_ok its = true -> tail_ok tail ->
  exists rem st, Toks next_token_nocap (g0 ++ render_items its ++ tail) SRestOfLine
                      (map (fun ig => item_tok (fst ig)) its) rem st /\ ends_ok rem st tail.
Proof.
  induction its as [|[i g] its IH]; intros g0 tail Hg0 Hok Ht.
  - exists (g0 ++ tail), SRestOfLine. split; [constructor|]. left. split; [reflexivity|]. now exists g0.
  - cbn [items_ok] in Hok. apply andb_true_iff in Hok as [Hok Hrest].
    apply andb_true_iff in Hok as [Hok Hsep]. apply andb_true_iff in Hok as [Hi Hg].
    cbn [render_items flat_map map fst snd]. fold (render_items its). rewrite <- !app_assoc.
    (* the special case: a word that runs to the end of the text *)
    destruct its as [|[i2 g2] its2].
    + cbn [render_items flat_map app map].
      destruct g as [|b g'].
      * cbn [app]. destruct Ht as [->|(c & t & -> & H1 & H2)].
        -- rewrite app_nil_r.
           destruct i as [w|s| |d|ws close].
           ++ exists [], SEOF. split; [|right; auto].
              econstructor; [apply tok_word_eof; assumption|constructor].
           ++ exists [], SRestOfLine. split; [|left; split; [reflexivity|exists []; auto]].
              econstructor; [|constructor]. rewrite <- (app_nil_r (render_item (IQuoted s))).
              apply tok_item_rol; auto. exact I.
           ++ exists [], SRestOfLine. split; [|left; split; [reflexivity|exists []; auto]].
              econstructor; [|constructor]. rewrite <- (app_nil_r (render_item IAt)).
              apply tok_item_rol; auto. exact I.
           ++ exists [], SRestOfLine. split; [|left; split; [reflexivity|exists []; auto]].
              econstructor; [|constructor]. rewrite <- (app_nil_r (render_item (IDir d))).
              apply tok_item_rol; auto. exact I.
           ++ exists [], SRestOfLine. split; [|left; split; [reflexivity|exists []; auto]].
              econstructor; [|constructor]. rewrite <- (app_nil_r (render_item (IGroup ws close))).
              apply tok_item_rol; auto. exact I.
        -- exists (c :: t), SRestOfLine. split; [|left; split; [reflexivity|exists []; auto]].
           econstructor; [|constructor]. apply tok_item_rol; auto. now apply follows_of_head.
      * cbn [forallb] in Hg. pose proof Hg as Hg'. apply andb_true_iff in Hg' as [Hb _].
        destruct (blank_head_facts b Hb).
        exists ((b :: g') ++ tail), SRestOfLine. split; [|left; split; [reflexivity|now exists (b :: g')]].
        econstructor; [|constructor]. apply tok_item_rol; auto. cbn [app]. now apply follows_of_head.
    + destruct (IH g tail Hg Hrest Ht) as (rem & st & HT & HE).
      exists rem, st. split; [|exact HE].
      econstructor; [|exact HT].
      apply tok_item_rol; [exact Hg0|exact Hi|].
      destruct g as [|b g'].
      * cbn [app]. rewrite orb_false_r in Hsep. apply negb_true_iff in Hsep.
        destruct i; cbn [needs_sep] in Hsep; try discriminate; exact I.
      * cbn [forallb] in Hg. apply andb_true_iff in Hg as [Hb _].
        destruct (blank_head_facts b Hb). cbn [app]. now apply follows_of_head.
Qed.

Lemma ends_ok_end rem st cm : ends_ok rem st (render_comment cm) -> comment_ok cm = true ->
  is_end (next_token_nocap rem st).
Proof.
  intros [(-> & g1 & Hg & ->)|(_ & -> & ->)] Hc; [now apply end_rol|exact I].
Qed.

Lemma comment_tail_ok cm : tail_ok (render_comment cm).
Proof. destruct cm as [t|]; [right; exists 59, t; repeat split|left; reflexivity]. Qed.

(* the unterminated last line: its tokens, then the end of the input *)
Theorem toks_last_line l : line_noeol_ok l = true ->
  exists rem st, Toks next_token_nocap (render_noeol l) SStartLine (line_tokens_noeol l) rem st /\
                 is_end (next_token_nocap rem st).
Proof.
  destruct l as [lead its cm e]. unfold line_noeol_ok, render_noeol, line_tokens_noeol.
  cbn [l_lead l_items l_comment].
  intros H. apply andb_true_iff in H as [H Hc]. apply andb_true_iff in H as [Hl Hi].
  destruct lead as [|b lead'].
  - cbn [app]. destruct its as [|[i g] its'].
    + cbn [render_items flat_map map app]. exists (render_comment cm), SStartLine.
      split; [constructor|now apply end_start].
    + (* first item at column 0: the first call behaves as from RestOfLine *)
      destruct (toks_items_gen ((i, g) :: its') [] (render_comment cm) eq_refl Hi (comment_tail_ok cm))
        as (rem & st & HT & HE).
      exists rem, st. split; [|eapply ends_ok_end; eauto].
      cbn [app] in HT.
      assert (ET : render_items ((i, g) :: its') ++ render_comment cm =
                   render_item i ++ (g ++ render_items its' ++ render_comment cm)).
      { cbn [render_items flat_map fst snd]. now rewrite <- !app_assoc. }
      cbn [items_ok] in Hi. apply andb_true_iff in Hi as [Hi0 _]. apply andb_true_iff in Hi0 as [Hi0 _].
      apply andb_true_iff in Hi0 as [Hit _].
      destruct (item_head i (g ++ render_items its' ++ render_comment cm) Hit) as (c & t & E & Hws).
      rewrite ET, E in *.
      inversion HT as [|? ? t0 txt1 st1 ts ? ? Hfirst Hrest]; subst.
      econstructor; [|exact Hrest].
      apply startline_nonblank; [exact Hws|exact Hfirst|discriminate].
  - cbn [forallb] in Hl. apply andb_true_iff in Hl as [Hb Hl'].
    destruct (toks_items_gen its lead' (render_comment cm) Hl' Hi (comment_tail_ok cm)) as (rem & st & HT & HE).
    exists rem, st. split; [|eapply ends_ok_end; eauto].
    cbn [app]. econstructor; [apply tok_blank; exact Hb|exact HT].
Qed.
