(* C20 — a concrete zone in the grammar of the specification (non-vacuity of the round-trip
   theorem): directives, @, inherited owner, relative and absolute names, an escaped dot, TTL (decimal or with units) and
   class (any letter case) in either order or omitted, parentheses with line breaks and a comment, CRLF, blank and
   comment lines, a quoted string with escaped quotes, an unquoted string. *)
From Coq Require Import String Ascii.
From HV Require Import Lib.Base C20.Model C20.LexProofs C20.FieldProofs C20.LineProofs C20.ZoneProofs.
Open Scope N_scope.

Definition sp : str := [32].
Definition w (s : string) : item := IWord (s2l s).
Definition ex_origin : list str := [s2l "example"; s2l "com"].
Definition nm (l : list string) : list str := map s2l l.

Definition ex_lines : list line := [
  (* $TTL 1h ; default *)
  MkLine [] [(IDir DTtl, sp); (w "1h", sp)] (Some (s2l " default")) [10];
  (* @ IN SOA ns1 admin\.mail ( 1 ; serial <nl> 7200 900 <nl> 1209600 300 ) <crlf> *)
  MkLine [] [(IAt, sp); (w "IN", [32; 32]); (w "SOA", [9]); (w "ns1", sp); (w "admin\.mail", sp);
             (IGroup [([LBlank 32], s2l "1");
                      ([LBlank 32; LComment (s2l " serial") 10; LBlank 32], s2l "2h");
                      ([LBlank 32], s2l "15M");
                      ([LBlank 10; LBlank 9], s2l "2w");
                      ([LBlank 32], s2l "4m60")] [LBlank 32], [])] None [13; 10];
  (* <tab> NS ns1 *)
  MkLine [9] [(w "NS", sp); (w "ns1", [])] None [10];
  (* ns1 60 A 192.0.2.1 *)
  MkLine [] [(w "ns1", sp); (w "60", sp); (w "A", sp); (w "192.0.2.1", [])] None [10];
  (* empty line, comment line *)
  MkLine [] [] None [10];
  MkLine [32] [] (Some (s2l " mail (and ""text"")")) [10];
  (* txt.example.com. CH 300 TXT "hello \"world\"" plain *)
  MkLine [] [(w "txt.example.com.", sp); (w "CH", sp); (w "300", sp); (w "TXT", sp);
             (IQuoted (s2l "hello ""world"""), sp); (w "plain", [])] None [10];
  (* $ORIGIN sub   (relative: completed with the current origin example.com.) *)
  MkLine [] [(IDir DOrigin, sp); (w "sub", [])] None [10];
  (* www IN CNAME ns1.example.com. ;c *)
  MkLine [] [(w "www", sp); (w "in", sp); (w "Cname", sp); (w "ns1.example.com.", sp)] (Some (s2l "c")) [10]
].

Definition ex_recs : list srec := [
  MkSrec ex_origin 1 3600 (SSOA (nm ["ns1"; "example"; "com"]%string) (nm ["admin.mail"; "example"; "com"]%string) 1 7200 900 1209600 300);
  MkSrec ex_origin 1 3600 (SNS (nm ["ns1"; "example"; "com"]%string));
  MkSrec (nm ["ns1"; "example"; "com"]%string) 1 60 (SA 192 0 2 1);
  MkSrec (nm ["txt"; "example"; "com"]%string) 3 300 (STXT [s2l "hello ""world"""; s2l "plain"]);
  MkSrec (nm ["www"; "sub"; "example"; "com"]%string) 1 3600 (SCNAME (nm ["ns1"; "example"; "com"]%string))
].


Lemma ex_zone_toks : ZoneToks (ps0 ex_origin) (map line_tokens ex_lines) ex_recs.
Proof.
  unfold ex_lines, ex_recs. cbn [map].
  (* $TTL 1h *)
  eapply zt_skip.
  { apply (lt_ttl _ 3600 (s2l "1h")); [vm_compute; discriminate|].
    apply (tt_units 3600 [(1, 104)]); [discriminate|reflexivity]. }
  (* @ IN SOA ns1 admin\.mail ( 1 2h 15M 2w 4m60 ) *)
  eapply zt_rec.
  { eapply (lt_rec_eq _ _ [TAt] [TChar (s2l "IN")] false (s2l "SOA")
              [TChar (s2l "ns1"); TChar (s2l "admin\.mail"); TList (map s2l ["1"; "2h"; "15M"; "2w"; "4m60"]%string)]
              (map s2l ["ns1"; "admin\.mail"; "1"; "2h"; "15M"; "2w"; "4m60"]%string)).
    - apply ot_at. reflexivity.
    - apply tc_class; reflexivity.
    - reflexivity.
    - cbn [s_data p_origin ps0].
      apply (dw_soa _ _ _ (s2l "ns1") (s2l "admin\.mail") 1 7200 900 1209600 300 (s2l "2h") (s2l "15M") (s2l "2w") (s2l "4m60")).
      + apply (nt_rel_eq _ _ [s2l "ns1"]); [discriminate|reflexivity|reflexivity].
      + apply (nt_rel_eq _ _ [s2l "admin.mail"]); [discriminate|reflexivity|reflexivity].
      + apply (tt_units 7200 [(2, 104)]); [discriminate|reflexivity].
      + apply (tt_units 900 [(15, 77)]); [discriminate|reflexivity].
      + apply (tt_units 1209600 [(2, 119)]); [discriminate|reflexivity].
      + apply (tt_units_secs 300 [(4, 109)] 240 60); [discriminate|reflexivity|reflexivity].
    - reflexivity.
    - reflexivity. }
  (* <tab> NS ns1 *)
  eapply zt_rec.
  { eapply (lt_rec_eq _ _ [TBlank] [] false (s2l "NS") [TChar (s2l "ns1")] [s2l "ns1"]).
    - apply ot_inherit. reflexivity.
    - apply tc_none; reflexivity.
    - reflexivity.
    - apply dw_ns. apply (nt_rel_eq _ _ [s2l "ns1"]); [discriminate|reflexivity|reflexivity].
    - reflexivity.
    - reflexivity. }
  (* ns1 60 A 192.0.2.1 *)
  eapply zt_rec.
  { eapply (lt_rec_eq _ _ [TChar (s2l "ns1")] [TChar (dec 60)] true (s2l "A") [TChar (s2l "192.0.2.1")] [s2l "192.0.2.1"]).
    - apply ot_text. apply (nt_rel_eq _ _ [s2l "ns1"]); [discriminate|reflexivity|reflexivity].
    - apply tc_ttl; [apply tt_dec|reflexivity].
    - reflexivity.
    - apply dw_a.
    - reflexivity.
    - reflexivity. }
  eapply zt_skip; [apply lt_blank|].
  eapply zt_skip; [apply lt_blank2|].
  (* txt.example.com. CH 300 TXT "hello \"world\"" plain *)
  eapply zt_rec.
  { eapply (lt_rec_eq _ _ [TChar (s2l "txt.example.com.")] [TChar (s2l "CH"); TChar (dec 300)] true (s2l "TXT")
              [TChar (s2l "hello ""world"""); TChar (s2l "plain")] [s2l "hello ""world"""; s2l "plain"]).
    - apply ot_text. apply nt_abs_eq. reflexivity.
    - apply tc_both2; [apply tt_dec|reflexivity].
    - reflexivity.
    - apply dw_txt.
    - reflexivity.
    - reflexivity. }
  (* $ORIGIN sub *)
  eapply zt_skip; [apply (lt_origin _ (nm ["sub"; "example"; "com"]%string) (s2l "sub"));
                     [reflexivity|apply (nt_rel_eq _ _ [s2l "sub"]); [discriminate|reflexivity|reflexivity]]|].
  (* www in Cname ns1.example.com. *)
  eapply zt_rec.
  { eapply (lt_rec_eq _ _ [TChar (s2l "www")] [TChar (s2l "in")] false (s2l "Cname") [TChar (s2l "ns1.example.com.")] [s2l "ns1.example.com."]).
    - apply ot_text. apply (nt_rel_eq _ _ [s2l "www"]); [discriminate|reflexivity|reflexivity].
    - apply tc_class; reflexivity.
    - reflexivity.
    - apply dw_cname. apply nt_abs_eq. reflexivity.
    - reflexivity.
    - reflexivity. }
  apply zt_nil.
Qed.

Lemma ex_side : forallb line_ok ex_lines = true /\ forallb srec_ok ex_recs = true /\
  distinct (map denote ex_recs) = true /\ forallb short_line ex_lines = true.
Proof. vm_compute. auto. Qed.

(* a zone whose last line has no line break and ends right after a word *)
Definition ex2_lines : list line := [ MkLine [] [(IDir DTtl, sp); (w "1h", [])] None [10] ].
Definition ex2_last : line := MkLine [] [(w "www", sp); (w "A", sp); (w "192.0.2.7", [])] None [].
Definition ex2_recs : list srec := [ MkSrec (nm ["www"; "example"; "com"]%string) 1 3600 (SA 192 0 2 7) ].

Lemma ex2_zone_toks :
  ZoneToks (ps0 ex_origin) (map line_tokens ex2_lines ++ [line_tokens_noeol ex2_last ++ [TEOL]]) ex2_recs.
Proof.
  unfold ex2_lines, ex2_last, ex2_recs. cbn [map app].
  eapply zt_skip.
  { apply (lt_ttl _ 3600 (s2l "1h")); [vm_compute; discriminate|].
    apply (tt_units 3600 [(1, 104)]); [discriminate|reflexivity]. }
  eapply zt_rec.
  { eapply (lt_rec_eq _ _ [TChar (s2l "www")] [] false (s2l "A") [TChar (s2l "192.0.2.7")] [s2l "192.0.2.7"]).
    - apply ot_text. apply (nt_rel_eq _ _ [s2l "www"]); [discriminate|reflexivity|reflexivity].
    - apply tc_none; reflexivity.
    - reflexivity.
    - apply dw_a.
    - reflexivity.
    - reflexivity. }
  apply zt_nil.
Qed.

Lemma ex2_side : forallb good_short ex2_lines = true /\ line_noeol_ok ex2_last = true /\
  (length (render_noeol ex2_last) <= 2045)%nat /\ forallb srec_ok ex2_recs = true /\
  distinct (map denote ex2_recs) = true /\
  render_zone ex2_lines ++ render_noeol ex2_last = s2l "$TTL 1h" ++ [10] ++ s2l "www A 192.0.2.7".
Proof.
  split; [vm_compute; reflexivity|]. split; [vm_compute; reflexivity|].
  split; [cbn; lia|]. split; [vm_compute; reflexivity|]. split; vm_compute; reflexivity.
Qed.
