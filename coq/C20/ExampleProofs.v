(* C20 — a concrete zone in the grammar of the specification (non-vacuity of the round-trip
   theorem): directives, @, inherited owner, relative and absolute names, an escaped dot, TTL and
   class in either order or omitted, parentheses with line breaks and a comment, CRLF, blank and
   comment lines, a quoted string with escaped quotes, an unquoted string. *)
From Coq Require Import String Ascii.
From HV Require Import Lib.Base C20.Model C20.LexProofs C20.FieldProofs C20.LineProofs C20.ZoneProofs.
Open Scope N_scope.

Definition sp : str := [32].
Definition w (s : string) : item := IWord (s2l s).
Definition ex_origin : list str := [s2l "example"; s2l "com"].
Definition nm (l : list string) : list str := map s2l l.

Definition ex_lines : list line := [
  (* $TTL 3600 ; default *)
  MkLine [] [(IDir DTtl, sp); (w "3600", sp)] (Some (s2l " default")) [10];
  (* @ IN SOA ns1 admin\.mail ( 1 ; serial <nl> 7200 900 <nl> 1209600 300 ) <crlf> *)
  MkLine [] [(IAt, sp); (w "IN", [32; 32]); (w "SOA", [9]); (w "ns1", sp); (w "admin\.mail", sp);
             (IGroup [([LBlank 32], s2l "1");
                      ([LBlank 32; LComment (s2l " serial") 10; LBlank 32], s2l "7200");
                      ([LBlank 32], s2l "900");
                      ([LBlank 10; LBlank 9], s2l "1209600");
                      ([LBlank 32], s2l "300")] [LBlank 32], [])] None [13; 10];
  (* <tab> NS ns1 *)
  MkLine [9] [(w "NS", sp); (w "ns1", [])] None [10];
  (* ns1 60 A 192.0.2.1 *)
  MkLine [] [(w "ns1", sp); (w "60", sp); (w "A", sp); (w "192.0.2.1", [])] None [10];
  (* empty line, comment line *)
  MkLine [] [] None [10];
  MkLine [32] [] (Some (s2l " mail (and ""text"")")) [10];
  (* txt.example.com. CH 300 TXT "hello \"world\"" plain *)
  MkLine [] [(w "txt.example.com.", sp); (w "CH", sp); (w "300", sp); (w "TXT", sp);
             (IQuoted (s2l "hello ""world"""), sp); (w "plain", [])] None [10];
  (* $ORIGIN sub.example.com. *)
  MkLine [] [(IDir DOrigin, sp); (w "sub.example.com.", [])] None [10];
  (* www IN CNAME ns1.example.com. ;c *)
  MkLine [] [(w "www", sp); (w "IN", sp); (w "CNAME", sp); (w "ns1.example.com.", sp)] (Some (s2l "c")) [10]
].

Definition ex_recs : list srec := [
  MkSrec ex_origin 1 3600 (SSOA (nm ["ns1"; "example"; "com"]%string) (nm ["admin.mail"; "example"; "com"]%string) 1 7200 900 1209600 300);
  MkSrec ex_origin 1 3600 (SNS (nm ["ns1"; "example"; "com"]%string));
  MkSrec (nm ["ns1"; "example"; "com"]%string) 1 60 (SA 192 0 2 1);
  MkSrec (nm ["txt"; "example"; "com"]%string) 3 300 (STXT [s2l "hello ""world"""; s2l "plain"]);
  MkSrec (nm ["www"; "sub"; "example"; "com"]%string) 1 3600 (SCNAME (nm ["ns1"; "example"; "com"]%string))
].


Lemma ex_zone_toks : ZoneToks (ps0 ex_origin) (map line_tokens ex_lines) ex_recs.
Proof.
  unfold ex_lines, ex_recs. cbn [map].
  (* $TTL 3600 *)
  eapply zt_skip; [apply (lt_ttl _ 3600); vm_compute; discriminate|].
  (* @ IN SOA ... *)
  eapply zt_rec.
  { eapply (lt_rec_eq _ _ [TAt] [TChar (class_text 1)] false
              [TChar (s2l "ns1"); TChar (s2l "admin\.mail"); TList (map s2l ["1"; "7200"; "900"; "1209600"; "300"]%string)]).
    - apply ot_at. reflexivity.
    - apply tc_class. reflexivity.
    - cbn [s_data p_origin ps0]. apply dw_soa.
      + apply (nt_rel_eq _ _ [s2l "ns1"]); [discriminate|reflexivity|reflexivity].
      + apply (nt_rel_eq _ _ [s2l "admin.mail"]); [discriminate|reflexivity|reflexivity].
    - reflexivity.
    - reflexivity. }
  (* <tab> NS ns1 *)
  eapply zt_rec.
  { eapply (lt_rec_eq _ _ [TBlank] [] false [TChar (s2l "ns1")]).
    - apply ot_inherit. reflexivity.
    - apply tc_none; reflexivity.
    - apply dw_ns. apply (nt_rel_eq _ _ [s2l "ns1"]); [discriminate|reflexivity|reflexivity].
    - reflexivity.
    - reflexivity. }
  (* ns1 60 A 192.0.2.1 *)
  eapply zt_rec.
  { eapply (lt_rec_eq _ _ [TChar (s2l "ns1")] [TChar (dec 60)] true [TChar (s2l "192.0.2.1")]).
    - apply ot_text. apply (nt_rel_eq _ _ [s2l "ns1"]); [discriminate|reflexivity|reflexivity].
    - apply tc_ttl. reflexivity.
    - apply dw_a.
    - reflexivity.
    - reflexivity. }
  eapply zt_skip; [apply lt_blank|].
  eapply zt_skip; [apply lt_blank2|].
  (* txt.example.com. CH 300 TXT "hello \"world\"" plain *)
  eapply zt_rec.
  { eapply (lt_rec_eq _ _ [TChar (s2l "txt.example.com.")] [TChar (class_text 3); TChar (dec 300)] true
              [TChar (s2l "hello ""world"""); TChar (s2l "plain")]).
    - apply ot_text. apply nt_abs_eq. reflexivity.
    - apply tc_both2.
    - apply dw_txt.
    - reflexivity.
    - reflexivity. }
  (* $ORIGIN sub.example.com. *)
  eapply zt_skip; [apply (lt_origin _ (nm ["sub"; "example"; "com"]%string)); reflexivity|].
  (* www IN CNAME ns1.example.com. *)
  eapply zt_rec.
  { eapply (lt_rec_eq _ _ [TChar (s2l "www")] [TChar (class_text 1)] false [TChar (s2l "ns1.example.com.")]).
    - apply ot_text. apply (nt_rel_eq _ _ [s2l "www"]); [discriminate|reflexivity|reflexivity].
    - apply tc_class. reflexivity.
    - apply dw_cname. apply nt_abs_eq. reflexivity.
    - reflexivity.
    - reflexivity. }
  apply zt_nil.
Qed.

Lemma ex_side : forallb line_ok ex_lines = true /\ forallb srec_ok ex_recs = true /\
  distinct (map denote ex_recs) = true /\ forallb short_line ex_lines = true.
Proof. vm_compute. auto. Qed.
