(* C07 — recursion depth (fuel is never exhausted: nesting is bounded by max_request_depth + 2)
   and absence of panics. *)
From Coq Require Import FunctionalExtensionality.
From HV Require Import Lib.Base C07.Model C07.ChainProofs.
Open Scope N_scope.


Section Term.
  Variable U : query -> ureply.
  Variable anchors : list N.
  Variable now : N.
  Variable maxd : nat.
  Variable nsecv nsec3v : query -> N -> list vrr -> list vrr -> list nat -> proof.
  Variable sched : list (nat * rr) -> list (nat * rr).

  Section WithLk.
    Variable lk : query -> vres.

    Lemma fetch_ds_panic : forall z, fetch_ds_records lk z = DsPanic -> lk (z, T_DS) = VPanic.
    Proof.
      intros z H. unfold fetch_ds_records in H.
      destruct (lk (z, T_DS)) as [rc a au|p rc a au| | |]; try discriminate; try reflexivity.
      destruct (existsb (fun v => is_ds (fst v) && is_secure (snd v)) a).
      - destruct (ds_split None [] (filter (fun v => is_ds (fst v)) a)) as [unk sup].
        destruct unk as [[|]|]; try discriminate; destruct sup; discriminate.
      - destruct (negb (existsb (fun v => is_ds (fst v)) a)); discriminate.
    Qed.

    Lemma fetch_ds_fuel : forall z, fetch_ds_records lk z = DsFuel -> lk (z, T_DS) = VFuel.
    Proof.
      intros z H. unfold fetch_ds_records in H.
      destruct (lk (z, T_DS)) as [rc a au|p rc a au| | |]; try discriminate; try reflexivity.
      destruct (existsb (fun v => is_ds (fst v) && is_secure (snd v)) a).
      - destruct (ds_split None [] (filter (fun v => is_ds (fst v)) a)) as [unk sup].
        destruct unk as [[|]|]; try discriminate; destruct sup; discriminate.
      - destruct (negb (existsb (fun v => is_ds (fst v)) a)); discriminate.
    Qed.

    Lemma find_ds_panic : forall n, find_ds_records U lk n = PPanic -> exists q, lk q = VPanic.
    Proof.
      induction n as [|x n IH]; intros H; cbn [find_ds_records] in H; [discriminate|].
      match type of H with context [U ?a] => destruct (U a) as [r|rc au|] end; try discriminate; auto.
      match type of H with (if ?c then _ else _) = _ => destruct c end; auto.
      destruct (fetch_ds_records lk (x :: n)) eqn:E; try discriminate.
      eexists. eapply fetch_ds_panic; eauto.
    Qed.

    Lemma find_ds_fuel : forall n, find_ds_records U lk n = PFuel -> exists q, lk q = VFuel.
    Proof.
      induction n as [|x n IH]; intros H; cbn [find_ds_records] in H; [discriminate|].
      match type of H with context [U ?a] => destruct (U a) as [r|rc au|] end; try discriminate; auto.
      match type of H with (if ?c then _ else _) = _ => destruct c end; auto.
      destruct (fetch_ds_records lk (x :: n)) eqn:E; try discriminate.
      eexists. eapply fetch_ds_fuel; eauto.
    Qed.

    Lemma dnskey_rrset_panic : forall k recs sigs,
      verify_dnskey_rrset anchors now lk k recs sigs = PPanic -> exists q, lk q = VPanic.
    Proof.
      intros k recs sigs H. unfold verify_dnskey_rrset in H.
      match type of H with (match (if ?c then _ else _) with _ => _ end) = _ => destruct c end.
      - destruct (fetch_ds_records lk (fst k)) eqn:E; try discriminate.
        + match type of H with (if ?c then _ else _) = _ => destruct c; [discriminate|] end.
          match type of H with (match ?x with _ => _ end) = _ => destruct x; [discriminate|] end.
          match type of H with (if ?c then _ else _) = _ => destruct c; [|discriminate] end.
          destruct recs; discriminate.
        + eexists. eapply fetch_ds_panic; eauto.
      - match type of H with (if ?c then _ else _) = _ => destruct c; [discriminate|] end.
        match type of H with (match ?x with _ => _ end) = _ => destruct x; [discriminate|] end.
        match type of H with (if ?c then _ else _) = _ => destruct c; [|discriminate] end.
        destruct recs; discriminate.
    Qed.

    Lemma dnskey_rrset_fuel : forall k recs sigs,
      verify_dnskey_rrset anchors now lk k recs sigs = PFuel -> exists q, lk q = VFuel.
    Proof.
      intros k recs sigs H. unfold verify_dnskey_rrset in H.
      match type of H with (match (if ?c then _ else _) with _ => _ end) = _ => destruct c end.
      - destruct (fetch_ds_records lk (fst k)) eqn:E; try discriminate.
        + match type of H with (if ?c then _ else _) = _ => destruct c; [discriminate|] end.
          match type of H with (match ?x with _ => _ end) = _ => destruct x; [discriminate|] end.
          match type of H with (if ?c then _ else _) = _ => destruct c; [|discriminate] end.
          destruct recs; discriminate.
        + eexists. eapply fetch_ds_fuel; eauto.
      - match type of H with (if ?c then _ else _) = _ => destruct c; [discriminate|] end.
        match type of H with (match ?x with _ => _ end) = _ => destruct x; [discriminate|] end.
        match type of H with (if ?c then _ else _) = _ => destruct c; [|discriminate] end.
        destruct recs; discriminate.
    Qed.

    Lemma select_ok_panic : forall k recs vs, select_ok now lk k recs vs = PPanic -> exists q, lk q = VPanic.
    Proof.
      induction vs as [|[i s] vs IH]; intros H; cbn [select_ok] in H; [discriminate|].
      destruct (lk (sig_signer s, T_DNSKEY)) eqn:E; try discriminate; eauto.
      destruct (verify_rrsig_with_keys now k recs s a); discriminate.
    Qed.

    Lemma select_ok_fuel : forall k recs vs, select_ok now lk k recs vs = PFuel -> exists q, lk q = VFuel.
    Proof.
      induction vs as [|[i s] vs IH]; intros H; cbn [select_ok] in H; [discriminate|].
      destruct (lk (sig_signer s, T_DNSKEY)) eqn:E; try discriminate; eauto.
      destruct (verify_rrsig_with_keys now k recs s a); discriminate.
    Qed.

    Lemma default_rrset_panic : forall oq k recs sigs,
      verify_default_rrset U now sched lk oq k recs sigs = PPanic -> exists q, lk q = VPanic.
    Proof.
      intros oq k recs sigs H. unfold verify_default_rrset in H. destruct sigs as [|s0 sigs].
      - destruct (snd k =? T_DS); [discriminate|].
        destruct (find_ds_records U lk _) as [p i| |] eqn:E; try discriminate.
        + destruct p; discriminate.
        + eapply find_ds_panic; eauto.
      - match type of H with (match ?x with _ => _ end) = _ => destruct x; [discriminate|] end.
        eapply select_ok_panic; eauto.
    Qed.

    Lemma default_rrset_fuel : forall oq k recs sigs,
      verify_default_rrset U now sched lk oq k recs sigs = PFuel -> exists q, lk q = VFuel.
    Proof.
      intros oq k recs sigs H. unfold verify_default_rrset in H. destruct sigs as [|s0 sigs].
      - destruct (snd k =? T_DS); [discriminate|].
        destruct (find_ds_records U lk _) as [p i| |] eqn:E; try discriminate.
        + destruct p; discriminate.
        + eapply find_ds_fuel; eauto.
      - match type of H with (match ?x with _ => _ end) = _ => destruct x; [discriminate|] end.
        eapply select_ok_fuel; eauto.
    Qed.

    Lemma rrsets_panic : forall d oq sec,
      any_bad (verify_rrsets U anchors now sched lk d oq sec) is_ppanic = true -> exists q, lk q = VPanic.
    Proof.
      intros d oq sec H. unfold any_bad in H. apply existsb_exists in H. destruct H as ([k v] & Hin & Hv).
      cbn [snd] in Hv. unfold verify_rrsets in Hin. apply in_map_iff in Hin. destruct Hin as (k' & E & Hk).
      inversion E; subst k' v. unfold verify_rrset in Hv. destruct (snd k =? T_DNSKEY).
      - destruct (verify_dnskey_rrset anchors now lk k (recs_of k sec) (sigs_of k sec)) eqn:Ev; try discriminate.
        eapply dnskey_rrset_panic; eauto.
      - destruct (verify_default_rrset U now sched lk oq k (recs_of k sec) (sigs_of k sec)) eqn:Ev; try discriminate.
        eapply default_rrset_panic; eauto.
    Qed.

    Lemma rrsets_fuel : forall d oq sec,
      any_bad (verify_rrsets U anchors now sched lk d oq sec) is_pfuel = true -> exists q, lk q = VFuel.
    Proof.
      intros d oq sec H. unfold any_bad in H. apply existsb_exists in H. destruct H as ([k v] & Hin & Hv).
      cbn [snd] in Hv. unfold verify_rrsets in Hin. apply in_map_iff in Hin. destruct Hin as (k' & E & Hk).
      inversion E; subst k' v. unfold verify_rrset in Hv. destruct (snd k =? T_DNSKEY).
      - destruct (verify_dnskey_rrset anchors now lk k (recs_of k sec) (sigs_of k sec)) eqn:Ev; try discriminate.
        eapply dnskey_rrset_fuel; eauto.
      - destruct (verify_default_rrset U now sched lk oq k (recs_of k sec) (sigs_of k sec)) eqn:Ev; try discriminate.
        eapply default_rrset_fuel; eauto.
    Qed.

    Lemma verify_response_panic : forall d q q0,
      verify_response U anchors now nsecv nsec3v sched lk d q (U q0) = VPanic -> exists q', lk q' = VPanic.
    Proof.
      intros d q q0 H. destruct (msg_of (U q0)) as [m|] eqn:Hm0.
      2:{ rewrite (verify_response_none U anchors now nsecv nsec3v sched) in H by exact Hm0. discriminate. }
      unfold verify_response in H.
      assert (Hm : (match U q0 with UOk r => Some r | UNoRec rc au => Some (mkResp rc [] au) | UErr => None end) = Some m)
        by exact Hm0.
      rewrite Hm in H. cbv zeta in H.
      destruct (any_bad (verify_rrsets U anchors now sched lk d q (ans m)) is_ppanic) eqn:Ea.
      { eapply rrsets_panic; eauto. }
      destruct (any_bad (verify_rrsets U anchors now sched lk d q (auth m)) is_ppanic) eqn:Eu.
      { eapply rrsets_panic; eauto. }
      cbn [orb] in H.
      repeat match type of H with
      | (if ?c then _ else _) = _ => destruct c; try discriminate
      | (match ?x with _ => _ end) = _ => destruct x eqn:?; try discriminate
      end.
      all: eapply find_ds_panic; eauto.
    Qed.

    Lemma verify_response_fuel : forall d q q0,
      verify_response U anchors now nsecv nsec3v sched lk d q (U q0) = VFuel -> exists q', lk q' = VFuel.
    Proof.
      intros d q q0 H. destruct (msg_of (U q0)) as [m|] eqn:Hm0.
      2:{ rewrite (verify_response_none U anchors now nsecv nsec3v sched) in H by exact Hm0. discriminate. }
      unfold verify_response in H.
      assert (Hm : (match U q0 with UOk r => Some r | UNoRec rc au => Some (mkResp rc [] au) | UErr => None end) = Some m)
        by exact Hm0.
      rewrite Hm in H. cbv zeta in H.
      destruct (any_bad (verify_rrsets U anchors now sched lk d q (ans m)) is_ppanic || any_bad (verify_rrsets U anchors now sched lk d q (auth m)) is_ppanic);
        [discriminate|].
      destruct (any_bad (verify_rrsets U anchors now sched lk d q (ans m)) is_pfuel) eqn:Ea.
      { eapply rrsets_fuel; eauto. }
      destruct (any_bad (verify_rrsets U anchors now sched lk d q (auth m)) is_pfuel) eqn:Eu.
      { eapply rrsets_fuel; eauto. }
      cbn [orb] in H.
      repeat match type of H with
      | (if ?c then _ else _) = _ => destruct c; try discriminate
      | (match ?x with _ => _ end) = _ => destruct x eqn:?; try discriminate
      end.
      all: eapply find_ds_fuel; eauto.
    Qed.
  End WithLk.

  Notation send := (send U anchors now maxd nsecv nsec3v sched).

  (* nesting never exceeds max_request_depth + 2: with that much fuel the model never runs dry *)
  Lemma send_no_fuel : forall fuel d q, (maxd + 2 <= fuel + d)%nat -> (1 <= fuel)%nat -> send fuel d q <> VFuel.
  Proof.
    induction fuel as [|f IH]; intros d q Hb H1; [lia|]. cbn [Model.send].
    destruct (maxd <? d)%nat eqn:Ed; [discriminate|]. apply Nat.ltb_ge in Ed.
    intro H. apply verify_response_fuel in H. destruct H as (q' & H).
    revert H. apply IH; lia.
  Qed.

  Lemma send_fuel_stable : forall fuel d q, (maxd + 2 <= fuel + d)%nat -> (1 <= fuel)%nat ->
    send (S fuel) d q = send fuel d q.
  Proof.
    induction fuel as [|f IH]; intros d q Hb H1; [lia|].
    change (send (S (S f)) d q) with
      (if (maxd <? d)%nat then VErr
       else verify_response U anchors now nsecv nsec3v sched (send (S f) (S d)) (S d) q (U q)).
    change (send (S f) d q) with
      (if (maxd <? d)%nat then VErr
       else verify_response U anchors now nsecv nsec3v sched (send f (S d)) (S d) q (U q)).
    destruct (maxd <? d)%nat eqn:Ed; [reflexivity|]. apply Nat.ltb_ge in Ed.
    replace (send (S f) (S d)) with (send f (S d)); [reflexivity|].
    apply functional_extensionality. intros q'. symmetry. apply IH; lia.
  Qed.

  Lemma send_more_fuel : forall extra fuel d q, (maxd + 2 <= fuel + d)%nat -> (1 <= fuel)%nat ->
    send (extra + fuel) d q = send fuel d q.
  Proof.
    induction extra as [|e IH]; intros fuel d q Hb H1; [reflexivity|].
    cbn [plus]. rewrite send_fuel_stable by lia. now apply IH.
  Qed.

  (* since /repo fed49c5 nothing in the modelled code panics, whatever the upstream sends *)
  Lemma send_no_panic : forall fuel d q, send fuel d q <> VPanic.
  Proof.
    induction fuel as [|f IH]; intros d q; cbn [Model.send]; [discriminate|].
    destruct (maxd <? d)%nat; [discriminate|].
    intro H. apply verify_response_panic in H. destruct H as (q' & H). revert H. apply IH.
  Qed.
End Term.
