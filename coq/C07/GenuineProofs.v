(* C07 — Dolev-Yao authenticity: if every key reachable from the trust anchors is honest
   (its owner signs only genuine RRsets, publishes only honest keys and only digests of honest
   keys) and signatures of honest keys cannot be forged, then an authenticated record belongs
   to an RRset that was signed, whole, by its honest operator. *)
From HV Require Import Lib.Base C07.Model C07.ChainProofs.
Open Scope N_scope.

Lemma insert_sorted_In : forall l x y, In y (insert_sorted x l) <-> y = x \/ In y l.
Proof.
  induction l as [|z l IH]; intros x y; cbn [insert_sorted].
  - cbn. intuition.
  - destruct (x <=? z).
    + cbn. intuition.
    + cbn [In]. rewrite IH. intuition.
Qed.

Lemma sort_N_In : forall l y, In y (sort_N l) <-> In y l.
Proof.
  induction l as [|x l IH]; intros y; cbn [sort_N fold_right]; [reflexivity|].
  fold (sort_N l). rewrite insert_sorted_In, IH. cbn. intuition.
Qed.

Lemma recs_of_In : forall k sec r, In r (recs_of k sec) -> In r sec /\ key_of r = k /\ is_sig r = false.
Proof.
  intros k sec r H. unfold recs_of in H. apply filter_In in H. destruct H as [Hin Hc].
  apply andb_true_iff in Hc. destruct Hc as [Hk Hs]. apply key_eqb_eq in Hk. apply negb_true_iff in Hs. auto.
Qed.

Lemma sigs_of_In : forall k sec s, In s (sigs_of k sec) -> In s sec /\ key_of s = k /\ is_sig s = true.
Proof.
  intros k sec s H. unfold sigs_of in H. apply filter_In in H. destruct H as [Hin Hc].
  apply andb_true_iff in Hc. destruct Hc as [Hk Hs]. apply key_eqb_eq in Hk. auto.
Qed.

Section DY.
  Variable U : query -> ureply.
  Variable anchors : list N.
  Variable now : N.

  Variable Honest : N -> Prop.        (* public keys whose private half only the legitimate operator holds *)
  Variable Genuine : tbs -> Prop.     (* what the honest operators have signed *)

  (* the RRset of [r], whole as delivered, is one an honest operator signed under that name and type *)
  Definition GenuineSet (r : rr) : Prop :=
    exists t k sec, Genuine t /\ Delivered U sec /\ In r (recs_of k sec) /\
      t_rids t = sort_N (map rid (recs_of k sec)) /\ t_type t = snd k /\
      tbs_name (fst k) (t_labels t) = Some (t_owner t).

  Hypothesis unforgeable : forall sec s tc alg labels ottl exp inc tag signer pk t,
    Delivered U sec -> In s sec ->
    rbody s = BSig tc alg labels ottl exp inc tag signer (SGen pk t) -> Honest pk -> Genuine t.
  Hypothesis anchors_honest : forall pk, In pk anchors -> Honest pk.
  Hypothesis keysets_honest : forall t kr sec,
    Genuine t -> t_type t = T_DNSKEY -> Delivered U sec -> In kr sec -> is_key kr = true ->
    In (rid kr) (t_rids t) -> Honest (key_pk kr).
  Hypothesis ds_honest : forall t d kr sec,
    Genuine t -> t_type t = T_DS -> Delivered U sec -> In d sec -> In (rid d) (t_rids t) ->
    DsVouches d kr -> Honest (key_pk kr).

  Lemma auth_genuine : forall r, Auth U anchors now r ->
    (is_key r = true -> Honest (key_pk r)) /\ (is_key r = false -> GenuineSet r).
  Proof.
    induction 1 as [kr Hk Ha|kr d Hd IHd Hv|r k sec s kr Hsec Hr Hs Hkr IHkr Hok Hzo].
    - split; [intros _; now apply anchors_honest|congruence].
    - assert (Hkey : is_key kr = true). { inversion Hv. unfold is_key. now rewrite H. }
      split; [intros _|congruence].
      assert (Hnk : is_key d = false). { inversion Hv. unfold is_key. now rewrite H0. }
      destruct IHd as [_ IHd]. destruct (IHd Hnk) as (t & k & sec & Hg & Hsec & Hin & Hrids & Hty & _).
      apply recs_of_In in Hin as Hin'. destruct Hin' as (Hdsec & Hkd & _).
      eapply ds_honest; [exact Hg| |exact Hsec|exact Hdsec| |exact Hv].
      + rewrite Hty, <- Hkd. unfold key_of. cbn [snd]. unfold set_type, rtype. inversion Hv. now rewrite H0.
      + rewrite Hrids. apply sort_N_In. now apply in_map.
    - inversion Hok as [kid pk alg tag tc labels ottl exp inc n Ekr Es Hl Hi He Hn Hne].
      assert (Hkk : is_key kr = true) by (unfold is_key; now rewrite Ekr).
      destruct IHkr as [IHkr _]. specialize (IHkr Hkk). unfold key_pk in IHkr. rewrite Ekr in IHkr.
      apply sigs_of_In in Hs as Hs'. destruct Hs' as (Hssec & Hks & _).
      pose proof (unforgeable _ _ _ _ _ _ _ _ _ _ _ _ Hsec Hssec Es IHkr) as Hg.
      assert (Htc : tc = snd k). { rewrite <- Hks. unfold key_of, set_type. cbn [snd]. now rewrite Es. }
      assert (HG : GenuineSet r).
      { exists (mkTbs n tc labels ottl alg exp inc tag (owner kr) (sort_N (map rid (recs_of k sec)))), k, sec.
        cbn. repeat split; auto. }
      split; [|intros _; exact HG].
      intros Hrk. apply recs_of_In in Hr as Hr'. destruct Hr' as (Hrsec & Hkr' & _).
      eapply keysets_honest; [exact Hg| |exact Hsec|exact Hrsec|exact Hrk|].
      + cbn. rewrite Htc, <- Hkr'. unfold key_of, set_type, rtype. cbn [snd]. unfold is_key in Hrk.
        destruct (rbody r); try discriminate. reflexivity.
      + cbn. apply sort_N_In. now apply in_map.
  Qed.
End DY.
