(* C07 — where Insecure comes from: every record reported Insecure traces back to a DS lookup
   that the validator accepted (VOk) and that holds no Secure DS record with a supported
   algorithm and digest type. *)
From HV Require Import Lib.Base C07.Model C07.ChainProofs.
Open Scope N_scope.

Definition usable_ds (v : vrr) : bool := is_ds (fst v) && is_secure (snd v) && negb (ds_unsupported (fst v)).

(* the validated answer to (z, DS) was accepted and contains no usable DS record *)
Definition InsecureDelegation (lk : query -> vres) (z : name) : Prop :=
  exists rc a au, lk (z, T_DS) = VOk rc a au /\ existsb usable_ds a = false.

Lemma ds_split_false : forall l acc, fst (ds_split (Some false) acc l) = Some false.
Proof.
  induction l as [|[d p] l IH]; intros acc; cbn [ds_split]; [reflexivity|].
  destruct (ds_unsupported d && (is_secure p || is_insecure p)); apply IH.
Qed.

Lemma ds_split_true : forall l unk acc,
  fst (ds_split unk acc l) = Some true ->
  forall d p, In (d, p) l -> ds_unsupported d && (is_secure p || is_insecure p) = true.
Proof.
  induction l as [|[d0 p0] l IH]; intros unk acc H d p Hin; [inversion Hin|].
  cbn [ds_split] in H. destruct (ds_unsupported d0 && (is_secure p0 || is_insecure p0)) eqn:E.
  - destruct Hin as [Hin|Hin]; [inversion Hin; subst; exact E|eapply IH; eauto].
  - rewrite ds_split_false in H. discriminate.
Qed.

Lemma ds_split_keeps : forall l unk acc d p,
  In (d, p) l -> ds_unsupported d && (is_secure p || is_insecure p) = false ->
  In (d, p) (snd (ds_split unk acc l)).
Proof.
  assert (Hacc : forall l unk acc x, In x acc -> In x (snd (ds_split unk acc l))).
  { induction l as [|[d0 p0] l IH]; intros unk acc x Hx; cbn [ds_split].
    - cbn [snd]. now apply in_rev in Hx || (apply -> in_rev; exact Hx).
    - destruct (ds_unsupported d0 && (is_secure p0 || is_insecure p0)); apply IH; [exact Hx|now right]. }
  induction l as [|[d0 p0] l IH]; intros unk acc d p Hin Hc; [inversion Hin|].
  cbn [ds_split]. destruct Hin as [Hin|Hin].
  - inversion Hin; subst. rewrite Hc. apply Hacc. now left.
  - destruct (ds_unsupported d0 && (is_secure p0 || is_insecure p0)); now apply IH.
Qed.

Section Ins.
  Variable U : query -> ureply.
  Variable anchors : list N.
  Variable now : N.
  Variable maxd : nat.
  Variable nsecv nsec3v : query -> N -> list vrr -> list vrr -> list nat -> proof.
  Variable sched : list (nat * rr) -> list (nat * rr).
  Hypothesis sched_sub : forall l x, In x (sched l) -> In x l.

  (* the event, somewhere in the nest of validated sub-queries *)
  Definition InsEvent : Prop :=
    exists fuel d z, InsecureDelegation (send U anchors now maxd nsecv nsec3v sched fuel d) z.

  Section WithLk.
    Variable lk : query -> vres.
    Variable Ev : Prop.
    Hypothesis Hdeleg : forall z, InsecureDelegation lk z -> Ev.
    Hypothesis Hlk : forall q rc a au r, (lk q = VOk rc a au \/ exists p, lk q = VNsec p rc a au) ->
                       In (r, Insecure) (a ++ au) -> Ev.

    Lemma fetch_ds_insecure : forall z, fetch_ds_records lk z = DsErr Insecure -> Ev.
    Proof.
      intros z H. apply (Hdeleg z). unfold fetch_ds_records in H.
      destruct (lk (z, T_DS)) as [rc a au|p rc a au| | |] eqn:E; try discriminate.
      exists rc, a, au. split; [exact E|].
      destruct (existsb usable_ds a) eqn:Eu; [|reflexivity]. exfalso.
      apply existsb_exists in Eu. destruct Eu as ([d p] & Hin & Hu). unfold usable_ds in Hu. cbn [fst snd] in Hu.
      rewrite !andb_true_iff in Hu. destruct Hu as [[Hd Hs] Hn]. apply negb_true_iff in Hn.
      destruct (existsb (fun v => is_ds (fst v) && is_secure (snd v)) a) eqn:E1.
      - destruct (ds_split None [] (filter (fun v => is_ds (fst v)) a)) as [unk sup] eqn:Es.
        destruct unk as [[|]|]; try (destruct sup; discriminate).
        pose proof (ds_split_true (filter (fun v => is_ds (fst v)) a) None []) as Ht. rewrite Es in Ht.
        specialize (Ht eq_refl d p). rewrite Hn in Ht. cbn in Ht.
        assert (false = true); [apply Ht|discriminate]. apply filter_In. split; [exact Hin|exact Hd].
      - assert (existsb (fun v => is_ds (fst v) && is_secure (snd v)) a = true); [|congruence].
        apply existsb_exists. exists (d, p). split; [exact Hin|]. cbn [fst snd]. now rewrite Hd, Hs.
    Qed.

    Lemma fetch_ds_unsupported : forall z dss,
      fetch_ds_records lk z = DsOk dss ->
      forallb (fun v => ds_unsupported (fst v)) (filter (fun v => is_secure (snd v) || is_insecure (snd v)) dss) = true ->
      Ev.
    Proof.
      intros z dss H Hall. apply (Hdeleg z). unfold fetch_ds_records in H.
      destruct (lk (z, T_DS)) as [rc a au|p rc a au| | |] eqn:E; try discriminate.
      exists rc, a, au. split; [exact E|].
      destruct (existsb usable_ds a) eqn:Eu; [|reflexivity]. exfalso.
      apply existsb_exists in Eu. destruct Eu as ([d p] & Hin & Hu). unfold usable_ds in Hu. cbn [fst snd] in Hu.
      rewrite !andb_true_iff in Hu. destruct Hu as [[Hd Hs] Hn]. apply negb_true_iff in Hn.
      destruct (existsb (fun v => is_ds (fst v) && is_secure (snd v)) a) eqn:E1.
      - destruct (ds_split None [] (filter (fun v => is_ds (fst v)) a)) as [unk sup] eqn:Es.
        assert (Hk : In (d, p) sup).
        { pose proof (ds_split_keeps (filter (fun v => is_ds (fst v)) a) None [] d p) as Hk. rewrite Es in Hk.
          apply Hk; [apply filter_In; split; [exact Hin|exact Hd]|]. now rewrite Hn. }
        assert (Hd' : dss = sup). { destruct unk as [[|]|]; try discriminate; destruct sup; try discriminate; now inversion H. }
        subst dss. rewrite forallb_forall in Hall.
        specialize (Hall (d, p)). cbn [fst] in Hall. rewrite Hn in Hall.
        assert (false = true); [apply Hall|discriminate]. apply filter_In. split; [exact Hk|]. cbn [snd]. now rewrite Hs.
      - destruct (negb (existsb (fun v => is_ds (fst v)) a)); discriminate.
    Qed.

    Lemma find_ds_insecure : forall n idx, find_ds_records U lk n = PV Insecure idx -> Ev.
    Proof.
      induction n as [|x n IH]; intros idx H; cbn [find_ds_records] in H; [discriminate|].
      match type of H with context [U ?a] => destruct (U a) as [r|rc au|] end; try discriminate; eauto.
      match type of H with (if ?c then _ else _) = _ => destruct c end; eauto.
      destruct (fetch_ds_records lk (x :: n)) eqn:E; try discriminate.
      inversion H; subst. eapply fetch_ds_insecure; eauto.
    Qed.

    Lemma dnskey_rrset_insecure : forall k recs sigs idx,
      verify_dnskey_rrset anchors now lk k recs sigs = PV Insecure idx -> Ev.
    Proof.
      intros k recs sigs idx H. unfold verify_dnskey_rrset in H.
      match type of H with (match (if ?c then _ else _) with _ => _ end) = _ => destruct c end.
      - destruct (fetch_ds_records lk (fst k)) as [dss|p| |] eqn:E; try discriminate.
        + match type of H with (if ?c then _ else _) = _ => destruct c eqn:Ec end.
          * apply andb_true_iff in Ec. destruct Ec as [Ec _]. eapply fetch_ds_unsupported; eauto.
          * match type of H with (match ?x with _ => _ end) = _ => destruct x; [discriminate|] end.
            match type of H with (if ?c then _ else _) = _ => destruct c; [|discriminate] end.
            match type of H with (match ?x with _ => _ end) = _ => destruct x; discriminate end.
        + inversion H; subst. eapply fetch_ds_insecure; eauto.
      - cbn in H.
        match type of H with (match ?x with _ => _ end) = _ => destruct x; [discriminate|] end.
        match type of H with (if ?c then _ else _) = _ => destruct c; [|discriminate] end.
        match type of H with (match ?x with _ => _ end) = _ => destruct x; discriminate end.
    Qed.

    Lemma verify_with_key_not_insecure : forall k recs kr s, verify_with_key now k recs kr s <> Some Insecure.
    Proof.
      intros k recs kr s. unfold verify_with_key. destruct (sig_fields_ok now (fst k) kr s); [|discriminate].
      destruct recs; [discriminate|]. destruct (mk_tbs (fst k) s (r :: recs)); [|discriminate].
      destruct (sig_verifies _ _ _); discriminate.
    Qed.

    Lemma keys_loop_insecure : forall k recs s ks ai,
      keys_loop now k recs s ai ks = Some Insecure -> ai = Some true \/ exists kr, In (kr, Insecure) ks.
    Proof.
      induction ks as [|[kr p] ks IH]; intros ai H; cbn [keys_loop] in H.
      - destruct ai as [[|]|]; try discriminate. now left.
      - destruct p.
        + destruct (verify_with_key now k recs kr s) as [p|] eqn:Ev'.
          * inversion H; subst. exfalso. eapply verify_with_key_not_insecure; eauto.
          * apply IH in H. destruct H as [H|(kr' & H)]; [discriminate|right; exists kr'; now right].
        + right. exists kr. now left.
        + apply IH in H. destruct H as [H|(kr' & H)]; [discriminate|right; exists kr'; now right].
        + apply IH in H. destruct H as [H|(kr' & H)]; [discriminate|right; exists kr'; now right].
    Qed.

    Lemma select_ok_insecure : forall k recs vs idx, select_ok now lk k recs vs = PV Insecure idx -> Ev.
    Proof.
      induction vs as [|[i s] vs IH]; intros idx H; cbn [select_ok] in H; [discriminate|].
      destruct (lk (sig_signer s, T_DNSKEY)) as [rc a au|p rc a au| | |] eqn:E; try discriminate; eauto.
      destruct (verify_rrsig_with_keys now k recs s a) as [p|] eqn:Ev'; [|discriminate].
      inversion H; subst. unfold verify_rrsig_with_keys in Ev'.
      match type of Ev' with (if ?c then _ else _) = _ => destruct c; [discriminate|] end.
      apply keys_loop_insecure in Ev'. destruct Ev' as [Ev'|(kr & Hkr)]; [discriminate|].
      apply cap_tags_In in Hkr. apply filter_In in Hkr. destruct Hkr as [Hkr _].
      eapply (Hlk (sig_signer s, T_DNSKEY) rc a au kr); [left; exact E|apply in_or_app; now left].
    Qed.

    Lemma default_rrset_insecure : forall oq k recs sigs idx,
      verify_default_rrset U now sched lk oq k recs sigs = PV Insecure idx -> Ev.
    Proof.
      intros oq k recs sigs idx H. unfold verify_default_rrset in H. destruct sigs as [|s0 sigs].
      - destruct (snd k =? T_DS); [discriminate|].
        destruct (find_ds_records U lk _) as [p i| |] eqn:E; try discriminate.
        destruct p; try discriminate. eapply find_ds_insecure; eauto.
      - match type of H with (match ?x with _ => _ end) = _ => destruct x; [discriminate|] end.
        eapply select_ok_insecure; eauto.
    Qed.

    Lemma mark_insecure : forall d oq sec r,
      In (r, Insecure) (mark (verify_rrsets U anchors now sched lk d oq sec) sec) -> Ev.
    Proof.
      intros d oq sec r Hin. unfold mark in Hin. apply in_map_iff in Hin.
      destruct Hin as ([i r0] & Em & Hir). cbn [fst snd] in Em. unfold mark_one in Em.
      destruct (lookup_verdict (key_of r0) _) as [v|] eqn:El; [|inversion Em].
      destruct v as [p idx| |]; try (inversion Em; fail).
      assert (Ep : p = Insecure).
      { destruct (is_sig r0); [destruct idx as [j|]; [destruct (j =? sig_pos (key_of r0) sec i)%nat|]|]; inversion Em; reflexivity. }
      subst p. unfold verify_rrsets in El. apply lookup_verdict_map in El. symmetry in El.
      unfold verify_rrset in El. destruct (snd (key_of r0) =? T_DNSKEY).
      - eapply dnskey_rrset_insecure; eauto.
      - eapply default_rrset_insecure; eauto.
    Qed.

    Lemma verify_response_insecure : forall d q q0 rc a au r,
      (verify_response U anchors now nsecv nsec3v sched lk d q (U q0) = VOk rc a au \/
       exists p, verify_response U anchors now nsecv nsec3v sched lk d q (U q0) = VNsec p rc a au) ->
      In (r, Insecure) (a ++ au) -> Ev.
    Proof.
      intros d q q0 rc a au r H Hin. destruct (msg_of (U q0)) as [m|] eqn:Hm.
      2:{ rewrite (verify_response_none U anchors now nsecv nsec3v sched) in H by exact Hm. destruct H as [H|[p H]]; discriminate. }
      pose proof (verify_response_shape U anchors now nsecv nsec3v sched lk d q q0 m Hm) as Hs.
      destruct H as [H|[p H]]; rewrite H in Hs; destruct Hs as (-> & ->);
        apply in_app_or in Hin; destruct Hin as [Hin|Hin]; eapply mark_insecure; eauto.
    Qed.
  End WithLk.

  Lemma send_insecure : forall fuel d q rc a au r,
    (send U anchors now maxd nsecv nsec3v sched fuel d q = VOk rc a au \/
     exists p, send U anchors now maxd nsecv nsec3v sched fuel d q = VNsec p rc a au) ->
    In (r, Insecure) (a ++ au) -> InsEvent.
  Proof.
    induction fuel as [|f IH]; intros d q rc a au r H Hin; cbn [send] in H.
    - destruct H as [H|[p H]]; discriminate.
    - destruct (maxd <? d)%nat; [destruct H as [H|[p H]]; discriminate|].
      eapply (verify_response_insecure (send U anchors now maxd nsecv nsec3v sched f (S d)) InsEvent); eauto.
      intros z Hz. exists f, (S d), z. exact Hz.
  Qed.
End Ins.
