(* C07 — soundness of the validator model: every non-signature record that comes back Secure
   is authenticated by a chain (Auth) from a trust anchor, for every upstream. *)
From HV Require Import Lib.Base C07.Model.
Open Scope N_scope.

(* ---------- equality lemmas ---------- *)

Lemma name_eqb_eq a b : name_eqb a b = true <-> a = b.
Proof. apply list_eqb_eq. intros; apply N.eqb_eq. Qed.

Lemma name_eqb_refl a : name_eqb a a = true.
Proof. now apply name_eqb_eq. Qed.

Lemma key_eqb_eq (a b : rrkey) : key_eqb a b = true <-> a = b.
Proof.
  destruct a as [n t], b as [n' t']. unfold key_eqb, query_eqb. cbn [fst snd].
  rewrite andb_true_iff, name_eqb_eq, N.eqb_eq. split; [intros [-> ->]; reflexivity|intros E; inversion E; auto].
Qed.

Lemma key_eqb_refl (a : rrkey) : key_eqb a a = true.
Proof. now apply key_eqb_eq. Qed.

Lemma tbs_eqb_eq a b : tbs_eqb a b = true -> a = b.
Proof.
  destruct a, b. unfold tbs_eqb. simpl.
  rewrite !andb_true_iff. intros [[[[[[[[[H1 H2] H3] H4] H5] H6] H7] H8] H9] H10].
  apply name_eqb_eq in H1, H9. apply N.eqb_eq in H2, H3, H4, H5, H6, H7, H8.
  apply (list_eqb_eq N.eqb) in H10; [|intros; apply N.eqb_eq]. now subst.
Qed.

Lemma zone_of_refl n : zone_of n n = true.
Proof.
  unfold zone_of, lastn. rewrite Nat.sub_diag. cbn [skipn]. rewrite name_eqb_refl, Nat.leb_refl. reflexivity.
Qed.

(* ---------- small list lemmas ---------- *)

Lemma enumerate_In {A} (l : list A) : forall i j x, In (j, x) (enumerate i l) -> In x l.
Proof.
  induction l as [|y l IH]; intros i j x H; cbn [enumerate] in H; [inversion H|].
  destruct H as [H|H]; [inversion H; subst; now left|right; eauto].
Qed.

Lemma cap_tags_In : forall ks seen x, In x (cap_tags seen ks) -> In x ks.
Proof.
  induction ks as [|[k p] ks IH]; intros seen x H; cbn [cap_tags] in H; [inversion H|].
  destruct (MAX_KEY_TAG_COLLISIONS <=? length (filter (N.eqb (key_tag k)) seen))%nat.
  - right; eauto.
  - destruct H as [H|H]; [now left|right; eauto].
Qed.

Lemma ds_split_In : forall l unk acc x,
  In x (snd (ds_split unk acc l)) -> In x acc \/ In x l.
Proof.
  induction l as [|[d p] l IH]; intros unk acc x H; cbn [ds_split] in H.
  - cbn [snd] in H. left. now apply in_rev.
  - destruct (ds_unsupported d && (is_secure p || is_insecure p)).
    + apply IH in H. destruct H; [now left|right; now right].
    + apply IH in H. destruct H as [H|H]; [|right; now right].
      destruct H as [H|H]; [right; now left|now left].
Qed.

(* ---------- signature and DS checks imply the declarative relations ---------- *)

Section Sound.
  Variable U : query -> ureply.
  Variable anchors : list N.
  Variable now : N.
  Variable maxd : nat.
  Variable nsecv nsec3v : query -> N -> list vrr -> list vrr -> list nat -> proof.
  Variable sched : list (nat * rr) -> list (nat * rr).
  Hypothesis sched_sub : forall l x, In x (sched l) -> In x l.

  Notation Auth := (Auth U anchors now).
  Notation SigOk := (SigOk now).

  Lemma verify_with_key_some : forall k recs kr s p,
    verify_with_key now k recs kr s = Some p -> recs <> [] -> p = Secure /\ SigOk k recs kr s.
  Proof.
    intros k recs kr s p H Hne. unfold verify_with_key in H.
    destruct (sig_fields_ok now (fst k) kr s) eqn:Hf; [|discriminate].
    destruct recs as [|r0 recs']; [congruence|].
    destruct (mk_tbs (fst k) s (r0 :: recs')) as [t|] eqn:Ht; [|discriminate].
    destruct (sig_verifies (key_pk kr) (sig_value s) t) eqn:Hv; [|discriminate].
    inversion H; subst p. split; [reflexivity|].
    unfold sig_fields_ok in Hf.
    destruct (rbody kr) as [|kid pk kalg ktag zone revoke| |] eqn:Ek; try discriminate.
    destruct (rbody s) as [| | |tc alg labels ottl exp inc tag signer sv] eqn:Es; try discriminate.
    rewrite !andb_true_iff in Hf. destruct Hf as [[[[[[[Hr Hz] Ha] Hl] He] Hi] Hs] Hg].
    apply negb_true_iff in Hr. apply N.eqb_eq in Ha, Hg. apply N.leb_le in Hl, He, Hi.
    apply name_eqb_eq in Hs. subst.
    unfold mk_tbs in Ht. rewrite Es in Ht.
    destruct (tbs_name (fst k) labels) as [n|] eqn:En; [|discriminate]. inversion Ht; subst t.
    unfold sig_value in Hv. rewrite Es in Hv. unfold key_pk in Hv. rewrite Ek in Hv.
    unfold sig_verifies in Hv. destruct sv as [pk' t'|]; [|discriminate].
    apply andb_true_iff in Hv. destruct Hv as [Hp Ht']. apply N.eqb_eq in Hp. apply tbs_eqb_eq in Ht'. subst.
    eapply SigOk_intro; eauto.
  Qed.

  Lemma verify_with_key_is_key : forall k recs kr s p,
    verify_with_key now k recs kr s = Some p -> is_key kr = true.
  Proof.
    intros k recs kr s p H. unfold verify_with_key in H.
    destruct (sig_fields_ok now (fst k) kr s) eqn:Hf; [|discriminate].
    unfold sig_fields_ok in Hf. unfold is_key. destruct (rbody kr); try discriminate. reflexivity.
  Qed.

  Lemma ds_loop_secure : forall dss kr att,
    ds_loop (owner kr) kr att dss = Secure ->
    exists d, In (d, Secure) dss /\
      match rbody d, rbody kr with
      | BDs dtag dalg dt dg, BKey kid _ kalg ktag zone _ =>
          dalg = kalg /\ dtag = ktag /\ dt_supported dt = true /\ zone = true /\ dg = DGen (owner kr) kid
      | _, _ => False
      end.
  Proof.
    induction dss as [|[d p] dss IH]; intros kr att H; cbn [ds_loop] in H; [discriminate|].
    assert (Hrec : forall a, ds_loop (owner kr) kr a dss = Secure ->
              exists d0, In (d0, Secure) ((d, p) :: dss) /\
                match rbody d0, rbody kr with
                | BDs dtag dalg dt dg, BKey kid _ kalg ktag zone _ =>
                    dalg = kalg /\ dtag = ktag /\ dt_supported dt = true /\ zone = true /\ dg = DGen (owner kr) kid
                | _, _ => False
                end).
    { intros a Ha. destruct (IH kr a Ha) as (d0 & Hin & Hm). exists d0. split; [now right|exact Hm]. }
    destruct (rbody d) as [| |dtag dalg dt dg|] eqn:Ed; try (now apply Hrec in H).
    destruct (rbody kr) as [|kid pk kalg ktag zone revoke| |] eqn:Ek; try (now apply Hrec in H).
    destruct (is_secure p) eqn:Hp; cbn [negb] in H; [|now apply Hrec in H].
    destruct (dalg =? kalg) eqn:Ha; cbn [negb] in H; [|now apply Hrec in H].
    destruct (dtag =? ktag) eqn:Hg; cbn [negb] in H; [|now apply Hrec in H].
    destruct (MAX_KEY_TAG_COLLISIONS <? S att)%nat; [now apply Hrec in H|].
    destruct (dt_supported dt) eqn:Hdt; cbn [andb] in H; [|now apply Hrec in H].
    destruct zone; cbn [andb] in H; [|now apply Hrec in H].
    destruct dg as [n kid'|]; [|now apply Hrec in H].
    destruct (name_eqb n (owner kr) && (kid' =? kid)) eqn:Hc; [|now apply Hrec in H].
    apply andb_true_iff in Hc. destruct Hc as [Hn Hk]. apply name_eqb_eq in Hn. apply N.eqb_eq in Hk, Ha, Hg. subst.
    exists d. split.
    - left. destruct p; try discriminate. reflexivity.
    - rewrite Ed. auto.
  Qed.

  Lemma verify_dnskey_secure : forall kr dss,
    verify_dnskey kr dss = Secure -> exists d, In (d, Secure) dss /\ DsVouches d kr.
  Proof.
    intros kr dss H. unfold verify_dnskey in H.
    destruct (rbody kr) as [|kid pk kalg ktag zone revoke| |] eqn:Ek; try discriminate.
    destruct (alg_supported kalg) eqn:Hs; [|discriminate].
    apply ds_loop_secure in H. destruct H as (d & Hin & Hm). exists d. split; [exact Hin|].
    rewrite Ek in Hm. destruct (rbody d) as [| |dtag dalg dt dg|] eqn:Ed; try contradiction.
    destruct Hm as (-> & -> & Hdt & -> & ->). eapply DsVouches_intro; eauto.
  Qed.

  (* ---------- the invariant on validated lookups ---------- *)

  Definition res_ok (v : vres) : Prop :=
    match v with
    | VOk _ a au | VNsec _ _ a au => forall r, In (r, Secure) (a ++ au) -> is_sig r = false -> Auth r
    | _ => True
    end.
  Definition lk_ok (lk : query -> vres) : Prop := forall q, res_ok (lk q).

  Section WithLk.
    Variable lk : query -> vres.
    Hypothesis Hlk : lk_ok lk.

    Lemma lk_answers_auth : forall q rc a au r,
      lk q = VOk rc a au -> In (r, Secure) a -> is_sig r = false -> Auth r.
    Proof.
      intros q rc a au r E Hin Hs. specialize (Hlk q). rewrite E in Hlk. cbn in Hlk.
      apply Hlk; [apply in_or_app; now left|exact Hs].
    Qed.

    Lemma fetch_ds_auth : forall z dss d,
      fetch_ds_records lk z = DsOk dss -> In (d, Secure) dss -> is_ds d = true -> Auth d.
    Proof.
      intros z dss d H Hin Hd. unfold fetch_ds_records in H.
      destruct (lk (z, T_DS)) as [rc a au| | | |] eqn:E; try discriminate.
      destruct (existsb (fun v => is_ds (fst v) && is_secure (snd v)) a).
      - destruct (ds_split None [] (filter (fun v => is_ds (fst v)) a)) as [unk sup] eqn:Es.
        destruct unk as [[|]|]; try discriminate.
        + destruct sup; [discriminate|]. inversion H; subst dss.
          pose proof (ds_split_In (filter (fun v => is_ds (fst v)) a) None [] (d, Secure)) as Hs.
          rewrite Es in Hs. cbn [snd] in Hs. destruct (Hs Hin) as [[]|Hf].
          apply filter_In in Hf. destruct Hf as [Hf _].
          eapply lk_answers_auth; eauto. unfold is_sig. unfold is_ds in Hd. destruct (rbody d); try discriminate; reflexivity.
        + destruct sup; [discriminate|]. inversion H; subst dss.
          pose proof (ds_split_In (filter (fun v => is_ds (fst v)) a) None [] (d, Secure)) as Hs.
          rewrite Es in Hs. cbn [snd] in Hs. destruct (Hs Hin) as [[]|Hf].
          apply filter_In in Hf. destruct Hf as [Hf _].
          eapply lk_answers_auth; eauto. unfold is_sig. unfold is_ds in Hd. destruct (rbody d); try discriminate; reflexivity.
      - destruct (negb (existsb (fun v => is_ds (fst v)) a)); discriminate.
    Qed.

    Lemma fetch_ds_err : forall z p, fetch_ds_records lk z = DsErr p -> p = Insecure \/ p = Bogus.
    Proof.
      intros z p H. unfold fetch_ds_records in H.
      destruct (lk (z, T_DS)) as [rc a au|p' rc a au| | |]; try discriminate; try (inversion H; auto; fail).
      destruct (existsb (fun v => is_ds (fst v) && is_secure (snd v)) a).
      - destruct (ds_split None [] (filter (fun v => is_ds (fst v)) a)) as [unk sup].
        destruct unk as [[|]|]; try (inversion H; auto; fail); destruct sup; inversion H; auto.
      - destruct (negb (existsb (fun v => is_ds (fst v)) a)); inversion H; auto.
    Qed.

    Lemma sig_loop_some : forall k recs kps sigs i j,
      sig_loop now k recs kps i sigs = Some j ->
      exists s kp, In s sigs /\ In kp kps /\ is_secure (snd kp) = true /\
                   exists p, verify_with_key now k recs (fst kp) s = Some p.
    Proof.
      induction sigs as [|s sigs IH]; intros i j H; cbn [sig_loop] in H; [discriminate|].
      match type of H with (if ?c then _ else _) = _ => destruct c eqn:Ec end.
      - apply existsb_exists in Ec. destruct Ec as (kp & Hin & Hc).
        rewrite !andb_true_iff in Hc. destruct Hc as [[Hs _] Hv].
        exists s, kp. repeat split; [now left|exact Hin|exact Hs|].
        destruct (verify_with_key now k recs (fst kp) s) as [p|]; [now exists p|discriminate].
      - apply IH in H. destruct H as (s0 & kp & Hs0 & rest). exists s0, kp. split; [now right|exact rest].
    Qed.

    Variable sec : list rr.
    Hypothesis Hsec : Delivered U sec.

    Lemma dnskey_rrset_secure : forall k idx r,
      verify_dnskey_rrset anchors now lk k (recs_of k sec) (sigs_of k sec) = PV Secure idx ->
      In r (recs_of k sec) -> Auth r.
    Proof.
      intros k idx r H Hr. unfold verify_dnskey_rrset in H.
      set (recs := recs_of k sec) in *. set (sigs := sigs_of k sec) in *.
      set (p0 := map (fun r => (r, if is_key r && in_anchors anchors (key_pk r) then Secure else Bogus)) recs) in *.
      set (need := negb (forallb (fun v => is_secure (snd v)) p0) && negb (is_root (fst k))) in *.
      destruct (if need then fetch_ds_records lk (fst k) else DsOk []) as [dss|p| |] eqn:Ef; try discriminate.
      2:{ inversion H; subst. destruct need; [|discriminate].
          apply fetch_ds_err in Ef. destruct Ef; discriminate. }
      match type of H with (if ?c then _ else _) = _ => destruct c; [discriminate|] end.
      set (p1 := map (fun v => if is_secure (snd v) then v else (fst v, verify_dnskey (fst v) dss)) p0) in *.
      (* every key that is Secure in p1 is authenticated *)
      assert (Hp1 : forall kp, In kp p1 -> is_secure (snd kp) = true -> Auth (fst kp)).
      { intros kp Hin Hs. unfold p1 in Hin. apply in_map_iff in Hin. destruct Hin as (v & Ev & Hv).
        unfold p0 in Hv. apply in_map_iff in Hv. destruct Hv as (r0 & Er0 & Hr0). subst v. cbn [fst snd] in Ev.
        destruct (is_key r0 && in_anchors anchors (key_pk r0)) eqn:Ea.
        - cbn in Ev. subst kp. cbn [fst]. apply andb_true_iff in Ea. destruct Ea as [Hk Ha].
          apply Auth_anchor; [exact Hk|]. unfold in_anchors in Ha. apply existsb_exists in Ha.
          destruct Ha as (x & Hx & Ex). apply N.eqb_eq in Ex. now subst.
        - cbn in Ev. subst kp. cbn [fst snd] in *.
          destruct (verify_dnskey r0 dss) eqn:Ev; try discriminate.
          destruct (verify_dnskey_secure _ _ Ev) as (d & Hd & Hv).
          eapply Auth_ds; [|exact Hv].
          destruct need.
          + eapply fetch_ds_auth; eauto. inversion Hv. unfold is_ds. now rewrite H1.
          + inversion Ef; subst dss. inversion Hd. }
      assert (Hfst : forall r0, In r0 recs -> exists kp, In kp p1 /\ fst kp = r0).
      { intros r0 Hr0. unfold p1, p0. rewrite map_map.
        eexists. split; [apply in_map_iff; exists r0; split; [reflexivity|exact Hr0]|].
        cbn [fst snd]. destruct (is_secure _); reflexivity. }
      destruct (sig_loop now k recs p1 0 sigs) as [i|] eqn:El.
      - apply sig_loop_some in El. destruct El as (s & kp & Hs & Hkp & Hsec' & p & Hv).
        assert (Hne : recs <> []). { intro E. unfold recs in *. rewrite E in Hr. inversion Hr. }
        destruct (verify_with_key_some _ _ _ _ _ Hv Hne) as [_ Hok].
        eapply Auth_sig; [exact Hsec|exact Hr|exact Hs|apply Hp1; eauto|exact Hok|].
        (* the key is a record of this very RRset: its owner is the owner of the RRset *)
        unfold p1 in Hkp. apply in_map_iff in Hkp. destruct Hkp as (v & Ev & Hv0).
        unfold p0 in Hv0. apply in_map_iff in Hv0. destruct Hv0 as (r0 & Er0 & Hr0). subst v. cbn [fst snd] in Ev.
        assert (Ef0 : fst kp = r0). { destruct (is_secure _) in Ev; subst kp; reflexivity. }
        rewrite Ef0. unfold recs, recs_of in Hr0. apply filter_In in Hr0. destruct Hr0 as [_ Hc].
        apply andb_true_iff in Hc. destruct Hc as [Hc _]. apply key_eqb_eq in Hc. rewrite <- Hc.
        unfold key_of. cbn [fst]. apply zone_of_refl.
      - destruct (forallb (fun v => is_secure (snd v)) p1) eqn:Ea; [|discriminate].
        destruct (Hfst r Hr) as (kp & Hin & Efst). subst r. apply Hp1; [exact Hin|].
        rewrite forallb_forall in Ea. now apply Ea.
    Qed.

    Lemma keys_loop_secure : forall k recs s ks ai,
      keys_loop now k recs s ai ks = Some Secure ->
      exists kr, In (kr, Secure) ks /\ verify_with_key now k recs kr s = Some Secure.
    Proof.
      induction ks as [|[kr p] ks IH]; intros ai H; cbn [keys_loop] in H.
      - destruct ai as [[|]|]; discriminate.
      - destruct p.
        + destruct (verify_with_key now k recs kr s) as [p|] eqn:Ev.
          * inversion H; subst p. exists kr. split; [now left|exact Ev].
          * apply IH in H. destruct H as (kr' & Hin & Hv). exists kr'. split; [now right|exact Hv].
        + apply IH in H. destruct H as (kr' & Hin & Hv). exists kr'. split; [now right|exact Hv].
        + apply IH in H. destruct H as (kr' & Hin & Hv). exists kr'. split; [now right|exact Hv].
        + apply IH in H. destruct H as (kr' & Hin & Hv). exists kr'. split; [now right|exact Hv].
    Qed.

    Lemma select_ok_secure : forall k recs vs idx,
      select_ok now lk k recs vs = PV Secure idx ->
      exists i s rc a au, In (i, s) vs /\ lk (sig_signer s, T_DNSKEY) = VOk rc a au /\
                          verify_rrsig_with_keys now k recs s a = Some Secure.
    Proof.
      induction vs as [|[i s] vs IH]; intros idx H; cbn [select_ok] in H; [discriminate|].
      destruct (lk (sig_signer s, T_DNSKEY)) as [rc a au| | | |] eqn:E; try discriminate.
      - destruct (verify_rrsig_with_keys now k recs s a) as [p|] eqn:Ev; [|discriminate].
        inversion H; subst. exists i, s, rc, a, au. split; [now left|split; [exact E|exact Ev]].
      - apply IH in H. destruct H as (i0 & s0 & rc' & a' & au' & Hin & rest). exists i0, s0, rc', a', au'. split; [now right|exact rest].
      - apply IH in H. destruct H as (i0 & s0 & rc' & a' & au' & Hin & rest). exists i0, s0, rc', a', au'. split; [now right|exact rest].
    Qed.

    Lemma default_rrset_secure : forall oq k idx r,
      verify_default_rrset U now sched lk oq k (recs_of k sec) (sigs_of k sec) = PV Secure idx ->
      In r (recs_of k sec) -> Auth r.
    Proof.
      intros oq k idx r H Hr. unfold verify_default_rrset in H.
      destruct (sigs_of k sec) as [|s0 sigs'] eqn:Esig.
      - destruct (snd k =? T_DS); [discriminate|].
        destruct (find_ds_records U lk (if snd k =? T_NSEC3 then base_name (fst k) else fst k)) as [p i| |] eqn:Ef;
          try discriminate.
        destruct p; discriminate.
      - set (vs := filter _ _) in H.
        destruct vs as [|v0 vs'] eqn:Evs; [discriminate|].
        apply select_ok_secure in H. destruct H as (i & s & rc & a & au & Hin & Elk & Hv).
        apply sched_sub in Hin. rewrite <- Evs in Hin. unfold vs in Hin.
        apply filter_In in Hin. destruct Hin as [Hin Hflt]. apply enumerate_In in Hin.
        cbn [fst snd] in Hflt. rewrite !andb_true_iff in Hflt. destruct Hflt as [[_ Hzone] _].
        unfold verify_rrsig_with_keys in Hv.
        match type of Hv with (if ?c then _ else _) = _ => destruct c; [discriminate|] end.
        apply keys_loop_secure in Hv. destruct Hv as (kr & Hkr & Hv).
        apply cap_tags_In in Hkr. apply filter_In in Hkr. destruct Hkr as [Hkr Hisk]. cbn [fst] in Hisk.
        assert (Hne : recs_of k sec <> []). { intro E. rewrite E in Hr. inversion Hr. }
        destruct (verify_with_key_some _ _ _ _ _ Hv Hne) as [_ Hok].
        eapply Auth_sig; [exact Hsec|exact Hr| |eapply lk_answers_auth; eauto|exact Hok|].
        + rewrite Esig. exact Hin.
        + unfold is_sig. unfold is_key in Hisk. destruct (rbody kr); try discriminate; reflexivity.
        + (* the signer name checked by the filter is the owner of the key (SigOk) *)
          inversion Hok as [kid pk alg tag tc labels ottl exp inc n Ekr Es Hl Hi He Hn Hne'].
          unfold sig_signer in Hzone. rewrite Es in Hzone. exact Hzone.
    Qed.

    Lemma verify_rrset_secure : forall oq k idx r,
      verify_rrset U anchors now sched lk oq k sec = PV Secure idx -> In r (recs_of k sec) -> Auth r.
    Proof.
      intros oq k idx r H Hr. unfold verify_rrset in H. destruct (snd k =? T_DNSKEY).
      - eapply dnskey_rrset_secure; eauto.
      - eapply default_rrset_secure; eauto.
    Qed.

    Lemma lookup_verdict_map : forall (f : rrkey -> verdict) l k v,
      lookup_verdict k (map (fun k => (k, f k)) l) = Some v -> v = f k.
    Proof.
      induction l as [|k0 l IH]; intros k v H; cbn [map lookup_verdict] in H; [discriminate|].
      destruct (key_eqb k k0) eqn:E.
      - apply key_eqb_eq in E. subst. now inversion H.
      - eauto.
    Qed.

    Lemma mark_secure : forall d oq r,
      In (r, Secure) (mark (verify_rrsets U anchors now sched lk d oq sec) sec) -> is_sig r = false -> Auth r.
    Proof.
      intros d oq r Hin Hs. unfold mark in Hin. apply in_map_iff in Hin.
      destruct Hin as ([i r0] & Em & Hir). cbn [fst snd] in Em. apply enumerate_In in Hir.
      unfold mark_one in Em.
      destruct (lookup_verdict (key_of r0) _) as [v|] eqn:El.
      2:{ inversion Em. }
      destruct v as [p idx| |]; try (inversion Em; fail).
      assert (Er : r0 = r).
      { destruct (is_sig r0); [destruct idx as [j|]; [destruct (j =? sig_pos (key_of r0) sec i)%nat|]|]; inversion Em; reflexivity. }
      subst r0. rewrite Hs in Em. inversion Em; subst p.
      unfold verify_rrsets in El. apply lookup_verdict_map in El. symmetry in El.
      eapply verify_rrset_secure; [exact El|].
      unfold recs_of. apply filter_In. split; [exact Hir|]. rewrite key_eqb_refl, Hs. reflexivity.
    Qed.
  End WithLk.

  Lemma Delivered_ans : forall q m, msg_of (U q) = Some m -> Delivered U (ans m).
  Proof. intros q m H. exists q, m. auto. Qed.
  Lemma Delivered_auth : forall q m, msg_of (U q) = Some m -> Delivered U (auth m).
  Proof. intros q m H. exists q, m. auto. Qed.

  (* every way out of verify_response carries the marked sections *)
  Lemma verify_response_shape : forall lk d q q0 m,
    msg_of (U q0) = Some m ->
    match verify_response U anchors now nsecv nsec3v sched lk d q (U q0) with
    | VOk _ a au | VNsec _ _ a au =>
          a = mark (verify_rrsets U anchors now sched lk d q (ans m)) (ans m) /\
          au = mark (verify_rrsets U anchors now sched lk d q (auth m)) (auth m)
    | _ => True
    end.
  Proof.
    intros lk d q q0 m Hm0. unfold verify_response.
    assert (Hm : (match U q0 with UOk r => Some r | UNoRec rc au => Some (mkResp rc [] au) | UErr => None end) = Some m)
      by exact Hm0.
    rewrite Hm. cbv zeta.
    set (ma := mark (verify_rrsets U anchors now sched lk d q (ans m)) (ans m)).
    set (mu := mark (verify_rrsets U anchors now sched lk d q (auth m)) (auth m)).
    repeat match goal with
    | |- match (if ?c then _ else _) with _ => _ end => destruct c
    | |- match (match ?x with _ => _ end) with _ => _ end => destruct x
    end; try exact I; try (split; reflexivity).
  Qed.

  Lemma verify_response_none : forall lk d q q0,
    msg_of (U q0) = None -> verify_response U anchors now nsecv nsec3v sched lk d q (U q0) = VErr.
  Proof.
    intros lk d q q0 H. unfold verify_response. unfold msg_of in H. destruct (U q0); try discriminate. reflexivity.
  Qed.

  Lemma verify_response_ok : forall lk d q q0,
    lk_ok lk -> res_ok (verify_response U anchors now nsecv nsec3v sched lk d q (U q0)).
  Proof.
    intros lk d q q0 Hlk. destruct (msg_of (U q0)) as [m|] eqn:Hm.
    2:{ rewrite verify_response_none by exact Hm. exact I. }
    pose proof (verify_response_shape lk d q q0 m Hm) as Hs.
    destruct (verify_response U anchors now nsecv nsec3v sched lk d q (U q0)) as [rc a au|p rc a au| | |]; try exact I.
    - destruct Hs as (-> & ->). intros r Hin Hsg. apply in_app_or in Hin. destruct Hin as [Hin|Hin].
      + eapply mark_secure; eauto. eapply Delivered_ans; eauto.
      + eapply mark_secure; eauto. eapply Delivered_auth; eauto.
    - destruct Hs as (-> & ->). intros r Hin Hsg. apply in_app_or in Hin. destruct Hin as [Hin|Hin].
      + eapply mark_secure; eauto. eapply Delivered_ans; eauto.
      + eapply mark_secure; eauto. eapply Delivered_auth; eauto.
  Qed.

  Lemma send_ok : forall fuel d q, res_ok (send U anchors now maxd nsecv nsec3v sched fuel d q).
  Proof.
    induction fuel as [|f IH]; intros d q; cbn [send]; [exact I|].
    destruct (maxd <? d)%nat; [exact I|].
    apply verify_response_ok. intros q'. apply IH.
  Qed.

  Lemma validate_sound : forall q rc a au r,
    (validate U anchors now maxd nsecv nsec3v sched q = VOk rc a au \/
     exists p, validate U anchors now maxd nsecv nsec3v sched q = VNsec p rc a au) ->
    In (r, Secure) (a ++ au) -> is_sig r = false -> Auth r.
  Proof.
    intros q rc a au r H Hin Hs. pose proof (send_ok (maxd + 2) 0 q) as Hok. unfold validate in H.
    destruct H as [H|[p H]]; rewrite H in Hok; cbn in Hok; now apply Hok.
  Qed.
End Sound.
