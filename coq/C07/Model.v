(* C07 — symbolic (Dolev-Yao) model of the validating handle
   crates/net/src/dnssec/mod.rs: DnssecDnsHandle::send, verify_response, verify_rrsets,
   verify_dnskey_rrset, verify_dnskey, verify_default_rrset, verify_rrsig_with_keys,
   verify_rrset_with_dnskey (+ RrsigValidity::check), find_ds_records, fetch_ds_records,
   and DnssecSummary::from_records / the AD-SERVFAIL mapping of
   crates/server/src/zone_handler/catalog.rs (build_forwarded_response).

   Cryptography is symbolic: a public key is an atom [pk]; a signature value is either
   [SGen pk t] (THE signature by the holder of [pk] over the to-be-signed data [t]) or [SBad]
   (anything else); a DS digest is [DGen owner kid] (THE digest of owner|DNSKEY-RDATA [kid]) or
   [DBad].  Signature verification and digest comparison are equality of these terms.
   The upstream (the network / the adversary) is an arbitrary function query -> reply.
   The NSEC / NSEC3 decision procedures (properties C08/C09) are parameters.
   The validation cache is not modelled (a fresh handle per top-level query; the cache is a
   memo table of the verdicts computed here, see props/C07.json assumptions).
   No proofs in this file. *)
From HV Require Import Lib.Base.
Open Scope N_scope.

(* ------------------------------------------------------------------ *)
(* Names, types                                                        *)
(* ------------------------------------------------------------------ *)

(* a name is its list of labels, leftmost first; labels are interned (case-folded) atoms;
   label 0 is "*" *)
Definition name := list N.
Definition name_eqb : name -> name -> bool := list_eqb N.eqb.
Definition is_root (n : name) : bool := match n with [] => true | _ => false end.
Definition base_name (n : name) : name := tl n.            (* Name::base_name; root stays root *)
Definition STAR : N := 0.
(* Name::num_labels: a leading "*" is not counted *)
Definition nlabels (n : name) : N :=
  match n with
  | [] => 0
  | x :: r => if x =? STAR then N.of_nat (length r) else N.of_nat (length n)
  end.
Definition lastn {A} (k : nat) (l : list A) : list A := skipn (length l - k) l.
(* [z] is [n] or an ancestor of [n] (Name::zone_of) *)
Definition zone_of (z n : name) : bool := name_eqb z (lastn (length z) n) && (length z <=? length n)%nat.

Definition T_NS : N := 2.
Definition T_DS : N := 43.
Definition T_RRSIG : N := 46.
Definition T_NSEC : N := 47.
Definition T_DNSKEY : N := 48.
Definition T_NSEC3 : N := 50.

Definition query := (name * N)%type.
Definition query_eqb (a b : query) : bool := name_eqb (fst a) (fst b) && (snd a =? snd b).

Inductive proof := Secure | Insecure | Bogus | Indet.
Definition proof_eqb (a b : proof) : bool :=
  match a, b with
  | Secure, Secure | Insecure, Insecure | Bogus, Bogus | Indet, Indet => true
  | _, _ => false
  end.
Definition is_secure (p : proof) := proof_eqb p Secure.
Definition is_insecure (p : proof) := proof_eqb p Insecure.

(* ------------------------------------------------------------------ *)
(* Symbolic records                                                    *)
(* ------------------------------------------------------------------ *)

(* the data an RRSIG signs (RFC 4035 5.3.2): RRSIG RDATA minus the signature, and the RRset
   (owner as reconstructed from the Labels field, the multiset of canonical RDATAs by id) *)
Record tbs := mkTbs {
  t_owner : name; t_type : N; t_labels : N; t_ottl : N; t_alg : N; t_exp : N; t_inc : N;
  t_tag : N; t_signer : name; t_rids : list N }.

Inductive sigval := SGen (pk : N) (t : tbs) | SBad.
Inductive digest := DGen (n : name) (kid : N) | DBad.

Inductive body :=
| BPlain (ty : N)                                          (* any other type, incl. NSEC/NSEC3 *)
| BKey (kid pk alg tag : N) (zone revoke : bool)           (* DNSKEY: kid = whole RDATA, pk = (alg, key bytes) *)
| BDs (tag alg dt : N) (dg : digest)                        (* DS *)
| BSig (tc alg labels ottl exp inc tag : N) (signer : name) (sv : sigval).   (* RRSIG *)

(* a record as delivered: owner, canonical-RDATA id, body (class IN; TTLs are C06's) *)
Record rr := mkRR { owner : name; rid : N; rbody : body }.

Definition rtype (r : rr) : N :=
  match rbody r with
  | BPlain ty => ty | BKey _ _ _ _ _ _ => T_DNSKEY | BDs _ _ _ _ => T_DS
  | BSig _ _ _ _ _ _ _ _ _ => T_RRSIG
  end.
Definition is_sig (r : rr) : bool := match rbody r with BSig _ _ _ _ _ _ _ _ _ => true | _ => false end.
Definition is_key (r : rr) : bool := match rbody r with BKey _ _ _ _ _ _ => true | _ => false end.
Definition is_ds (r : rr) : bool := match rbody r with BDs _ _ _ _ => true | _ => false end.
(* RrsetMap::new: RRSIGs are filed under the type they cover *)
Definition set_type (r : rr) : N := match rbody r with BSig tc _ _ _ _ _ _ _ _ => tc | _ => rtype r end.
Definition rrkey := (name * N)%type.
Definition key_of (r : rr) : rrkey := (owner r, set_type r).
Definition key_eqb : rrkey -> rrkey -> bool := query_eqb.

(* Algorithm::is_supported, DigestType::is_supported *)
Definition alg_supported (a : N) : bool :=
  (a =? 5) || (a =? 7) || (a =? 8) || (a =? 10) || (a =? 13) || (a =? 14) || (a =? 15).
Definition dt_supported (d : N) : bool := (d =? 1) || (d =? 2) || (d =? 4).

(* a validated record: the record and the proof written into Record.proof *)
Definition vrr := (rr * proof)%type.

Record resp := mkResp { rcode : N; ans : list rr; auth : list rr }.
(* what the upstream handle yields for a request *)
Inductive ureply :=
| UOk (r : resp)                         (* a response message *)
| UNoRec (rc : N) (au : list rr)         (* Err(NoRecordsFound{response_code, authorities}) *)
| UErr.                                  (* any other NetError *)

(* outcome of DnssecDnsHandle::send *)
Inductive vres :=
| VOk (rc : N) (a au : list vrr)
| VNsec (p : proof) (rc : N) (a au : list vrr)   (* Err(DnsError::Nsec{proof, response}) *)
| VErr                                           (* any other NetError *)
| VPanic                                         (* the future panicked *)
| VFuel.                                         (* model ran out of fuel (shown unreachable) *)

(* verdict for one RRset: Result<RrsetProof, ProofError> *)
Inductive verdict :=
| PV (p : proof) (idx : option nat)      (* Ok(RrsetProof{proof, rrsig_index}) or Err(e) as (e.proof, None) *)
| PPanic
| PFuel.

(* ------------------------------------------------------------------ *)
(* Small helpers                                                       *)
(* ------------------------------------------------------------------ *)

Fixpoint insert_sorted (x : N) (l : list N) : list N :=
  match l with
  | [] => [x]
  | y :: l' => if x <=? y then x :: l else y :: insert_sorted x l'
  end.
Definition sort_N (l : list N) : list N := fold_right insert_sorted [] l.

Definition tbs_eqb (a b : tbs) : bool :=
  name_eqb (t_owner a) (t_owner b) && (t_type a =? t_type b) && (t_labels a =? t_labels b)
  && (t_ottl a =? t_ottl b) && (t_alg a =? t_alg b) && (t_exp a =? t_exp b) && (t_inc a =? t_inc b)
  && (t_tag a =? t_tag b) && name_eqb (t_signer a) (t_signer b) && list_eqb N.eqb (t_rids a) (t_rids b).

(* symbolic signature verification: the value is the signature by exactly this key over exactly this data *)
Definition sig_verifies (pk : N) (sv : sigval) (t : tbs) : bool :=
  match sv with SGen pk' t' => (pk' =? pk) && tbs_eqb t' t | SBad => false end.

(* tbs.rs determine_name; None = "could not determine name" (labels > owner labels) *)
Definition tbs_name (n : name) (labels : N) : option name :=
  if nlabels n =? labels then Some n
  else if labels <? nlabels n then Some (STAR :: lastn (N.to_nat labels) n)
  else None.

Fixpoint dedup_keys (seen : list rrkey) (l : list rr) : list rrkey :=
  match l with
  | [] => []
  | r :: l' => if existsb (key_eqb (key_of r)) seen then dedup_keys seen l'
               else key_of r :: dedup_keys (key_of r :: seen) l'
  end.
(* the RRsets of a section: keys in order of first appearance, records / signatures in section order *)
Definition section_keys (sec : list rr) : list rrkey := dedup_keys [] sec.
Definition recs_of (k : rrkey) (sec : list rr) : list rr :=
  filter (fun r => key_eqb (key_of r) k && negb (is_sig r)) sec.
Definition sigs_of (k : rrkey) (sec : list rr) : list rr :=
  filter (fun r => key_eqb (key_of r) k && is_sig r) sec.

(* ------------------------------------------------------------------ *)
(* The validator                                                       *)
(* ------------------------------------------------------------------ *)

Definition MAX_KEY_TAG_COLLISIONS : nat := 2.
Definition MAX_RRSIGS_PER_RRSET : nat := 8.

Section Validator.
  Variable U : query -> ureply.                  (* the wrapped handle = the network *)
  Variable anchors : list N.                     (* TrustAnchors: public keys (alg, bytes) *)
  Variable now : N.                              (* validator clock, seconds *)
  Variable maxd : nat.                           (* DnsRequestOptions::max_request_depth *)
  (* verify_nsec / verify_nsec3 on (query, rcode, answers, authorities as validated, the
     positions in the authority section of the NSEC / NSEC3 records that are handed to it) *)
  Variable nsecv : query -> N -> list vrr -> list vrr -> list nat -> proof.
  Variable nsec3v : query -> N -> list vrr -> list vrr -> list nat -> proof.
  (* select_ok: the order in which completed verification futures are looked at *)
  Variable sched : list (nat * rr) -> list (nat * rr).

  (* TrustAnchors::contains *)
  Definition in_anchors (pk : N) : bool := existsb (N.eqb pk) anchors.

  (* RrsigValidity::check + the checks of verify_rrset_with_dnskey before the crypto,
     for a DNSKEY whose proof is Secure *)
  Definition sig_fields_ok (kname : name) (krec : rr) (s : rr) : bool :=
    match rbody krec, rbody s with
    | BKey _ _ kalg ktag zone revoke, BSig tc alg labels ottl exp inc tag signer _ =>
        negb revoke && zone && (kalg =? alg)
        && (labels <=? nlabels kname)
        && (now <=? exp) && (inc <=? now)
        && name_eqb signer (owner krec) && (tag =? ktag)
    | _, _ => false
    end.

  Definition mk_tbs (kname : name) (s : rr) (recs : list rr) : option tbs :=
    match rbody s with
    | BSig tc alg labels ottl exp inc tag signer _ =>
        match tbs_name kname labels with
        | Some n => Some (mkTbs n tc labels ottl alg exp inc tag signer (sort_N (map rid recs)))
        | None => None
        end
    | _ => None
    end.

  Definition sig_value (s : rr) : sigval :=
    match rbody s with BSig _ _ _ _ _ _ _ _ sv => sv | _ => SBad end.
  Definition key_pk (k : rr) : N := match rbody k with BKey _ pk _ _ _ _ => pk | _ => 0 end.
  Definition sig_signer (s : rr) : name := match rbody s with BSig _ _ _ _ _ _ _ sg _ => sg | _ => [] end.
  Definition sig_labels (s : rr) : N := match rbody s with BSig _ _ l _ _ _ _ _ _ => l | _ => 0 end.

  (* verify_rrset_with_dnskey with dnskey_proof = Secure:
     Some Secure = Ok((Secure, ttl)); Some Bogus = Ok((Bogus, None)) (empty RRset); None = Err *)
  Definition verify_with_key (k : rrkey) (recs : list rr) (krec : rr) (s : rr) : option proof :=
    if sig_fields_ok (fst k) krec s then
      match recs with
      | [] => Some Bogus
      | _ => match mk_tbs (fst k) s recs with
             | Some t => if sig_verifies (key_pk krec) (sig_value s) t then Some Secure else None
             | None => None
             end
      end
    else None.

  (* the tag_count filter of verify_rrsig_with_keys: at most MAX_KEY_TAG_COLLISIONS keys per tag *)
  Definition key_tag (k : rr) : N := match rbody k with BKey _ _ _ tag _ _ => tag | _ => 0 end.
  Fixpoint cap_tags (seen : list N) (ks : list vrr) : list vrr :=
    match ks with
    | [] => []
    | (k, p) :: ks' =>
        let c := length (filter (N.eqb (key_tag k)) seen) in
        if (MAX_KEY_TAG_COLLISIONS <=? c)%nat then cap_tags (key_tag k :: seen) ks'
        else (k, p) :: cap_tags (key_tag k :: seen) ks'
    end.

  (* the loop of verify_rrsig_with_keys over the (filtered) DNSKEYs of the answer *)
  Fixpoint keys_loop (k : rrkey) (recs : list rr) (s : rr) (all_insecure : option bool) (ks : list vrr)
    : option proof :=
    match ks with
    | [] => match all_insecure with Some true => Some Insecure | _ => None end
    | (kr, Secure) :: ks' =>
        match verify_with_key k recs kr s with
        | Some p => Some p
        | None => keys_loop k recs s (Some false) ks'
        end
    | (kr, Insecure) :: ks' =>
        keys_loop k recs s (match all_insecure with None => Some true | x => x end) ks'
    | (kr, _) :: ks' => keys_loop k recs s (Some false) ks'
    end.

  Definition verify_rrsig_with_keys (k : rrkey) (recs : list rr) (s : rr) (dnskey_answers : list vrr)
    : option proof :=
    if ((snd k =? T_NSEC) || (snd k =? T_NSEC3)) && negb (nlabels (fst k) =? sig_labels s) then None
    else keys_loop k recs s None (cap_tags [] (filter (fun v => is_key (fst v)) dnskey_answers)).

  (* verify_dnskey: one DNSKEY against the DS records *)
  Fixpoint ds_loop (kname : name) (krec : rr) (attempts : nat) (dss : list vrr) : proof :=
    match dss with
    | [] => Bogus
    | (d, p) :: dss' =>
        match rbody d, rbody krec with
        | BDs dtag dalg dt dg, BKey kid _ kalg ktag zone _ =>
            if negb (is_secure p) then ds_loop kname krec attempts dss'
            else if negb (dalg =? kalg) then ds_loop kname krec attempts dss'
            else if negb (dtag =? ktag) then ds_loop kname krec attempts dss'
            else if (MAX_KEY_TAG_COLLISIONS <? S attempts)%nat then ds_loop kname krec (S attempts) dss'
            else
              (* DS::covers: digest type known, zone key, digests equal *)
              let covers := dt_supported dt && zone &&
                            match dg with DGen n kid' => name_eqb n kname && (kid' =? kid) | DBad => false end in
              if covers then Secure else ds_loop kname krec (S attempts) dss'
        | _, _ => ds_loop kname krec attempts dss'
        end
    end.
  Definition verify_dnskey (krec : rr) (dss : list vrr) : proof :=
    match rbody krec with
    | BKey _ _ kalg _ _ _ => if alg_supported kalg then ds_loop (owner krec) krec 0 dss else Insecure
    | _ => Bogus
    end.

  Definition ds_unsupported (d : rr) : bool :=
    match rbody d with BDs _ alg dt _ => negb (alg_supported alg) || negb (dt_supported dt) | _ => false end.

  (* result of fetch_ds_records *)
  Inductive dsres := DsOk (l : list vrr) | DsErr (p : proof) | DsPanic | DsFuel.

  Fixpoint ds_split (all_unknown : option bool) (acc : list vrr) (l : list vrr) : option bool * list vrr :=
    match l with
    | [] => (all_unknown, rev acc)
    | (d, p) :: l' =>
        if ds_unsupported d && (is_secure p || is_insecure p)
        then ds_split (match all_unknown with None => Some true | x => x end) acc l'
        else ds_split (Some false) ((d, p) :: acc) l'
    end.

  Section WithLookup.
    (* self.lookup(..).first_answer() on this handle: a validated sub-query *)
    Variable lk : query -> vres.

    Definition fetch_ds_records (zone : name) : dsres :=
      match lk (zone, T_DS) with
      | VOk _ a _ =>
          if existsb (fun v => is_ds (fst v) && is_secure (snd v)) a then
            let '(unk, sup) := ds_split None [] (filter (fun v => is_ds (fst v)) a) in
            match unk with
            | Some true => DsErr Insecure
            | _ => match sup with [] => DsErr Bogus | _ => DsOk sup end
            end
          else if negb (existsb (fun v => is_ds (fst v)) a) then DsErr Insecure
          else DsErr Bogus
      | VPanic => DsPanic
      | VFuel => DsFuel
      | _ => DsErr Bogus
      end.

    (* find_ds_records: walk up to the closest name with an NS RRset (unvalidated NS queries on the
       inner handle), then fetch_ds_records there. PV Secure None stands for Ok(()) *)
    Fixpoint find_ds_records (n : name) : verdict :=
      let fetch z := match fetch_ds_records z with
                     | DsOk _ => PV Secure None | DsErr p => PV p None | DsPanic => PPanic | DsFuel => PFuel end in
      match n with
      | [] => PV Bogus None
      | _ :: n' =>
          match U (n, T_NS) with
          | UOk r => if existsb (fun x => (rtype x =? T_NS) && name_eqb (owner x) n) (ans r ++ auth r)
                     then fetch n else find_ds_records n'
          | UNoRec _ _ => find_ds_records n'
          | UErr => PV Bogus None
          end
      end.

    (* verify_dnskey_rrset *)
    Fixpoint sig_loop (k : rrkey) (recs : list rr) (kproofs : list vrr) (i : nat) (sigs : list rr) : option nat :=
      match sigs with
      | [] => None
      | s :: sigs' =>
          if existsb (fun kp => is_secure (snd kp) && name_eqb (owner (fst kp)) (sig_signer s) &&
                                match verify_with_key k recs (fst kp) s with Some _ => true | None => false end) kproofs
          then Some i else sig_loop k recs kproofs (S i) sigs'
      end.

    Definition verify_dnskey_rrset (k : rrkey) (recs sigs : list rr) : verdict :=
      let p0 := map (fun r => (r, if is_key r && in_anchors (key_pk r) then Secure else Bogus)) recs in
      let need_ds := negb (forallb (fun v => is_secure (snd v)) p0) && negb (is_root (fst k)) in
      match (if need_ds then fetch_ds_records (fst k) else DsOk []) with
      | DsPanic => PPanic
      | DsFuel => PFuel
      | DsErr p => PV p None
      | DsOk dss =>
          if forallb (fun v => ds_unsupported (fst v)) (filter (fun v => is_secure (snd v) || is_insecure (snd v)) dss)
             && negb (match dss with [] => true | _ => false end)
          then PV Insecure None
          else
            let p1 := map (fun v => if is_secure (snd v) then v else (fst v, verify_dnskey (fst v) dss)) p0 in
            match sig_loop k recs p1 0 sigs with
            | Some i => PV Secure (Some i)
            | None =>
                (* `!dnskey_proofs.is_empty() && all(is_secure)` (before /repo fed49c5 the empty set
                   passed the test and `pop().unwrap()` panicked) *)
                if forallb (fun v => is_secure (snd v)) p1 then
                  match p1 with [] => PV Bogus None | _ => PV Secure None end
                else PV Bogus None
            end
      end.

    (* verify_default_rrset; [oq] is the query whose response is being validated *)
    Fixpoint select_ok (k : rrkey) (recs : list rr) (vs : list (nat * rr)) : verdict :=
      match vs with
      | [] => PV Bogus None
      | (i, s) :: vs' =>
          match lk (sig_signer s, T_DNSKEY) with
          | VOk _ a _ =>
              match verify_rrsig_with_keys k recs s a with
              | Some p => PV p (Some i)
              | None => PV Bogus None
              end
          | VPanic => PPanic
          | VFuel => PFuel
          | _ => select_ok k recs vs'
          end
      end.

    Fixpoint enumerate {A} (i : nat) (l : list A) : list (nat * A) :=
      match l with [] => [] | x :: l' => (i, x) :: enumerate (S i) l' end.

    Definition verify_default_rrset (oq : query) (k : rrkey) (recs sigs : list rr) : verdict :=
      match sigs with
      | [] =>
          if snd k =? T_DS then PV Bogus None
          else
            let search := if snd k =? T_NSEC3 then base_name (fst k) else fst k in
            match find_ds_records search with
            | PV Secure _ => PV Bogus None       (* Ok(()): DS exists, RRSIGs missing *)
            | v => v
            end
      | _ =>
          (* an RRSIG is used only if its index is within the cap, its signer name is the owner of
             the RRset or an ancestor of it (RFC 4035 5.3.1; before the fix of finding C07-K3 the
             signer name was not looked at), and looking its key up would not repeat [oq] *)
          let vs := filter (fun x => (fst x <=? MAX_RRSIGS_PER_RRSET)%nat &&
                                     zone_of (sig_signer (snd x)) (fst k) &&
                                     negb (query_eqb (sig_signer (snd x), T_DNSKEY) oq))
                           (enumerate 0 sigs) in
          match vs with
          | [] => PV Bogus None
          | _ => select_ok k recs (sched vs)
          end
      end.

    (* verify_rrsets for one section at handle depth [d]: verdict per RRset that is looked at *)
    Definition depth_skips (d : nat) (ty : N) : bool :=
      (1 <? d)%nat && negb ((ty =? T_DNSKEY) || (ty =? T_DS) || (ty =? T_NSEC) || (ty =? T_NSEC3)).

    Definition verify_rrset (oq : query) (k : rrkey) (sec : list rr) : verdict :=
      if snd k =? T_DNSKEY then verify_dnskey_rrset k (recs_of k sec) (sigs_of k sec)
      else verify_default_rrset oq k (recs_of k sec) (sigs_of k sec).

    Definition verify_rrsets (d : nat) (oq : query) (sec : list rr) : list (rrkey * verdict) :=
      map (fun k => (k, verify_rrset oq k sec))
          (filter (fun k => negb (depth_skips d (snd k))) (section_keys sec)).

    (* VerifiedRrset::update_rrset applied to the whole section: the proof written on each record *)
    Fixpoint sig_pos (k : rrkey) (sec : list rr) (r_index : nat) : nat :=
      (* number of signatures of RRset k strictly before position r_index in the section *)
      match r_index, sec with
      | S j, x :: sec' => ((if key_eqb (key_of x) k && is_sig x then 1 else 0) + sig_pos k sec' j)%nat
      | _, _ => O
      end.
    Fixpoint lookup_verdict (k : rrkey) (vs : list (rrkey * verdict)) : option verdict :=
      match vs with
      | [] => None
      | (k', v) :: vs' => if key_eqb k k' then Some v else lookup_verdict k vs'
      end.
    Definition mark_one (vs : list (rrkey * verdict)) (sec : list rr) (i : nat) (r : rr) : vrr :=
      match lookup_verdict (key_of r) vs with
      | Some (PV p idx) =>
          if is_sig r then
            match idx with
            | Some j => if (j =? sig_pos (key_of r) sec i)%nat then (r, p) else (r, Indet)
            | None => (r, Indet)
            end
          else (r, p)
      | _ => (r, Indet)
      end.
    Definition mark (vs : list (rrkey * verdict)) (sec : list rr) : list vrr :=
      map (fun ir => mark_one vs sec (fst ir) (snd ir)) (enumerate 0 sec).

    Definition any_bad (vs : list (rrkey * verdict)) (f : verdict -> bool) : bool :=
      existsb (fun kv => f (snd kv)) vs.
    Definition is_ppanic v := match v with PPanic => true | _ => false end.
    Definition is_pfuel v := match v with PFuel => true | _ => false end.

    (* RrsigVerificationOutcome::Secure{owner, rrsig} with rrsig.labels < owner.num_labels *)
    Definition wildcard_outcome (sec : list rr) (kv : rrkey * verdict) : bool :=
      match snd kv with
      | PV Secure (Some j) =>
          match nth_error (sigs_of (fst kv) sec) j with
          | Some s => sig_labels s <? nlabels (owner s)
          | None => false
          end
      | _ => false
      end.

    (* all records and all signatures of every looked-at authority RRset are Insecure *)
    Definition all_insecure (vs : list (rrkey * verdict)) (marked : list vrr) : bool :=
      forallb (fun v => negb (existsb (key_eqb (key_of (fst v))) (map fst vs)) || is_insecure (snd v)) marked.

    Fixpoint positions {A} (f : A -> bool) (i : nat) (l : list A) : list nat :=
      match l with [] => [] | x :: l' => if f x then i :: positions f (S i) l' else positions f (S i) l' end.

    (* verify_response at handle depth [d] (the depth of the clone made by send) *)
    Definition verify_response (d : nat) (q : query) (reply : ureply) : vres :=
      match (match reply with
             | UOk r => Some r
             | UNoRec rc au => Some (mkResp rc [] au)
             | UErr => None end) with
      | None => VErr
      | Some r =>
          let va := verify_rrsets d q (ans r) in
          let vu := verify_rrsets d q (auth r) in
          if any_bad va is_ppanic || any_bad vu is_ppanic then VPanic
          else if any_bad va is_pfuel || any_bad vu is_pfuel then VFuel
          else
            let ma := mark va (ans r) in
            let mu := mark vu (auth r) in
            let must := existsb (wildcard_outcome (ans r)) va in
            if negb (match vu with [] => true | _ => false end) && all_insecure vu mu then VOk (rcode r) ma mu
            else
              let has_secure n := existsb (fun v => name_eqb (owner (fst v)) n && is_secure (snd v)) mu in
              let n3 := positions (fun v => (rtype (fst v) =? T_NSEC3) && has_secure (owner (fst v))) 0 mu in
              let n1 := positions (fun v => (rtype (fst v) =? T_NSEC) && has_secure (owner (fst v))) 0 mu in
              let fin (p : proof) := if is_secure p then VOk (rcode r) ma mu else VNsec p (rcode r) ma mu in
              match n3, n1 with
              | _ :: _, [] => fin (nsec3v q (rcode r) ma mu n3)
              | [], _ :: _ => fin (nsecv q (rcode r) ma mu n1)
              | _ :: _, _ :: _ => fin Bogus
              | [], [] =>
                  if must then fin Bogus
                  else match ans r with
                       | _ :: _ => VOk (rcode r) ma mu
                       | [] =>
                           match find_ds_records (if snd q =? T_DS then base_name (fst q) else fst q) with
                           | PPanic => VPanic
                           | PFuel => VFuel
                           | PV Insecure _ => VOk (rcode r) ma mu
                           | _ => fin Bogus
                           end
                       end
              end
      end.
  End WithLookup.

  (* DnssecDnsHandle::send on a handle whose request_depth is [d] *)
  Fixpoint send (fuel : nat) (d : nat) (q : query) : vres :=
    match fuel with
    | O => VFuel
    | S f => if (maxd <? d)%nat then VErr
             else verify_response (send f (S d)) (S d) q (U q)
    end.

  (* the top-level handle (request_depth 0), with enough fuel for every nesting the depth
     backstop permits *)
  Definition validate (q : query) : vres := send (maxd + 2) 0 q.
End Validator.

(* ------------------------------------------------------------------ *)
(* Spec: the chain of trust, stated independently of the validator      *)
(* ------------------------------------------------------------------ *)

Section Spec.
  Variable U : query -> ureply.
  Variable anchors : list N.
  Variable now : N.

  Definition msg_of (rp : ureply) : option resp :=
    match rp with UOk r => Some r | UNoRec rc au => Some (mkResp rc [] au) | UErr => None end.

  (* a section of a message the upstream delivered for some query *)
  Definition Delivered (sec : list rr) : Prop :=
    exists q m, msg_of (U q) = Some m /\ (sec = ans m \/ sec = auth m).

  (* RFC 4035 5.3.1 / 5.3.3: the signature record [s], made with the zone key [kr], authenticates
     exactly the RRset [recs] filed under [k] at the current time *)
  Inductive SigOk (k : rrkey) (recs : list rr) (kr s : rr) : Prop :=
  | SigOk_intro kid pk alg tag tc labels ottl exp inc n :
      rbody kr = BKey kid pk alg tag true false ->
      rbody s = BSig tc alg labels ottl exp inc tag (owner kr)
                     (SGen pk (mkTbs n tc labels ottl alg exp inc tag (owner kr) (sort_N (map rid recs)))) ->
      labels <= nlabels (fst k) -> inc <= now -> now <= exp ->
      tbs_name (fst k) labels = Some n -> recs <> [] ->
      SigOk k recs kr s.

  (* RFC 4035 5.2: the DS record [d] vouches for the zone key [kr] *)
  Inductive DsVouches (d kr : rr) : Prop :=
  | DsVouches_intro kid pk alg tag revoke dt :
      rbody kr = BKey kid pk alg tag true revoke ->
      rbody d = BDs tag alg dt (DGen (owner kr) kid) ->
      dt_supported dt = true -> alg_supported alg = true ->
      DsVouches d kr.

  (* a record is authenticated: it is a trust anchor's key; or a key vouched for by an
     authenticated DS record; or a member of an RRset (as delivered, whole) signed by an
     authenticated key whose owner (= the signer name of the signature, see SigOk) is the owner of
     the RRset or an ancestor of it (RFC 4035 5.3.1: the signer is the zone that contains the RRset) *)
  Inductive Auth : rr -> Prop :=
  | Auth_anchor kr : is_key kr = true -> In (key_pk kr) anchors -> Auth kr
  | Auth_ds kr d : Auth d -> DsVouches d kr -> Auth kr
  | Auth_sig r k sec s kr :
      Delivered sec -> In r (recs_of k sec) -> In s (sigs_of k sec) ->
      Auth kr -> SigOk k (recs_of k sec) kr s -> zone_of (owner kr) (fst k) = true -> Auth r.
End Spec.

(* ------------------------------------------------------------------ *)
(* Finite upstreams (used by the correspondence check and by the concrete witnesses)     *)
(* ------------------------------------------------------------------ *)

(* an upstream given by a finite table; anything else fails *)
Fixpoint table_upstream (tbl : list (query * ureply)) (q : query) : ureply :=
  match tbl with
  | [] => UErr
  | (q', r) :: tbl' => if query_eqb q q' then r else table_upstream tbl' q
  end.

Definition all_sections (tbl : list (query * ureply)) : list (list rr) :=
  flat_map (fun e => match msg_of (snd e) with Some m => [ans m; auth m] | None => [] end) tbl.

(* further spec notions used by the refuted / guarded theorems *)
Section Spec2.
  Variable U : query -> ureply.
  Variable now : N.

  (* the RRset of [r], whole as delivered in some section, is covered by a signature record
     that verifies (with some key) at the current time *)
  Definition SetSigned (r : rr) : Prop :=
    exists sec k s kr, Delivered U sec /\ In r (recs_of k sec) /\ In s (sigs_of k sec) /\
                       SigOk now k (recs_of k sec) kr s.

  (* [r] was delivered together with a signature record of its RRset whose signer is the
     owner of [r] or an ancestor of it (RFC 4035 5.3.1: the signer is the zone of the RRset) *)
  Definition HomeSigned (r : rr) : Prop :=
    exists sec s, Delivered U sec /\ In r sec /\ In s (sigs_of (key_of r) sec) /\
                  zone_of (sig_signer s) (owner r) = true.

  (* something in what the upstream delivered that could justify an Insecure verdict at all: a
     denial-of-existence record or a DS record with an unsupported algorithm / digest type *)
  Definition denial_material (x : rr) : bool :=
    (rtype x =? T_NSEC) || (rtype x =? T_NSEC3) || (is_ds x && ds_unsupported x).
  Definition DenialMaterial : Prop := exists sec x, Delivered U sec /\ In x sec /\ denial_material x = true.
End Spec2.

(* boolean versions for closed worlds *)
Definition rr_eqb (a b : rr) : bool := name_eqb (owner a) (owner b) && (rid a =? rid b) && (rtype a =? rtype b).
Definition set_signed_b (now : N) (k : rrkey) (recs : list rr) (s : rr) : bool :=
  match rbody s with
  | BSig tc alg labels ottl exp inc tag signer (SGen pk t') =>
      match tbs_name (fst k) labels with
      | Some n => tbs_eqb t' (mkTbs n tc labels ottl alg exp inc tag signer (sort_N (map rid recs)))
      | None => false
      end
  | _ => false
  end.

(* ------------------------------------------------------------------ *)
(* Server: DnssecSummary::from_records and the AD / SERVFAIL mapping    *)
(* ------------------------------------------------------------------ *)

Inductive summary := SumSecure | SumBogus | SumInsecure.

Fixpoint summary_loop (all_secure : option bool) (ps : list proof) : summary :=
  match ps with
  | [] => match all_secure with Some true => SumSecure | _ => SumInsecure end
  | Secure :: ps' => summary_loop (match all_secure with None => Some true | x => x end) ps'
  | Bogus :: _ => SumBogus
  | _ :: ps' => summary_loop (Some false) ps'
  end.
Definition summarize (ps : list proof) : summary := summary_loop None ps.

(* build_forwarded_response, Answer::Normal arm: inputs = proofs of the answer records, the
   request's AD / CD / DO bits; output = (AD bit, SERVFAIL?, answers kept?) *)
Definition server_map (ps : list proof) (ad cd do_ : bool) : bool * bool * bool :=
  match summarize ps with
  | SumSecure => if ad || do_ then (true, false, true) else (false, false, true)
  | SumBogus => if negb cd then (false, true, false) else (false, false, true)
  | SumInsecure => (false, false, true)
  end.
