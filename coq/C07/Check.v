(* C07 — correspondence glue: a case = trust anchors, clock, top-level query, the table of
   upstream responses the real validator consulted (symbolic form), the verdicts of the real
   verify_nsec / verify_nsec3 for the NSEC subsets of those responses, and what the real
   DnssecDnsHandle::send returned.  The model is re-run on the same table and compared. *)
From HV Require Import Lib.Base C07.Model.
Open Scope N_scope.

Inductive obs :=
| OOk (rc : N) (a au : list N)
| ONsec (p : N) (rc : N) (a au : list N)
| OErr
| OPanic.

Inductive case :=
| Case (anchors : list N) (now : N) (q : query)
       (tbl : list (query * ureply))
       (ntbl : list (query * bool * list nat * N))
       (o : obs).

Definition pcode (p : proof) : N := match p with Secure => 0 | Insecure => 1 | Bogus => 2 | Indet => 3 end.
Definition pdecode (n : N) : proof :=
  match n with 0 => Secure | 1 => Insecure | 2 => Bogus | _ => Indet end.

Fixpoint tbl_lookup (tbl : list (query * ureply)) (q : query) : ureply :=
  match tbl with
  | [] => UErr
  | (q', r) :: tbl' => if query_eqb q q' then r else tbl_lookup tbl' q
  end.

Definition nat_list_eqb := list_eqb Nat.eqb.

Fixpoint ntbl_lookup (ntbl : list (query * bool * list nat * N)) (q : query) (n3 : bool) (pos : list nat) : proof :=
  match ntbl with
  | [] => Indet
  | (q', b, ps, p) :: t =>
      if query_eqb q q' && Bool.eqb b n3 && nat_list_eqb ps pos then pdecode p else ntbl_lookup t q n3 pos
  end.

Definition MAXD : nat := 26.   (* DnsRequestOptions::default().max_request_depth *)

Definition run (c : case) : vres :=
  match c with
  | Case anchors now q tbl ntbl _ =>
      validate (tbl_lookup tbl) anchors now MAXD
               (fun q _ _ _ pos => ntbl_lookup ntbl q false pos)
               (fun q _ _ _ pos => ntbl_lookup ntbl q true pos)
               (fun l => l) q
  end.

Definition obs_of (v : vres) : obs :=
  match v with
  | VOk rc a au => OOk rc (map (fun x => pcode (snd x)) a) (map (fun x => pcode (snd x)) au)
  | VNsec p rc a au => ONsec (pcode p) rc (map (fun x => pcode (snd x)) a) (map (fun x => pcode (snd x)) au)
  | VErr => OErr
  | VPanic => OPanic
  | VFuel => OErr
  end.

Definition nl_eqb := list_eqb N.eqb.
Definition obs_eqb (a b : obs) : bool :=
  match a, b with
  | OOk r1 a1 u1, OOk r2 a2 u2 => (r1 =? r2) && nl_eqb a1 a2 && nl_eqb u1 u2
  | ONsec p1 r1 a1 u1, ONsec p2 r2 a2 u2 => (p1 =? p2) && (r1 =? r2) && nl_eqb a1 a2 && nl_eqb u1 u2
  | OErr, OErr => true
  | OPanic, OPanic => true
  | _, _ => false
  end.

Definition is_vfuel (v : vres) := match v with VFuel => true | _ => false end.

Definition check (c : case) : bool :=
  match c with
  | Case _ _ _ _ _ o => let v := run c in negb (is_vfuel v) && obs_eqb (obs_of v) o
  end.

Definition bad (cs : list case) : list N := bad_idx check 0 cs.

(* full model output for one case (used in replay files) *)
Definition show (c : case) := obs_of (run c).
