(* C07 — correspondence glue: a case = trust anchors, clock, top-level query, the table of
   upstream responses the real validator consulted (symbolic form), the verdicts of the real
   verify_nsec / verify_nsec3 for the NSEC subsets of those responses, and what the real
   DnssecDnsHandle::send returned.  The model is re-run on the same table and compared. *)
From Coq Require Import Uint63.
From HV Require Import Lib.Base Lib.Pack C07.Model.
Open Scope N_scope.

Inductive obs :=
| OOk (rc : N) (a au : list N)
| ONsec (p : N) (rc : N) (a au : list N)
| OErr
| OPanic.

(* structured case *)
Inductive scase :=
| Case (anchors : list N) (now : N) (q : query)
       (tbl : list (query * ureply))
       (ntbl : list (query * bool * list nat * N))
       (o : obs)
(* server clause: proofs of the answer records, request AD / CD / DO; observed AD, SERVFAIL?, all answers kept? *)
| CaseSrv (ps : list N) (ad cd do_ : bool) (oad osf okeep : N)
(* self-referential input (validation loop up to the depth backstop): verdicts there depend on the
   nesting depth and the unmodelled validation cache picks one; no correspondence claim *)
| CaseLoop.

(* transport form written by the harness: the same data as a stream of numbers (one byte if
   < 255, else 255 followed by 4 bytes big-endian), packed; list = length then elements;
   constructors = tag then fields *)
Inductive case := CaseP (p : pbytes).

Fixpoint nums (bs : list N) : list N :=
  match bs with
  | [] => []
  | x :: r =>
      if x <? 255 then x :: nums r
      else match r with
           | a :: b :: c :: d :: r' => (((a * 256 + b) * 256 + c) * 256 + d) :: nums r'
           | _ => []
           end
  end.

Definition P (A : Type) := list N -> option (A * list N).
Definition pnum : P N := fun l => match l with x :: r => Some (x, r) | [] => None end.
Definition pmap {A B} (f : A -> B) (p : P A) : P B :=
  fun l => match p l with Some (x, r) => Some (f x, r) | None => None end.
Definition pbind {A B} (p : P A) (f : A -> P B) : P B :=
  fun l => match p l with Some (x, r) => f x r | None => None end.
Definition pret {A} (x : A) : P A := fun l => Some (x, l).
Notation "x <- p ;; q" := (pbind p (fun x => q)) (at level 61, p at next level, right associativity).
Fixpoint prep {A} (p : P A) (n : nat) : P (list A) :=
  match n with
  | O => pret []
  | S n' => x <- p ;; xs <- prep p n' ;; pret (x :: xs)
  end.
Definition plist {A} (p : P A) : P (list A) := n <- pnum ;; prep p (N.to_nat n).
Definition pbool : P bool := pmap (fun n => negb (n =? 0)) pnum.
Definition pname : P name := plist pnum.
Definition pquery : P query := n <- pname ;; t <- pnum ;; pret (n, t).
Definition ptbs : P tbs :=
  o <- pname ;; ty <- pnum ;; lb <- pnum ;; ot <- pnum ;; al <- pnum ;; ex <- pnum ;; ic <- pnum ;;
  tg <- pnum ;; sg <- pname ;; rs <- plist pnum ;; pret (mkTbs o ty lb ot al ex ic tg sg rs).
Definition psigval : P sigval :=
  t <- pnum ;; if t =? 1 then (pk <- pnum ;; b <- ptbs ;; pret (SGen pk b)) else pret SBad.
Definition pdigest : P digest :=
  t <- pnum ;; if t =? 1 then (n <- pname ;; k <- pnum ;; pret (DGen n k)) else pret DBad.
Definition pbody : P body :=
  t <- pnum ;;
  if t =? 0 then pmap BPlain pnum
  else if t =? 1 then
    (kid <- pnum ;; pk <- pnum ;; al <- pnum ;; tg <- pnum ;; z <- pbool ;; rv <- pbool ;; pret (BKey kid pk al tg z rv))
  else if t =? 2 then
    (tg <- pnum ;; al <- pnum ;; dt <- pnum ;; dg <- pdigest ;; pret (BDs tg al dt dg))
  else
    (tc <- pnum ;; al <- pnum ;; lb <- pnum ;; ot <- pnum ;; ex <- pnum ;; ic <- pnum ;; tg <- pnum ;;
     sg <- pname ;; sv <- psigval ;; pret (BSig tc al lb ot ex ic tg sg sv)).
Definition prr : P rr := o <- pname ;; i <- pnum ;; b <- pbody ;; pret (mkRR o i b).
Definition pureply : P ureply :=
  t <- pnum ;;
  if t =? 0 then (rc <- pnum ;; a <- plist prr ;; u <- plist prr ;; pret (UOk (mkResp rc a u)))
  else if t =? 1 then (rc <- pnum ;; u <- plist prr ;; pret (UNoRec rc u))
  else pret UErr.
Definition pobs : P obs :=
  t <- pnum ;;
  if t =? 0 then (rc <- pnum ;; a <- plist pnum ;; u <- plist pnum ;; pret (OOk rc a u))
  else if t =? 1 then (p <- pnum ;; rc <- pnum ;; a <- plist pnum ;; u <- plist pnum ;; pret (ONsec p rc a u))
  else if t =? 2 then pret OErr else pret OPanic.
Definition pnentry : P (query * bool * list nat * N) :=
  q <- pquery ;; b <- pbool ;; ps <- plist (pmap N.to_nat pnum) ;; p <- pnum ;; pret (q, b, ps, p).
Definition pcase : P scase :=
  tag <- pnum ;;
  if tag =? 0 then
    (an <- plist pnum ;; nw <- pnum ;; q <- pquery ;;
     tb <- plist (k <- pquery ;; r <- pureply ;; pret (k, r)) ;;
     nt <- plist pnentry ;; o <- pobs ;; pret (Case an nw q tb nt o))
  else if tag =? 1 then
    (ps <- plist pnum ;; ad <- pbool ;; cd <- pbool ;; d <- pbool ;;
     oa <- pnum ;; os <- pnum ;; ok <- pnum ;; pret (CaseSrv ps ad cd d oa os ok))
  else pret CaseLoop.
Definition decode (c : case) : option scase :=
  match c with CaseP p => match pcase (nums (unpack p)) with Some (s, []) => Some s | _ => None end end.

Definition pcode (p : proof) : N := match p with Secure => 0 | Insecure => 1 | Bogus => 2 | Indet => 3 end.
Definition pdecode (n : N) : proof :=
  match n with 0 => Secure | 1 => Insecure | 2 => Bogus | _ => Indet end.

Definition tbl_lookup := table_upstream.

Definition nat_list_eqb := list_eqb Nat.eqb.

Fixpoint ntbl_lookup (ntbl : list (query * bool * list nat * N)) (q : query) (n3 : bool) (pos : list nat) : proof :=
  match ntbl with
  | [] => Indet
  | (q', b, ps, p) :: t =>
      if query_eqb q q' && Bool.eqb b n3 && nat_list_eqb ps pos then pdecode p else ntbl_lookup t q n3 pos
  end.

Definition MAXD : nat := 26.   (* DnsRequestOptions::default().max_request_depth *)

Definition run (c : scase) : vres :=
  match c with
  | CaseSrv _ _ _ _ _ _ _ => VErr
  | CaseLoop => VErr
  | Case anchors now q tbl ntbl _ =>
      validate (tbl_lookup tbl) anchors now MAXD
               (fun q _ _ _ pos => ntbl_lookup ntbl q false pos)
               (fun q _ _ _ pos => ntbl_lookup ntbl q true pos)
               (fun l => l) q
  end.

Definition obs_of (v : vres) : obs :=
  match v with
  | VOk rc a au => OOk rc (map (fun x => pcode (snd x)) a) (map (fun x => pcode (snd x)) au)
  | VNsec p rc a au => ONsec (pcode p) rc (map (fun x => pcode (snd x)) a) (map (fun x => pcode (snd x)) au)
  | VErr => OErr
  | VPanic => OPanic
  | VFuel => OErr
  end.

Definition nl_eqb := list_eqb N.eqb.
Definition obs_eqb (a b : obs) : bool :=
  match a, b with
  | OOk r1 a1 u1, OOk r2 a2 u2 => (r1 =? r2) && nl_eqb a1 a2 && nl_eqb u1 u2
  | ONsec p1 r1 a1 u1, ONsec p2 r2 a2 u2 => (p1 =? p2) && (r1 =? r2) && nl_eqb a1 a2 && nl_eqb u1 u2
  | OErr, OErr => true
  | OPanic, OPanic => true
  | _, _ => false
  end.

Definition is_vfuel (v : vres) := match v with VFuel => true | _ => false end.

Definition b2n (b : bool) : N := if b then 1 else 0.
Definition check_s (c : scase) : bool :=
  match c with
  | Case _ _ _ _ _ o => let v := run c in negb (is_vfuel v) && obs_eqb (obs_of v) o
  | CaseSrv ps ad cd d oa os ok =>
      let '(a, sf, keep) := server_map (map pdecode ps) ad cd d in
      (b2n a =? oa) && (b2n sf =? os) && (b2n (keep || match ps with [] => true | _ => false end) =? ok)
  | CaseLoop => true
  end.
Definition check (c : case) : bool := match decode c with Some s => check_s s | None => false end.

Definition bad (cs : list case) : list N := bad_idx check 0 cs.

(* full model output for one case (used in replay files) *)
Definition show (c : case) :=
  match decode c with
  | Some (CaseSrv ps ad cd d oa os ok) => Some (CaseSrv ps ad cd d oa os ok, OErr, Some (server_map (map pdecode ps) ad cd d))
  | Some s => Some (s, obs_of (run s), None)
  | None => None
  end.
