(* C07 — the guarded counterpart of "Insecure needs denial material": if the upstream delivers no
   NSEC, no NSEC3 and no DS record with an unsupported algorithm / digest type, then the only way to
   an Insecure verdict is a response to a DS query whose answer section is non-empty yet holds no
   DS record (finding C07-K2).  Without such a response nothing is ever reported Insecure. *)
From HV Require Import Lib.Base C07.Model C07.ChainProofs C07.GenuineProofs C07.InsecureProofs.
Open Scope N_scope.

Lemma mark_fst : forall vs sec, map fst (mark vs sec) = sec.
Proof.
  intros vs sec. unfold mark. rewrite map_map.
  assert (H : forall i l, map (fun ir : nat * rr => fst (mark_one vs sec (fst ir) (snd ir))) (enumerate i l) = l).
  { intros i l. revert i. induction l as [|x l IH]; intros i; cbn [enumerate map]; [reflexivity|].
    rewrite IH. f_equal. cbn [fst snd]. unfold mark_one.
    destruct (lookup_verdict (key_of x) vs) as [[p idx| |]|]; try reflexivity.
    destruct (is_sig x); [destruct idx as [j|]; [destruct (j =? sig_pos (key_of x) sec i)%nat|]|]; reflexivity. }
  apply H.
Qed.

Lemma mark_in_sec : forall vs sec r p, In (r, p) (mark vs sec) -> In r sec.
Proof.
  intros vs sec r p H. rewrite <- (mark_fst vs sec). apply in_map_iff. exists (r, p). auto.
Qed.

Lemma sec_in_mark : forall vs sec r, In r sec -> exists p, In (r, p) (mark vs sec).
Proof.
  intros vs sec r H. rewrite <- (mark_fst vs sec) in H. apply in_map_iff in H.
  destruct H as ([r' p] & E & Hin). cbn in E. subst. now exists p.
Qed.

Lemma dedup_keys_in : forall l seen k, In k (dedup_keys seen l) -> exists x, In x l /\ key_of x = k.
Proof.
  induction l as [|x l IH]; intros seen k H; cbn [dedup_keys] in H; [inversion H|].
  destruct (existsb (key_eqb (key_of x)) seen).
  - destruct (IH _ _ H) as (y & Hy & E). exists y. split; [now right|exact E].
  - destruct H as [H|H]; [exists x; split; [now left|exact H]|].
    destruct (IH _ _ H) as (y & Hy & E). exists y. split; [now right|exact E].
Qed.

Lemma positions_nonempty {A} (f : A -> bool) : forall l i, positions f i l <> [] -> exists x, In x l /\ f x = true.
Proof.
  induction l as [|x l IH]; intros i H; cbn [positions] in H; [congruence|].
  destruct (f x) eqn:E; [exists x; split; [now left|exact E]|].
  destruct (IH _ H) as (y & Hy & Ey). exists y. split; [now right|exact Ey].
Qed.

Section NI.
  Variable U : query -> ureply.
  Variable anchors : list N.
  Variable now : N.
  Variable maxd : nat.
  Variable nsecv nsec3v : query -> N -> list vrr -> list vrr -> list nat -> proof.
  Variable sched : list (nat * rr) -> list (nat * rr).

  (* nothing delivered is an NSEC, an NSEC3 or an unsupported DS *)
  Hypothesis no_material : forall sec x, Delivered U sec -> In x sec -> denial_material x = false.
  (* outside class K2: a response to a DS query has an empty answer section or a DS record in it *)
  Hypothesis ds_answers : forall q m, msg_of (U q) = Some m -> snd q = T_DS -> ans m = [] \/ existsb is_ds (ans m) = true.

  Definition no_ins (v : vres) : Prop :=
    match v with
    | VOk _ a au | VNsec _ _ a au => forall r, ~ In (r, Insecure) (a ++ au)
    | _ => True
    end.

  (* what we need to know about a validated lookup function *)
  Record good_lk (lk : query -> vres) : Prop := {
    g_noins : forall q, no_ins (lk q);
    g_shape : forall q rc a au, lk q = VOk rc a au ->
                exists m, msg_of (U q) = Some m /\ map fst a = ans m /\ map fst au = auth m;
    g_fetch : forall z, fetch_ds_records lk z <> DsErr Insecure
  }.

  Section WithLk.
    Variable lk : query -> vres.
    Hypothesis G : good_lk lk.

    Lemma delivered_answers : forall q rc a au d p, lk q = VOk rc a au -> In (d, p) a ->
      exists sec, Delivered U sec /\ In d sec.
    Proof.
      intros q rc a au d p E Hin. destruct (g_shape lk G q rc a au E) as (m & Hm & Ha & _).
      exists (ans m). split; [exists q, m; auto|]. rewrite <- Ha. apply in_map_iff. exists (d, p). auto.
    Qed.

    Lemma fetch_supported : forall z dss,
      fetch_ds_records lk z = DsOk dss ->
      forallb (fun v => ds_unsupported (fst v)) (filter (fun v => is_secure (snd v) || is_insecure (snd v)) dss) = true ->
      dss = [].
    Proof.
      intros z dss H Hall. unfold fetch_ds_records in H.
      destruct (lk (z, T_DS)) as [rc a au|p rc a au| | |] eqn:E; try discriminate.
      destruct (existsb (fun v => is_ds (fst v) && is_secure (snd v)) a) eqn:E1.
      2:{ destruct (negb (existsb (fun v => is_ds (fst v)) a)); discriminate. }
      exfalso. apply existsb_exists in E1. destruct E1 as ([d p] & Hin & Hc). cbn [fst snd] in Hc.
      apply andb_true_iff in Hc. destruct Hc as [Hd Hs].
      destruct (delivered_answers _ _ _ _ _ _ E Hin) as (sec & Hsec & Hds).
      pose proof (no_material sec d Hsec Hds) as Hm. unfold denial_material in Hm.
      rewrite Hd in Hm. rewrite !orb_false_iff in Hm. destruct Hm as [_ Hu]. cbn in Hu.
      destruct (ds_split None [] (filter (fun v => is_ds (fst v)) a)) as [unk sup] eqn:Es.
      assert (Hk : In (d, p) sup).
      { pose proof (ds_split_keeps (filter (fun v => is_ds (fst v)) a) None [] d p) as Hk. rewrite Es in Hk.
        apply Hk; [apply filter_In; split; [exact Hin|exact Hd]|]. now rewrite Hu. }
      assert (Hd' : dss = sup). { destruct unk as [[|]|]; try discriminate; destruct sup; try discriminate; now inversion H. }
      subst dss. rewrite forallb_forall in Hall. specialize (Hall (d, p)). cbn [fst] in Hall. rewrite Hu in Hall.
      assert (false = true); [apply Hall|discriminate]. apply filter_In. split; [exact Hk|]. cbn [snd]. now rewrite Hs.
    Qed.

    Lemma find_ds_not_insecure : forall n idx, find_ds_records U lk n <> PV Insecure idx.
    Proof.
      induction n as [|x n IH]; intros idx H; cbn [find_ds_records] in H; [discriminate|].
      match type of H with context [U ?a] => destruct (U a) as [r|rc au|] end; try discriminate; try (eapply IH; eauto; fail).
      match type of H with (if ?c then _ else _) = _ => destruct c end; try (eapply IH; eauto; fail).
      destruct (fetch_ds_records lk (x :: n)) eqn:E; try discriminate.
      inversion H; subst. exact (g_fetch lk G _ E).
    Qed.

    Lemma dnskey_rrset_not_insecure : forall k recs sigs idx,
      verify_dnskey_rrset anchors now lk k recs sigs <> PV Insecure idx.
    Proof.
      intros k recs sigs idx H. unfold verify_dnskey_rrset in H.
      match type of H with (match (if ?c then _ else _) with _ => _ end) = _ => destruct c end.
      - destruct (fetch_ds_records lk (fst k)) as [dss|p| |] eqn:E; try discriminate.
        + match type of H with (if ?c then _ else _) = _ => destruct c eqn:Ec end.
          * apply andb_true_iff in Ec. destruct Ec as [Ec Ene].
            rewrite (fetch_supported _ _ E Ec) in Ene. discriminate.
          * match type of H with (match ?x with _ => _ end) = _ => destruct x; [discriminate|] end.
            match type of H with (if ?c then _ else _) = _ => destruct c; [|discriminate] end.
            match type of H with (match ?x with _ => _ end) = _ => destruct x; discriminate end.
        + inversion H; subst. exact (g_fetch lk G _ E).
      - cbn in H.
        match type of H with (match ?x with _ => _ end) = _ => destruct x; [discriminate|] end.
        match type of H with (if ?c then _ else _) = _ => destruct c; [|discriminate] end.
        match type of H with (match ?x with _ => _ end) = _ => destruct x; discriminate end.
    Qed.

    Lemma select_ok_not_insecure : forall k recs vs idx, select_ok now lk k recs vs <> PV Insecure idx.
    Proof.
      induction vs as [|[i s] vs IH]; intros idx H; cbn [select_ok] in H; [discriminate|].
      destruct (lk (sig_signer s, T_DNSKEY)) as [rc a au|p rc a au| | |] eqn:E; try discriminate; try (eapply IH; eauto; fail).
      destruct (verify_rrsig_with_keys now k recs s a) as [p|] eqn:Ev'; [|discriminate].
      inversion H; subst. unfold verify_rrsig_with_keys in Ev'.
      match type of Ev' with (if ?c then _ else _) = _ => destruct c; [discriminate|] end.
      apply keys_loop_insecure in Ev'. destruct Ev' as [Ev'|(kr & Hkr)]; [discriminate|].
      apply cap_tags_In in Hkr. apply filter_In in Hkr. destruct Hkr as [Hkr _].
      pose proof (g_noins lk G (sig_signer s, T_DNSKEY)) as Hn. rewrite E in Hn. cbn in Hn.
      apply (Hn kr). apply in_or_app. now left.
    Qed.

    Lemma default_rrset_not_insecure : forall oq k recs sigs idx,
      verify_default_rrset U now sched lk oq k recs sigs <> PV Insecure idx.
    Proof.
      intros oq k recs sigs idx H. unfold verify_default_rrset in H. destruct sigs as [|s0 sigs].
      - destruct (snd k =? T_DS); [discriminate|].
        destruct (find_ds_records U lk _) as [p i| |] eqn:E; try discriminate.
        destruct p; try discriminate. eapply find_ds_not_insecure; eauto.
      - match type of H with (match ?x with _ => _ end) = _ => destruct x; [discriminate|] end.
        eapply select_ok_not_insecure; eauto.
    Qed.

    Lemma mark_not_insecure : forall d oq sec r,
      ~ In (r, Insecure) (mark (verify_rrsets U anchors now sched lk d oq sec) sec).
    Proof.
      intros d oq sec r Hin. unfold mark in Hin. apply in_map_iff in Hin.
      destruct Hin as ([i r0] & Em & Hir). cbn [fst snd] in Em. unfold mark_one in Em.
      destruct (lookup_verdict (key_of r0) _) as [v|] eqn:El; [|inversion Em].
      destruct v as [p idx| |]; try (inversion Em; fail).
      assert (Ep : p = Insecure).
      { destruct (is_sig r0); [destruct idx as [j|]; [destruct (j =? sig_pos (key_of r0) sec i)%nat|]|]; inversion Em; reflexivity. }
      subst p. unfold verify_rrsets in El. apply lookup_verdict_map in El. symmetry in El.
      unfold verify_rrset in El. destruct (snd (key_of r0) =? T_DNSKEY).
      - eapply dnskey_rrset_not_insecure; eauto.
      - eapply default_rrset_not_insecure; eauto.
    Qed.

    (* one more level: the response to q0, validated with lk *)
    Lemma level_noins : forall d q q0, no_ins (verify_response U anchors now nsecv nsec3v sched lk d q (U q0)).
    Proof.
      intros d q q0. destruct (msg_of (U q0)) as [m|] eqn:Hm.
      2:{ rewrite (verify_response_none U anchors now nsecv nsec3v sched) by exact Hm. exact I. }
      pose proof (verify_response_shape U anchors now nsecv nsec3v sched lk d q q0 m Hm) as Hs.
      destruct (verify_response U anchors now nsecv nsec3v sched lk d q (U q0)) as [rc a au|p rc a au| | |]; try exact I;
        destruct Hs as (-> & ->); intros r Hin; apply in_app_or in Hin; destruct Hin as [Hin|Hin];
        eapply mark_not_insecure; eauto.
    Qed.

    Lemma level_shape : forall d q rc a au,
      verify_response U anchors now nsecv nsec3v sched lk d q (U q) = VOk rc a au ->
      exists m, msg_of (U q) = Some m /\ map fst a = ans m /\ map fst au = auth m.
    Proof.
      intros d q rc a au H. destruct (msg_of (U q)) as [m|] eqn:Hm.
      2:{ rewrite (verify_response_none U anchors now nsecv nsec3v sched) in H by exact Hm. discriminate. }
      pose proof (verify_response_shape U anchors now nsecv nsec3v sched lk d q q m Hm) as Hs.
      rewrite H in Hs. destruct Hs as (-> & ->). exists m. rewrite !mark_fst. auto.
    Qed.

    (* an accepted message without answers needs an Insecure authority mark, an NSEC/NSEC3 record, or an
       Insecure find_ds_records: none is available *)
    Lemma level_no_empty_ok : forall d q q0 m rc a au,
      msg_of (U q0) = Some m -> ans m = [] ->
      verify_response U anchors now nsecv nsec3v sched lk d q (U q0) <> VOk rc a au.
    Proof.
      intros d q q0 m rc a au Hm0 Ha H.
      pose proof (level_noins d q q0) as Hn. rewrite H in Hn. cbn in Hn.
      pose proof (verify_response_shape U anchors now nsecv nsec3v sched lk d q q0 m Hm0) as Hs.
      rewrite H in Hs. destruct Hs as (Ea & Eau).
      unfold verify_response in H.
      assert (Hm : (match U q0 with UOk r => Some r | UNoRec rc au => Some (mkResp rc [] au) | UErr => None end) = Some m)
        by exact Hm0.
      rewrite Hm in H. cbv zeta in H. rewrite Ha in H.
      set (vu := verify_rrsets U anchors now sched lk d q (auth m)) in *.
      set (mu := mark vu (auth m)) in *.
      destruct (any_bad (verify_rrsets U anchors now sched lk d q []) is_ppanic || any_bad vu is_ppanic); [discriminate|].
      destruct (any_bad (verify_rrsets U anchors now sched lk d q []) is_pfuel || any_bad vu is_pfuel); [discriminate|].
      destruct (negb (match vu with [] => true | _ => false end) && all_insecure vu mu) eqn:Eai.
      { (* some verified authority RRset, all of it Insecure: an Insecure mark *)
        apply andb_true_iff in Eai. destruct Eai as [Ene Eall].
        destruct vu as [|[k v] vu'] eqn:Evu; [discriminate|].
        assert (Hk : In k (section_keys (auth m))).
        { assert (Hin : In (k, v) vu) by (rewrite Evu; now left). unfold vu, verify_rrsets in Hin.
          apply in_map_iff in Hin. destruct Hin as (k' & E & Hf). inversion E; subst. apply filter_In in Hf. tauto. }
        unfold section_keys in Hk. apply dedup_keys_in in Hk. destruct Hk as (x & Hx & Ek).
        destruct (sec_in_mark (verify_rrsets U anchors now sched lk d q (auth m)) (auth m) x Hx) as (p & Hp).
        fold vu in Hp. rewrite Evu in Hp. unfold all_insecure in Eall. rewrite forallb_forall in Eall.
        specialize (Eall (x, p) Hp). cbn [fst snd] in Eall.
        assert (Hex : existsb (key_eqb (key_of x)) (map fst ((k, v) :: vu')) = true).
        { cbn [map fst existsb]. rewrite Ek, key_eqb_refl. reflexivity. }
        rewrite Hex in Eall. cbn in Eall. destruct p; try discriminate.
        apply (Hn x). apply in_or_app. right. rewrite Eau. exact Hp. }
      (* NSEC / NSEC3 positions must be empty: no such record is ever delivered *)
      assert (Hpos : forall f : vrr -> bool,
                (forall v, f v = true -> (rtype (fst v) =? T_NSEC) || (rtype (fst v) =? T_NSEC3) = true) ->
                positions f 0 mu = []).
      { intros f Hf. destruct (positions f 0 mu) eqn:El; [reflexivity|exfalso].
        assert (Hne : positions f 0 mu <> []) by (rewrite El; discriminate).
        apply positions_nonempty in Hne. destruct Hne as ([x p] & Hx & Hfx). apply Hf in Hfx. cbn [fst] in Hfx.
        assert (Hd : Delivered U (auth m)) by (exists q0, m; auto).
        pose proof (no_material (auth m) x Hd (mark_in_sec _ _ _ _ Hx)) as Hmat. unfold denial_material in Hmat.
        rewrite Hfx in Hmat. discriminate. }
      repeat match type of H with context [match positions ?f 0 mu with _ => _ end] =>
        let E := fresh "E" in
        destruct (positions f 0 mu) eqn:E;
        [|exfalso;
          assert (Hz : positions f 0 mu = [])
            by (apply Hpos; intros v Hv; apply andb_true_iff in Hv; destruct Hv as [Hv _]; cbn beta; rewrite Hv; auto using orb_true_r);
          congruence]
      end.
      match type of H with (if ?c then _ else _) = _ => destruct c end.
      { cbn in H. discriminate. }
      destruct (find_ds_records U lk (if snd q =? T_DS then base_name (fst q) else fst q)) as [p i| |] eqn:Ef; try discriminate.
      destruct p; try (cbn in H; discriminate).
      eapply find_ds_not_insecure; eauto.
    Qed.

    (* hence DS absence is never "proven" at the next level either *)
    Lemma level_fetch : forall d z,
      fetch_ds_records (fun q => verify_response U anchors now nsecv nsec3v sched lk d q (U q)) z <> DsErr Insecure.
    Proof.
      intros d z H. unfold fetch_ds_records in H.
      destruct (verify_response U anchors now nsecv nsec3v sched lk d (z, T_DS) (U (z, T_DS))) as [rc a au|p rc a au| | |] eqn:E;
        try discriminate.
      destruct (level_shape _ _ _ _ _ E) as (m & Hm & Ha & Hau).
      assert (Hd : Delivered U (ans m)) by (exists (z, T_DS), m; auto).
      destruct (existsb (fun v => is_ds (fst v) && is_secure (snd v)) a) eqn:E1.
      - (* all-unknown: needs an unsupported DS *)
        destruct (ds_split None [] (filter (fun v => is_ds (fst v)) a)) as [unk sup] eqn:Es.
        destruct unk as [[|]|]; try (destruct sup; discriminate).
        apply existsb_exists in E1. destruct E1 as ([x p] & Hin & Hc). cbn [fst snd] in Hc.
        apply andb_true_iff in Hc. destruct Hc as [Hx _].
        pose proof (ds_split_true (filter (fun v => is_ds (fst v)) a) None []) as Ht. rewrite Es in Ht.
        specialize (Ht eq_refl x p). assert (Hf : In (x, p) (filter (fun v => is_ds (fst v)) a)) by (apply filter_In; auto).
        specialize (Ht Hf). apply andb_true_iff in Ht. destruct Ht as [Hu _].
        assert (Hxs : In x (ans m)). { rewrite <- Ha. apply in_map_iff. exists (x, p). auto. }
        pose proof (no_material (ans m) x Hd Hxs) as Hmat. unfold denial_material in Hmat.
        rewrite Hx, Hu in Hmat. rewrite !orb_true_r in Hmat. discriminate.
      - destruct (existsb (fun v => is_ds (fst v)) a) eqn:E2; [discriminate|].
        (* no DS in the answers: outside K2 the answer section is empty, and then VOk is impossible *)
        destruct (ds_answers (z, T_DS) m Hm eq_refl) as [He|He].
        + eapply level_no_empty_ok; eauto.
        + apply existsb_exists in He. destruct He as (x & Hx & Hds).
          rewrite <- Ha in Hx. apply in_map_iff in Hx. destruct Hx as ([x' p] & Ex & Hin). cbn in Ex. subst x'.
          assert (existsb (fun v => is_ds (fst v)) a = true); [|congruence].
          apply existsb_exists. exists (x, p). auto.
    Qed.
  End WithLk.

  Lemma send_good : forall fuel d, good_lk (send U anchors now maxd nsecv nsec3v sched fuel d).
  Proof.
    induction fuel as [|f IH]; intros d.
    - split; cbn [send]; try (intros; exact I); try discriminate.
    - pose proof (IH (S d)) as G.
      split.
      + intros q. cbn [send]. destruct (maxd <? d)%nat; [exact I|]. now apply level_noins.
      + intros q rc a au H. cbn [send] in H. destruct (maxd <? d)%nat; [discriminate|].
        eapply level_shape; eauto.
      + intros z H. unfold fetch_ds_records in H. cbn [send] in H.
        destruct (maxd <? d)%nat; [discriminate|].
        eapply (level_fetch _ G (S d) z). unfold fetch_ds_records. exact H.
  Qed.

  Lemma validate_never_insecure : forall q rc a au r,
    (validate U anchors now maxd nsecv nsec3v sched q = VOk rc a au \/
     exists p, validate U anchors now maxd nsecv nsec3v sched q = VNsec p rc a au) ->
    ~ In (r, Insecure) (a ++ au).
  Proof.
    intros q rc a au r H. pose proof (g_noins _ (send_good (maxd + 2) 0) q) as Hn. unfold validate in H.
    destruct H as [H|[p H]]; rewrite H in Hn; apply Hn.
  Qed.
End NI.
