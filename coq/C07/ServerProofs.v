(* C07 — proofs about DnssecSummary::from_records and the AD / SERVFAIL mapping. *)
From HV Require Import Lib.Base C07.Model.

Lemma summary_loop_bogus : forall ps acc, In Bogus ps -> summary_loop acc ps = SumBogus.
Proof.
  induction ps as [|p ps IH]; intros acc H; [inversion H|].
  destruct H as [->|H]; [reflexivity|].
  destruct p; cbn [summary_loop]; auto.
Qed.

Lemma summary_loop_secure : forall ps acc,
  summary_loop acc ps = SumSecure ->
  Forall (fun p => p = Secure) ps /\ (acc = Some true \/ (acc = None /\ ps <> [])).
Proof.
  induction ps as [|p ps IH]; intros acc H; cbn [summary_loop] in H.
  - destruct acc as [[|]|]; try discriminate. split; [constructor|left; reflexivity].
  - destruct p; try discriminate.
    + apply IH in H. destruct H as [Hf Ha]. split; [constructor; auto|].
      destruct acc as [[|]|]; cbn in Ha.
      * left; reflexivity.
      * destruct Ha as [Ha|[Ha _]]; discriminate.
      * right; split; [reflexivity|discriminate].
    + apply IH in H. destruct H as [_ [Ha|[Ha _]]]; discriminate.
    + apply IH in H. destruct H as [_ [Ha|[Ha _]]]; discriminate.
Qed.

Lemma summarize_secure : forall ps, summarize ps = SumSecure -> ps <> [] /\ Forall (fun p => p = Secure) ps.
Proof.
  intros ps H. apply summary_loop_secure in H. destruct H as [Hf [Ha|[_ Hn]]]; [discriminate|auto].
Qed.

Lemma summarize_bogus : forall ps, In Bogus ps -> summarize ps = SumBogus.
Proof. intros; now apply summary_loop_bogus. Qed.

Lemma summarize_all_secure : forall ps, ps <> [] -> Forall (fun p => p = Secure) ps -> summarize ps = SumSecure.
Proof.
  intros ps Hn Hf. unfold summarize.
  destruct ps as [|p ps]; [congruence|]. inversion Hf as [|? ? Hp Hf']; subst. cbn [summary_loop].
  clear Hn Hf. induction ps as [|p ps IH]; [reflexivity|].
  inversion Hf' as [|? ? Hp Hf'']; subst. cbn [summary_loop]. auto.
Qed.

Lemma server_ad : forall ps ad cd do_ ad' sf keep,
  server_map ps ad cd do_ = (ad', sf, keep) -> ad' = true ->
  ps <> [] /\ Forall (fun p => p = Secure) ps /\ sf = false /\ keep = true.
Proof.
  intros ps ad cd do_ ad' sf keep H Had. unfold server_map in H.
  destruct (summarize ps) eqn:E.
  - apply summarize_secure in E. destruct (ad || do_); inversion H; subst; try discriminate. tauto.
  - destruct (negb cd); inversion H; subst; discriminate.
  - inversion H; subst; discriminate.
Qed.

Lemma server_bogus : forall ps ad do_, In Bogus ps -> server_map ps ad false do_ = (false, true, false).
Proof. intros ps ad do_ H. unfold server_map. now rewrite (summarize_bogus ps H). Qed.
