(* C07 — property theorems (statements; proofs are applications of lemmas proved in the
   *Proofs.v files).  Print Assumptions under each.

   Reading guide.  [validate U anchors now maxd nsecv nsec3v sched q] is the model of
   DnssecDnsHandle::send on a fresh handle: U is the wrapped handle (the network, i.e. the
   adversary: ANY function from queries to replies), nsecv / nsec3v are the NSEC / NSEC3 decision
   procedures (C08 / C09; arbitrary here), sched the order in which select_ok sees finished
   verifications (any sub-order).  Cryptography is symbolic (see Model.v).
   Suffixes: _refuted = the faithful model (and the real code, see known_findings.json) violates
   the statement, witness included; _guarded = what holds outside the named class;
   _partial = a weaker statement than the property asks for, the missing part is said in the comment. *)
From HV Require Import Lib.Base C07.Model C07.ServerProofs C07.ChainProofs C07.TermProofs
  C07.GenuineProofs C07.InsecureProofs C07.NoInsecureProofs C07.WitnessProofs.
Open Scope N_scope.

(* ------------------------------------------------------------------ *)
(* 1. Secure implies a chain from a trust anchor (every upstream)       *)
(* ------------------------------------------------------------------ *)

(* Every non-signature record that comes back Secure, in an accepted message or in the message
   carried by an NSEC error, is authenticated: it is a trust-anchor key, or a key vouched for by
   an authenticated DS record (digest, algorithm, tag, zone flag), or a member of an RRset that
   was delivered whole together with a signature over exactly that RRset which verifies, inside
   its validity window, under an authenticated, unrevoked zone key whose owner is the signer name.
   and is the owner of the RRset or an ancestor of it (3.; checked since the fix of finding C07-K3).
   NOTE what the chain does NOT contain, because the code does not check it: a DNSKEY may be
   accepted through the DS clause alone (4.). *)
Theorem C07_secure_implies_chain :
  forall U anchors now maxd nsecv nsec3v sched,
  (forall l x, In x (sched l) -> In x l) ->
  forall q rc a au r,
  (validate U anchors now maxd nsecv nsec3v sched q = VOk rc a au \/
   exists p, validate U anchors now maxd nsecv nsec3v sched q = VNsec p rc a au) ->
  In (r, Secure) (a ++ au) -> is_sig r = false ->
  Auth U anchors now r.
Proof. intros. eapply validate_sound; eauto. Qed.
Print Assumptions C07_secure_implies_chain.

(* ------------------------------------------------------------------ *)
(* 2. Dolev-Yao authenticity                                           *)
(* ------------------------------------------------------------------ *)

(* If no key below the anchors is the adversary's — anchors are honest, honest operators put
   only honest keys into the DNSKEY RRsets they sign and only digests of honest keys into DS
   RRsets, and a signature value of an honest key exists only over data its operator signed —
   then a Secure record that is not a DNSKEY lies in an RRset that its operator signed WHOLE
   under that name and type (nothing altered, removed, injected, or taken from elsewhere), and
   a Secure DNSKEY is an honest key.
   Guarded: the world must contain no adversary-owned delegated zone (every key below the anchors
   is honest; with 3. an adversary-owned zone can only speak for names at or below its own apex, but
   that refinement of the hypothesis is not stated here), and for DNSKEY records only honesty of
   the key, not completeness of the RRset, is obtained (see 4.). *)
Theorem C07_secure_implies_genuine_guarded :
  forall U anchors now maxd nsecv nsec3v sched (Honest : N -> Prop) (Genuine : tbs -> Prop),
  (forall l x, In x (sched l) -> In x l) ->
  (forall sec s tc alg labels ottl exp inc tag signer pk t,
     Delivered U sec -> In s sec ->
     rbody s = BSig tc alg labels ottl exp inc tag signer (SGen pk t) -> Honest pk -> Genuine t) ->
  (forall pk, In pk anchors -> Honest pk) ->
  (forall t kr sec, Genuine t -> t_type t = T_DNSKEY -> Delivered U sec -> In kr sec -> is_key kr = true ->
     In (rid kr) (t_rids t) -> Honest (key_pk kr)) ->
  (forall t d kr sec, Genuine t -> t_type t = T_DS -> Delivered U sec -> In d sec -> In (rid d) (t_rids t) ->
     DsVouches d kr -> Honest (key_pk kr)) ->
  forall q rc a au r,
  (validate U anchors now maxd nsecv nsec3v sched q = VOk rc a au \/
   exists p, validate U anchors now maxd nsecv nsec3v sched q = VNsec p rc a au) ->
  In (r, Secure) (a ++ au) -> is_sig r = false ->
  (is_key r = true -> Honest (key_pk r)) /\ (is_key r = false -> GenuineSet U Genuine r).
Proof.
  intros U anchors now maxd nsecv nsec3v sched Honest Genuine Hs H1 H2 H3 H4 q rc a au r Hv Hin Hsig.
  eapply auth_genuine; eauto. eapply validate_sound; eauto.
Qed.
Print Assumptions C07_secure_implies_genuine_guarded.

(* ------------------------------------------------------------------ *)
(* 3. The signer is the zone of the record                             *)
(* ------------------------------------------------------------------ *)

(* RFC 4035 5.3.1: "the RRSIG RR's Signer's Name field MUST be the name of the zone that contains
   the RRset".  Until the fix of finding C07-K3-signer-not-ancestor verify_default_rrset never
   related the signer name to the owner, and the statements below were refuted (forged
   www.leaf.tld A signed by the key of the properly delegated sibling evil.tld was Secure).  With
   the fix they hold for EVERY upstream, without any hypothesis on what is delivered. *)

(* Every Secure record that is not a DNSKEY was delivered in an RRset, whole, together with a
   signature record that verifies over exactly that RRset under an authenticated zone key, the
   owner of that key is the signature's signer name, and that name is the record's owner or an
   ancestor of it: the signature is made by a key of an ancestor-or-equal zone of the owner. *)
Theorem C07_signer_is_ancestor :
  forall U anchors now maxd nsecv nsec3v sched,
  (forall l x, In x (sched l) -> In x l) ->
  forall q rc a au r,
  (validate U anchors now maxd nsecv nsec3v sched q = VOk rc a au \/
   exists p, validate U anchors now maxd nsecv nsec3v sched q = VNsec p rc a au) ->
  In (r, Secure) (a ++ au) -> is_sig r = false -> is_key r = false ->
  exists sec k s kr,
    Delivered U sec /\ In r (recs_of k sec) /\ In s (sigs_of k sec) /\
    SigOk now k (recs_of k sec) kr s /\ Auth U anchors now kr /\
    sig_signer s = owner kr /\ zone_of (owner kr) (owner r) = true.
Proof.
  intros U anchors now maxd nsecv nsec3v sched Hs q rc a au r Hv Hin Hsig Hk.
  eapply auth_zone_signed; eauto. eapply validate_sound; eauto.
Qed.
Print Assumptions C07_signer_is_ancestor.

(* The former _guarded statement, now without its hypothesis "no delivered RRSIG names a signer
   that is not its owner or an ancestor": a Secure record was delivered with a signature of its
   RRset whose signer is its owner or an ancestor of its owner. *)
Theorem C07_secure_signed_by_own_zone :
  forall U anchors now maxd nsecv nsec3v sched,
  (forall l x, In x (sched l) -> In x l) ->
  forall q rc a au r,
  (validate U anchors now maxd nsecv nsec3v sched q = VOk rc a au \/
   exists p, validate U anchors now maxd nsecv nsec3v sched q = VNsec p rc a au) ->
  In (r, Secure) (a ++ au) -> is_sig r = false -> is_key r = false ->
  HomeSigned U r.
Proof.
  intros U anchors now maxd nsecv nsec3v sched Hs q rc a au r Hv Hin Hsig Hk.
  eapply auth_home_signed; eauto. eapply validate_sound; eauto.
Qed.
Print Assumptions C07_secure_signed_by_own_zone.

(* The former witness of the refutation (forged www.leaf.tld A with a genuine signature of
   evil.tld's key, signer name evil.tld; the forged record is not HomeSigned) is now rejected: the
   forged record comes back Bogus and nothing in the response is Secure. *)
Theorem C07_foreign_signer_rejected :
  exists rc a au,
    run_tbl w3_tbl [1] 1700000000 ([6; 2; 1], 1) = VOk rc a au /\ In (w3_forged, Bogus) a /\
    (forall r, ~ In (r, Secure) (a ++ au)) /\ ~ HomeSigned (table_upstream w3_tbl) w3_forged.
Proof.
  destruct w3_rejected as (rc & a & au & Hv & Hin & Hno).
  exists rc, a, au. repeat split; auto. exact w3_not_home_signed.
Qed.
Print Assumptions C07_foreign_signer_rejected.

(* ------------------------------------------------------------------ *)
(* 4. DNSKEY RRsets accepted key by key                                *)
(* ------------------------------------------------------------------ *)

(* "A Secure record belongs to an RRset covered by a verifying signature" is false for DNSKEY:
   with the ZSK and every valid RRSIG stripped, the remaining DS-matched KSK is Secure
   (confirmed on the real code: finding C07-K4-dnskey-set-accepted-without-signature). *)
Theorem C07_secure_set_is_signed_refuted :
  exists tbl anchors now q rc a au r,
    run_tbl tbl anchors now q = VOk rc a au /\ In (r, Secure) a /\ is_sig r = false /\
    ~ SetSigned (table_upstream tbl) now r.
Proof.
  destruct w4_secure as (rc & a & au & Hv & Hin).
  exists w4_tbl, [1], 1700000000, ([2; 1], T_DNSKEY), rc, a, au, w4_key.
  repeat split; auto. exact w4_not_set_signed.
Qed.
Print Assumptions C07_secure_set_is_signed_refuted.

(* For every record type other than DNSKEY it holds, for every upstream. *)
Theorem C07_secure_set_is_signed_guarded :
  forall U anchors now maxd nsecv nsec3v sched,
  (forall l x, In x (sched l) -> In x l) ->
  forall q rc a au r,
  (validate U anchors now maxd nsecv nsec3v sched q = VOk rc a au \/
   exists p, validate U anchors now maxd nsecv nsec3v sched q = VNsec p rc a au) ->
  In (r, Secure) (a ++ au) -> is_sig r = false -> is_key r = false ->
  SetSigned U now r.
Proof.
  intros U anchors now maxd nsecv nsec3v sched Hs q rc a au r Hv Hin Hsig Hk.
  eapply auth_set_signed; eauto. eapply validate_sound; eauto.
Qed.
Print Assumptions C07_secure_set_is_signed_guarded.

(* ------------------------------------------------------------------ *)
(* 5. Where Insecure comes from                                        *)
(* ------------------------------------------------------------------ *)

(* Every record reported Insecure traces back to a DS lookup for some name z, somewhere in the
   nest of validated sub-queries, whose response the validator ACCEPTED (VOk) and which holds no
   Secure DS record with a supported algorithm and digest type: Insecure is never produced by
   a signature failure, a missing key, a timeout or an error.
   PARTIAL: the property wants that accepted DS response to be a validated denial (NSEC/NSEC3
   proving no DS).  The code does not guarantee that — next theorem.  (That z is the record's
   owner or an ancestor of it — signer names are tied to the owner since the fix of K3, see 3. —
   is not part of this statement.) *)
Theorem C07_insecure_only_if_ds_unusable_partial :
  forall U anchors now maxd nsecv nsec3v sched,
  forall q rc a au r,
  (validate U anchors now maxd nsecv nsec3v sched q = VOk rc a au \/
   exists p, validate U anchors now maxd nsecv nsec3v sched q = VNsec p rc a au) ->
  In (r, Insecure) (a ++ au) ->
  exists fuel d z, InsecureDelegation (send U anchors now maxd nsecv nsec3v sched fuel d) z.
Proof. intros. eapply send_insecure; eauto. Qed.
Print Assumptions C07_insecure_only_if_ds_unusable_partial.

(* "Insecure needs denial material" is false: in a world where root, tld and leaf.tld are all
   signed and the upstream delivers no NSEC, no NSEC3 and no unsupported DS at all, dropping the
   single DS record from the (tld, DS) response (its RRSIG stays, so the answer section is not
   empty) makes the validator report the leaf.tld DS RRset — and everything below tld — Insecure
   (confirmed on the real code: finding C07-K2-nonempty-answer-needs-no-denial). *)
Theorem C07_insecure_requires_denial_refuted :
  exists tbl anchors now q rc a au r,
    run_tbl tbl anchors now q = VOk rc a au /\ In (r, Insecure) a /\
    ~ DenialMaterial (table_upstream tbl).
Proof.
  destruct w2_insecure as (rc & a & au & Hv & Hin).
  exists w2_tbl, [1], 1700000000, ([2; 1], T_DS), rc, a, au, w2_ds.
  repeat split; auto. exact w2_no_denial_material.
Qed.
Print Assumptions C07_insecure_requires_denial_refuted.

(* That class is the only way: if the upstream delivers no NSEC, NSEC3 or unsupported-DS record and
   every response to a DS query has an empty answer section or a DS record in it (i.e. outside
   C07-K2), then no upstream, however it tampers, gets any record reported Insecure.
   (When denial material IS around, findings K5 / K6 are further ways to an unjustified
   Insecure; that part of the property is not proved — see 5. partial.) *)
Theorem C07_insecure_requires_denial_guarded :
  forall U anchors now maxd nsecv nsec3v sched,
  (forall sec x, Delivered U sec -> In x sec -> denial_material x = false) ->
  (forall q m, msg_of (U q) = Some m -> snd q = T_DS -> ans m = [] \/ existsb is_ds (ans m) = true) ->
  forall q rc a au r,
  (validate U anchors now maxd nsecv nsec3v sched q = VOk rc a au \/
   exists p, validate U anchors now maxd nsecv nsec3v sched q = VNsec p rc a au) ->
  ~ In (r, Insecure) (a ++ au).
Proof. intros. eapply validate_never_insecure; eauto. Qed.
Print Assumptions C07_insecure_requires_denial_guarded.

(* ------------------------------------------------------------------ *)
(* 6. Recursion depth                                                  *)
(* ------------------------------------------------------------------ *)

(* For every upstream the nest of validated sub-queries is at most max_request_depth + 2 deep:
   with that much fuel the model never runs out, and more fuel changes nothing. *)
Theorem C07_depth_bounded :
  forall U anchors now maxd nsecv nsec3v sched q,
  validate U anchors now maxd nsecv nsec3v sched q <> VFuel /\
  forall extra, send U anchors now maxd nsecv nsec3v sched (extra + (maxd + 2)) 0 q =
                validate U anchors now maxd nsecv nsec3v sched q.
Proof.
  intros. split.
  - unfold validate. apply send_no_fuel; lia.
  - intros extra. unfold validate. apply send_more_fuel; lia.
Qed.
Print Assumptions C07_depth_bounded.

(* ------------------------------------------------------------------ *)
(* 7. Panic                                                            *)
(* ------------------------------------------------------------------ *)

(* No upstream makes the validator panic.  (Until /repo commit fed49c5 this was refuted: a DNSKEY
   response that lost its DNSKEY record in transit but kept the RRSIG hit `pop().unwrap()` on an
   empty list — finding C07-K1, found by this check, since fixed; the model follows the fix.) *)
Theorem C07_no_panic :
  forall U anchors now maxd nsecv nsec3v sched q,
  validate U anchors now maxd nsecv nsec3v sched q <> VPanic.
Proof. intros. unfold validate. apply send_no_panic. Qed.
Print Assumptions C07_no_panic.

(* ------------------------------------------------------------------ *)
(* 8. Server: AD and SERVFAIL                                          *)
(* ------------------------------------------------------------------ *)

(* build_forwarded_response: the AD bit is set only if there is at least one answer record and
   every answer record is Secure; then the answers are kept and the rcode is untouched. *)
Theorem C07_server_ad_implies_all_secure : forall ps ad cd do_ ad' servfail keep,
  server_map ps ad cd do_ = (ad', servfail, keep) -> ad' = true ->
  ps <> [] /\ Forall (fun p => p = Secure) ps /\ servfail = false /\ keep = true.
Proof. exact server_ad. Qed.
Print Assumptions C07_server_ad_implies_all_secure.

(* One Bogus answer record and CD=0 give SERVFAIL with the answers removed and no AD. *)
Theorem C07_server_bogus_servfail : forall ps ad do_,
  In Bogus ps -> server_map ps ad false do_ = (false, true, false).
Proof. exact server_bogus. Qed.
Print Assumptions C07_server_bogus_servfail.

(* ------------------------------------------------------------------ *)
(* Non-vacuity                                                         *)
(* ------------------------------------------------------------------ *)

(* C07_chain_example (hypotheses of 1., 3., 4.-guarded: a run that does return a Secure record)
   is stated after ex_tbl below *)

(* hypotheses of 5.: a run that returns an Insecure record *)
Example C07_insecure_example :
  exists rc a au, run_tbl w2_tbl [1] 1700000000 ([2; 1], T_DS) = VOk rc a au /\ In (w2_ds, Insecure) (a ++ au).
Proof.
  destruct w2_insecure as (rc & a & au & Hv & Hin). exists rc, a, au. split; auto. apply in_or_app. now left.
Qed.

(* hypotheses of 5.-guarded: the W3 world (forged A under a foreign signer) delivers no denial
   material and all its DS responses carry DS records; there the guarded theorem applies
   (and indeed, since the fix of K3, the forged record is Bogus, see C07_foreign_signer_rejected) *)
Example C07_insecure_guarded_example :
  (forall sec x, Delivered (table_upstream w3_tbl) sec -> In x sec -> denial_material x = false) /\
  (forall q m, msg_of (table_upstream w3_tbl q) = Some m -> snd q = T_DS -> ans m = [] \/ existsb is_ds (ans m) = true).
Proof.
  split.
  - apply no_material_b. vm_compute. reflexivity.
  - apply ds_answers_b. vm_compute. reflexivity.
Qed.

(* the input that used to panic is now answered *)
Example C07_no_panic_example : exists rc a au, run_tbl w1_tbl [1] 10 ([], T_DNSKEY) = VOk rc a au.
Proof. exact w1_no_panic. Qed.

(* hypotheses of 2.: a two-response honest world (root key 1 = anchor signs its DNSKEY RRset and
   an A RRset at label 7); Honest = {1}; Genuine = the two signed data *)
Definition ex_t48 : tbs := mkTbs [] 48 0 3600 15 200 50 7 [] [1].
Definition ex_tA : tbs := mkTbs [7] 1 1 3600 15 200 50 7 [] [3].
Definition ex_tbl : list (query * ureply) :=
  [(([], 48), UOk (mkResp 0 [mkRR [] 1 (BKey 1 1 15 7 true false);
                             mkRR [] 2 (BSig 48 15 0 3600 200 50 7 [] (SGen 1 ex_t48))] []));
   (([7], 1), UOk (mkResp 0 [mkRR [7] 3 (BPlain 1);
                             mkRR [7] 4 (BSig 1 15 1 3600 200 50 7 [] (SGen 1 ex_tA))] []))].

Example C07_genuine_example :
  let U := table_upstream ex_tbl in
  let Honest := fun pk => pk = 1 in
  let Genuine := fun t => t = ex_t48 \/ t = ex_tA in
  (forall sec s tc alg labels ottl exp inc tag signer pk t,
     Delivered U sec -> In s sec ->
     rbody s = BSig tc alg labels ottl exp inc tag signer (SGen pk t) -> Honest pk -> Genuine t) /\
  (forall pk, In pk [1] -> Honest pk) /\
  (forall t kr sec, Genuine t -> t_type t = T_DNSKEY -> Delivered U sec -> In kr sec -> is_key kr = true ->
     In (rid kr) (t_rids t) -> Honest (key_pk kr)) /\
  (forall t d kr sec, Genuine t -> t_type t = T_DS -> Delivered U sec -> In d sec -> In (rid d) (t_rids t) ->
     DsVouches d kr -> Honest (key_pk kr)) /\
  exists rc a au, run_tbl ex_tbl [1] 100 ([7], 1) = VOk rc a au /\ In (mkRR [7] 3 (BPlain 1), Secure) (a ++ au).
Proof.
  cbv zeta. repeat split.
  - intros sec s tc alg labels ottl exp inc tag signer pk t Hd Hs Hb _. apply table_delivered in Hd. cbn in Hd.
    repeat (destruct Hd as [<-|Hd]; [cbn in Hs; repeat (destruct Hs as [<-|Hs]; [cbn in Hb; try discriminate|]); try contradiction|]);
      try contradiction; inversion Hb; auto.
  - intros pk [<-|[]]. reflexivity.
  - intros t kr sec Hg Ht Hd Hk Hkey Hrid. apply table_delivered in Hd. cbn in Hd.
    repeat (destruct Hd as [<-|Hd]; [cbn in Hk; repeat (destruct Hk as [<-|Hk]; [try discriminate|]); try contradiction|]);
      try contradiction; reflexivity.
  - intros t d kr sec [->| ->] Ht; discriminate.
  - eexists _, _, _. split; [vm_compute; reflexivity|]. cbn. auto.
Qed.

(* hypotheses of 1., 3., 4.-guarded: a run that does return a Secure record that is neither an
   RRSIG nor a DNSKEY (the A record at label 7 of the world above, signed by the root key), and the
   conclusion of C07_signer_is_ancestor is then not vacuous: the signer is the root, an ancestor *)
Example C07_chain_example :
  exists rc a au, run_tbl ex_tbl [1] 100 ([7], 1) = VOk rc a au /\
                  In (mkRR [7] 3 (BPlain 1), Secure) (a ++ au) /\
                  is_sig (mkRR [7] 3 (BPlain 1)) = false /\ is_key (mkRR [7] 3 (BPlain 1)) = false /\
                  zone_of [] [7] = true /\ zone_of [4; 1] [6; 2; 1] = false.
Proof.
  eexists _, _, _. split; [vm_compute; reflexivity|]. cbn. repeat split; auto.
Qed.

Example C07_server_example :
  server_map [Secure; Secure] true false false = (true, false, true) /\
  server_map [Secure; Indet] true false true = (false, false, true) /\
  server_map [Secure; Bogus; Secure] true false true = (false, true, false) /\
  server_map [Secure; Bogus] true true true = (false, false, true).
Proof. repeat split. Qed.
